/-
  C03 — the Spec column's lexer (`Spec.lex`) against the code's tokenizer (wave 3): same white space, same
  punctuator (longest match = first match in `OPERATORS`), same words, same constants — for every text.
-/
import YashModel.Arith.Theorems
namespace YashModel.Arith
open YashModel.Generated.ArithTables

theorem isSpace_eq (c : Char) : Spec.isSpace c = isWhitespace c := by
  unfold Spec.isSpace isWhitespace
  generalize c.toNat = n
  rw [Bool.eq_iff_iff]
  simp only [Bool.or_eq_true, Bool.and_eq_true, decide_eq_true_eq, beq_iff_eq]
  omega

theorem char_le_iff (a b : Char) : a ≤ b ↔ a.toNat ≤ b.toNat := by
  rw [Char.le_def]; exact UInt32.le_iff_toNat_le

theorem char_eq_iff (a b : Char) : a = b ↔ a.toNat = b.toNat := by
  constructor
  · intro h; rw [h]
  · intro h; exact Char.toNat_inj.mp h

theorem isWordChar_eq (c : Char) : Spec.isWordChar c = isTermChar c := by
  unfold Spec.isWordChar isTermChar isAsciiAlnum isAsciiDigit
  rw [Bool.eq_iff_iff]
  simp only [Bool.or_eq_true, Bool.and_eq_true, decide_eq_true_eq, beq_iff_eq, char_le_iff,
    char_eq_iff c '_']
  have : ('0'.toNat = 48) ∧ ('9'.toNat = 57) ∧ ('a'.toNat = 97) ∧ ('z'.toNat = 122) ∧ ('A'.toNat = 65) ∧
      ('Z'.toNat = 90) ∧ ('_'.toNat = 95) := by decide
  obtain ⟨h0, h9, ha, hz, hA, hZ, hu⟩ := this
  rw [h0, h9, ha, hz, hA, hZ, hu]
  omega

end YashModel.Arith

namespace YashModel.Arith
open YashModel.Generated.ArithTables

/-- the operator a punctuator denotes in the code's table `OPERATORS` -/
def opOfLexeme (p : List Char) : Option Operator := (operators.find? (fun q => q.1 = p)).map (·.2)

/-- a token of the Spec's lexer as a token of the code's tokenizer -/
def tokOfSToken : Spec.SToken → Tok
  | .num v => .term (.value v)
  | .ident n => .term (.variable n)
  | .punct p => match opOfLexeme p with
    | some o => .op o
    | none => .err
  | .bad => .err

theorem opOfLexeme_operators : ∀ p ∈ operators, opOfLexeme p.1 = some p.2 := by decide

theorem operators_in_cLexemes : ∀ p ∈ operators, p.1 ∈ Spec.cLexemes := by decide

theorem cLexemes_in_operators : ∀ l ∈ Spec.cLexemes, l ∈ operators.map (·.1) := by decide

def pickLonger (best : Option (List Char)) (p : List Char) : Option (List Char) :=
  match best with
  | none => some p
  | some b => if b.length < p.length then some p else some b

theorem foldl_pickLonger (L : List (List Char)) : ∀ (init : Option (List Char)),
    (L.foldl pickLonger init = none ↔ (init = none ∧ L = [])) ∧
    ∀ r, L.foldl pickLonger init = some r →
      (r ∈ L ∨ init = some r) ∧ (∀ q ∈ L, q.length ≤ r.length) ∧ (∀ b, init = some b → b.length ≤ r.length) := by
  induction L with
  | nil =>
    intro init; simp only [List.foldl_nil, and_true, List.not_mem_nil, false_or, false_imp_iff, implies_true, true_and]
    intro r hr
    refine ⟨hr, fun b hb => ?_⟩
    rw [hr] at hb; injection hb with hb; rw [hb]; exact Nat.le_refl _
  | cons a L ih =>
    intro init
    simp only [List.foldl_cons]
    have ih' := ih (pickLonger init a)
    constructor
    · rw [ih'.1]
      cases init with
      | none => simp [pickLonger]
      | some b => simp only [pickLonger]; split <;> simp
    · intro r hr
      obtain ⟨h1, h2, h3⟩ := ih'.2 r hr
      cases init with
      | none =>
        simp only [pickLonger] at h1 h3
        refine ⟨?_, ?_, by simp⟩
        · rcases h1 with h1 | h1
          · exact Or.inl (List.mem_cons_of_mem _ h1)
          · injection h1 with h1; subst h1; exact Or.inl (by simp)
        · intro q hq
          rcases List.mem_cons.mp hq with hq | hq
          · subst hq; exact h3 _ rfl
          · exact h2 q hq
      | some b =>
        simp only [pickLonger] at h1 h3
        by_cases hlt : b.length < a.length
        · simp only [hlt, if_true] at h1 h3
          have ha := h3 a rfl
          refine ⟨?_, ?_, ?_⟩
          · rcases h1 with h1 | h1
            · exact Or.inl (List.mem_cons_of_mem _ h1)
            · injection h1 with h1; subst h1; exact Or.inl (by simp)
          · intro q hq
            rcases List.mem_cons.mp hq with hq | hq
            · subst hq; exact ha
            · exact h2 q hq
          · intro b' hb'; injection hb' with hb'; subst hb'; omega
        · simp only [hlt, if_false] at h1 h3
          have hb := h3 b rfl
          refine ⟨?_, ?_, ?_⟩
          · rcases h1 with h1 | h1
            · exact Or.inl (List.mem_cons_of_mem _ h1)
            · exact Or.inr h1
          · intro q hq
            rcases List.mem_cons.mp hq with hq | hq
            · subst hq; omega
            · exact h2 q hq
          · intro b' hb'; injection hb' with hb'; subst hb'; exact hb

theorem longestPunct_eq_fold (s : List Char) :
    Spec.longestPunct s = (Spec.cLexemes.filter (fun p => p.isPrefixOf s)).foldl pickLonger none := rfl

/-- the Spec's "longest punctuator that is a prefix" is the lexeme the code's first-match search finds -/
theorem longestPunct_eq_findOp (s : List Char) : Spec.longestPunct s = (findOp s).map (·.1) := by
  rw [longestPunct_eq_fold]
  have hf := foldl_pickLonger (Spec.cLexemes.filter (fun p => p.isPrefixOf s)) none
  cases hop : findOp s with
  | none =>
    simp only [Option.map_none]
    rw [hf.1]
    refine ⟨rfl, ?_⟩
    rw [List.filter_eq_nil_iff]
    intro l hl
    have hmem := cLexemes_in_operators l hl
    rw [List.mem_map] at hmem
    obtain ⟨q, hq, hql⟩ := hmem
    unfold findOp at hop
    rw [List.find?_eq_none] at hop
    have := hop q hq
    rw [← hql]; simpa using this
  | some p =>
    obtain ⟨lex, o⟩ := p
    obtain ⟨hmem, hpre, hmax⟩ := longest_match s lex o hop
    simp only [Option.map_some]
    have hlexin : lex ∈ Spec.cLexemes.filter (fun p => p.isPrefixOf s) := by
      rw [List.mem_filter]
      exact ⟨operators_in_cLexemes _ hmem, by simpa [List.isPrefixOf_iff_prefix] using hpre⟩
    cases hfold : (Spec.cLexemes.filter (fun p => p.isPrefixOf s)).foldl pickLonger none with
    | none =>
      have := (hf.1.mp hfold).2
      rw [this] at hlexin; simp at hlexin
    | some r =>
      obtain ⟨h1, h2, _⟩ := hf.2 r hfold
      have hr : r ∈ Spec.cLexemes.filter (fun p => p.isPrefixOf s) := by
        rcases h1 with h1 | h1
        · exact h1
        · simp at h1
      rw [List.mem_filter] at hr
      have hrpre : r <+: s := by simpa [List.isPrefixOf_iff_prefix] using hr.2
      have hrop := cLexemes_in_operators r hr.1
      rw [List.mem_map] at hrop
      obtain ⟨q, hq, hqr⟩ := hrop
      have hle1 : r.length ≤ lex.length := by
        have := hmax q hq (by rw [hqr]; exact hrpre)
        rw [hqr] at this; exact this
      have hle2 : lex.length ≤ r.length := h2 lex hlexin
      have : r <+: lex := List.prefix_of_prefix_length_le hrpre hpre hle1
      have heq : r = lex := this.eq_of_length (by omega)
      rw [heq]

end YashModel.Arith

namespace YashModel.Arith
open YashModel.Generated.ArithTables

theorem mem_takeWhile_sat {α : Type} (p : α → Bool) : ∀ (l : List α) (x : α), x ∈ l.takeWhile p → p x = true := by
  intro l
  induction l with
  | nil => intro x h; simp at h
  | cons a l ih =>
    intro x h
    by_cases ha : p a = true
    · simp only [List.takeWhile_cons, ha, if_true, List.mem_cons] at h
      rcases h with h | h
      · rw [h]; exact ha
      · exact ih x h
    · simp [ha] at h

theorem isSpace_fun : Spec.isSpace = isWhitespace := funext isSpace_eq
theorem isWordChar_fun : Spec.isWordChar = isTermChar := funext isWordChar_eq

theorem digit_iff (c : Char) : ('0' ≤ c ∧ c ≤ '9') ↔ isAsciiDigit c = true := by
  unfold isAsciiDigit
  simp only [Bool.and_eq_true, decide_eq_true_eq, char_le_iff]
  have : ('0'.toNat = 48) ∧ ('9'.toNat = 57) := by decide
  rw [this.1, this.2]

/-- the Spec's lexer and the code's tokenizer read every text (ASCII or not, well-formed or not) as the same
    tokens, and stop at the same place -/
theorem lex_eq_tokenize (f : Nat) : ∀ s : List Char, (Spec.lex f s).map tokOfSToken = tokenize f s := by
  induction f with
  | zero => intro s; rfl
  | succ f ih =>
    intro s
    rw [Spec.lex, tokenize, nextToken, isSpace_fun]
    cases ht : s.dropWhile isWhitespace with
    | nil => simp
    | cons c cs =>
      simp only [List.head?_cons]
      rw [longestPunct_eq_findOp]
      cases hop : findOp (c :: cs) with
      | some p =>
        obtain ⟨lex, o⟩ := p
        have hmem : (lex, o) ∈ operators := by
          unfold findOp at hop; exact List.mem_of_find?_eq_some hop
        have hto := opOfLexeme_operators _ hmem
        simp only at hto
        simp only [Option.map_some, List.map_cons, tokOfSToken, hto, ih]
      | none =>
        simp only [Option.map_none, isWordChar_fun]
        by_cases hemp : (c :: cs).takeWhile isTermChar = []
        · simp [hemp, tokOfSToken]
        · have hne : ((c :: cs).takeWhile isTermChar).isEmpty = false := by
            cases h : (c :: cs).takeWhile isTermChar with
            | nil => exact absurd h hemp
            | cons a b => rfl
          simp only [hemp, if_false, hne, Bool.false_eq_true]
          by_cases hd : isAsciiDigit c = true
          · have hd' : ('0' ≤ c ∧ c ≤ '9') := (digit_iff c).mpr hd
            simp only [hd, hd', and_self, if_true]
            have hterm : ∀ ch ∈ (c :: cs).takeWhile isTermChar, isTermChar ch = true :=
              fun ch hch => mem_takeWhile_sat _ _ ch hch
            rw [← parseConstant_eq_spec _ hterm]
            cases parseConstant ((c :: cs).takeWhile isTermChar) with
            | none => simp [tokOfSToken]
            | some v => simp [tokOfSToken, ih]
          · have hd' : ¬ ('0' ≤ c ∧ c ≤ '9') := fun h => hd ((digit_iff c).mp h)
            simp [hd, hd', tokOfSToken, ih]


/-! ## trees and their vectors correspond one to one -/

/-- the last node of the vector of a tree -/
def rootNode : Spec.Expr → Ast
  | .num v => .term (.value v)
  | .var x => .term (.variable x)
  | .pre op _ => .pre op
  | .post op _ => .post op
  | .bin op _ r => .binary op (rpn r).length
  | .cond _ t e => .conditional (rpn t).length (rpn e).length

/-- the vector without its last node -/
def rpnBody : Spec.Expr → List Ast
  | .num _ => []
  | .var _ => []
  | .pre _ e => rpn e
  | .post _ e => rpn e
  | .bin _ l r => rpn l ++ rpn r
  | .cond c t e => rpn c ++ rpn t ++ rpn e

theorem rpn_split (e : Spec.Expr) : rpn e = rpnBody e ++ [rootNode e] := by
  cases e <;> simp [rpn, rpnBody, rootNode]

theorem rpn_inj : ∀ (a b : Spec.Expr), rpn a = rpn b → a = b := by
  intro a
  induction a with
  | num v =>
    intro b h; rw [rpn_split, rpn_split b] at h
    obtain ⟨h1, h2⟩ := List.append_inj' h rfl
    cases b <;> simp [rootNode] at h2
    rw [h2]
  | var x =>
    intro b h; rw [rpn_split, rpn_split b] at h
    obtain ⟨h1, h2⟩ := List.append_inj' h rfl
    cases b <;> simp [rootNode] at h2
    rw [h2]
  | pre op e ih =>
    intro b h; rw [rpn_split, rpn_split b] at h
    obtain ⟨h1, h2⟩ := List.append_inj' h rfl
    cases b <;> simp [rootNode] at h2
    simp only [rpnBody] at h1
    rw [h2, ih _ h1]
  | post op e ih =>
    intro b h; rw [rpn_split, rpn_split b] at h
    obtain ⟨h1, h2⟩ := List.append_inj' h rfl
    cases b <;> simp [rootNode] at h2
    simp only [rpnBody] at h1
    rw [h2, ih _ h1]
  | bin op l r ihl ihr =>
    intro b h; rw [rpn_split, rpn_split b] at h
    obtain ⟨h1, h2⟩ := List.append_inj' h rfl
    cases b <;> simp [rootNode] at h2
    rename_i op' l' r'
    simp only [rpnBody] at h1
    obtain ⟨h3, h4⟩ := List.append_inj' h1 h2.2
    rw [h2.1, ihl _ h3, ihr _ h4]
  | cond c t e ihc iht ihe =>
    intro b h; rw [rpn_split, rpn_split b] at h
    obtain ⟨h1, h2⟩ := List.append_inj' h rfl
    cases b <;> simp [rootNode] at h2
    rename_i c' t' e'
    simp only [rpnBody] at h1
    obtain ⟨h3, h4⟩ := List.append_inj' h1 h2.2
    obtain ⟨h5, h6⟩ := List.append_inj' h3 h2.1
    rw [ihc _ h5, iht _ h6, ihe _ h4]

/-- `eval::eval` on the vector of a tree -/
abbrev evalOf (e : Spec.Expr) (env : Env) : Res (Term × Env) := eval (rpn e).length (rpn e) env

end YashModel.Arith
