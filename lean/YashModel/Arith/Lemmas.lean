/-
  C03 — helper lemmas about 64-bit arithmetic (used by `Theorems.lean`).
-/
import YashModel.Arith.Model
import YashModel.Arith.Spec
namespace YashModel.Arith
open YashModel.Generated.ArithTables

theorem inRange_iff (x : Int) : InRange x ↔ Spec.InRange x := by
  unfold InRange Spec.InRange; omega

theorem checked_eq_represent (x : Int) : checked x = Spec.represent x := by
  unfold checked Spec.represent
  by_cases h : InRange x
  · simp [h, (inRange_iff x).mp h]
  · have : ¬ Spec.InRange x := fun h' => h ((inRange_iff x).mpr h')
    simp [h, this]

/-! ### two's complement representation -/

theorem toRepr_lt (x : Int) : Spec.toRepr x < 2 ^ 64 := by
  unfold Spec.toRepr
  have h1 : 0 ≤ x % (2 : Int) ^ 64 := Int.emod_nonneg _ (by decide)
  have h2 : x % (2 : Int) ^ 64 < (2 : Int) ^ 64 := Int.emod_lt_of_pos _ (by decide)
  omega

theorem toNat_ofInt64 (x : Int) : (BitVec.ofInt 64 x).toNat = Spec.toRepr x := by
  rw [BitVec.toNat_ofInt]; unfold Spec.toRepr; norm_cast

theorem bmod_eq_fromRepr (n : Nat) (h : n < 2 ^ 64) : (n : Int).bmod (2 ^ 64) = Spec.fromRepr n := by
  rw [Int.bmod_def]; unfold Spec.fromRepr
  have : ((n : Int) % ((2 ^ 64 : Nat) : Int)) = n := by
    apply Int.emod_eq_of_lt <;> omega
  rw [this]
  by_cases h' : n < 2 ^ 63
  · have : (n : Int) < (((2 ^ 64 : Nat) : Int) + 1) / 2 := by omega
    simp only [h', this, if_true]
  · have : ¬ (n : Int) < (((2 ^ 64 : Nat) : Int) + 1) / 2 := by omega
    simp only [h', this, if_false]; omega

theorem fromRepr_inRange (n : Nat) (h : n < 2 ^ 64) : Spec.InRange (Spec.fromRepr n) := by
  unfold Spec.fromRepr Spec.InRange
  by_cases h' : n < 2 ^ 63 <;> simp only [h', if_true, if_false] <;> omega

theorem bitOr_exact (l r : Int) : bitOr l r = Spec.fromRepr (Spec.toRepr l ||| Spec.toRepr r) := by
  unfold bitOr
  rw [BitVec.toInt_or, toNat_ofInt64, toNat_ofInt64]
  exact bmod_eq_fromRepr _ (Nat.or_lt_two_pow (toRepr_lt l) (toRepr_lt r))

theorem bitXor_exact (l r : Int) : bitXor l r = Spec.fromRepr (Spec.toRepr l ^^^ Spec.toRepr r) := by
  unfold bitXor
  rw [BitVec.toInt_xor, toNat_ofInt64, toNat_ofInt64]
  exact bmod_eq_fromRepr _ (Nat.xor_lt_two_pow (toRepr_lt l) (toRepr_lt r))

theorem bitAnd_exact (l r : Int) : bitAnd l r = Spec.fromRepr (Spec.toRepr l &&& Spec.toRepr r) := by
  unfold bitAnd
  rw [BitVec.toInt_and, toNat_ofInt64, toNat_ofInt64]
  exact bmod_eq_fromRepr _ (Nat.and_lt_two_pow _ (toRepr_lt r))

/-- `!v` on i64 is `-v - 1`, always representable -/
theorem bitNot_exact (v : Int) (h : InRange v) : bitNot v = -v - 1 := by
  unfold bitNot
  rw [BitVec.toInt_not, toNat_ofInt64, Int.bmod_def]
  unfold Spec.toRepr
  unfold InRange at h
  have h1 : 0 ≤ v % (2 : Int) ^ 64 := Int.emod_nonneg _ (by decide)
  rw [Int.toNat_of_nonneg h1]
  omega

/-! ### shifts -/

theorem two_pow_pos (n : Nat) : (0 : Int) < 2 ^ n := Int.pow_pos (by decide)

/-- the `filter` of `ShiftLeft` passes exactly when the exact product fits -/
theorem shl_filter (l : Int) (n : Nat) (hl0 : 0 ≤ l) :
    (decide (wrap64 (l * 2 ^ n) ≥ 0) && (wrap64 (l * 2 ^ n) >>> n == l)) = true
      ↔ l * 2 ^ n ≤ 9223372036854775807 := by
  have hp := two_pow_pos n
  have hx : 0 ≤ l * 2 ^ n := Int.mul_nonneg hl0 (Int.le_of_lt hp)
  generalize hk : (2 : Int) ^ n = k at *
  constructor
  · intro h
    simp only [Bool.and_eq_true, decide_eq_true_eq, beq_iff_eq, ge_iff_le] at h
    obtain ⟨h0, h1⟩ := h
    rw [Int.shiftRight_eq_div_pow] at h1
    have hk' : ((2 ^ n : Nat) : Int) = k := by rw [← hk]; norm_cast
    rw [hk'] at h1
    -- l = w / k, so l * k ≤ w < 2^63
    have hw : wrap64 (l * k) < 9223372036854775808 := by unfold wrap64; omega
    have : l * k ≤ wrap64 (l * k) := by
      have := Int.ediv_mul_le (wrap64 (l * k)) (Int.ne_of_gt hp)
      rw [h1] at this; exact this
    omega
  · intro h
    have hw : wrap64 (l * k) = l * k := by unfold wrap64; omega
    rw [hw]
    simp only [Bool.and_eq_true, decide_eq_true_eq, beq_iff_eq, ge_iff_le]
    refine ⟨hx, ?_⟩
    rw [Int.shiftRight_eq_div_pow]
    have hk' : ((2 ^ n : Nat) : Int) = k := by rw [← hk]; norm_cast
    rw [hk']
    exact Int.mul_ediv_cancel l (Int.ne_of_gt hp)

theorem shr_inRange (l : Int) (n : Nat) (hl : InRange l) : InRange (l / 2 ^ n) := by
  have hp := two_pow_pos n
  unfold InRange at *
  generalize (2 : Int) ^ n = k at *
  constructor
  · rw [Int.le_ediv_iff_mul_le hp]; omega
  · have : l / k < 9223372036854775808 := by rw [Int.ediv_lt_iff_lt_mul hp]; omega
    omega

/-! ### truncating division -/

theorem tdiv_inRange (l r : Int) (hl : InRange l) (h : ¬ (l = -9223372036854775808 ∧ r = -1)) :
    InRange (l.tdiv r) := by
  unfold InRange at *
  have hle := Int.natAbs_tdiv_le_natAbs l r
  by_cases hmin : l = -9223372036854775808
  · -- |l| = 2^63: the quotient reaches 2^63 only for r = -1
    by_cases hr1 : r = 1
    · subst hr1; simp [Int.tdiv_one]; omega
    · by_cases hr0 : r = 0
      · subst hr0; simp [Int.tdiv_zero]
      · have hr2 : 2 ≤ r.natAbs := by omega
        have hq := Int.natAbs_tdiv l r
        have : l.natAbs.div r.natAbs < l.natAbs := Nat.div_lt_self (by omega) hr2
        omega
  · omega

theorem tdiv_min_neg_one : ¬ InRange ((-9223372036854775808 : Int).tdiv (-1)) := by
  unfold InRange; decide

theorem tmod_inRange (l r : Int) (hl : InRange l) : InRange (l.tmod r) := by
  unfold InRange at *
  have h := Int.natAbs_tmod l r
  have : l.natAbs % r.natAbs ≤ l.natAbs := Nat.mod_le _ _
  by_cases h0 : 0 ≤ l
  · have := Int.tmod_nonneg r h0
    omega
  · have h1 : l.tmod r = -((-l).tmod r) := by rw [Int.neg_tmod]; omega
    have := Int.tmod_nonneg r (show 0 ≤ -l by omega)
    omega

/-! ### reading results -/

/-- the value a `Result` carries -/
def Res.value? {α : Type} : Res α → Option α
  | .ok a => some a
  | _ => none

/-- the Rust function returns (`Ok` or `Err`): it neither panics nor (model artefact) runs out of fuel -/
def Res.Returns {α : Type} : Res α → Prop
  | .ok _ => True
  | .error _ => True
  | .panic => False
  | .fuel => False

theorem boolInt_eq_truth (b : Bool) (p : Prop) [Decidable p] (h : b = true ↔ p) : boolInt b = Spec.truth p := by
  unfold boolInt Spec.truth
  by_cases hp : p
  · simp [hp, h.mpr hp]
  · have : b = false := by cases b <;> simp_all
    simp [hp, this]

theorem truth_inRange (p : Prop) [Decidable p] : Spec.InRange (Spec.truth p) := by
  unfold Spec.truth Spec.InRange; by_cases hp : p <;> simp [hp] <;> omega

/-- shape of every arm of `binary_result` that cannot fail: the exact value, which is representable -/
theorem ok_some_exact (x y : Int) (d : Prop) [Decidable d] (hxy : x = y) (hd : d) (hy : Spec.InRange y) :
    (Res.bind (.ok (some x)) fun o => Res.ofOption o EvalErr.overflow).Returns ∧
    (Res.bind (.ok (some x)) fun o => Res.ofOption o EvalErr.overflow).value? =
      if d ∧ Spec.InRange y then some y else none := by
  subst hxy
  simp [Res.bind, Res.ofOption, Res.Returns, Res.value?, hd, hy]

/-- shape of the arms that go through `checked_*`: exact if representable, `Overflow` otherwise -/
theorem ok_checked_exact (x : Int) (d : Prop) [Decidable d] (hd : d) :
    (Res.bind (.ok (checked x)) fun o => Res.ofOption o EvalErr.overflow).Returns ∧
    (Res.bind (.ok (checked x)) fun o => Res.ofOption o EvalErr.overflow).value? =
      if d ∧ Spec.InRange x then some x else none := by
  rw [checked_eq_represent]; unfold Spec.represent
  by_cases h : Spec.InRange x <;> simp [Res.bind, Res.ofOption, Res.Returns, Res.value?, hd, h]

/-! ### the four arms of `binary_result` that can fail for a reason other than overflow -/

theorem shl_case (l r : Int) (_hl : InRange l) (_hr : InRange r) :
    ((if l < 0 then Res.error EvalErr.leftShiftingNegative
          else
            (requireNonNegative r).bind fun n =>
              Res.ok (Option.filter (fun (result : Int) => decide (result ≥ 0) && result >>> n == l) (checkedShl l n))).bind
        fun o => Res.ofOption o EvalErr.overflow).Returns ∧
    ((if l < 0 then Res.error EvalErr.leftShiftingNegative
            else
              (requireNonNegative r).bind fun n =>
                Res.ok (Option.filter (fun (result : Int) => decide (result ≥ 0) && result >>> n == l) (checkedShl l n))).bind
          fun o => Res.ofOption o EvalErr.overflow).value? =
      if (0 ≤ l ∧ 0 ≤ r ∧ r < 64) ∧ Spec.InRange (l * 2 ^ r.toNat) then some (l * 2 ^ r.toNat) else none := by
  by_cases h0 : l < 0
  · have : ¬ (0 ≤ l) := by omega
    simp [h0, this, Res.bind, Res.Returns, Res.value?]
  · have hl0 : 0 ≤ l := by omega
    unfold requireNonNegative
    by_cases h1 : r < 0
    · have : ¬ (0 ≤ r) := by omega
      simp [h0, h1, this, Res.bind, Res.Returns, Res.value?]
    · by_cases h2 : r > 4294967295
      · have : ¬ (r < 64) := by omega
        simp [h0, h1, h2, this, Res.bind, Res.Returns, Res.value?]
      · by_cases h3 : r.toNat < 64
        · have h3' : r < 64 := by omega
          have hr0 : 0 ≤ r := by omega
          have hf := shl_filter l r.toNat hl0
          have hx : 0 ≤ l * 2 ^ r.toNat := Int.mul_nonneg hl0 (Int.le_of_lt (two_pow_pos _))
          by_cases h4 : l * 2 ^ r.toNat ≤ 9223372036854775807
          · have hin : Spec.InRange (l * 2 ^ r.toNat) := by unfold Spec.InRange; omega
            have hw : wrap64 (l * 2 ^ r.toNat) = l * 2 ^ r.toNat := by unfold wrap64; omega
            have hf' := hf.mpr h4
            simp only [h0, h1, h2, if_false, Res.bind, checkedShl, h3, if_true, Option.filter, hf']
            simp [Res.ofOption, Res.Returns, Res.value?, hl0, hr0, h3', hin, hw]
          · have hin : ¬ Spec.InRange (l * 2 ^ r.toNat) := by unfold Spec.InRange; omega
            have hf' : (decide (wrap64 (l * 2 ^ r.toNat) ≥ 0) && wrap64 (l * 2 ^ r.toNat) >>> r.toNat == l) = false := by
              cases hb : (decide (wrap64 (l * 2 ^ r.toNat) ≥ 0) && wrap64 (l * 2 ^ r.toNat) >>> r.toNat == l)
              · rfl
              · exact absurd (hf.mp hb) h4
            simp only [h0, h1, h2, if_false, Res.bind, checkedShl, h3, if_true, Option.filter, hf']
            simp [Res.ofOption, Res.Returns, Res.value?, hin]
        · have : ¬ (r < 64) := by omega
          simp [h0, h1, h2, this, Res.bind, checkedShl, h3, Res.ofOption, Res.Returns, Res.value?]

theorem shr_case (l r : Int) (hl : InRange l) (_hr : InRange r) :
    (((requireNonNegative r).bind fun n => Res.ok (checkedShr l n)).bind fun o =>
        Res.ofOption o EvalErr.overflow).Returns ∧
    (((requireNonNegative r).bind fun n => Res.ok (checkedShr l n)).bind fun o =>
          Res.ofOption o EvalErr.overflow).value? =
      if (0 ≤ r ∧ r < 64) ∧ Spec.InRange (l / 2 ^ r.toNat) then some (l / 2 ^ r.toNat) else none := by
  unfold requireNonNegative
  by_cases h1 : r < 0
  · have : ¬ (0 ≤ r) := by omega
    simp [h1, this, Res.bind, Res.Returns, Res.value?]
  · by_cases h2 : r > 4294967295
    · have : ¬ (r < 64) := by omega
      simp [h1, h2, this, Res.bind, Res.Returns, Res.value?]
    · by_cases h3 : r.toNat < 64
      · have h3' : r < 64 := by omega
        have hr0 : 0 ≤ r := by omega
        have hin : Spec.InRange (l / 2 ^ r.toNat) := (inRange_iff _).mp (shr_inRange l r.toNat hl)
        have hs : l >>> r.toNat = l / 2 ^ r.toNat := by
          rw [Int.shiftRight_eq_div_pow]; norm_cast
        simp [h1, h2, Res.bind, checkedShr, h3, Res.ofOption, Res.Returns, Res.value?, hr0, h3', hin, hs]
      · have : ¬ (r < 64) := by omega
        simp [h1, h2, this, Res.bind, checkedShr, h3, Res.ofOption, Res.Returns, Res.value?]

theorem div_case (l r : Int) (_hl : InRange l) (_hr : InRange r) :
    ((if r = 0 then Res.error EvalErr.divisionByZero else Res.ok (checkedDiv l r)).bind fun o =>
        Res.ofOption o EvalErr.overflow).Returns ∧
    ((if r = 0 then Res.error EvalErr.divisionByZero else Res.ok (checkedDiv l r)).bind fun o =>
          Res.ofOption o EvalErr.overflow).value? =
      if r ≠ 0 ∧ Spec.InRange (l.tdiv r) then some (l.tdiv r) else none := by
  by_cases h0 : r = 0
  · simp [h0, Res.bind, Res.Returns, Res.value?]
  · unfold checkedDiv
    rw [checked_eq_represent]; unfold Spec.represent
    by_cases h : Spec.InRange (l.tdiv r) <;>
      simp [h0, h, Res.bind, Res.ofOption, Res.Returns, Res.value?]

theorem rem_case (l r : Int) (hl : InRange l) (_hr : InRange r) :
    ((if r = 0 then Res.error EvalErr.divisionByZero else Res.ok (checkedRem l r)).bind fun o =>
        Res.ofOption o EvalErr.overflow).Returns ∧
    ((if r = 0 then Res.error EvalErr.divisionByZero else Res.ok (checkedRem l r)).bind fun o =>
          Res.ofOption o EvalErr.overflow).value? =
      if (r ≠ 0 ∧ Spec.InRange (l.tdiv r)) ∧ Spec.InRange (l.tmod r) then some (l.tmod r) else none := by
  by_cases h0 : r = 0
  · simp [h0, Res.bind, Res.Returns, Res.value?]
  · unfold checkedRem
    have hm : Spec.InRange (l.tmod r) := (inRange_iff _).mp (tmod_inRange l r hl)
    by_cases h : l = -9223372036854775808 ∧ r = -1
    · have hd : ¬ Spec.InRange (l.tdiv r) := by
        obtain ⟨a, b⟩ := h; subst a; subst b
        exact fun h' => tdiv_min_neg_one ((inRange_iff _).mpr h')
      simp [h, Res.bind, Res.ofOption, Res.Returns, Res.value?]
      intro h'
      exact absurd h' (by unfold Spec.InRange; omega)
    · have hd : Spec.InRange (l.tdiv r) := (inRange_iff _).mp (tdiv_inRange l r hl h)
      simp [h0, h, hd, hm, Res.bind, Res.ofOption, Res.Returns, Res.value?]

/-- every arm of `binary_result` against the Spec (stated as the property theorem `binaryResult_exact`) -/
theorem binaryResult_spec (op : BinaryOperator) (l r : Int) (hl : InRange l) (hr : InRange r) :
    (binaryResult op l r).Returns ∧ (binaryResult op l r).value? = Spec.arith op l r := by
  cases op <;>
    simp only [binaryResult, binaryChecked, Spec.arith, Spec.definedOp, Spec.exactOp, Spec.arithOf,
      Spec.definedA, Spec.exactA]
  case Assign => exact ok_some_exact r r True rfl trivial ((inRange_iff r).mp hr)
  case LogicalOr => exact ok_some_exact _ _ True (boolInt_eq_truth _ _ (by simp)) trivial (truth_inRange _)
  case LogicalAnd => exact ok_some_exact _ _ True (boolInt_eq_truth _ _ (by simp)) trivial (truth_inRange _)
  case EqualTo => exact ok_some_exact _ _ True (boolInt_eq_truth _ _ (by simp)) trivial (truth_inRange _)
  case NotEqualTo => exact ok_some_exact _ _ True (boolInt_eq_truth _ _ (by simp)) trivial (truth_inRange _)
  case LessThan => exact ok_some_exact _ _ True (boolInt_eq_truth _ _ (by simp)) trivial (truth_inRange _)
  case GreaterThan => exact ok_some_exact _ _ True (boolInt_eq_truth _ _ (by simp)) trivial (truth_inRange _)
  case LessThanOrEqualTo => exact ok_some_exact _ _ True (boolInt_eq_truth _ _ (by simp)) trivial (truth_inRange _)
  case GreaterThanOrEqualTo => exact ok_some_exact _ _ True (boolInt_eq_truth _ _ (by simp)) trivial (truth_inRange _)
  case BitwiseOr => exact ok_some_exact _ _ True (bitOr_exact l r) trivial (fromRepr_inRange _ (Nat.or_lt_two_pow (toRepr_lt l) (toRepr_lt r)))
  case BitwiseOrAssign => exact ok_some_exact _ _ True (bitOr_exact l r) trivial (fromRepr_inRange _ (Nat.or_lt_two_pow (toRepr_lt l) (toRepr_lt r)))
  case BitwiseXor => exact ok_some_exact _ _ True (bitXor_exact l r) trivial (fromRepr_inRange _ (Nat.xor_lt_two_pow (toRepr_lt l) (toRepr_lt r)))
  case BitwiseXorAssign => exact ok_some_exact _ _ True (bitXor_exact l r) trivial (fromRepr_inRange _ (Nat.xor_lt_two_pow (toRepr_lt l) (toRepr_lt r)))
  case BitwiseAnd => exact ok_some_exact _ _ True (bitAnd_exact l r) trivial (fromRepr_inRange _ (Nat.and_lt_two_pow _ (toRepr_lt r)))
  case BitwiseAndAssign => exact ok_some_exact _ _ True (bitAnd_exact l r) trivial (fromRepr_inRange _ (Nat.and_lt_two_pow _ (toRepr_lt r)))
  case Add => exact ok_checked_exact _ True trivial
  case AddAssign => exact ok_checked_exact _ True trivial
  case Subtract => exact ok_checked_exact _ True trivial
  case SubtractAssign => exact ok_checked_exact _ True trivial
  case Multiply => exact ok_checked_exact _ True trivial
  case MultiplyAssign => exact ok_checked_exact _ True trivial
  case ShiftLeft => exact shl_case l r hl hr
  case ShiftLeftAssign => exact shl_case l r hl hr
  case ShiftRight => exact shr_case l r hl hr
  case ShiftRightAssign => exact shr_case l r hl hr
  case Divide => exact div_case l r hl hr
  case DivideAssign => exact div_case l r hl hr
  case Remainder => exact rem_case l r hl hr
  case RemainderAssign => exact rem_case l r hl hr

end YashModel.Arith
