/-
  C03 — Spec: what POSIX (XCU 2.6.4, referring to ISO C) says an arithmetic expression is worth.

  * `Expr` is the expression tree; `evalExact` computes in unbounded `Int` and answers `none`
    ("error") whenever the exact value of any evaluated operation is outside the signed 64-bit range
    or undefined in C (division by zero, `MIN / -1`, `MIN % -1`, shift count < 0 or ≥ 64, left shift of
    a negative number, left shift whose exact result does not fit).  `||`, `&&`, `?:` evaluate only the
    operands C evaluates.  Assignment needs a variable on the left.
  * The C operator table (`cBinary`, `cPrefix`, `cPostfix`: lexeme, meaning, level, associativity) is
    written here by hand from the C grammar; the generated tables of the implementation are proved equal
    to it in `Theorems.lean`.
  * `lex` is maximal munch over the C lexemes; `parseText` is a recursive-descent parser following the C
    grammar level by level (no precedence numbers are compared anywhere in it).
  * `inScope`: trees on which C itself gives a value: no unsequenced modification/access of one variable
    inside one full expression without sequence point, and no conditional expression used as an lvalue
    (yash-rs accepts `(c ? x : y) = 1` as an extension; C does not define it).  Outside the scope the Spec
    column of the driver is `-`.
  The enums `BinaryOperator`, `PrefixOperator`, `PostfixOperator`, `Associativity` are used as *names*.
-/
import YashModel.Generated.ArithTables
namespace YashModel.Arith.Spec
open YashModel.Generated.ArithTables

abbrev Name := List Char

inductive Expr where
  | num (v : Int)
  | var (x : Name)
  | pre (op : PrefixOperator) (e : Expr)
  | post (op : PostfixOperator) (e : Expr)
  | bin (op : BinaryOperator) (l r : Expr)
  | cond (c t e : Expr)
  deriving DecidableEq, Repr

/-! ## the C operator table -/

/-- binary operators of C that the shell language has: lexeme, meaning, level (1 = assignment …
    12 = multiplicative; the conditional operator sits at 2, unary operators above 12), associativity -/
def cBinary : List (List Char × BinaryOperator × Nat × Associativity) :=
  [ (['='], .Assign, 1, .Right),
    (['|', '='], .BitwiseOrAssign, 1, .Right),
    (['^', '='], .BitwiseXorAssign, 1, .Right),
    (['&', '='], .BitwiseAndAssign, 1, .Right),
    (['<', '<', '='], .ShiftLeftAssign, 1, .Right),
    (['>', '>', '='], .ShiftRightAssign, 1, .Right),
    (['+', '='], .AddAssign, 1, .Right),
    (['-', '='], .SubtractAssign, 1, .Right),
    (['*', '='], .MultiplyAssign, 1, .Right),
    (['/', '='], .DivideAssign, 1, .Right),
    (['%', '='], .RemainderAssign, 1, .Right),
    (['|', '|'], .LogicalOr, 3, .Left),
    (['&', '&'], .LogicalAnd, 4, .Left),
    (['|'], .BitwiseOr, 5, .Left),
    (['^'], .BitwiseXor, 6, .Left),
    (['&'], .BitwiseAnd, 7, .Left),
    (['=', '='], .EqualTo, 8, .Left),
    (['!', '='], .NotEqualTo, 8, .Left),
    (['<'], .LessThan, 9, .Left),
    (['>'], .GreaterThan, 9, .Left),
    (['<', '='], .LessThanOrEqualTo, 9, .Left),
    (['>', '='], .GreaterThanOrEqualTo, 9, .Left),
    (['<', '<'], .ShiftLeft, 10, .Left),
    (['>', '>'], .ShiftRight, 10, .Left),
    (['+'], .Add, 11, .Left),
    (['-'], .Subtract, 11, .Left),
    (['*'], .Multiply, 12, .Left),
    (['/'], .Divide, 12, .Left),
    (['%'], .Remainder, 12, .Left) ]

def cPrefix : List (List Char × PrefixOperator) :=
  [ (['+', '+'], .Increment), (['-', '-'], .Decrement), (['+'], .NumericCoercion),
    (['-'], .NumericNegation), (['!'], .LogicalNegation), (['~'], .BitwiseNegation) ]

def cPostfix : List (List Char × PostfixOperator) :=
  [ (['+', '+'], .Increment), (['-', '-'], .Decrement) ]

/-- level of the conditional operator `? :` (between assignment and `||`), right associative -/
def cConditionalLevel : Nat := 2
/-- unary and postfix operators bind tighter than every binary operator -/
def cUnaryLevel : Nat := 13

def cOther : List (List Char) := [['?'], [':'], ['('], [')']]

/-- every punctuator of the expression language -/
def cLexemes : List (List Char) :=
  cBinary.map (·.1) ++ cPrefix.map (·.1) ++ cPostfix.map (·.1) ++ cOther

def cLevel (b : BinaryOperator) : Nat :=
  ((cBinary.find? (fun e => e.2.1 = b)).map (·.2.2.1)).getD 0

def cAssoc (b : BinaryOperator) : Associativity :=
  ((cBinary.find? (fun e => e.2.1 = b)).map (·.2.2.2)).getD .Left

def binaryOfLexeme (p : List Char) : Option (BinaryOperator × Nat × Associativity) :=
  (cBinary.find? (fun e => e.1 = p)).map (·.2)

def prefixOfLexeme (p : List Char) : Option PrefixOperator :=
  (cPrefix.find? (fun e => e.1 = p)).map (·.2)

def postfixOfLexeme (p : List Char) : Option PostfixOperator :=
  (cPostfix.find? (fun e => e.1 = p)).map (·.2)

/-! ## exact arithmetic -/

def InRange (x : Int) : Prop := -(2 : Int) ^ 63 ≤ x ∧ x < (2 : Int) ^ 63

instance (x : Int) : Decidable (InRange x) := by unfold InRange; exact inferInstance

/-- two's complement representation (64 bits) of an integer, and back -/
def toRepr (x : Int) : Nat := (x % (2 : Int) ^ 64).toNat
def fromRepr (n : Nat) : Int := if n < 2 ^ 63 then (n : Int) else (n : Int) - (2 : Int) ^ 64

def truth (p : Prop) [Decidable p] : Int := if p then 1 else 0

/-- the operation a (possibly compound) operator computes -/
inductive Arith where
  | lor | land | bor | bxor | band | eq | ne | lt | gt | le | ge | shl | shr | add | sub | mul | div | rem
  | second
  deriving DecidableEq, Repr

def arithOf : BinaryOperator → Arith
  | .Assign => .second
  | .LogicalOr => .lor
  | .LogicalAnd => .land
  | .BitwiseOr | .BitwiseOrAssign => .bor
  | .BitwiseXor | .BitwiseXorAssign => .bxor
  | .BitwiseAnd | .BitwiseAndAssign => .band
  | .EqualTo => .eq
  | .NotEqualTo => .ne
  | .LessThan => .lt
  | .GreaterThan => .gt
  | .LessThanOrEqualTo => .le
  | .GreaterThanOrEqualTo => .ge
  | .ShiftLeft | .ShiftLeftAssign => .shl
  | .ShiftRight | .ShiftRightAssign => .shr
  | .Add | .AddAssign => .add
  | .Subtract | .SubtractAssign => .sub
  | .Multiply | .MultiplyAssign => .mul
  | .Divide | .DivideAssign => .div
  | .Remainder | .RemainderAssign => .rem

/-- C 6.5: when the operation has a defined result at all (before asking whether it is representable) -/
def definedA (a : Arith) (l r : Int) : Prop :=
  match a with
  | .div => r ≠ 0
  | .rem => r ≠ 0 ∧ InRange (l.tdiv r)        -- 6.5.5p6: if a/b is not representable, a%b is undefined too
  | .shl => 0 ≤ l ∧ 0 ≤ r ∧ r < 64            -- 6.5.7p3/p4
  | .shr => 0 ≤ r ∧ r < 64
  | _ => True

instance (a : Arith) (l r : Int) : Decidable (definedA a l r) := by
  cases a <;> simp only [definedA] <;> exact inferInstance

/-- the mathematically exact result -/
def exactA (a : Arith) (l r : Int) : Int :=
  match a with
  | .lor => truth (l ≠ 0 ∨ r ≠ 0)
  | .land => truth (l ≠ 0 ∧ r ≠ 0)
  | .bor => fromRepr (toRepr l ||| toRepr r)
  | .bxor => fromRepr (toRepr l ^^^ toRepr r)
  | .band => fromRepr (toRepr l &&& toRepr r)
  | .eq => truth (l = r)
  | .ne => truth (l ≠ r)
  | .lt => truth (l < r)
  | .gt => truth (l > r)
  | .le => truth (l ≤ r)
  | .ge => truth (l ≥ r)
  | .shl => l * 2 ^ r.toNat
  | .shr => l / 2 ^ r.toNat                   -- floor: arithmetic shift
  | .add => l + r
  | .sub => l - r
  | .mul => l * r
  | .div => l.tdiv r                          -- truncation toward zero (6.5.5p6)
  | .rem => l.tmod r
  | .second => r

def definedOp (op : BinaryOperator) (l r : Int) : Prop := definedA (arithOf op) l r
def exactOp (op : BinaryOperator) (l r : Int) : Int := exactA (arithOf op) l r

instance (op : BinaryOperator) (l r : Int) : Decidable (definedOp op l r) := by
  unfold definedOp; exact inferInstance

/-- value of `l op r`: the exact result if it is defined and representable, otherwise an error -/
def arith (op : BinaryOperator) (l r : Int) : Option Int :=
  if definedOp op l r ∧ InRange (exactOp op l r) then some (exactOp op l r) else none

def represent (x : Int) : Option Int := if InRange x then some x else none

/-- why an operation has no value: the cases the property names ("overflow, division by zero, negative or
    oversize shift counts"), in the order C 6.5.5/6.5.7 state their conditions -/
inductive Reason where
  | divisionByZero            -- 6.5.5p5: the second operand of / or % is zero
  | leftShiftOfNegative       -- 6.5.7p4: E1 of `E1 << E2` is negative
  | negativeShiftCount        -- 6.5.7p3: the right operand of a shift is negative
  | unrepresentable           -- 6.5p5: the result is not representable (incl. a shift count >= the width)
  deriving DecidableEq, Repr

/-- the reason `l a r` has no value; `none` = it has one -/
def why (a : Arith) (l r : Int) : Option Reason :=
  if (a = .div ∨ a = .rem) ∧ r = 0 then some .divisionByZero
  else if a = .shl ∧ l < 0 then some .leftShiftOfNegative
  else if (a = .shl ∨ a = .shr) ∧ r < 0 then some .negativeShiftCount
  else if ¬ (definedA a l r ∧ InRange (exactA a l r)) then some .unrepresentable
  else none

/-! ## integer constants (C 6.4.4.1 without suffixes) and variable values -/

def digitOf (c : Char) : Nat :=
  if '0' ≤ c ∧ c ≤ '9' then c.toNat - '0'.toNat
  else if 'a' ≤ c ∧ c ≤ 'z' then c.toNat - 'a'.toNat + 10
  else if 'A' ≤ c ∧ c ≤ 'Z' then c.toNat - 'A'.toNat + 10
  else 99

/-- value of a non-empty string of digits of the given base -/
def digitsValue (base : Nat) (ds : List Char) : Option Nat :=
  if ds ≠ [] ∧ ds.all (fun c => digitOf c < base) then
    some (ds.foldl (fun acc c => acc * base + digitOf c) 0)
  else none

/-- `0x`/`0X` hexadecimal, leading `0` octal, otherwise decimal -/
def constMagnitude (s : List Char) : Option Nat :=
  match s with
  | '0' :: 'x' :: ds => digitsValue 16 ds
  | '0' :: 'X' :: ds => digitsValue 16 ds
  | '0' :: ds => digitsValue 8 ('0' :: ds)
  | ds => digitsValue 10 ds

/-- an integer constant that fits the type -/
def constValue (s : List Char) : Option Int :=
  (constMagnitude s).bind fun n => represent (n : Int)

/-- the value of a variable: an integer constant with an optional sign -/
def signedConstValue (s : List Char) : Option Int :=
  match s with
  | '-' :: m => (constMagnitude m).bind fun n => represent (-(n : Int))
  | '+' :: m => constValue m
  | m => constValue m

/-! ## evaluation -/

abbrev Env := List (Name × List Char)

def lookup (env : Env) (x : Name) : Option (List Char) :=
  match env with
  | [] => none
  | (n, v) :: rest => if n = x then some v else lookup rest x

/-- replace the value of `x`, or add `x` at the end -/
def update : Env → Name → List Char → Env
  | [], x, v => [(x, v)]
  | (n, w) :: rest, x, v => if n = x then (n, v) :: rest else (n, w) :: update rest x v

/-- an unset variable is 0 -/
def readVar (env : Env) (x : Name) : Option Int :=
  match lookup env x with
  | none => some 0
  | some s => signedConstValue s

/-- the decimal numeral of a natural number -/
def decimalNat : Nat → Nat → List Char
  | 0, _ => []
  | f + 1, n =>
    let d := Char.ofNat ('0'.toNat + n % 10)
    if n < 10 then [d] else decimalNat f (n / 10) ++ [d]

/-- the text an assignment stores: the decimal numeral of the value -/
def decimal (v : Int) : List Char :=
  if v < 0 then '-' :: decimalNat ((-v).toNat + 1) (-v).toNat else decimalNat (v.toNat + 1) v.toNat

def writeVar (env : Env) (x : Name) (v : Int) : Env := update env x (decimal v)

inductive Kind where
  | plain | assign | compound
  deriving DecidableEq

def kindOf (op : BinaryOperator) : Kind :=
  if op = .Assign then .assign
  else if cLevel op = 1 then .compound
  else .plain

/-- `none` = error.  Operands are evaluated left to right (on trees `inScope` the order is immaterial). -/
def evalExact : Expr → Env → Option (Int × Env)
  | .num v, env => (represent v).map fun v => (v, env)
  | .var x, env => (readVar env x).map fun v => (v, env)
  | .pre op e, env =>
    match op with
    | .Increment | .Decrement =>
      match e with
      | .var x =>
        (readVar env x).bind fun v =>
        (represent (if op = .Increment then v + 1 else v - 1)).map fun nv => (nv, writeVar env x nv)
      | _ => none
    | .NumericCoercion => evalExact e env
    | .NumericNegation => (evalExact e env).bind fun (v, env1) => (represent (-v)).map fun r => (r, env1)
    | .LogicalNegation => (evalExact e env).map fun (v, env1) => (truth (v = 0), env1)
    | .BitwiseNegation => (evalExact e env).map fun (v, env1) => (-v - 1, env1)
  | .post op e, env =>
    match e with
    | .var x =>
      (readVar env x).bind fun v =>
      (represent (if op = .Increment then v + 1 else v - 1)).map fun nv => (v, writeVar env x nv)
    | _ => none
  | .bin op l r, env =>
    if op = .LogicalOr then
      (evalExact l env).bind fun (a, env1) =>
      if a ≠ 0 then some (1, env1)
      else (evalExact r env1).map fun (b, env2) => (truth (b ≠ 0), env2)
    else if op = .LogicalAnd then
      (evalExact l env).bind fun (a, env1) =>
      if a = 0 then some (0, env1)
      else (evalExact r env1).map fun (b, env2) => (truth (b ≠ 0), env2)
    else
      match kindOf op with
      | .plain =>
        (evalExact l env).bind fun (a, env1) =>
        (evalExact r env1).bind fun (b, env2) =>
        (arith op a b).map fun v => (v, env2)
      | .assign =>
        match l with
        | .var x => (evalExact r env).map fun (b, env1) => (b, writeVar env1 x b)
        | _ => none
      | .compound =>
        match l with
        | .var x =>
          (readVar env x).bind fun a =>
          (evalExact r env).bind fun (b, env1) =>
          (arith op a b).map fun v => (v, writeVar env1 x v)
        | _ => none
  | .cond c t e, env =>
    (evalExact c env).bind fun (a, env1) =>
    if a ≠ 0 then evalExact t env1 else evalExact e env1

/-! ## scope: trees on which C defines a value -/

def reads : Expr → List Name
  | .num _ => []
  | .var x => [x]
  | .pre _ e => reads e
  | .post _ e => reads e
  | .bin _ l r => reads l ++ reads r
  | .cond c t e => reads c ++ reads t ++ reads e

def lvalueName : Expr → List Name
  | .var x => [x]
  | _ => []

def writes : Expr → List Name
  | .num _ => []
  | .var _ => []
  | .pre op e => (if op = .Increment ∨ op = .Decrement then lvalueName e else []) ++ writes e
  | .post _ e => lvalueName e ++ writes e
  | .bin op l r => (if kindOf op = .plain then [] else lvalueName l) ++ writes l ++ writes r
  | .cond c t e => writes c ++ writes t ++ writes e

def disjoint (a b : List Name) : Bool := a.all (fun x => !b.contains x)

def isCond : Expr → Bool
  | .cond _ _ _ => true
  | _ => false

/-- no operand of an operator without sequence point modifies a variable the other operand uses,
    and no conditional expression is used as an lvalue -/
def inScope : Expr → Bool
  | .num _ => true
  | .var _ => true
  | .pre op e => inScope e && !((op = .Increment ∨ op = .Decrement) && isCond e)
  | .post _ e => inScope e && !isCond e
  | .bin op l r =>
    inScope l && inScope r &&
    (if op = .LogicalOr ∨ op = .LogicalAnd then true
     else if kindOf op = .plain then
       disjoint (writes l) (reads r) && disjoint (writes r) (reads l)
     else !isCond l && disjoint (writes r) (reads l) && disjoint (writes l) (reads r))
  | .cond c t e => inScope c && inScope t && inScope e

/-- does the expression use `++` or `--` anywhere (what the `portable` option forbids)? -/
def hasIncDec : Expr → Bool
  | .num _ => false
  | .var _ => false
  | .pre op e => op = .Increment || op = .Decrement || hasIncDec e
  | .post _ _ => true
  | .bin _ l r => hasIncDec l || hasIncDec r
  | .cond c t e => hasIncDec c || hasIncDec t || hasIncDec e

/-! ## which failure is reported (tree level) -/

/-- the leaf causes an evaluation can fail with, in the Spec's terms -/
inductive Fail where
  | value                 -- a variable that is READ does not hold an integer constant
  | reason (r : Reason)   -- an operation has no value (`why`)
  | notLvalue             -- `++ -- = op=` applied to something that is not a variable
  deriving DecidableEq, Repr

/-- The causes ISO C / POSIX admit for the failure of `e` in `env`; `[]` = `e` has a value.
    C does not order the evaluation of the operands of an operator without sequence point (6.5p2-3: unsequenced;
    POSIX 2.6.4 refers to C), so when several operands fail EVERY one of their causes is admissible, in any
    order; only `|| && ?:` are sequenced: the left operand / the condition first, the unselected operand never.
    An operation's own cause (`why`, an unreadable compound-assignment target) is admissible only when all its
    operands have values.  Independent of the evaluation order of the code (which reports: left subtree, right
    subtree, then the left VALUE read, the right value read, then the operation). -/
def fails : Expr → Env → List Fail
  | .num _, _ => []
  | .var x, env => if (readVar env x).isNone then [.value] else []
  | .pre op e, env =>
    match op with
    | .Increment | .Decrement =>
      match e with
      | .var x =>
        match readVar env x with
        | none => [.value]
        | some v => if (represent (if op = .Increment then v + 1 else v - 1)).isNone then [.reason .unrepresentable] else []
      | _ => .notLvalue :: fails e env
    | .NumericNegation =>
      match fails e env, evalExact e env with
      | [], some (v, _) => if (represent (-v)).isNone then [.reason .unrepresentable] else []
      | fe, _ => fe
    | _ => fails e env
  | .post op e, env =>
    match e with
    | .var x =>
      match readVar env x with
      | none => [.value]
      | some v => if (represent (if op = .Increment then v + 1 else v - 1)).isNone then [.reason .unrepresentable] else []
    | _ => .notLvalue :: fails e env
  | .bin op l r, env =>
    if op = .LogicalOr ∨ op = .LogicalAnd then
      match fails l env, evalExact l env with
      | [], some (a, env1) => if (op = .LogicalOr ∧ a ≠ 0) ∨ (op = .LogicalAnd ∧ a = 0) then [] else fails r env1
      | fl, _ => fl
    else
      match kindOf op with
      | .plain =>
        let fl := fails l env
        let fr := fails r (match evalExact l env with | some (_, env1) => env1 | none => env)
        if fl.isEmpty ∧ fr.isEmpty then
          match evalExact l env with
          | some (a, env1) =>
            match evalExact r env1 with
            | some (b, _) => match why (arithOf op) a b with | some q => [.reason q] | none => []
            | none => []
          | none => []
        else fl ++ fr
      | .assign =>
        match l with
        | .var _ => fails r env
        | _ => .notLvalue :: (fails l env ++ fails r env)
      | .compound =>
        match l with
        | .var x =>
          let fx : List Fail := if (readVar env x).isNone then [.value] else []
          let fr := fails r env
          if fx.isEmpty ∧ fr.isEmpty then
            match readVar env x, evalExact r env with
            | some a, some (b, _) => match why (arithOf op) a b with | some q => [.reason q] | none => []
            | _, _ => []
          else fx ++ fr
        | _ => .notLvalue :: (fails l env ++ fails r env)
  | .cond c t e, env =>
    match fails c env, evalExact c env with
    | [], some (a, env1) => if a ≠ 0 then fails t env1 else fails e env1
    | fc, _ => fc

/-! ## text: maximal-munch lexer and grammar-directed parser -/

inductive SToken where
  | num (v : Int)
  | ident (n : Name)
  | punct (p : List Char)
  | bad
  deriving DecidableEq, Repr

/-- `White_Space` code points -/
def isSpace (c : Char) : Bool :=
  let n := c.toNat
  n = 0x20 || (0x09 ≤ n && n ≤ 0x0D) || n = 0x85 || n = 0xA0 || n = 0x1680 || (0x2000 ≤ n && n ≤ 0x200A)
    || n = 0x2028 || n = 0x2029 || n = 0x202F || n = 0x205F || n = 0x3000

def isWordChar (c : Char) : Bool :=
  ('0' ≤ c && c ≤ '9') || ('a' ≤ c && c ≤ 'z') || ('A' ≤ c && c ≤ 'Z') || c = '_'

/-- the longest punctuator that is a prefix of the text -/
def longestPunct (s : List Char) : Option (List Char) :=
  (cLexemes.filter (fun p => p.isPrefixOf s)).foldl
    (fun best p => match best with
      | none => some p
      | some b => if b.length < p.length then some p else some b) none

def lex : Nat → List Char → List SToken
  | 0, _ => [.bad]
  | f + 1, s =>
    match s.dropWhile isSpace with
    | [] => []
    | c :: cs =>
      match longestPunct (c :: cs) with
      | some p => .punct p :: lex f ((c :: cs).drop p.length)
      | none =>
        let word := (c :: cs).takeWhile isWordChar
        let rest := (c :: cs).dropWhile isWordChar
        if word = [] then [.bad]
        else if '0' ≤ c ∧ c ≤ '9' then
          match constValue word with
          | some v => .num v :: lex f rest
          | none => [.bad]
        else .ident word :: lex f rest

def assignmentOfLexeme (p : List Char) : Option BinaryOperator :=
  match binaryOfLexeme p with
  | some (b, 1, _) => some b
  | _ => none

def binaryAtLevel (level : Nat) (p : List Char) : Option BinaryOperator :=
  match binaryOfLexeme p with
  | some (b, l, _) => if l = level ∧ l ≠ 1 then some b else none
  | none => none

abbrev P := Option (Expr × List SToken)

def postfixes : Expr → List SToken → Expr × List SToken
  | e, .punct p :: rest =>
    match postfixOfLexeme p with
    | some o => postfixes (.post o e) rest
    | none => (e, .punct p :: rest)
  | e, toks => (e, toks)

mutual
/-- assignment-expression (the left operand is checked for being an lvalue by `evalExact`) -/
def pAssign : Nat → List SToken → P
  | 0, _ => none
  | f + 1, toks =>
    (pCond f toks).bind fun (l, toks1) =>
    match toks1 with
    | .punct p :: rest =>
      match assignmentOfLexeme p with
      | some b => (pAssign f rest).map fun (r, toks2) => (.bin b l r, toks2)
      | none => some (l, toks1)
    | _ => some (l, toks1)
/-- conditional-expression: `lor ? assignment : conditional` -/
def pCond : Nat → List SToken → P
  | 0, _ => none
  | f + 1, toks =>
    (pBin f 3 toks).bind fun (c, toks1) =>
    match toks1 with
    | .punct p :: rest =>
      if p = ['?'] then
        (pAssign f rest).bind fun (t, toks2) =>
        match toks2 with
        | .punct q :: rest2 =>
          if q = [':'] then (pCond f rest2).map fun (e, toks3) => (.cond c t e, toks3) else none
        | _ => none
      else some (c, toks1)
    | _ => some (c, toks1)
/-- one left-associative level: `next (op next)*` -/
def pBin : Nat → Nat → List SToken → P
  | 0, _, _ => none
  | f + 1, level, toks =>
    if level ≥ cUnaryLevel then pUnary f toks
    else (pBin f (level + 1) toks).bind fun (l, toks1) => pBinRest f level l toks1
def pBinRest : Nat → Nat → Expr → List SToken → P
  | 0, _, _, _ => none
  | f + 1, level, l, toks =>
    match toks with
    | .punct p :: rest =>
      match binaryAtLevel level p with
      | some b => (pBin f (level + 1) rest).bind fun (r, toks1) => pBinRest f level (.bin b l r) toks1
      | none => some (l, toks)
    | _ => some (l, toks)
/-- unary-expression -/
def pUnary : Nat → List SToken → P
  | 0, _ => none
  | f + 1, toks =>
    match toks with
    | .punct p :: rest =>
      match prefixOfLexeme p with
      | some o => (pUnary f rest).map fun (e, toks1) => (.pre o e, toks1)
      | none => pPrimary f toks
    | _ => pPrimary f toks
/-- postfix-expression over a primary-expression -/
def pPrimary : Nat → List SToken → P
  | 0, _ => none
  | f + 1, toks =>
    match toks with
    | .num v :: rest => some (postfixes (.num v) rest)
    | .ident x :: rest => some (postfixes (.var x) rest)
    | .punct p :: rest =>
      if p = ['('] then
        (pAssign f rest).bind fun (e, toks1) =>
        match toks1 with
        | .punct q :: rest1 => if q = [')'] then some (postfixes e rest1) else none
        | _ => none
      else none
    | _ => none
end

/-- the tree of an expression text; `none` = not an expression -/
def parseText (s : List Char) : Option Expr :=
  let toks := lex (s.length + 1) s
  match pAssign (64 * (toks.length + 2)) toks with
  | some (e, []) => some e
  | _ => none

end YashModel.Arith.Spec
