/-
  C03 — Impl model of yash-arith (`/repo/yash-arith/src/{token,ast,eval,env,lib}.rs`).

  Transcription rules: `&mut Vec<Ast>` is a returned `List Ast` (push = append at the end, same layout:
  reverse Polish with stored operand lengths); `PeekableTokens` is the (pure) token list of the source
  — `peek` is `head`, `next` is `head` + `tail`, a tokenizer error is the token `.err` which aborts the
  parse whenever it is consumed; i64 values are `Int`s together with `InRange`, `checked_*` is
  "exact result if in range, else none" (the contract of the Rust standard library), bit operations
  go through `BitVec 64`; slices of the AST vector are `take`/`drop` with the Rust bounds checks made
  explicit (`Res.panic`); loops and recursion take fuel (`Res.fuel` / `SynErr.fuel`, never reached
  with the fuel `evalStr` supplies — the correspondence run would show it).
  The operator tables come from `YashModel.Generated.ArithTables` (re-extracted on every run).
-/
import YashModel.Generated.ArithTables
namespace YashModel.Arith
open YashModel.Generated.ArithTables

abbrev Name := List Char

/-! ## i64 -/

/-- the values of `i64` -/
def InRange (x : Int) : Prop := -9223372036854775808 ≤ x ∧ x ≤ 9223372036854775807

instance (x : Int) : Decidable (InRange x) := by unfold InRange; exact inferInstance

/-- result of a `checked_*` operation whose mathematically exact result is `x` -/
def checked (x : Int) : Option Int := if InRange x then some x else none

/-- two's complement wrap to 64 bits (`wrapping_*`) -/
def wrap64 (x : Int) : Int := (x + 9223372036854775808) % 18446744073709551616 - 9223372036854775808

/-- `lhs | rhs` on i64 -/
def bitOr (l r : Int) : Int := (BitVec.ofInt 64 l ||| BitVec.ofInt 64 r).toInt
/-- `lhs ^ rhs` on i64 -/
def bitXor (l r : Int) : Int := (BitVec.ofInt 64 l ^^^ BitVec.ofInt 64 r).toInt
/-- `lhs & rhs` on i64 -/
def bitAnd (l r : Int) : Int := (BitVec.ofInt 64 l &&& BitVec.ofInt 64 r).toInt
/-- `!value` on i64 -/
def bitNot (v : Int) : Int := (~~~ BitVec.ofInt 64 v).toInt

/-! ## characters and numeric text (std: `char::is_whitespace`, `to_digit`, `from_str_radix`) -/

/-- Rust `char::is_whitespace` (Unicode `White_Space`) -/
def isWhitespace (c : Char) : Bool :=
  let n := c.toNat
  (9 ≤ n && n ≤ 13) || n == 32 || n == 0x85 || n == 0xA0 || n == 0x1680 || (0x2000 ≤ n && n ≤ 0x200A)
    || n == 0x2028 || n == 0x2029 || n == 0x202F || n == 0x205F || n == 0x3000

def isAsciiDigit (c : Char) : Bool := 48 ≤ c.toNat && c.toNat ≤ 57

/-- `char::is_ascii_alphanumeric`; for ASCII also `char::is_alphanumeric` (non-ASCII alphanumerics are
    outside the model: the harness compares such inputs for totality only) -/
def isAsciiAlnum (c : Char) : Bool :=
  isAsciiDigit c || (65 ≤ c.toNat && c.toNat ≤ 90) || (97 ≤ c.toNat && c.toNat ≤ 122)

/-- characters of a term: `c.is_alphanumeric() || c == '_'` -/
def isTermChar (c : Char) : Bool := isAsciiAlnum c || c == '_'

/-- `char::to_digit(radix)` for radix ≤ 36 -/
def toDigit (c : Char) (radix : Nat) : Option Nat :=
  let n := c.toNat
  let d := if 48 ≤ n && n ≤ 57 then n - 48
    else if 97 ≤ n && n ≤ 122 then n - 87
    else if 65 ≤ n && n ≤ 90 then n - 55
    else 36
  if d < radix then some d else none

def parseDigits (radix : Nat) : List Char → Nat → Option Nat
  | [], acc => some acc
  | c :: cs, acc =>
    match toDigit c radix with
    | none => none
    | some d => parseDigits radix cs (acc * radix + d)

/-- non-empty digit string to its value -/
def parseNat (radix : Nat) (s : List Char) : Option Nat :=
  if s.isEmpty then none else parseDigits radix s 0

/-- `i64::from_str_radix` (optional sign, at least one digit, value must fit) -/
def fromStrRadix (s : List Char) (radix : Nat) : Option Int :=
  if s.head? = some '-' then
    match parseNat radix s.tail with
    | none => none
    | some n => checked (-(n : Int))
  else if s.head? = some '+' then
    match parseNat radix s.tail with
    | none => none
    | some n => checked (n : Int)
  else
    match parseNat radix s with
    | none => none
    | some n => checked (n : Int)

/-- `str::strip_prefix` -/
def stripPrefix (p s : List Char) : Option (List Char) :=
  if p.isPrefixOf s then some (s.drop p.length) else none

/-- the radix rules of `Tokens::next_token` for a term that starts with an ASCII digit -/
def parseConstant (token : List Char) : Option Int :=
  match stripPrefix ['0', 'X'] token with
  | some ds => fromStrRadix ds 16
  | none =>
    match stripPrefix ['0', 'x'] token with
    | some ds => fromStrRadix ds 16
    | none => if token.head? = some '0' then fromStrRadix token 8 else fromStrRadix token 10

/-- the notation rules of `parse_integer`: the digits and their radix -/
def radixSplit (magnitude : List Char) : List Char × Nat :=
  match stripPrefix ['0', 'X'] magnitude with
  | some ds => (ds, 16)
  | none =>
    match stripPrefix ['0', 'x'] magnitude with
    | some ds => (ds, 16)
    | none => if magnitude.head? = some '0' then (magnitude, 8) else (magnitude, 10)

/-- `parse_integer` of eval.rs: optional sign, then the same notation as a constant -/
def parseInteger (value : List Char) : Option Int :=
  let neg := value.head? = some '-'
  let magnitude := if value.head? = some '-' ∨ value.head? = some '+' then value.tail else value
  let dr := radixSplit magnitude
  if dr.1.head?.any isAsciiAlnum then
    fromStrRadix (if neg then '-' :: dr.1 else dr.1) dr.2
  else none

/-! ## token.rs -/

inductive Term where
  | value (i : Int)
  | variable (name : Name)
  deriving DecidableEq, Repr

/-- a token as the parser sees it; `err` = `Err(token::Error)` (either cause) -/
inductive Tok where
  | term (t : Term)
  | op (o : Operator)
  | err
  deriving DecidableEq, Repr

/-- `OPERATORS.iter().find(|(lexeme, _)| source.starts_with(lexeme))` -/
def findOp (src : List Char) : Option (List Char × Operator) :=
  operators.find? (fun p => p.1.isPrefixOf src)

/-- `Tokens::next_token` on the remaining text; `none` = `EndOfInput` -/
def nextToken (src : List Char) : Option (Tok × List Char) :=
  let s := src.dropWhile isWhitespace
  match s.head? with
  | none => none
  | some c =>
    match findOp s with
    | some (lex, o) => some (.op o, s.drop lex.length)
    | none =>
      let token := s.takeWhile isTermChar
      let rest := s.dropWhile isTermChar
      if token.isEmpty then some (.err, s)
      else if isAsciiDigit c then
        match parseConstant token with
        | some i => some (.term (.value i), rest)
        | none => some (.err, s)
      else some (.term (.variable token), rest)

/-- all tokens of the source up to the end of input or the first error (inclusive) -/
def tokenize : Nat → List Char → List Tok
  | 0, _ => [.err]
  | f + 1, src =>
    match nextToken src with
    | none => []
    | some (.err, _) => [.err]
    | some (t, rest) => t :: tokenize f rest

/-! ## ast.rs -/

inductive Ast where
  | term (t : Term)
  | pre (op : PrefixOperator)
  | post (op : PostfixOperator)
  | binary (op : BinaryOperator) (rhsLen : Nat)
  | conditional (thenLen elseLen : Nat)
  deriving DecidableEq, Repr

inductive SynErr where
  | tokenError | incompleteExpression | missingOperator | unclosedParenthesis
  | questionWithoutColon | colonWithoutQuestion | invalidOperator | fuel
  deriving DecidableEq, Repr

abbrev PState := List Tok × List Ast

/-- `parse_postfix` -/
def parsePostfix : List Tok → List Ast → PState
  | .op o :: rest, acc =>
    match o.as_postfix with
    | some p => parsePostfix rest (acc ++ [.post p])
    | none => (.op o :: rest, acc)
  | toks, acc => (toks, acc)

/-- `parse_close_paren` -/
def parseCloseParen (toks : List Tok) : Except SynErr (List Tok) :=
  match toks with
  | [] => .error .unclosedParenthesis
  | .err :: _ => .error .tokenError
  | .term _ :: _ => .error .unclosedParenthesis
  | .op o :: rest =>
    if o = .CloseParen then .ok rest
    else if o = .Colon then .error .colonWithoutQuestion
    else .error .unclosedParenthesis

mutual
/-- `parse_leaf` -/
def parseLeaf : Nat → List Tok → List Ast → Except SynErr PState
  | 0, _, _ => .error .fuel
  | f + 1, toks, acc =>
    match toks with
    | [] => .error .incompleteExpression
    | .err :: _ => .error .tokenError
    | .term t :: rest => .ok (parsePostfix rest (acc ++ [.term t]))
    | .op o :: rest =>
      if o = .OpenParen then
        match parseTree f rest 1 acc with
        | .error e => .error e
        | .ok (toks1, acc1) =>
          match parseCloseParen toks1 with
          | .error e => .error e
          | .ok toks2 => .ok (parsePostfix toks2 acc1)
      else
        match o.as_prefix with
        | none => .error .invalidOperator
        | some p =>
          match parseLeaf f rest acc with
          | .error e => .error e
          | .ok (toks1, acc1) => .ok (toks1, acc1 ++ [.pre p])

/-- `parse_tree` = `parse_leaf` followed by the operator loop -/
def parseTree : Nat → List Tok → Nat → List Ast → Except SynErr PState
  | 0, _, _, _ => .error .fuel
  | f + 1, toks, minPrec, acc =>
    match parseLeaf f toks acc with
    | .error e => .error e
    | .ok (toks1, acc1) => parseLoop f toks1 minPrec acc1

/-- the `while let` loop of `parse_tree` -/
def parseLoop : Nat → List Tok → Nat → List Ast → Except SynErr PState
  | 0, _, _, _ => .error .fuel
  | f + 1, toks, minPrec, acc =>
    match toks with
    | .op o :: rest =>
      if o.precedence < minPrec then .ok (toks, acc)
      else if o = .Question then
        match parseTree f rest 1 acc with
        | .error e => .error e
        | .ok (toks1, acc1) =>
          match toks1 with
          | .op o1 :: rest1 =>
            if o1 = .Colon then
              match parseTree f rest1 o.precedence acc1 with
              | .error e => .error e
              | .ok (toks2, acc2) =>
                parseLoop f toks2 minPrec
                  (acc2 ++ [.conditional (acc1.length - acc.length) (acc2.length - acc1.length)])
            else .error .questionWithoutColon
          | .err :: _ => .error .tokenError
          | _ => .error .questionWithoutColon
      else
        match o.as_binary with
        | none => .error .invalidOperator
        | some (b, assoc) =>
          let rhsPrec := if assoc = .Left then o.precedence + 1 else o.precedence
          -- `parse_binary_rhs`
          match parseTree f rest rhsPrec acc with
          | .error e => .error e
          | .ok (toks1, acc1) =>
            parseLoop f toks1 minPrec (acc1 ++ [.binary b (acc1.length - acc.length)])
    | _ => .ok (toks, acc)
end

/-- `parse_end_of_input` -/
def parseEndOfInput (toks : List Tok) : Except SynErr Unit :=
  match toks with
  | [] => .ok ()
  | .err :: _ => .error .tokenError
  | .term _ :: _ => .error .missingOperator
  | .op o :: _ => if o = .Colon then .error .colonWithoutQuestion else .error .missingOperator

/-- `ast::parse` on a token list -/
def parseToks (fuel : Nat) (toks : List Tok) : Except SynErr (List Ast) :=
  match parseTree fuel toks 1 [] with
  | .error e => .error e
  | .ok (toks1, acc) =>
    match parseEndOfInput toks1 with
    | .error e => .error e
    | .ok () => .ok acc

/-! ## env.rs (`impl Env for HashMap<String, String>`) -/

abbrev Env := List (Name × List Char)

def Env.get (env : Env) (name : Name) : Option (List Char) :=
  (env.find? (fun p => p.1 = name)).map (·.2)

def Env.set : Env → Name → List Char → Env
  | [], name, v => [(name, v)]
  | (n, w) :: rest, name, v => if n = name then (n, v) :: rest else (n, w) :: Env.set rest name v

/-! ## eval.rs -/

inductive EvalErr where
  | invalidVariableValue | overflow | divisionByZero | leftShiftingNegative | reverseShifting
  | assignmentToValue
  /-- `GetVariableError(E1)` / `AssignVariableError(E2)`: errors of the environment, passed through
      (never produced by the `HashMap` environment; see `Shell.lean` for the shell's environment) -/
  | getVariableError | assignVariableError
  deriving DecidableEq, Repr

/-- `Result<α, eval::Error>` plus the two outcomes a Rust run could have instead of returning:
    `panic` (failed `expect`, slice index out of range) and the model's own `fuel` -/
inductive Res (α : Type) where
  | ok (a : α)
  | error (e : EvalErr)
  | panic
  | fuel
  deriving Repr, DecidableEq

def Res.bind {α β : Type} (r : Res α) (f : α → Res β) : Res β :=
  match r with
  | .ok a => f a
  | .error e => .error e
  | .panic => .panic
  | .fuel => .fuel

def Res.ofOption {α : Type} (o : Option α) (e : EvalErr) : Res α :=
  match o with
  | some a => .ok a
  | none => .error e

def digitChar : Nat → Char
  | 0 => '0' | 1 => '1' | 2 => '2' | 3 => '3' | 4 => '4' | 5 => '5' | 6 => '6' | 7 => '7' | 8 => '8'
  | _ => '9'

/-- decimal digits of `n`, most significant first (fuel `n + 1` is always enough) -/
def natDigits : Nat → Nat → List Char
  | 0, _ => []
  | f + 1, n => if n < 10 then [digitChar n] else natDigits f (n / 10) ++ [digitChar (n % 10)]

/-- `Value::to_string` (`i64`'s `Display`): a minus sign for negative numbers, then the decimal digits -/
def showInt (i : Int) : List Char :=
  if i < 0 then '-' :: natDigits ((-i).toNat + 1) (-i).toNat else natDigits (i.toNat + 1) i.toNat

/-- `expand_variable` -/
def expandVariable (name : Name) (env : Env) : Res Int :=
  match env.get name with
  | none => .ok 0
  | some v => Res.ofOption (parseInteger v) .invalidVariableValue

/-- `into_value` -/
def intoValue (t : Term) (env : Env) : Res Int :=
  match t with
  | .value v => .ok v
  | .variable n => expandVariable n env

/-- `require_variable` -/
def requireVariable (t : Term) : Res Name :=
  match t with
  | .variable n => .ok n
  | .value _ => .error .assignmentToValue

/-- `assign` (the `HashMap` environment cannot fail) -/
def assign (name : Name) (v : Int) (env : Env) : Res (Int × Env) :=
  .ok (v, env.set name (showInt v))

/-- `apply_prefix` -/
def applyPrefix (t : Term) (op : PrefixOperator) (env : Env) : Res (Int × Env) :=
  match op with
  | .Increment =>
    (requireVariable t).bind fun name =>
    (expandVariable name env).bind fun v =>
    (Res.ofOption (checked (v + 1)) .overflow).bind fun nv => assign name nv env
  | .Decrement =>
    (requireVariable t).bind fun name =>
    (expandVariable name env).bind fun v =>
    (Res.ofOption (checked (v - 1)) .overflow).bind fun nv => assign name nv env
  | .NumericCoercion => (intoValue t env).bind fun v => .ok (v, env)
  | .NumericNegation =>
    (intoValue t env).bind fun v => (Res.ofOption (checked (-v)) .overflow).bind fun r => .ok (r, env)
  | .LogicalNegation => (intoValue t env).bind fun v => .ok (if v = 0 then 1 else 0, env)
  | .BitwiseNegation => (intoValue t env).bind fun v => .ok (bitNot v, env)

/-- `apply_postfix` -/
def applyPostfix (t : Term) (op : PostfixOperator) (env : Env) : Res (Int × Env) :=
  (requireVariable t).bind fun name =>
  (expandVariable name env).bind fun v =>
  let result := match op with
    | .Increment => checked (v + 1)
    | .Decrement => checked (v - 1)
  (Res.ofOption result .overflow).bind fun nv =>
  (assign name nv env).bind fun (_, env1) => .ok (v, env1)

/-- `require_non_negative` (conversion of the shift count to `u32`) -/
def requireNonNegative (v : Int) : Res Nat :=
  if v < 0 then .error .reverseShifting
  else if v > 4294967295 then .error .overflow
  else .ok v.toNat

/-- `i64::checked_shl`: `None` for counts ≥ 64, otherwise the wrapping shift -/
def checkedShl (l : Int) (r : Nat) : Option Int :=
  if r < 64 then some (wrap64 (l * 2 ^ r)) else none

/-- `i64::checked_shr`: `None` for counts ≥ 64, otherwise the arithmetic shift -/
def checkedShr (l : Int) (r : Nat) : Option Int :=
  if r < 64 then some (l >>> r) else none

/-- `i64::checked_div` (truncating) -/
def checkedDiv (l r : Int) : Option Int :=
  if r = 0 then none else checked (l.tdiv r)

/-- `i64::checked_rem`: `None` when the division overflows (`MIN % -1`), although the remainder is 0 -/
def checkedRem (l r : Int) : Option Int :=
  if r = 0 then none
  else if l = -9223372036854775808 ∧ r = -1 then none
  else some (l.tmod r)

def boolInt (b : Bool) : Int := if b then 1 else 0

/-- the `match operator` of `binary_result` before `unwrap_or_overflow`: `.ok none` = `None` -/
def binaryChecked (op : BinaryOperator) (l r : Int) : Res (Option Int) :=
  match op with
  | .LogicalOr => .ok (some (boolInt (l != 0 || r != 0)))
  | .LogicalAnd => .ok (some (boolInt (l != 0 && r != 0)))
  | .BitwiseOr | .BitwiseOrAssign => .ok (some (bitOr l r))
  | .BitwiseXor | .BitwiseXorAssign => .ok (some (bitXor l r))
  | .BitwiseAnd | .BitwiseAndAssign => .ok (some (bitAnd l r))
  | .EqualTo => .ok (some (boolInt (l == r)))
  | .NotEqualTo => .ok (some (boolInt (l != r)))
  | .LessThan => .ok (some (boolInt (decide (l < r))))
  | .GreaterThan => .ok (some (boolInt (decide (l > r))))
  | .LessThanOrEqualTo => .ok (some (boolInt (decide (l ≤ r))))
  | .GreaterThanOrEqualTo => .ok (some (boolInt (decide (l ≥ r))))
  | .ShiftLeft | .ShiftLeftAssign =>
    if l < 0 then .error .leftShiftingNegative
    else (requireNonNegative r).bind fun n =>
      .ok ((checkedShl l n).filter fun result => decide (result ≥ 0) && (result >>> n == l))
  | .ShiftRight | .ShiftRightAssign =>
    (requireNonNegative r).bind fun n => .ok (checkedShr l n)
  | .Add | .AddAssign => .ok (checked (l + r))
  | .Subtract | .SubtractAssign => .ok (checked (l - r))
  | .Multiply | .MultiplyAssign => .ok (checked (l * r))
  | .Divide | .DivideAssign =>
    if r = 0 then .error .divisionByZero else .ok (checkedDiv l r)
  | .Remainder | .RemainderAssign =>
    if r = 0 then .error .divisionByZero else .ok (checkedRem l r)
  | .Assign => .ok (some r)

/-- `binary_result` -/
def binaryResult (op : BinaryOperator) (l r : Int) : Res Int :=
  (binaryChecked op l r).bind fun o => Res.ofOption o .overflow

/-- which arm of `apply_binary` an operator takes -/
inductive BinKind where
  | plain | assign | compound
  deriving DecidableEq, Repr

def binKind : BinaryOperator → BinKind
  | .LogicalOr | .LogicalAnd | .BitwiseOr | .BitwiseXor | .BitwiseAnd | .EqualTo | .NotEqualTo
  | .LessThan | .GreaterThan | .LessThanOrEqualTo | .GreaterThanOrEqualTo | .ShiftLeft
  | .ShiftRight | .Add | .Subtract | .Multiply | .Divide | .Remainder => .plain
  | .Assign => .assign
  | .BitwiseOrAssign | .BitwiseXorAssign | .BitwiseAndAssign | .ShiftLeftAssign
  | .ShiftRightAssign | .AddAssign | .SubtractAssign | .MultiplyAssign | .DivideAssign
  | .RemainderAssign => .compound

/-- `apply_binary` -/
def applyBinary (lhs rhs : Term) (op : BinaryOperator) (env : Env) : Res (Int × Env) :=
  match binKind op with
  | .plain =>
    (intoValue lhs env).bind fun l =>
    (intoValue rhs env).bind fun r =>
    (binaryResult op l r).bind fun v => .ok (v, env)
  | .assign =>
    (requireVariable lhs).bind fun name =>
    (intoValue rhs env).bind fun v => assign name v env
  | .compound =>
    (requireVariable lhs).bind fun name =>
    (expandVariable name env).bind fun l =>
    (intoValue rhs env).bind fun r =>
    (binaryResult op l r).bind fun v => assign name v env

/-- `slice.split_last()` -/
def splitLast (ast : List Ast) : Option (List Ast × Ast) :=
  match ast.getLast? with
  | none => none
  | some root => some (ast.dropLast, root)

/-- `children.split_at(children.len() - n)`; `none` = the subtraction or the split would panic -/
def splitAtEnd (children : List Ast) (n : Nat) : Option (List Ast × List Ast) :=
  if n ≤ children.length then
    some (children.take (children.length - n), children.drop (children.length - n))
  else none

def valueTerm (r : Res (Int × Env)) : Res (Term × Env) :=
  r.bind fun (v, env) => .ok (.value v, env)

/-- `eval::eval` on a slice of the AST vector -/
def eval : Nat → List Ast → Env → Res (Term × Env)
  | 0, _, _ => .fuel
  | f + 1, ast, env =>
    match splitLast ast with
    | none => .panic
    | some (children, root) =>
      match root with
      | .term t => .ok (t, env)
      | .pre op =>
        (eval f children env).bind fun (t, env1) => valueTerm (applyPrefix t op env1)
      | .post op =>
        (eval f children env).bind fun (t, env1) => valueTerm (applyPostfix t op env1)
      | .binary op rhsLen =>
        match splitAtEnd children rhsLen with
        | none => .panic
        | some (lhsAst, rhsAst) =>
          if op = .LogicalOr then
            (eval f lhsAst env).bind fun (lt, env1) =>
            (intoValue lt env1).bind fun l =>
            if l ≠ 0 then .ok (.value 1, env1)
            else
              (eval f rhsAst env1).bind fun (rt, env2) =>
              (intoValue rt env2).bind fun r =>
              (binaryResult .LogicalOr l r).bind fun v => .ok (.value v, env2)
          else if op = .LogicalAnd then
            (eval f lhsAst env).bind fun (lt, env1) =>
            (intoValue lt env1).bind fun l =>
            if l = 0 then .ok (.value 0, env1)
            else
              (eval f rhsAst env1).bind fun (rt, env2) =>
              (intoValue rt env2).bind fun r =>
              (binaryResult .LogicalAnd l r).bind fun v => .ok (.value v, env2)
          else
            (eval f lhsAst env).bind fun (lt, env1) =>
            (eval f rhsAst env1).bind fun (rt, env2) =>
            valueTerm (applyBinary lt rt op env2)
      | .conditional thenLen elseLen =>
        match splitAtEnd children elseLen with
        | none => .panic
        | some (children2, elseAst) =>
          match splitAtEnd children2 thenLen with
          | none => .panic
          | some (condAst, thenAst) =>
            (eval f condAst env).bind fun (ct, env1) =>
            (intoValue ct env1).bind fun c =>
            if c ≠ 0 then eval f thenAst env1 else eval f elseAst env1

/-! ## lib.rs -/

/-- outcome of `yash_arith::eval(expression, &mut env)` -/
inductive Outcome where
  | value (v : Int) (env : Env)
  | syntaxError (e : SynErr)
  | evalError (e : EvalErr)
  | panic
  | fuel
  deriving Repr, DecidableEq

/-- `ast::parse(PeekableTokens::from(expression))` -/
def parse (src : List Char) : Except SynErr (List Ast) :=
  let toks := tokenize (src.length + 1) src
  parseToks (2 * toks.length + 2) toks

/-- `ast::portability::check`: the nodes that make it fail (`++`/`--`, prefix or postfix, anywhere in the
    vector — also in operands that would not be evaluated) -/
def isIncDec : Ast → Bool
  | .pre .Increment => true
  | .pre .Decrement => true
  | .post _ => true
  | _ => false

def Outcome.ofRes : Res (Int × Env) → Outcome
  | .ok (v, env) => .value v env
  | .error e => .evalError e
  | .panic => .panic
  | .fuel => .fuel

/-- `eval::eval(&ast, env)` followed by `eval::into_value(term, env)` -/
def evalValue (ast : List Ast) (env : Env) : Res (Int × Env) :=
  (eval ast.length ast env).bind fun (t, env1) =>
  (intoValue t env1).bind fun v => .ok (v, env1)

/-- `eval_with_config(expression, env, Config::default())` -/
def evalStr (src : List Char) (env : Env) : Outcome :=
  match parse src with
  | .error e => .syntaxError e
  | .ok ast => Outcome.ofRes (evalValue ast env)

/-- `eval_with_config(expression, env, Config { portable: true })`; `none` = `PortabilityError` -/
def evalStrPortable (src : List Char) (env : Env) : Option Outcome :=
  match parse src with
  | .error e => some (.syntaxError e)
  | .ok ast => if ast.any isIncDec then none else some (Outcome.ofRes (evalValue ast env))

end YashModel.Arith
