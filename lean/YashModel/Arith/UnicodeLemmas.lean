/-
  C03 — lemmas about `Unicode.lean` (wave 3): the parser reports `TokenError` only for the tokenizer's error
  token, the Unicode tokenizer with `extra = []` is the ASCII model, its fuel is never exhausted, and the kind of
  a token error.
-/
import YashModel.Arith.FuelLemmas
import YashModel.Arith.Unicode
namespace YashModel.Arith
open YashModel.Generated.ArithTables

theorem parsePostfix_subset (toks : List Tok) (acc : List Ast) :
    ∀ t ∈ (parsePostfix toks acc).1, t ∈ toks := by
  fun_induction parsePostfix toks acc <;> grind

theorem parseCloseParen_subset (toks toks' : List Tok) (h : parseCloseParen toks = .ok toks') :
    ∀ t ∈ toks', t ∈ toks := by
  unfold parseCloseParen at h
  split at h <;> grind

theorem parseCloseParen_tokerr (toks : List Tok) (h : parseCloseParen toks = .error .tokenError) :
    Tok.err ∈ toks := by
  unfold parseCloseParen at h
  split at h <;> grind

theorem parse_tokerr_aux (f : Nat) :
    (∀ toks acc, (∀ toks' acc', parseLeaf f toks acc = .ok (toks', acc') → ∀ t ∈ toks', t ∈ toks) ∧
        (parseLeaf f toks acc = .error .tokenError → Tok.err ∈ toks)) ∧
    (∀ toks m acc, (∀ toks' acc', parseTree f toks m acc = .ok (toks', acc') → ∀ t ∈ toks', t ∈ toks) ∧
        (parseTree f toks m acc = .error .tokenError → Tok.err ∈ toks)) ∧
    (∀ toks m acc, (∀ toks' acc', parseLoop f toks m acc = .ok (toks', acc') → ∀ t ∈ toks', t ∈ toks) ∧
        (parseLoop f toks m acc = .error .tokenError → Tok.err ∈ toks)) := by
  induction f with
  | zero =>
    refine ⟨?_, ?_, ?_⟩ <;> intros <;> simp [parseLeaf, parseTree, parseLoop]
  | succ f ih =>
    obtain ⟨ihLeaf, ihTree, ihLoop⟩ := ih
    refine ⟨?_, ?_, ?_⟩
    · intro toks acc
      simp only [parseLeaf]
      split
      · simp
      · simp
      · rename_i t rest
        have := parsePostfix_subset rest (acc ++ [.term t])
        grind
      · rename_i o rest
        split
        · have h1 := ihTree rest 1 acc
          split
          · grind
          · rename_i toks1 acc1 htree
            have h2 := parseCloseParen_subset toks1
            have h3 := parseCloseParen_tokerr toks1
            split
            · grind
            · rename_i toks2 hclose
              have := parsePostfix_subset toks2 acc1
              grind
        · split
          · simp
          · have h1 := ihLeaf rest acc
            split <;> grind
    · intro toks m acc
      simp only [parseTree]
      have h1 := ihLeaf toks acc
      split
      · grind
      · rename_i toks1 acc1 hleaf
        have h2 := ihLoop toks1 m acc1
        grind
    · intro toks m acc
      simp only [parseLoop]
      split
      · rename_i o rest
        split
        · grind
        · split
          · have h1 := ihTree rest 1 acc
            split
            · grind
            · rename_i toks1 acc1 hthen
              split
              · rename_i o1 rest1
                split
                · have h2 := ihTree rest1 o.precedence acc1
                  split
                  · grind
                  · rename_i toks2 acc2 helse
                    have h3 := ihLoop toks2 m (acc2 ++ [.conditional (acc1.length - acc.length) (acc2.length - acc1.length)])
                    grind
                · grind
              · have := h1.1 _ _ hthen Tok.err (by simp)
                grind
              · grind
          · split
            · simp
            · rename_i b assoc hb
              have h1 := ihTree rest (if assoc = .Left then o.precedence + 1 else o.precedence) acc
              split
              · grind
              · rename_i toks1 acc1 hrhs
                have h3 := ihLoop toks1 m (acc1 ++ [.binary b (acc1.length - acc.length)])
                grind
      · grind


/-- `parse` reports `TokenError` only when the token sequence holds the tokenizer's error -/
theorem parseToks_tokerr (fuel : Nat) (toks : List Tok) (h : parseToks fuel toks = .error .tokenError) :
    Tok.err ∈ toks := by
  unfold parseToks at h
  have h1 := (parse_tokerr_aux fuel).2.1 toks 1 []
  cases htree : parseTree fuel toks 1 [] with
  | error e =>
    rw [htree] at h
    simp only [Except.error.injEq] at h
    subst h; exact h1.2 htree
  | ok p =>
    obtain ⟨toks1, acc⟩ := p
    rw [htree] at h
    have h2 := h1.1 _ _ htree
    cases toks1 with
    | nil => simp [parseEndOfInput] at h
    | cons t tl =>
      cases t with
      | err => exact h2 _ (by simp)
      | term x => simp [parseEndOfInput] at h
      | op o =>
        simp only [parseEndOfInput] at h
        by_cases ho : o = .Colon <;> simp [ho] at h

/-! ## `extra = []`: the ASCII model -/

theorem isTermCharU_nil : isTermCharU [] = isTermChar := by
  funext c; simp [isTermCharU]

theorem nextTokenU_nil (src : List Char) : nextTokenU [] src = nextToken src := by
  unfold nextTokenU nextToken; rw [isTermCharU_nil]; rfl

theorem tokenizeU_nil (f : Nat) (src : List Char) : tokenizeU [] f src = tokenize f src := by
  induction f generalizing src with
  | zero => rfl
  | succ f ih =>
    rw [tokenizeU, tokenize, nextTokenU_nil]
    cases nextToken src with
    | none => rfl
    | some p =>
      obtain ⟨t, rest⟩ := p
      cases t <;> simp [ih]

theorem parseU_nil (src : List Char) : parseU [] src = parse src := by
  unfold parseU parse; rw [tokenizeU_nil]

theorem evalStrU_nil (src : List Char) (env : Env) : evalStrU [] src env = evalStr src env := by
  unfold evalStrU evalStr; rw [parseU_nil]; rfl

theorem evalStrPortableU_nil (src : List Char) (env : Env) :
    evalStrPortableU [] src env = evalStrPortable src env := by
  unfold evalStrPortableU evalStrPortable; rw [parseU_nil]; rfl

/-! ## the tokenizer's fuel, for every `extra` -/

/-- a token that is not an error consumes at least one character -/
theorem nextTokenU_consumes (extra : List Char) (src rest : List Char) (t : Tok)
    (h : nextTokenU extra src = some (t, rest)) (ht : t ≠ .err) : rest.length < src.length := by
  unfold nextTokenU at h
  have hdw : (src.dropWhile isWhitespace).length ≤ src.length := by
    have : (src.takeWhile isWhitespace).length + (src.dropWhile isWhitespace).length = src.length := by
      rw [← List.length_append, List.takeWhile_append_dropWhile]
    omega
  generalize src.dropWhile isWhitespace = s at h hdw
  simp only at h
  split at h
  · simp at h
  · rename_i c hc
    have hs : 0 < s.length := by
      cases s with
      | nil => simp at hc
      | cons a b => simp
    split at h
    · rename_i lex o hop
      have hne := findOp_ne_nil s lex o hop
      have : 0 < lex.length := List.length_pos_iff.mpr hne
      injection h with h; injection h with h1 h2
      rw [← h2, List.length_drop]; omega
    · have hsplit : (s.takeWhile (isTermCharU extra)).length + (s.dropWhile (isTermCharU extra)).length = s.length := by
        rw [← List.length_append, List.takeWhile_append_dropWhile]
      split at h
      · injection h with h; injection h with h1 h2; exact absurd h1.symm ht
      · rename_i hemp
        have : 0 < (s.takeWhile (isTermCharU extra)).length := by
          cases htw : s.takeWhile (isTermCharU extra) with
          | nil => simp [htw] at hemp
          | cons a b => simp
        split at h
        · split at h
          · injection h with h; injection h with h1 h2
            rw [← h2]; omega
          · injection h with h; injection h with h1 h2; exact absurd h1.symm ht
        · injection h with h; injection h with h1 h2
          rw [← h2]; omega

/-- any fuel above the length of the text gives the same tokens: `tokenizeU`'s fuel is never exhausted -/
theorem tokenizeU_fuel_irrelevant (extra : List Char) (f : Nat) : ∀ (g : Nat) (src : List Char),
    src.length < f → src.length < g → tokenizeU extra f src = tokenizeU extra g src := by
  induction f with
  | zero => intro g src h; omega
  | succ f ih =>
    intro g src hf hg
    cases g with
    | zero => omega
    | succ g =>
      rw [tokenizeU, tokenizeU]
      cases hnt : nextTokenU extra src with
      | none => rfl
      | some p =>
        obtain ⟨t, rest⟩ := p
        cases t with
        | err => rfl
        | term x =>
          have hc := nextTokenU_consumes extra src rest _ hnt (by simp)
          simp only
          rw [ih g rest (by omega) (by omega)]
        | op o =>
          have hc := nextTokenU_consumes extra src rest _ hnt (by simp)
          simp only
          rw [ih g rest (by omega) (by omega)]

/-- the token list holds the error token exactly when `firstTokenErrU` names its kind -/
theorem err_mem_tokenizeU (extra : List Char) (f : Nat) : ∀ (src : List Char), src.length < f →
    (Tok.err ∈ tokenizeU extra f src ↔ (firstTokenErrU extra f src).isSome) := by
  induction f with
  | zero => intro src h; omega
  | succ f ih =>
    intro src hf
    rw [tokenizeU, firstTokenErrU]
    cases hnt : nextTokenU extra src with
    | none => simp
    | some p =>
      obtain ⟨t, rest⟩ := p
      cases t with
      | err => simp
      | term x =>
        have hc := nextTokenU_consumes extra src rest _ hnt (by simp)
        simp only [List.mem_cons, reduceCtorEq, false_or]
        exact ih rest (by omega)
      | op o =>
        have hc := nextTokenU_consumes extra src rest _ hnt (by simp)
        simp only [List.mem_cons, reduceCtorEq, false_or]
        exact ih rest (by omega)

/-- what the two kinds mean, at the place of the error: after the white space the text starts with a
    character that begins no operator and no term (`InvalidCharacter`), or with an ASCII digit whose maximal
    term is not a C constant (`InvalidNumericConstant`) -/
theorem nextTokenU_err_kind (extra : List Char) (src rest : List Char)
    (h : nextTokenU extra src = some (.err, rest)) :
    let s := src.dropWhile isWhitespace
    rest = s ∧ findOp s = none ∧ ∃ c, s.head? = some c ∧
      ((nextTokenErrU extra src = .invalidCharacter ∧ isTermCharU extra c = false) ∨
       (nextTokenErrU extra src = .invalidNumericConstant ∧ isAsciiDigit c = true ∧
          parseConstant (s.takeWhile (isTermCharU extra)) = none)) := by
  unfold nextTokenU at h
  unfold nextTokenErrU
  generalize src.dropWhile isWhitespace = s at h
  simp only at h ⊢
  split at h
  · simp at h
  · rename_i c hc
    split at h
    · simp at h
    · rename_i hop
      split at h
      · rename_i hemp
        injection h with h; injection h with h1 h2
        refine ⟨h2.symm, hop, c, hc, Or.inl ⟨by simp [hemp], ?_⟩⟩
        cases s with
        | nil => simp at hc
        | cons a b =>
          simp only [List.head?_cons, Option.some.injEq] at hc
          subst hc
          by_cases ha : isTermCharU extra a = true
          · simp [ha] at hemp
          · simpa using ha
      · rename_i hemp
        split at h
        · rename_i hdig
          split at h
          · simp at h
          · rename_i hpc
            injection h with h; injection h with h1 h2
            exact ⟨h2.symm, hop, c, hc, Or.inr ⟨by simp [hemp], hdig, hpc⟩⟩
        · simp at h
/-! ## totality and causes of `evalStrU` (stated as property theorems in `Theorems.lean`) -/

theorem parseToks_wf (fuel : Nat) (toks : List Tok) (ast : List Ast)
    (h : parseToks fuel toks = .ok ast) : WF ast := by
  unfold parseToks at h
  split at h
  · simp at h
  · rename_i toks1 acc htree
    obtain ⟨t, ht, hacc⟩ := (parse_wf_aux fuel).2.1 _ _ _ _ _ htree
    split at h
    · simp at h
    · injection h with h
      rw [← h, hacc]; simpa using ht

theorem evalStrU_returns (extra : List Char) (src : List Char) (env : Env) :
    evalStrU extra src env ≠ .panic ∧ evalStrU extra src env ≠ .fuel ∧
    evalStrU extra src env ≠ .syntaxError .fuel ∧
    (∀ g, src.length < g → tokenizeU extra (src.length + 1) src = tokenizeU extra g src) := by
  have hnf : parseU extra src ≠ .error .fuel := by
    unfold parseU; exact parseToks_no_fuel _ _ (Nat.le_refl _)
  refine ⟨?_, ?_, ?_, fun g hg => tokenizeU_fuel_irrelevant extra _ g src (Nat.lt_succ_self _) hg⟩
  all_goals
    unfold evalStrU
    cases hparse : parseU extra src with
    | error e =>
      simp only [ne_eq, reduceCtorEq, not_false_eq_true, Outcome.syntaxError.injEq]
      try (intro he; subst he; exact hnf hparse)
    | ok ast =>
      have hwf : WF ast := parseToks_wf _ _ ast hparse
      have hr : (evalValue ast env).Returns :=
        Res.bind_returns _ _ (eval_returns_of_wf hwf ast.length env (Nat.le_refl _)) fun _ _ =>
          Res.bind_returns _ _ (intoValue_returns _ _) fun _ _ => trivial
      simp only
      generalize evalValue ast env = r at hr
      cases r with
      | ok a => simp [Outcome.ofRes]
      | error e => simp [Outcome.ofRes]
      | panic => exact hr.elim
      | fuel => exact hr.elim

theorem parseU_tokerr_kind (extra : List Char) (src : List Char) :
    (parseU extra src = .error .tokenError → ∃ k, firstTokenErrU extra (src.length + 1) src = some k) ∧
    (∀ rest, nextTokenU extra src = some (.err, rest) →
      rest = src.dropWhile isWhitespace ∧ findOp rest = none ∧ ∃ c, rest.head? = some c ∧
        ((nextTokenErrU extra src = .invalidCharacter ∧ isTermCharU extra c = false) ∨
         (nextTokenErrU extra src = .invalidNumericConstant ∧ isAsciiDigit c = true ∧
            parseConstant (rest.takeWhile (isTermCharU extra)) = none))) := by
  constructor
  · intro h
    unfold parseU at h
    have hmem := parseToks_tokerr _ _ h
    have := (err_mem_tokenizeU extra (src.length + 1) src (Nat.lt_succ_self _)).mp hmem
    exact Option.isSome_iff_exists.mp this
  · intro rest h
    obtain ⟨h1, h2, h3⟩ := nextTokenU_err_kind extra src rest h
    subst h1
    exact ⟨rfl, h2, h3⟩


theorem evalStrPortableU_some (extra : List Char) (src : List Char) (env : Env) (o : Outcome)
    (h : evalStrPortableU extra src env = some o) : o = evalStrU extra src env := by
  unfold evalStrPortableU at h
  unfold evalStrU
  cases hp : parseU extra src with
  | error e => rw [hp] at h; simp only [Option.some.injEq] at h; exact h.symm
  | ok ast =>
    rw [hp] at h
    simp only at h
    split at h
    · simp at h
    · simp only [Option.some.injEq] at h; exact h.symm

theorem outcomeCause_evalStrU (extra : List Char) (src : List Char) (env : Env) :
    (outcomeCause extra src (evalStrU extra src env) = none ↔ ∃ v env', evalStrU extra src env = .value v env') ∧
    outcomeCause extra src (evalStrU extra src env) ≠ some .portability ∧
    outcomeCause extra src (evalStrU extra src env) ≠ some (.syntax .tokenError) ∧
    outcomeCause extra src (evalStrU extra src env) ≠ some (.syntax .fuel) := by
  obtain ⟨hp, hf, hsf, _⟩ := evalStrU_returns extra src env
  have hk := (parseU_tokerr_kind extra src).1
  cases ho : evalStrU extra src env with
  | value v e => simp [outcomeCause]
  | panic => exact absurd ho hp
  | fuel => exact absurd ho hf
  | evalError e => simp [outcomeCause]
  | syntaxError e =>
    have hpe : parseU extra src = .error e := by
      unfold evalStrU at ho
      cases hq : parseU extra src with
      | error e' => rw [hq] at ho; simp only [Outcome.syntaxError.injEq] at ho; rw [ho]
      | ok ast => rw [hq] at ho; simp only at ho; cases hv : evalValue ast env <;> simp [hv, Outcome.ofRes] at ho
    cases e with
    | tokenError =>
      obtain ⟨k, hk⟩ := hk hpe
      simp [outcomeCause, hk]
    | fuel => exact absurd ho hsf
    | incompleteExpression => simp [outcomeCause]
    | missingOperator => simp [outcomeCause]
    | unclosedParenthesis => simp [outcomeCause]
    | questionWithoutColon => simp [outcomeCause]
    | colonWithoutQuestion => simp [outcomeCause]
    | invalidOperator => simp [outcomeCause]

end YashModel.Arith
