/-
  C03 — the text of a variable value: `parse_integer` (Model) reads exactly the signed C integer constants
  (Spec), for every string.
-/
import YashModel.Arith.ParseLemmas
namespace YashModel.Arith

theorem toDigit_eq (c : Char) (radix : Nat) (hr : radix ≤ 36) :
    toDigit c radix = if Spec.digitOf c < radix then some (Spec.digitOf c) else none := by
  unfold toDigit Spec.digitOf
  simp only [Char.le_def, UInt32.le_iff_toNat_le, Bool.and_eq_true, decide_eq_true_eq]
  have h0 : ('0' : Char).val.toNat = 48 := by decide
  have h9 : ('9' : Char).val.toNat = 57 := by decide
  have ha : ('a' : Char).val.toNat = 97 := by decide
  have hz : ('z' : Char).val.toNat = 122 := by decide
  have hA : ('A' : Char).val.toNat = 65 := by decide
  have hZ : ('Z' : Char).val.toNat = 90 := by decide
  have e0 : ('0' : Char).toNat = 48 := by decide
  have ea : ('a' : Char).toNat = 97 := by decide
  have eA : ('A' : Char).toNat = 65 := by decide
  have hc : c.toNat = c.val.toNat := rfl
  simp only [h0, h9, ha, hz, hA, hZ, e0, ea, eA, hc]
  by_cases h1 : 48 ≤ c.val.toNat ∧ c.val.toNat ≤ 57
  · simp only [h1, and_self, if_true]
  · by_cases h2 : 97 ≤ c.val.toNat ∧ c.val.toNat ≤ 122
    · simp only [h1, h2, and_self, if_true, if_false]
      have : c.val.toNat - 87 = c.val.toNat - 97 + 10 := by omega
      rw [this]
    · by_cases h3 : 65 ≤ c.val.toNat ∧ c.val.toNat ≤ 90
      · simp only [h1, h2, h3, and_self, if_true, if_false]
        have : c.val.toNat - 55 = c.val.toNat - 65 + 10 := by omega
        rw [this]
      · simp only [h1, h2, h3, if_false]
        have a1 : ¬ (36 < radix) := by omega
        have a2 : ¬ (99 < radix) := by omega
        simp [a1, a2]

theorem parseDigits_eq (radix : Nat) (hr : radix ≤ 36) (s : List Char) (acc : Nat) :
    parseDigits radix s acc =
      if s.all (fun c => decide (Spec.digitOf c < radix)) then
        some (s.foldl (fun a c => a * radix + Spec.digitOf c) acc)
      else none := by
  induction s generalizing acc with
  | nil => simp [parseDigits]
  | cons c cs ih =>
    rw [parseDigits, toDigit_eq c radix hr]
    by_cases h : Spec.digitOf c < radix
    · simp only [h, if_true, ih, List.all_cons, decide_true, Bool.true_and, List.foldl_cons]
    · simp [h]

theorem parseNat_eq (radix : Nat) (hr : radix ≤ 36) (s : List Char) :
    parseNat radix s = Spec.digitsValue radix s := by
  unfold parseNat Spec.digitsValue
  cases s with
  | nil => simp
  | cons c cs =>
    rw [parseDigits_eq radix hr]
    simp

theorem radixSplit_le (m : List Char) : (radixSplit m).2 ≤ 36 := by
  unfold radixSplit; split
  · simp
  · split
    · simp
    · split <;> simp

theorem constMagnitude_eq (m : List Char) :
    Spec.constMagnitude m = Spec.digitsValue (radixSplit m).2 (radixSplit m).1 := by
  unfold radixSplit stripPrefix
  match m with
  | [] => simp [Spec.constMagnitude]
  | [a] =>
    by_cases h0 : a = '0'
    · subst h0; simp [Spec.constMagnitude, List.isPrefixOf]
    · have h0' : ¬ '0' = a := fun e => h0 e.symm
      simp only [List.isPrefixOf, h0, h0']
      unfold Spec.constMagnitude
      split <;> simp_all
  | a :: b :: t =>
    by_cases h0 : a = '0'
    · subst h0
      by_cases hX : b = 'X'
      · subst hX; simp [Spec.constMagnitude, List.isPrefixOf]
      · by_cases hx : b = 'x'
        · subst hx; simp [Spec.constMagnitude, List.isPrefixOf]
        · have hX' : ¬ 'X' = b := fun e => hX e.symm
          have hx' : ¬ 'x' = b := fun e => hx e.symm
          unfold Spec.constMagnitude
          split <;> simp_all [List.isPrefixOf]
    · have h0' : ¬ '0' = a := fun e => h0 e.symm
      unfold Spec.constMagnitude
      split <;> simp_all [List.isPrefixOf]

theorem digitsValue_none_of_head (base : Nat) (hb : base ≤ 36) (ds : List Char)
    (h : ¬ (ds.head?.any isAsciiAlnum = true)) : Spec.digitsValue base ds = none := by
  cases ds with
  | nil => simp [Spec.digitsValue]
  | cons c t =>
    have hc : ¬ (Spec.digitOf c < base) := by
      intro hlt
      have := toDigit_eq c base hb
      rw [if_pos hlt] at this
      exact h (by simpa using toDigit_alnum c base _ this hb)
    simp [Spec.digitsValue, hc]

theorem fromStrRadix_neg (ds : List Char) (radix : Nat) :
    fromStrRadix ('-' :: ds) radix = (parseNat radix ds).bind fun n => checked (-(n : Int)) := by
  simp only [fromStrRadix, List.head?_cons, if_true, List.tail_cons]
  cases parseNat radix ds <;> rfl

theorem fromStrRadix_plain (ds : List Char) (radix : Nat) (h : ds.head?.any isAsciiAlnum = true) :
    fromStrRadix ds radix = (parseNat radix ds).bind fun n => checked (n : Int) := by
  cases ds with
  | nil => simp at h
  | cons c t =>
    simp only [List.head?_cons, Option.any_some] at h
    have hm : c ≠ '-' := by intro e; subst e; exact absurd h (by decide)
    have hp : c ≠ '+' := by intro e; subst e; exact absurd h (by decide)
    simp only [fromStrRadix, List.head?_cons, Option.some.injEq, hm, hp, if_false]
    cases parseNat radix (c :: t) <;> rfl

/-- magnitude without sign, Model side = Spec side -/
theorem magnitude_pos_eq (m : List Char) :
    (if (radixSplit m).1.head?.any isAsciiAlnum then fromStrRadix (radixSplit m).1 (radixSplit m).2 else none) =
    (Spec.constMagnitude m).bind fun n => Spec.represent (n : Int) := by
  rw [constMagnitude_eq]
  have hr := radixSplit_le m
  generalize (radixSplit m).1 = ds at *
  generalize (radixSplit m).2 = r at *
  by_cases h : ds.head?.any isAsciiAlnum = true
  · have e : (fun n : Nat => checked (n : Int)) = fun n : Nat => Spec.represent (n : Int) :=
      funext fun n => checked_eq_represent _
    rw [if_pos h, fromStrRadix_plain ds r h, parseNat_eq r hr, e]
  · rw [if_neg h, digitsValue_none_of_head r hr ds h]; rfl

/-- magnitude after a minus sign -/
theorem magnitude_neg_eq (m : List Char) :
    (if (radixSplit m).1.head?.any isAsciiAlnum then fromStrRadix ('-' :: (radixSplit m).1) (radixSplit m).2
      else none) =
    (Spec.constMagnitude m).bind fun n => Spec.represent (-(n : Int)) := by
  rw [constMagnitude_eq]
  have hr := radixSplit_le m
  generalize (radixSplit m).1 = ds at *
  generalize (radixSplit m).2 = r at *
  by_cases h : ds.head?.any isAsciiAlnum = true
  · have e : (fun n : Nat => checked (-(n : Int))) = fun n : Nat => Spec.represent (-(n : Int)) :=
      funext fun n => checked_eq_represent _
    rw [if_pos h, fromStrRadix_neg, parseNat_eq r hr, e]
  · rw [if_neg h, digitsValue_none_of_head r hr ds h]; rfl

/-- ☆ for EVERY string: the value the code gives a variable text is the value of the signed C integer
    constant it spells, and an error exactly when it is not one (or does not fit i64). -/
theorem parseInteger_eq_spec (s : List Char) : parseInteger s = Spec.signedConstValue s := by
  cases s with
  | nil =>
    have := magnitude_pos_eq []
    simpa [parseInteger, Spec.signedConstValue, Spec.constValue] using this
  | cons c t =>
    by_cases hm : c = '-'
    · subst hm
      have := magnitude_neg_eq t
      simpa [parseInteger, Spec.signedConstValue] using this
    · by_cases hp : c = '+'
      · subst hp
        have := magnitude_pos_eq t
        simpa [parseInteger, Spec.signedConstValue, Spec.constValue] using this
      · have := magnitude_pos_eq (c :: t)
        have hs : Spec.signedConstValue (c :: t) = Spec.constValue (c :: t) := by
          unfold Spec.signedConstValue
          split
          · rename_i heq; injection heq with h1 h2; exact absurd h1 hm
          · rename_i heq; injection heq with h1 h2; exact absurd h1 hp
          · rfl
        rw [hs]
        simpa [parseInteger, hm, hp, Spec.constValue] using this

/-! ### constants in an expression (`Tokens::next_token`) -/

theorem fromStrRadix_nosign (ds : List Char) (radix : Nat)
    (h : ds.head? ≠ some '-' ∧ ds.head? ≠ some '+') :
    fromStrRadix ds radix = (parseNat radix ds).bind fun n => checked (n : Int) := by
  unfold fromStrRadix
  simp only [h.1, h.2, if_false]
  cases parseNat radix ds <;> rfl

theorem parseConstant_eq_radixSplit (token : List Char) :
    parseConstant token = fromStrRadix (radixSplit token).1 (radixSplit token).2 := by
  unfold parseConstant radixSplit
  cases stripPrefix ['0', 'X'] token with
  | some ds => rfl
  | none =>
    cases stripPrefix ['0', 'x'] token with
    | some ds => rfl
    | none =>
      simp only
      split <;> rfl

theorem radixSplit_term (token : List Char) (hterm : ∀ c ∈ token, isTermChar c = true) :
    ∀ c ∈ (radixSplit token).1, isTermChar c = true := by
  unfold radixSplit stripPrefix
  split
  · rename_i ds h
    split at h
    · injection h with h; subst h
      intro c hc; exact hterm c (List.mem_of_mem_drop hc)
    · simp at h
  · split
    · rename_i ds h
      split at h
      · injection h with h; subst h
        intro c hc; exact hterm c (List.mem_of_mem_drop hc)
      · simp at h
    · split <;> exact hterm

/-- ☆ for every term made of term characters: the tokenizer's value of a numeric constant is the C value of
    the literal (`0x`/`0X` hex, leading `0` octal, decimal), and there is NO value — a token error — exactly
    when the literal is malformed or its value does not fit i64: never a wrapped value -/
theorem parseConstant_eq_spec (token : List Char) (hterm : ∀ c ∈ token, isTermChar c = true) :
    parseConstant token = Spec.constValue token := by
  rw [parseConstant_eq_radixSplit]
  unfold Spec.constValue
  rw [constMagnitude_eq]
  have hr := radixSplit_le token
  have hds := radixSplit_term token hterm
  generalize (radixSplit token).1 = ds at *
  generalize (radixSplit token).2 = r at *
  have hns : ds.head? ≠ some '-' ∧ ds.head? ≠ some '+' := by
    cases ds with
    | nil => simp
    | cons a t =>
      have ha := hds a (by simp)
      simp only [List.head?_cons, ne_eq, Option.some.injEq]
      exact ⟨fun e => by subst e; exact absurd ha (by decide), fun e => by subst e; exact absurd ha (by decide)⟩
  have e : (fun n : Nat => checked (n : Int)) = fun n : Nat => Spec.represent (n : Int) :=
    funext fun n => checked_eq_represent _
  rw [fromStrRadix_nosign ds r hns, parseNat_eq r hr, e]

end YashModel.Arith
