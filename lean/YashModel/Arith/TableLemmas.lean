/-
  C03 — the match-arm lists, constants and error enums re-extracted from eval.rs / token.rs / ast.rs / the shell's
  glue on every run (`Generated/ArithEvalTables.lean`, tools/tables/arith.py) against the definitions of
  `Model.lean` / `Unicode.lean` that transcribe them (wave 3).
-/
import YashModel.Arith.NumLemmas
import YashModel.Arith.Unicode
import YashModel.Generated.ArithEvalTables
namespace YashModel.Arith
open YashModel.Generated.ArithTables
open YashModel.Generated.ArithEvalTables

/-- the model's name for an arm of `apply_binary` -/
def armKind : Arm → BinKind
  | .values => .plain
  | .assign => .assign
  | .compound => .compound

/-- what an arm of `binary_result` whose body was recognised as `o` computes (before `unwrap_or_overflow`) -/
def opChecked : Op → Int → Int → Res (Option Int)
  | .lor, l, r => .ok (some (boolInt (l != 0 || r != 0)))
  | .land, l, r => .ok (some (boolInt (l != 0 && r != 0)))
  | .bor, l, r => .ok (some (bitOr l r))
  | .bxor, l, r => .ok (some (bitXor l r))
  | .band, l, r => .ok (some (bitAnd l r))
  | .eq, l, r => .ok (some (boolInt (l == r)))
  | .ne, l, r => .ok (some (boolInt (l != r)))
  | .lt, l, r => .ok (some (boolInt (decide (l < r))))
  | .gt, l, r => .ok (some (boolInt (decide (l > r))))
  | .le, l, r => .ok (some (boolInt (decide (l ≤ r))))
  | .ge, l, r => .ok (some (boolInt (decide (l ≥ r))))
  | .shl, l, r =>
    if l < 0 then .error .leftShiftingNegative
    else (requireNonNegative r).bind fun n =>
      .ok ((checkedShl l n).filter fun result => decide (result ≥ 0) && (result >>> n == l))
  | .shr, l, r => (requireNonNegative r).bind fun n => .ok (checkedShr l n)
  | .add, l, r => .ok (checked (l + r))
  | .sub, l, r => .ok (checked (l - r))
  | .mul, l, r => .ok (checked (l * r))
  | .div, l, r => if r = 0 then .error .divisionByZero else .ok (checkedDiv l r)
  | .rem, l, r => if r = 0 then .error .divisionByZero else .ok (checkedRem l r)
  | .second, _, r => .ok (some r)

/-- a chain of notation rules `(prefix, stripped?, radix)` applied to a text: the digits and their radix -/
def applyRadixRules : List (List Char × Bool × Nat) → Nat → List Char → List Char × Nat
  | [], dflt, s => (s, dflt)
  | (p, strip, radix) :: rest, dflt, s =>
    if p.isPrefixOf s then (if strip then s.drop p.length else s, radix) else applyRadixRules rest dflt s

def EvalErr.codeName : EvalErr → String
  | .invalidVariableValue => "InvalidVariableValue" | .overflow => "Overflow"
  | .divisionByZero => "DivisionByZero" | .leftShiftingNegative => "LeftShiftingNegative"
  | .reverseShifting => "ReverseShifting" | .assignmentToValue => "AssignmentToValue"
  | .getVariableError => "GetVariableError" | .assignVariableError => "AssignVariableError"

def SynErr.codeName : SynErr → String
  | .tokenError => "TokenError" | .incompleteExpression => "IncompleteExpression"
  | .missingOperator => "MissingOperator" | .unclosedParenthesis => "UnclosedParenthesis"
  | .questionWithoutColon => "QuestionWithoutColon" | .colonWithoutQuestion => "ColonWithoutQuestion"
  | .invalidOperator => "InvalidOperator" | .fuel => "(model fuel)"

def TokErr.codeName : TokErr → String
  | .invalidNumericConstant => "InvalidNumericConstant" | .invalidCharacter => "InvalidCharacter"

/-- the Spec's name for the operation of an arm -/
def opArith : Op → Spec.Arith
  | .lor => .lor | .land => .land | .bor => .bor | .bxor => .bxor | .band => .band | .eq => .eq | .ne => .ne
  | .lt => .lt | .gt => .gt | .le => .le | .ge => .ge | .shl => .shl | .shr => .shr | .add => .add | .sub => .sub
  | .mul => .mul | .div => .div | .rem => .rem | .second => .second

theorem head_zero_iff (s : List Char) : (['0'].isPrefixOf s = true) ↔ s.head? = some '0' := by
  cases s with
  | nil => decide
  | cons a b =>
    simp only [List.isPrefixOf, List.head?_cons, Option.some.injEq, Bool.and_true, beq_iff_eq]
    exact eq_comm

theorem radixSplit_eq_rules (m : List Char) :
    radixSplit m = applyRadixRules valueRadixRules valueDefaultRadix m := by
  unfold radixSplit stripPrefix
  simp only [valueRadixRules, valueDefaultRadix, applyRadixRules]
  by_cases h1 : ['0', 'X'].isPrefixOf m = true
  · simp [h1]
  · by_cases h2 : ['0', 'x'].isPrefixOf m = true
    · simp [h1, h2]
    · by_cases h3 : m.head? = some '0'
      · have := (head_zero_iff m).mpr h3
        simp [h1, h2, h3, this]
      · have : ¬ (['0'].isPrefixOf m = true) := fun h => h3 ((head_zero_iff m).mp h)
        simp [h1, h2, h3, this]

theorem parseConstant_eq_rules (token : List Char) :
    parseConstant token =
      fromStrRadix (applyRadixRules constantRadixRules constantDefaultRadix token).1
        (applyRadixRules constantRadixRules constantDefaultRadix token).2 := by
  rw [parseConstant_eq_radixSplit, radixSplit_eq_rules]
  rfl

theorem requireNonNegative_bits (v : Int) :
    requireNonNegative v =
      if v < 0 then .error .reverseShifting
      else if v ≥ 2 ^ shiftCountBits then .error .overflow else .ok v.toNat := by
  unfold requireNonNegative
  have : (2 : Int) ^ shiftCountBits = 4294967296 := by decide
  rw [this]
  by_cases h1 : v < 0
  · simp [h1]
  · by_cases h2 : v > 4294967295
    · have : v ≥ 4294967296 := by omega
      simp [h1, h2, this]
    · have : ¬ (v ≥ 4294967296) := by omega
      simp [h1, h2, this]

theorem isTermCharU_extra (extra : List Char) (c : Char) :
    isTermCharU extra c = (isAsciiAlnum c || termExtraChars.contains c || extra.contains c) := by
  simp only [isTermCharU, isTermChar, termExtraChars, List.contains_cons, List.contains_nil, Bool.or_false]

end YashModel.Arith
