/-
  C03 — from the reverse-Polish vector back to trees: `rpn` encodes a Spec tree the way the parser lays it
  out, `evalTree` is `eval` read on the tree.  (Proof devices; not part of the executable model.)
-/
import YashModel.Arith.ParseLemmas
namespace YashModel.Arith
open YashModel.Generated.ArithTables

/-- the vector `ast::parse` builds for a tree -/
def rpn : Spec.Expr → List Ast
  | .num v => [.term (.value v)]
  | .var x => [.term (.variable x)]
  | .pre op e => rpn e ++ [.pre op]
  | .post op e => rpn e ++ [.post op]
  | .bin op l r => rpn l ++ rpn r ++ [.binary op (rpn r).length]
  | .cond c t e => rpn c ++ rpn t ++ rpn e ++ [.conditional (rpn t).length (rpn e).length]

theorem rpn_wf (e : Spec.Expr) : WF (rpn e) := by
  induction e with
  | num v => exact WF.term _
  | var x => exact WF.term _
  | pre op e ih => exact WF.pre _ op ih
  | post op e ih => exact WF.post _ op ih
  | bin op l r ihl ihr => exact WF.binary _ _ op ihl ihr
  | cond c t e ihc iht ihe => exact WF.conditional _ _ _ ihc iht ihe

/-- `eval::eval` transcribed onto the tree (same branches, same order of evaluation) -/
def evalTree : Spec.Expr → Env → Res (Term × Env)
  | .num v, env => .ok (.value v, env)
  | .var x, env => .ok (.variable x, env)
  | .pre op e, env => (evalTree e env).bind fun (t, env1) => valueTerm (applyPrefix t op env1)
  | .post op e, env => (evalTree e env).bind fun (t, env1) => valueTerm (applyPostfix t op env1)
  | .bin op l r, env =>
    if op = .LogicalOr then
      (evalTree l env).bind fun (lt, env1) =>
      (intoValue lt env1).bind fun a =>
      if a ≠ 0 then .ok (.value 1, env1)
      else
        (evalTree r env1).bind fun (rt, env2) =>
        (intoValue rt env2).bind fun b =>
        (binaryResult .LogicalOr a b).bind fun v => .ok (.value v, env2)
    else if op = .LogicalAnd then
      (evalTree l env).bind fun (lt, env1) =>
      (intoValue lt env1).bind fun a =>
      if a = 0 then .ok (.value 0, env1)
      else
        (evalTree r env1).bind fun (rt, env2) =>
        (intoValue rt env2).bind fun b =>
        (binaryResult .LogicalAnd a b).bind fun v => .ok (.value v, env2)
    else
      (evalTree l env).bind fun (lt, env1) =>
      (evalTree r env1).bind fun (rt, env2) =>
      valueTerm (applyBinary lt rt op env2)
  | .cond c t e, env =>
    (evalTree c env).bind fun (ct, env1) =>
    (intoValue ct env1).bind fun a =>
    if a ≠ 0 then evalTree t env1 else evalTree e env1

theorem rpn_length_pos (e : Spec.Expr) : 0 < (rpn e).length := (rpn_wf e).length_pos

/-- `eval` on the encoding of a tree is the tree evaluator (for any fuel ≥ the vector length) -/
theorem eval_rpn_tree (e : Spec.Expr) : ∀ (f : Nat) (env : Env), (rpn e).length ≤ f →
    eval f (rpn e) env = evalTree e env := by
  induction e with
  | num v =>
    intro f env hf
    cases f with
    | zero => simp [rpn] at hf
    | succ f => simp [rpn, eval, splitLast, evalTree]
  | var x =>
    intro f env hf
    cases f with
    | zero => simp [rpn] at hf
    | succ f => simp [rpn, eval, splitLast, evalTree]
  | pre op e ih =>
    intro f env hf
    cases f with
    | zero => simp [rpn] at hf
    | succ f =>
      simp only [rpn, List.length_append, List.length_cons, List.length_nil] at hf
      rw [rpn, eval, splitLast_append, evalTree]
      simp only [ih f env (by omega)]
  | post op e ih =>
    intro f env hf
    cases f with
    | zero => simp [rpn] at hf
    | succ f =>
      simp only [rpn, List.length_append, List.length_cons, List.length_nil] at hf
      rw [rpn, eval, splitLast_append, evalTree]
      simp only [ih f env (by omega)]
  | bin op l r ihl ihr =>
    intro f env hf
    cases f with
    | zero => simp [rpn] at hf
    | succ f =>
      simp only [rpn, List.length_append, List.length_cons, List.length_nil] at hf
      have hl : ∀ env, eval f (rpn l) env = evalTree l env := fun env => ihl f env (by omega)
      have hr : ∀ env, eval f (rpn r) env = evalTree r env := fun env => ihr f env (by omega)
      rw [rpn, eval, splitLast_append, evalTree]
      simp only [splitAtEnd_append, hl, hr]
  | cond c t e ihc iht ihe =>
    intro f env hf
    cases f with
    | zero => simp [rpn] at hf
    | succ f =>
      simp only [rpn, List.length_append, List.length_cons, List.length_nil] at hf
      have hc : ∀ env, eval f (rpn c) env = evalTree c env := fun env => ihc f env (by omega)
      have ht : ∀ env, eval f (rpn t) env = evalTree t env := fun env => iht f env (by omega)
      have he : ∀ env, eval f (rpn e) env = evalTree e env := fun env => ihe f env (by omega)
      rw [rpn, eval, splitLast_append, evalTree]
      simp only [splitAtEnd_append, hc, ht, he]

end YashModel.Arith
