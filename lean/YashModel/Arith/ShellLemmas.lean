/-
  C03 — lemmas about `Shell.lean`: the evaluator over the `Env` interface is the proven evaluator when the
  environment is the `HashMap`; an assignment through the shell's environment is seen by every caller.
-/
import YashModel.Arith.Shell
namespace YashModel.Arith
open YashModel.Generated.ArithTables

theorem expandVariableG_hashMap (n : Name) (env : Env) :
    expandVariableG hashMapI n env = expandVariable n env := by
  unfold expandVariableG expandVariable hashMapI
  simp only [Res.bind]
  cases env.get n <;> rfl

theorem intoValueG_hashMap (t : Term) (env : Env) : intoValueG hashMapI t env = intoValue t env := by
  cases t with
  | value v => rfl
  | «variable» n => exact expandVariableG_hashMap n env

theorem assignG_hashMap (n : Name) (v : Int) (env : Env) : assignG hashMapI n v env = assign n v env := by
  unfold assignG assign hashMapI; rfl

theorem applyPrefixG_hashMap (t : Term) (op : PrefixOperator) (env : Env) :
    applyPrefixG hashMapI t op env = applyPrefix t op env := by
  cases op <;>
    simp only [applyPrefixG, applyPrefix, expandVariableG_hashMap, intoValueG_hashMap, assignG_hashMap]

theorem applyPostfixG_hashMap (t : Term) (op : PostfixOperator) (env : Env) :
    applyPostfixG hashMapI t op env = applyPostfix t op env := by
  simp only [applyPostfixG, applyPostfix, expandVariableG_hashMap, assignG_hashMap]
  cases op <;> rfl

theorem applyBinaryG_hashMap (l r : Term) (op : BinaryOperator) (env : Env) :
    applyBinaryG hashMapI l r op env = applyBinary l r op env := by
  unfold applyBinaryG applyBinary
  cases binKind op <;> simp only [expandVariableG_hashMap, intoValueG_hashMap, assignG_hashMap]

theorem valueTermG_eq (r : Res (Int × Env)) : valueTermG r = valueTerm r := rfl

theorem evalG_hashMap_aux (f : Nat) : ∀ (ast : List Ast) (env : Env),
    evalG hashMapI f ast env = eval f ast env := by
  induction f with
  | zero => intro ast env; rfl
  | succ f ih =>
    intro ast env
    rw [evalG, eval]
    cases splitLast ast with
    | none => rfl
    | some p =>
      obtain ⟨children, root⟩ := p
      cases root with
      | term t => rfl
      | pre op => simp only [ih, applyPrefixG_hashMap, valueTermG_eq]
      | post op => simp only [ih, applyPostfixG_hashMap, valueTermG_eq]
      | binary op rhsLen =>
        simp only
        cases splitAtEnd children rhsLen with
        | none => rfl
        | some q =>
          obtain ⟨l, r⟩ := q
          simp only [ih, applyBinaryG_hashMap, intoValueG_hashMap, valueTermG_eq]
      | conditional thenLen elseLen =>
        simp only
        cases splitAtEnd children elseLen with
        | none => rfl
        | some q =>
          obtain ⟨c2, e⟩ := q
          simp only
          cases splitAtEnd c2 thenLen with
          | none => rfl
          | some q2 =>
            obtain ⟨c, t⟩ := q2
            simp only [ih, intoValueG_hashMap]

theorem Ctx.find_put_self (c : Ctx) (n : Name) (v : SVar) : (c.put n v).find n = some v := by
  induction c with
  | nil => simp [Ctx.put, Ctx.find]
  | cons p rest ih =>
    obtain ⟨m, w⟩ := p
    unfold Ctx.put
    by_cases h : m = n
    · simp [h, Ctx.find]
    · simp only [h, if_false]
      unfold Ctx.find at ih ⊢
      simp only [List.find?_cons, h, decide_false]
      exact ih

/-- `visible` after an assignment through `get_or_create_variable(name, Global).assign(v)`: the variable
    now has the scalar value `v` -/
theorem visible_after_assign (cs : List Ctx) : ∀ (cs' : List Ctx) (n : Name) (v : List Char),
    assignVisibleOrGlobal cs n v = some cs' → visible cs' n = some ⟨.scalar v, false⟩ := by
  induction cs with
  | nil =>
    intro cs' n v h
    simp only [assignVisibleOrGlobal, Option.some.injEq] at h
    subst h
    simp [visible, Ctx.find]
  | cons c rest ih =>
    intro cs' n v h
    cases rest with
    | nil =>
      simp only [assignVisibleOrGlobal] at h
      have hput : visible [c.put n ⟨.scalar v, false⟩] n = some ⟨.scalar v, false⟩ := by
        simp [visible, Ctx.find_put_self]
      split at h
      · split at h
        · simp at h
        · injection h with h; subst h; exact hput
      · injection h with h; subst h; exact hput
    | cons r rs =>
      simp only [assignVisibleOrGlobal] at h
      split at h
      · split at h
        · simp at h
        · injection h with h; subst h
          simp [visible, Ctx.find_put_self]
      · rename_i hnone
        cases hr : assignVisibleOrGlobal (r :: rs) n v with
        | none => simp [hr] at h
        | some rest' =>
          simp only [hr, Option.map, Option.some.injEq] at h
          subst h
          simp only [visible, hnone]
          exact ih rest' n v hr

/-- where the assignment lands, seen from the caller of a function whose own context is `c`:
    * `c` has no variable `n` (no `typeset n`): `c` is untouched and, once it is popped, the caller sees `n = v`;
    * `c` has a writable `n`: only `c` changes — the caller's variables are exactly as before. -/
theorem assign_scope (c r : Ctx) (rs : List Ctx) (n : Name) (v : List Char) (cs' : List Ctx)
    (h : assignVisibleOrGlobal (c :: r :: rs) n v = some cs') :
    (c.find n = none → ∃ rest', cs' = c :: rest' ∧ visible rest' n = some ⟨.scalar v, false⟩) ∧
    (∀ w, c.find n = some w → cs' = c.put n ⟨.scalar v, false⟩ :: r :: rs ∧ w.readOnly = false) := by
  simp only [assignVisibleOrGlobal] at h
  refine ⟨fun hnone => ?_, fun w hw => ?_⟩
  · simp only [hnone] at h
    cases hr : assignVisibleOrGlobal (r :: rs) n v with
    | none => simp [hr] at h
    | some rest' =>
      simp only [hr, Option.map, Option.some.injEq] at h
      exact ⟨rest', h.symm, visible_after_assign (r :: rs) rest' n v hr⟩
  · simp only [hw] at h
    split at h
    · simp at h
    · rename_i hro
      injection h with h
      exact ⟨h.symm, by simpa using hro⟩

/-- a read-only visible variable refuses the assignment (→ `AssignReadOnlyError`, the expansion fails) -/
theorem assign_readonly (c : Ctx) (rest : List Ctx) (n : Name) (v : List Char) (w : SVar)
    (hw : c.find n = some w) (hro : w.readOnly = true) : assignVisibleOrGlobal (c :: rest) n v = none := by
  cases rest <;> simp [assignVisibleOrGlobal, hw, hro]

end YashModel.Arith
