/-
  C03 — lemmas about `Shell.lean`: the evaluator over the `Env` interface is the proven evaluator when the
  environment is the `HashMap`; an assignment through the shell's environment is seen by every caller.
-/
import YashModel.Arith.Shell
import YashModel.Arith.SemLemmas
namespace YashModel.Arith
open YashModel.Generated.ArithTables

theorem expandVariableG_hashMap (n : Name) (env : Env) :
    expandVariableG hashMapI n env = expandVariable n env := by
  unfold expandVariableG expandVariable hashMapI
  simp only [Res.bind]
  cases env.get n <;> rfl

theorem intoValueG_hashMap (t : Term) (env : Env) : intoValueG hashMapI t env = intoValue t env := by
  cases t with
  | value v => rfl
  | «variable» n => exact expandVariableG_hashMap n env

theorem assignG_hashMap (n : Name) (v : Int) (env : Env) : assignG hashMapI n v env = assign n v env := by
  unfold assignG assign hashMapI; rfl

theorem applyPrefixG_hashMap (t : Term) (op : PrefixOperator) (env : Env) :
    applyPrefixG hashMapI t op env = applyPrefix t op env := by
  cases op <;>
    simp only [applyPrefixG, applyPrefix, expandVariableG_hashMap, intoValueG_hashMap, assignG_hashMap]

theorem applyPostfixG_hashMap (t : Term) (op : PostfixOperator) (env : Env) :
    applyPostfixG hashMapI t op env = applyPostfix t op env := by
  simp only [applyPostfixG, applyPostfix, expandVariableG_hashMap, assignG_hashMap]
  cases op <;> rfl

theorem applyBinaryG_hashMap (l r : Term) (op : BinaryOperator) (env : Env) :
    applyBinaryG hashMapI l r op env = applyBinary l r op env := by
  unfold applyBinaryG applyBinary
  cases binKind op <;> simp only [expandVariableG_hashMap, intoValueG_hashMap, assignG_hashMap]

theorem valueTermG_eq (r : Res (Int × Env)) : valueTermG r = valueTerm r := rfl

theorem evalG_hashMap_aux (f : Nat) : ∀ (ast : List Ast) (env : Env),
    evalG hashMapI f ast env = eval f ast env := by
  induction f with
  | zero => intro ast env; rfl
  | succ f ih =>
    intro ast env
    rw [evalG, eval]
    cases splitLast ast with
    | none => rfl
    | some p =>
      obtain ⟨children, root⟩ := p
      cases root with
      | term t => rfl
      | pre op => simp only [ih, applyPrefixG_hashMap, valueTermG_eq]
      | post op => simp only [ih, applyPostfixG_hashMap, valueTermG_eq]
      | binary op rhsLen =>
        simp only
        cases splitAtEnd children rhsLen with
        | none => rfl
        | some q =>
          obtain ⟨l, r⟩ := q
          simp only [ih, applyBinaryG_hashMap, intoValueG_hashMap, valueTermG_eq]
      | conditional thenLen elseLen =>
        simp only
        cases splitAtEnd children elseLen with
        | none => rfl
        | some q =>
          obtain ⟨c2, e⟩ := q
          simp only
          cases splitAtEnd c2 thenLen with
          | none => rfl
          | some q2 =>
            obtain ⟨c, t⟩ := q2
            simp only [ih, intoValueG_hashMap]

theorem Ctx.find_put_self (c : Ctx) (n : Name) (v : SVar) : (c.put n v).find n = some v := by
  induction c with
  | nil => simp [Ctx.put, Ctx.find]
  | cons p rest ih =>
    obtain ⟨m, w⟩ := p
    unfold Ctx.put
    by_cases h : m = n
    · simp [h, Ctx.find]
    · simp only [h, if_false]
      unfold Ctx.find at ih ⊢
      simp only [List.find?_cons, h, decide_false]
      exact ih

/-- `visible` after an assignment through `get_or_create_variable(name, Global).assign(v)`: the variable
    now has the scalar value `v` -/
theorem visible_after_assign (cs : List Ctx) : ∀ (cs' : List Ctx) (n : Name) (v : List Char),
    assignVisibleOrGlobal cs n v = some cs' → visible cs' n = some ⟨.scalar v, false⟩ := by
  induction cs with
  | nil =>
    intro cs' n v h
    simp only [assignVisibleOrGlobal, Option.some.injEq] at h
    subst h
    simp [visible, Ctx.find]
  | cons c rest ih =>
    intro cs' n v h
    cases rest with
    | nil =>
      simp only [assignVisibleOrGlobal] at h
      have hput : visible [c.put n ⟨.scalar v, false⟩] n = some ⟨.scalar v, false⟩ := by
        simp [visible, Ctx.find_put_self]
      split at h
      · split at h
        · simp at h
        · injection h with h; subst h; exact hput
      · injection h with h; subst h; exact hput
    | cons r rs =>
      simp only [assignVisibleOrGlobal] at h
      split at h
      · split at h
        · simp at h
        · injection h with h; subst h
          simp [visible, Ctx.find_put_self]
      · rename_i hnone
        cases hr : assignVisibleOrGlobal (r :: rs) n v with
        | none => simp [hr] at h
        | some rest' =>
          simp only [hr, Option.map, Option.some.injEq] at h
          subst h
          simp only [visible, hnone]
          exact ih rest' n v hr

/-- where the assignment lands, seen from the caller of a function whose own context is `c`:
    * `c` has no variable `n` (no `typeset n`): `c` is untouched and, once it is popped, the caller sees `n = v`;
    * `c` has a writable `n`: only `c` changes — the caller's variables are exactly as before. -/
theorem assign_scope (c r : Ctx) (rs : List Ctx) (n : Name) (v : List Char) (cs' : List Ctx)
    (h : assignVisibleOrGlobal (c :: r :: rs) n v = some cs') :
    (c.find n = none → ∃ rest', cs' = c :: rest' ∧ visible rest' n = some ⟨.scalar v, false⟩) ∧
    (∀ w, c.find n = some w → cs' = c.put n ⟨.scalar v, false⟩ :: r :: rs ∧ w.readOnly = false) := by
  simp only [assignVisibleOrGlobal] at h
  refine ⟨fun hnone => ?_, fun w hw => ?_⟩
  · simp only [hnone] at h
    cases hr : assignVisibleOrGlobal (r :: rs) n v with
    | none => simp [hr] at h
    | some rest' =>
      simp only [hr, Option.map, Option.some.injEq] at h
      exact ⟨rest', h.symm, visible_after_assign (r :: rs) rest' n v hr⟩
  · simp only [hw] at h
    split at h
    · simp at h
    · rename_i hro
      injection h with h
      exact ⟨h.symm, by simpa using hro⟩

/-- a read-only visible variable refuses the assignment (→ `AssignReadOnlyError`, the expansion fails) -/
theorem assign_readonly (c : Ctx) (rest : List Ctx) (n : Name) (v : List Char) (w : SVar)
    (hw : c.find n = some w) (hro : w.readOnly = true) : assignVisibleOrGlobal (c :: rest) n v = none := by
  cases rest <;> simp [assignVisibleOrGlobal, hw, hro]

/-! ### what an evaluation can do to the store: only `assign_variable` changes it -/

theorem valueTermG_ok {σ : Type} {r : Res (Int × σ)} {t : Term} {s' : σ} (h : valueTermG r = .ok (t, s')) :
    ∃ v, r = .ok (v, s') := by
  unfold valueTermG at h
  obtain ⟨a, ha, hf⟩ := Res.bind_eq_ok h
  obtain ⟨v, e⟩ := a
  simp only [Res.ok.injEq, Prod.mk.injEq] at hf
  exact ⟨v, by rw [ha, hf.2]⟩

section Preserve
variable {σ : Type} (I : EnvI σ) (Q : σ → Prop)
  (hQ : ∀ s n v s', Q s → I.assign s n v = .ok s' → Q s')
include hQ

theorem assignG_preserves {n : Name} {v : Int} {s s' : σ} {w : Int} (hs : Q s)
    (h : assignG I n v s = .ok (w, s')) : Q s' := by
  unfold assignG at h
  obtain ⟨s1, h1, h2⟩ := Res.bind_eq_ok h
  simp only [Res.ok.injEq, Prod.mk.injEq] at h2
  rw [← h2.2]; exact hQ s n _ s1 hs h1

theorem applyPrefixG_preserves {t : Term} {op : PrefixOperator} {s s' : σ} {w : Int} (hs : Q s)
    (h : applyPrefixG I t op s = .ok (w, s')) : Q s' := by
  cases op <;> simp only [applyPrefixG] at h
  · obtain ⟨_, _, h⟩ := Res.bind_eq_ok h
    obtain ⟨_, _, h⟩ := Res.bind_eq_ok h
    obtain ⟨_, _, h⟩ := Res.bind_eq_ok h
    exact assignG_preserves I Q hQ hs h
  · obtain ⟨_, _, h⟩ := Res.bind_eq_ok h
    obtain ⟨_, _, h⟩ := Res.bind_eq_ok h
    obtain ⟨_, _, h⟩ := Res.bind_eq_ok h
    exact assignG_preserves I Q hQ hs h
  · obtain ⟨_, _, h⟩ := Res.bind_eq_ok h
    simp only [Res.ok.injEq, Prod.mk.injEq] at h; rw [← h.2]; exact hs
  · obtain ⟨_, _, h⟩ := Res.bind_eq_ok h
    obtain ⟨_, _, h⟩ := Res.bind_eq_ok h
    simp only [Res.ok.injEq, Prod.mk.injEq] at h; rw [← h.2]; exact hs
  · obtain ⟨_, _, h⟩ := Res.bind_eq_ok h
    simp only [Res.ok.injEq, Prod.mk.injEq] at h; rw [← h.2]; exact hs
  · obtain ⟨_, _, h⟩ := Res.bind_eq_ok h
    simp only [Res.ok.injEq, Prod.mk.injEq] at h; rw [← h.2]; exact hs

theorem applyPostfixG_preserves {t : Term} {op : PostfixOperator} {s s' : σ} {w : Int} (hs : Q s)
    (h : applyPostfixG I t op s = .ok (w, s')) : Q s' := by
  unfold applyPostfixG at h
  obtain ⟨_, _, h⟩ := Res.bind_eq_ok h
  obtain ⟨_, _, h⟩ := Res.bind_eq_ok h
  obtain ⟨_, _, h⟩ := Res.bind_eq_ok h
  obtain ⟨p, hp, h⟩ := Res.bind_eq_ok h
  obtain ⟨p1, p2⟩ := p
  simp only [Res.ok.injEq, Prod.mk.injEq] at h
  rw [← h.2]; exact assignG_preserves I Q hQ hs hp

theorem applyBinaryG_preserves {l r : Term} {op : BinaryOperator} {s s' : σ} {w : Int} (hs : Q s)
    (h : applyBinaryG I l r op s = .ok (w, s')) : Q s' := by
  unfold applyBinaryG at h
  split at h
  · obtain ⟨_, _, h⟩ := Res.bind_eq_ok h
    obtain ⟨_, _, h⟩ := Res.bind_eq_ok h
    obtain ⟨_, _, h⟩ := Res.bind_eq_ok h
    simp only [Res.ok.injEq, Prod.mk.injEq] at h; rw [← h.2]; exact hs
  · obtain ⟨_, _, h⟩ := Res.bind_eq_ok h
    obtain ⟨_, _, h⟩ := Res.bind_eq_ok h
    exact assignG_preserves I Q hQ hs h
  · obtain ⟨_, _, h⟩ := Res.bind_eq_ok h
    obtain ⟨_, _, h⟩ := Res.bind_eq_ok h
    obtain ⟨_, _, h⟩ := Res.bind_eq_ok h
    obtain ⟨_, _, h⟩ := Res.bind_eq_ok h
    exact assignG_preserves I Q hQ hs h

/-- an evaluation changes the state only through `assign_variable` -/
theorem evalG_preserves (f : Nat) : ∀ (ast : List Ast) (s s' : σ) (t : Term), Q s →
    evalG I f ast s = .ok (t, s') → Q s' := by
  induction f with
  | zero => intro ast s s' t _ h; simp [evalG] at h
  | succ f ih =>
    intro ast s s' t hs h
    rw [evalG] at h
    cases hsl : splitLast ast with
    | none => simp [hsl] at h
    | some p =>
      obtain ⟨children, root⟩ := p
      simp only [hsl] at h
      cases root with
      | term tm => simp only [Res.ok.injEq, Prod.mk.injEq] at h; rw [← h.2]; exact hs
      | pre op =>
        simp only at h
        obtain ⟨a, ha, h⟩ := Res.bind_eq_ok h
        obtain ⟨t1, s1⟩ := a
        obtain ⟨v, hv⟩ := valueTermG_ok h
        exact applyPrefixG_preserves I Q hQ (ih _ _ _ _ hs ha) hv
      | post op =>
        simp only at h
        obtain ⟨a, ha, h⟩ := Res.bind_eq_ok h
        obtain ⟨t1, s1⟩ := a
        obtain ⟨v, hv⟩ := valueTermG_ok h
        exact applyPostfixG_preserves I Q hQ (ih _ _ _ _ hs ha) hv
      | binary op rhsLen =>
        simp only at h
        cases hsp : splitAtEnd children rhsLen with
        | none => simp [hsp] at h
        | some q =>
          obtain ⟨l, r⟩ := q
          simp only [hsp] at h
          by_cases hor : op = .LogicalOr
          · rw [if_pos hor] at h
            obtain ⟨a, ha, h⟩ := Res.bind_eq_ok h
            obtain ⟨lt, s1⟩ := a
            obtain ⟨lv, _, h⟩ := Res.bind_eq_ok h
            have h1 := ih _ _ _ _ hs ha
            by_cases hz : lv ≠ 0
            · rw [if_pos hz] at h
              simp only [Res.ok.injEq, Prod.mk.injEq] at h; rw [← h.2]; exact h1
            · rw [if_neg hz] at h
              obtain ⟨b, hb, h⟩ := Res.bind_eq_ok h
              obtain ⟨rt, s2⟩ := b
              obtain ⟨_, _, h⟩ := Res.bind_eq_ok h
              obtain ⟨_, _, h⟩ := Res.bind_eq_ok h
              simp only [Res.ok.injEq, Prod.mk.injEq] at h; rw [← h.2]; exact ih _ _ _ _ h1 hb
          · rw [if_neg hor] at h
            by_cases hand : op = .LogicalAnd
            · rw [if_pos hand] at h
              obtain ⟨a, ha, h⟩ := Res.bind_eq_ok h
              obtain ⟨lt, s1⟩ := a
              obtain ⟨lv, _, h⟩ := Res.bind_eq_ok h
              have h1 := ih _ _ _ _ hs ha
              by_cases hz : lv = 0
              · rw [if_pos hz] at h
                simp only [Res.ok.injEq, Prod.mk.injEq] at h; rw [← h.2]; exact h1
              · rw [if_neg hz] at h
                obtain ⟨b, hb, h⟩ := Res.bind_eq_ok h
                obtain ⟨rt, s2⟩ := b
                obtain ⟨_, _, h⟩ := Res.bind_eq_ok h
                obtain ⟨_, _, h⟩ := Res.bind_eq_ok h
                simp only [Res.ok.injEq, Prod.mk.injEq] at h; rw [← h.2]; exact ih _ _ _ _ h1 hb
            · rw [if_neg hand] at h
              obtain ⟨a, ha, h⟩ := Res.bind_eq_ok h
              obtain ⟨lt, s1⟩ := a
              obtain ⟨b, hb, h⟩ := Res.bind_eq_ok h
              obtain ⟨rt, s2⟩ := b
              obtain ⟨v, hv⟩ := valueTermG_ok h
              exact applyBinaryG_preserves I Q hQ (ih _ _ _ _ (ih _ _ _ _ hs ha) hb) hv
      | conditional thenLen elseLen =>
        simp only at h
        cases hsp : splitAtEnd children elseLen with
        | none => simp [hsp] at h
        | some q =>
          obtain ⟨c2, e⟩ := q
          simp only [hsp] at h
          cases hsp2 : splitAtEnd c2 thenLen with
          | none => simp [hsp2] at h
          | some q2 =>
            obtain ⟨c, th⟩ := q2
            simp only [hsp2] at h
            obtain ⟨a, ha, h⟩ := Res.bind_eq_ok h
            obtain ⟨ct, s1⟩ := a
            obtain ⟨cv, _, h⟩ := Res.bind_eq_ok h
            have h1 := ih _ _ _ _ hs ha
            by_cases hz : cv ≠ 0
            · rw [if_pos hz] at h; exact ih _ _ _ _ h1 h
            · rw [if_neg hz] at h; exact ih _ _ _ _ h1 h

theorem evalStrG_preserves {portable : Bool} {src : List Char} {s s' : σ} {v : Int} (hs : Q s)
    (h : evalStrG I portable src s = .ok (v, s')) : Q s' := by
  unfold evalStrG at h
  split at h
  · simp at h
  · split at h
    · simp at h
    · rename_i ast _ _
      cases hv : evalValueG I ast s with
      | ok r =>
        simp only [hv, Except.ok.injEq] at h
        subst h
        unfold evalValueG at hv
        obtain ⟨a, ha, hv⟩ := Res.bind_eq_ok hv
        obtain ⟨t, s1⟩ := a
        obtain ⟨_, _, hv⟩ := Res.bind_eq_ok hv
        simp only [Res.ok.injEq, Prod.mk.injEq] at hv
        rw [← hv.2]; exact evalG_preserves I Q hQ _ _ _ _ _ hs ha
      | error e => simp [hv] at h
      | panic => simp [hv] at h
      | fuel => simp [hv] at h

end Preserve

/-! ### the function's own context keeps its names: what it did not declare it cannot shadow -/

theorem Ctx.find_put_ne (c : Ctx) (n x : Name) (v : SVar) (h : x ≠ n) : (c.put n v).find x = c.find x := by
  induction c with
  | nil => simp [Ctx.put, Ctx.find, List.find?, Ne.symm h]
  | cons p rest ih =>
    obtain ⟨m, w⟩ := p
    unfold Ctx.put
    by_cases hm : m = n
    · subst hm
      simp [Ctx.find, List.find?, Ne.symm h]
    · simp only [hm, if_false]
      unfold Ctx.find at ih ⊢
      by_cases hx : m = x
      · simp [List.find?, hx]
      · simp only [List.find?_cons, hx, decide_false]
        exact ih

theorem assign_length (cs : List Ctx) : ∀ cs' n v, cs ≠ [] → assignVisibleOrGlobal cs n v = some cs' →
    cs'.length = cs.length := by
  induction cs with
  | nil => intro cs' n v h; exact absurd rfl h
  | cons c rest ih =>
    intro cs' n v _ h
    cases rest with
    | nil =>
      simp only [assignVisibleOrGlobal] at h
      split at h
      · split at h
        · simp at h
        · injection h with h; subst h; rfl
      · injection h with h; subst h; rfl
    | cons r rs =>
      simp only [assignVisibleOrGlobal] at h
      split at h
      · split at h
        · simp at h
        · injection h with h; subst h; rfl
      · cases hr : assignVisibleOrGlobal (r :: rs) n v with
        | none => simp [hr] at h
        | some rest' =>
          simp only [hr, Option.map, Option.some.injEq] at h
          subst h
          simp only [List.length_cons]
          rw [ih rest' n v (by simp) hr]
          rfl

/-- inside a function (two or more contexts) whose own context does not have the name `x` -/
def NoLocal (x : Name) (st : Store) : Prop :=
  ∃ c r rs, st.ctxs = c :: r :: rs ∧ c.find x = none

theorem noLocal_assign (x : Name) (st st' : Store) (n : Name) (v : List Char) (h : NoLocal x st)
    (ha : shellI.assign st n v = .ok st') : NoLocal x st' := by
  obtain ⟨c, r, rs, hc, hx⟩ := h
  simp only [shellI] at ha
  cases hs : assignVisibleOrGlobal st.ctxs n v with
  | none => simp [hs] at ha
  | some cs =>
    simp only [hs, Res.ok.injEq] at ha
    subst ha
    rw [hc] at hs
    obtain ⟨h1, h2⟩ := assign_scope c r rs n v cs hs
    cases hf : c.find n with
    | none =>
      obtain ⟨rest', hcs, _⟩ := h1 hf
      have hlen := assign_length (c :: r :: rs) cs n v (by simp) hs
      rw [hcs] at hlen
      cases rest' with
      | nil => simp at hlen
      | cons r' rs' => exact ⟨c, r', rs', hcs, hx⟩
    | some w =>
      obtain ⟨hcs, _⟩ := h2 w hf
      have hne : x ≠ n := by intro e; subst e; rw [hx] at hf; simp at hf
      exact ⟨c.put n ⟨.scalar v, false⟩, r, rs, hcs, by rw [Ctx.find_put_ne c n x _ hne]; exact hx⟩

theorem noLocal_expand (x : Name) (f : Nat) :
    (∀ st status text t st' s', NoLocal x st → substText f st status text = .ok (t, st', s') → NoLocal x st') ∧
    (∀ st status text v st' s', NoLocal x st → expandArith f st status text = .ok (v, st', s') → NoLocal x st') := by
  induction f with
  | zero =>
    refine ⟨?_, ?_⟩
    · intro st status text t st' s' _ h; simp [substText] at h
    · intro st status text v st' s' _ h; simp [expandArith] at h
  | succ f ih =>
    obtain ⟨ihS, ihE⟩ := ih
    refine ⟨?_, ?_⟩
    · intro st status text t st' s' hn h
      have hmap : ∀ (g : List Char × Store × Nat → List Char × Store × Nat)
          (hg : ∀ p, (g p).2.1 = p.2.1) st0 status0 text0,
          (substText f st0 status0 text0).map g = .ok (t, st', s') → NoLocal x st0 → NoLocal x st' := by
        intro g hg st0 status0 text0 hm hn0
        cases hr : substText f st0 status0 text0 with
        | error e => simp [hr, Except.map] at hm
        | ok p =>
          obtain ⟨t1, st1, s1⟩ := p
          simp only [hr, Except.map, Except.ok.injEq] at hm
          have := hg (t1, st1, s1)
          rw [hm] at this
          simp only at this
          rw [this]; exact ihS _ _ _ _ _ _ hn0 hr
      unfold substText at h
      repeat' split at h
      all_goals (try (have hfe := ‹f + 1 = Nat.succ _›; injection hfe with hfe; subst hfe))
      all_goals (try dsimp only at h)
      all_goals (repeat' split at h)
      all_goals first
        | (simp at h; done)
        | (simp only [Except.ok.injEq, Prod.mk.injEq] at h; rw [← h.2.1]; exact hn)
        | (exact hmap _ (fun ⟨_, _, _⟩ => rfl) _ _ _ h hn)
        | (exact hmap _ (fun ⟨_, _, _⟩ => rfl) _ _ _ h (ihE _ _ _ _ _ _ hn (by assumption)))
        | (exact ihS _ _ _ _ _ _ hn h)
    · intro st status text v st' s' hn h
      unfold expandArith at h
      cases hs : substText f st status text with
      | error e => simp [hs] at h
      | ok p =>
        obtain ⟨t, st1, status1⟩ := p
        simp only [hs] at h
        cases he : evalStrG shellI st1.portable t st1 with
        | error e => simp [he] at h
        | ok q =>
          obtain ⟨v', st2⟩ := q
          simp only [he, Except.ok.injEq, Prod.mk.injEq] at h
          rw [← h.2.1]
          exact evalStrG_preserves shellI (NoLocal x) (fun s n w s' hq ha => noLocal_assign x s s' n w hq ha)
            (ihS _ _ _ _ _ _ hn hs) he

theorem noLocal_runBody (x : Name) (es : List (List Char)) : ∀ st vals st', NoLocal x st →
    runBody st es = (vals, .ok st') → NoLocal x st' := by
  induction es with
  | nil => intro st vals st' hn h; simp only [runBody, Prod.mk.injEq, Except.ok.injEq] at h; rw [← h.2]; exact hn
  | cons e rest ih =>
    intro st vals st' hn h
    unfold runBody at h
    cases he : expandArith (2 * e.length + 4) st 0 e with
    | error err => simp [he] at h
    | ok p =>
      obtain ⟨v, st1, status⟩ := p
      simp only [he, Prod.mk.injEq] at h
      exact ih st1 _ st' ((noLocal_expand x _).2 _ _ _ _ _ _ hn he) (Prod.ext rfl h.2)

/-- a name the function did not declare: what the function sees at its end is what its caller sees after
    the function's context is popped -/
theorem fn_sees_what_caller_sees (st0 : Store) (locals : Ctx) (es : List (List Char)) (x : Name)
    (vals : List (List Char × Nat)) (st1 : Store) (hne : st0.ctxs ≠ []) (hx : locals.find x = none)
    (h : runBody (pushLocals st0 locals) es = (vals, .ok st1)) :
    showVisible st1 x = showVisible (popCtx st1) x := by
  have h0 : NoLocal x (pushLocals st0 locals) := by
    cases hc : st0.ctxs with
    | nil => exact absurd hc hne
    | cons r rs => exact ⟨locals, r, rs, by simp [pushLocals, hc], hx⟩
  obtain ⟨c, r, rs, hc, hcx⟩ := noLocal_runBody x es _ vals st1 h0 h
  unfold showVisible popCtx
  simp only [hc, List.drop_succ_cons, List.drop_zero, visible, hcx]

theorem evalValueG_hashMap (ast : List Ast) (env : Env) : evalValueG hashMapI ast env = evalValue ast env := by
  unfold evalValueG evalValue
  rw [evalG_hashMap_aux]
  simp only [intoValueG_hashMap]

end YashModel.Arith
