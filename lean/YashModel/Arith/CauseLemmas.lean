/-
  C03 — which error a failing operation reports (wave 3): `binary_result` against `Spec.why`.
-/
import YashModel.Arith.Lemmas
namespace YashModel.Arith
open YashModel.Generated.ArithTables

/-- the `EvalError` that names a reason -/
def reasonErr : Spec.Reason → EvalErr
  | .divisionByZero => .divisionByZero
  | .leftShiftOfNegative => .leftShiftingNegative
  | .negativeShiftCount => .reverseShifting
  | .unrepresentable => .overflow

theorem why_none_iff (a : Spec.Arith) (l r : Int) :
    Spec.why a l r = none ↔ (Spec.definedA a l r ∧ Spec.InRange (Spec.exactA a l r)) := by
  unfold Spec.why
  constructor
  · intro h
    split at h
    · simp at h
    · split at h
      · simp at h
      · split at h
        · simp at h
        · split at h
          · simp at h
          · rename_i hd; simpa using hd
  · intro hd
    have h1 : ¬ ((a = .div ∨ a = .rem) ∧ r = 0) := by
      rintro ⟨ha | ha, hr⟩ <;> subst ha <;> simp [Spec.definedA, hr] at hd
    have h2 : ¬ (a = .shl ∧ l < 0) := by
      rintro ⟨ha, hl⟩; subst ha; simp only [Spec.definedA] at hd; omega
    have h3 : ¬ ((a = .shl ∨ a = .shr) ∧ r < 0) := by
      rintro ⟨ha | ha, hr⟩ <;> subst ha <;> simp only [Spec.definedA] at hd <;> omega
    simp [h1, h2, h3, hd]

theorem ofOption_error {α : Type} (o : Option α) (e0 e : EvalErr) (h : Res.ofOption o e0 = .error e) : e = e0 := by
  cases o <;> simp [Res.ofOption] at h; exact h.symm

theorem shl_error_cause (l r : Int) (e : EvalErr) (f : Nat → Option Int)
    (h : ((if l < 0 then Res.error EvalErr.leftShiftingNegative
          else (requireNonNegative r).bind fun n => Res.ok (f n)).bind
        fun o => Res.ofOption o EvalErr.overflow) = .error e) :
    e = if l < 0 then .leftShiftingNegative else if r < 0 then .reverseShifting else .overflow := by
  unfold requireNonNegative at h
  by_cases h0 : l < 0
  · simp only [h0, if_true, Res.bind] at h ⊢; injection h with h; exact h.symm
  · by_cases h1 : r < 0
    · simp only [h0, h1, if_true, if_false, Res.bind] at h ⊢; injection h with h; exact h.symm
    · by_cases h2 : r > 4294967295
      · simp only [h0, h1, h2, if_true, if_false, Res.bind] at h ⊢; injection h with h; exact h.symm
      · simp only [h0, h1, h2, if_false, Res.bind] at h ⊢
        exact ofOption_error _ _ _ h

theorem shr_error_cause (r : Int) (e : EvalErr) (f : Nat → Option Int)
    (h : (((requireNonNegative r).bind fun n => Res.ok (f n)).bind
        fun o => Res.ofOption o EvalErr.overflow) = .error e) :
    e = if r < 0 then .reverseShifting else .overflow := by
  unfold requireNonNegative at h
  by_cases h1 : r < 0
  · simp only [h1, if_true, Res.bind] at h ⊢; injection h with h; exact h.symm
  · by_cases h2 : r > 4294967295
    · simp only [h1, h2, if_true, if_false, Res.bind] at h ⊢; injection h with h; exact h.symm
    · simp only [h1, h2, if_false, Res.bind] at h ⊢
      exact ofOption_error _ _ _ h

theorem div_error_cause (r : Int) (e : EvalErr) (x : Option Int)
    (h : ((if r = 0 then Res.error EvalErr.divisionByZero else Res.ok x).bind
        fun o => Res.ofOption o EvalErr.overflow) = .error e) :
    e = if r = 0 then .divisionByZero else .overflow := by
  by_cases h0 : r = 0
  · simp only [h0, if_true, Res.bind] at h ⊢; injection h with h; exact h.symm
  · simp only [h0, if_false, Res.bind] at h ⊢
    exact ofOption_error _ _ _ h

/-- the error `binary_result` reports is the first check that fails, in the order of the code -/
theorem binaryResult_error_cause (op : BinaryOperator) (l r : Int) (e : EvalErr)
    (h : binaryResult op l r = .error e) :
    e = (if (Spec.arithOf op = .div ∨ Spec.arithOf op = .rem) ∧ r = 0 then .divisionByZero
         else if Spec.arithOf op = .shl ∧ l < 0 then .leftShiftingNegative
         else if (Spec.arithOf op = .shl ∨ Spec.arithOf op = .shr) ∧ r < 0 then .reverseShifting
         else .overflow) := by
  cases op <;> simp only [binaryResult, binaryChecked, Spec.arithOf] at h ⊢
  case ShiftLeft => simpa using shl_error_cause l r e _ h
  case ShiftLeftAssign => simpa using shl_error_cause l r e _ h
  case ShiftRight => simpa using shr_error_cause r e _ h
  case ShiftRightAssign => simpa using shr_error_cause r e _ h
  case Divide => simpa using div_error_cause r e _ h
  case DivideAssign => simpa using div_error_cause r e _ h
  case Remainder => simpa using div_error_cause r e _ h
  case RemainderAssign => simpa using div_error_cause r e _ h
  all_goals
    simp only [Res.bind, Res.ofOption] at h
    (repeat' split at h) <;> simp_all

theorem binaryResult_why (op : BinaryOperator) (l r : Int) (hl : InRange l) (hr : InRange r) :
    binaryResult op l r =
      (match Spec.why (Spec.arithOf op) l r with
        | none => .ok (Spec.exactOp op l r)
        | some q => .error (reasonErr q)) := by
  have hs := binaryResult_spec op l r hl hr
  cases hw : Spec.why (Spec.arithOf op) l r with
  | none =>
    have hd := (why_none_iff _ _ _).mp hw
    have ha : Spec.arith op l r = some (Spec.exactOp op l r) := by
      unfold Spec.arith Spec.definedOp Spec.exactOp; simp [hd]
    rw [ha] at hs
    cases hb : binaryResult op l r with
    | ok v => simp [hb, Res.value?] at hs; simp [hs]
    | error e => simp [hb, Res.value?] at hs
    | panic => simp [hb, Res.Returns] at hs
    | fuel => simp [hb, Res.Returns] at hs
  | some q =>
    have hd : ¬ (Spec.definedA (Spec.arithOf op) l r ∧ Spec.InRange (Spec.exactA (Spec.arithOf op) l r)) := by
      intro hd; rw [(why_none_iff _ _ _).mpr hd] at hw; simp at hw
    have ha : Spec.arith op l r = none := by
      unfold Spec.arith Spec.definedOp Spec.exactOp; simp only [hd, if_false]
    rw [ha] at hs
    cases hb : binaryResult op l r with
    | ok v => simp [hb, Res.value?] at hs
    | panic => simp [hb, Res.Returns] at hs
    | fuel => simp [hb, Res.Returns] at hs
    | error e =>
      have he := binaryResult_error_cause op l r e hb
      unfold Spec.why at hw
      simp only
      (repeat' split at hw) <;> (try (injection hw with hw; subst hw)) <;> simp_all [reasonErr]

end YashModel.Arith
