/-
  C03 — `parse_render` with redundant parentheses: any number of extra pairs around any subexpression
  (`Deco` gives the number per subexpression) on top of the parentheses the grammar needs.  Same invariants
  and case analysis as `Render.lean`, with a unit being `parenN n (renderD d e)`.
-/
import YashModel.Arith.Render
namespace YashModel.Arith
open YashModel.Generated.ArithTables

def parenN : Nat → List Tok → List Tok
  | 0, ts => ts
  | n + 1, ts => [.op .OpenParen] ++ parenN n ts ++ [.op .CloseParen]

/-- how many redundant pairs of parentheses stand around each subexpression -/
abbrev Deco := Spec.Expr → Nat

/-- the tokens of a tree: needed parentheses as in `render`, plus `d x` redundant pairs around every
    operand `x` -/
def renderD (d : Deco) : Spec.Expr → List Tok
  | .num v => [.term (.value v)]
  | .var x => [.term (.variable x)]
  | .pre op e => .op (opOfPrefix op) :: parenN (d e + if level e < 13 then 1 else 0) (renderD d e)
  | .post op e => parenN (d e + if level e < 14 then 1 else 0) (renderD d e) ++ [.op (opOfPostfix op)]
  | .bin b l r =>
    if assocOf b = .Left then
      parenN (d l + if level l < bprec b then 1 else 0) (renderD d l) ++ [.op (opOfBinary b)] ++
        parenN (d r + if level r ≤ bprec b then 1 else 0) (renderD d r)
    else
      parenN (d l + if level l < 13 then 1 else 0) (renderD d l) ++ [.op (opOfBinary b)] ++
        parenN (d r) (renderD d r)
  | .cond c t e =>
    parenN (d c + if level c ≤ 2 then 1 else 0) (renderD d c) ++ [.op .Question] ++
      parenN (d t) (renderD d t) ++ [.op .Colon] ++ parenN (d e + if level e < 2 then 1 else 0) (renderD d e)

/-- the whole text: redundant pairs around the whole expression too -/
def renderTop (d : Deco) (e : Spec.Expr) : List Tok := parenN (d e) (renderD d e)

theorem need_or {n : Nat} {C P : Prop} [Decidable C] (h : ¬ C → P) : 1 ≤ n + (if C then 1 else 0) ∨ P := by
  by_cases hc : C
  · exact Or.inl (by simp [hc])
  · exact Or.inr (h hc)

theorem need_zero {n : Nat} {C : Prop} [Decidable C] (h : n + (if C then 1 else 0) = 0) : ¬ C := by
  intro hc; simp [hc] at h

def LeafUD (d : Deco) (e : Spec.Expr) : Prop :=
  13 ≤ level e → ∀ (f : Nat) (rest : List Tok) (acc : List Ast) (r : Except SynErr PState),
    (14 ≤ level e ∨ NoPostfix rest) → parseLeaf f (renderD d e ++ rest) acc = r → r ≠ .error .fuel →
    r = .ok (parsePostfix rest (acc ++ rpn e))

def TreeUD (d : Deco) (e : Spec.Expr) : Prop :=
  ∀ (f m : Nat) (rest : List Tok) (acc : List Ast) (r : Except SynErr PState),
    1 ≤ m → m ≤ level e → NoPostfix rest → Stops (stopLevel e) rest →
    parseTree f (renderD d e ++ rest) m acc = r → r ≠ .error .fuel →
    ∃ f', parseLoop f' rest m (acc ++ rpn e) = r

/-- a token list that `parse_tree 1` reads as the tree `e` when a closing token follows -/
def InnerTree (ts : List Tok) (e : Spec.Expr) : Prop :=
  ∀ (f : Nat) (rest : List Tok) (acc : List Ast) (r : Except SynErr PState),
    NoPostfix rest → (∀ k, 1 ≤ k → Stops k rest) → parseTree f (ts ++ rest) 1 acc = r → r ≠ .error .fuel →
    ∃ f', parseLoop f' rest 1 (acc ++ rpn e) = r

/-- a token list that `parse_leaf` reads as the tree `e` (then the postfix operators that follow) -/
def LeafOf (ts : List Tok) (e : Spec.Expr) : Prop :=
  ∀ (f : Nat) (rest : List Tok) (acc : List Ast) (r : Except SynErr PState),
    parseLeaf f (ts ++ rest) acc = r → r ≠ .error .fuel → r = .ok (parsePostfix rest (acc ++ rpn e))

theorem leafOf_paren (ts : List Tok) (e : Spec.Expr) (hT : InnerTree ts e) :
    LeafOf ([.op .OpenParen] ++ ts ++ [.op .CloseParen]) e := by
  intro f rest acc r h hr
  cases f with
  | zero => simp [parseLeaf] at h; exact absurd h.symm hr
  | succ f =>
    simp only [List.cons_append, List.nil_append, List.append_assoc, parseLeaf, if_true] at h
    have hnp : NoPostfix (Tok.op Operator.CloseParen :: rest) := otherFacts.2.2.2.2.2
    have hst : ∀ k, 1 ≤ k → Stops k (Tok.op Operator.CloseParen :: rest) := by
      intro k hk; simp only [Stops, otherFacts.2.2.2.2.1]; omega
    cases hrt : parseTree f (ts ++ Tok.op Operator.CloseParen :: rest) 1 acc with
    | error err =>
      simp only [hrt] at h
      have hne : (Except.error err : Except SynErr PState) ≠ .error .fuel := by rw [h]; exact hr
      obtain ⟨f', hf'⟩ := hT f _ acc _ hnp hst hrt hne
      have := loop_stops_result (hst 1 (Nat.le_refl _)) hf' hne
      simp at this
    | ok p =>
      obtain ⟨t1, a1⟩ := p
      have hne : (Except.ok (t1, a1) : Except SynErr PState) ≠ .error .fuel := by simp
      obtain ⟨f', hf'⟩ := hT f _ acc _ hnp hst hrt hne
      have := loop_stops_result (hst 1 (Nat.le_refl _)) hf' hne
      simp only [Except.ok.injEq, Prod.mk.injEq] at this
      obtain ⟨rfl, rfl⟩ := this
      simp only [hrt, parseCloseParen, if_true] at h
      exact h.symm

theorem inner_of_leafOf (ts : List Tok) (e : Spec.Expr) (hL : LeafOf ts e) : InnerTree ts e := by
  intro f rest acc r hnp _ h hr
  refine tree_of_leaf _ rest acc (acc ++ rpn e) f 1 r ?_ h hr
  intro g r1 hg hr1
  have := hL g rest acc r1 hg hr1
  rw [parsePostfix_noPostfix rest _ hnp] at this
  exact this

theorem inner_of_treeUD (d : Deco) (e : Spec.Expr) (hT : TreeUD d e) : InnerTree (renderD d e) e := by
  intro f rest acc r hnp hst h hr
  exact hT f 1 rest acc r (Nat.le_refl _) (level_pos e) hnp (hst _ (stopLevel_pos e)) h hr

theorem leafOf_parenN (d : Deco) (e : Spec.Expr) (hT : TreeUD d e) (n : Nat) :
    LeafOf (parenN (n + 1) (renderD d e)) e := by
  induction n with
  | zero => exact leafOf_paren _ e (inner_of_treeUD d e hT)
  | succ n ih => exact leafOf_paren _ e (inner_of_leafOf _ e ih)

theorem leaf_unitD (d : Deco) (e : Spec.Expr) (hL : LeafUD d e) (hT : TreeUD d e) (n : Nat) (f : Nat)
    (rest : List Tok) (acc : List Ast) (r : Except SynErr PState) (h1 : 1 ≤ n ∨ 13 ≤ level e)
    (h2 : 1 ≤ n ∨ 14 ≤ level e ∨ NoPostfix rest)
    (h : parseLeaf f (parenN n (renderD d e) ++ rest) acc = r) (hr : r ≠ .error .fuel) :
    r = .ok (parsePostfix rest (acc ++ rpn e)) := by
  cases n with
  | succ n => exact leafOf_parenN d e hT n f rest acc r h hr
  | zero =>
    simp only [parenN] at h
    have h13 : 13 ≤ level e := by
      rcases h1 with h1 | h1
      · omega
      · exact h1
    have h2' : 14 ≤ level e ∨ NoPostfix rest := by
      rcases h2 with h2 | h2
      · omega
      · exact h2
    exact hL h13 f rest acc r h2' h hr

theorem tree_unitD (d : Deco) (e : Spec.Expr) (hL : LeafUD d e) (hT : TreeUD d e) (n : Nat) (f m : Nat)
    (rest : List Tok) (acc : List Ast) (r : Except SynErr PState) (hm : 1 ≤ m) (h1 : 1 ≤ n ∨ m ≤ level e)
    (hnp : NoPostfix rest) (hs : n = 0 → Stops (stopLevel e) rest)
    (h : parseTree f (parenN n (renderD d e) ++ rest) m acc = r) (hr : r ≠ .error .fuel) :
    ∃ f', parseLoop f' rest m (acc ++ rpn e) = r := by
  cases n with
  | zero =>
    simp only [parenN] at h
    have hle : m ≤ level e := by
      rcases h1 with h1 | h1
      · omega
      · exact h1
    exact hT f m rest acc r hm hle hnp (hs rfl) h hr
  | succ n =>
    refine tree_of_leaf _ rest acc (acc ++ rpn e) f m r ?_ h hr
    intro g r1 hg hr1
    have := leafOf_parenN d e hT n g rest acc r1 hg hr1
    rw [parsePostfix_noPostfix rest _ hnp] at this
    exact this

/-! ### the cases -/

theorem treeUD_of_leafUD (d : Deco) (e : Spec.Expr) (h13 : 13 ≤ level e) (hL : LeafUD d e) : TreeUD d e := by
  intro f m rest acc r _ _ hnp _ h hr
  refine tree_of_leaf _ rest acc (acc ++ rpn e) f m r ?_ h hr
  intro g r1 hg hr1
  have := hL h13 g rest acc r1 (Or.inr hnp) hg hr1
  rw [parsePostfix_noPostfix rest _ hnp] at this
  exact this

theorem leafUD_atom (d : Deco) (t : Term) (e : Spec.Expr) (hr' : renderD d e = [.term t]) (hp : rpn e = [.term t]) :
    LeafUD d e := by
  intro _ f rest acc r _ h hr
  cases f with
  | zero => simp [parseLeaf] at h; exact absurd h.symm hr
  | succ f =>
    rw [hr'] at h
    simp only [List.cons_append, List.nil_append, parseLeaf] at h
    rw [hp]; exact h.symm

theorem leafUD_pre (d : Deco) (op : PrefixOperator) (e : Spec.Expr) (hL : LeafUD d e) (hT : TreeUD d e) :
    LeafUD d (.pre op e) := by
  intro _ f rest acc r h14 h hr
  have hnp : NoPostfix rest := by
    rcases h14 with h14 | h14
    · simp [level] at h14
    · exact h14
  cases f with
  | zero => simp [parseLeaf] at h; exact absurd h.symm hr
  | succ f =>
    obtain ⟨hpre, hno⟩ := prefixFacts op
    simp only [renderD, List.cons_append, parseLeaf, hno, if_false, hpre] at h
    cases hin : parseLeaf f (parenN (d e + if level e < 13 then 1 else 0) (renderD d e) ++ rest) acc with
    | error err =>
      simp only [hin] at h
      have hne : (Except.error err : Except SynErr PState) ≠ .error .fuel := by rw [h]; exact hr
      have := leaf_unitD d e hL hT _ f rest acc _ (by by_cases hl : level e < 13 <;> simp [hl]; omega)
        (Or.inr (Or.inr hnp)) hin hne
      simp at this
    | ok p =>
      have := leaf_unitD d e hL hT _ f rest acc _ (by by_cases hl : level e < 13 <;> simp [hl]; omega)
        (Or.inr (Or.inr hnp)) hin (by simp)
      rw [parsePostfix_noPostfix rest _ hnp] at this
      simp only [Except.ok.injEq] at this
      subst this
      simp only [hin] at h
      rw [parsePostfix_noPostfix rest _ hnp]
      rw [← h]; simp [rpn, List.append_assoc]

theorem leafUD_post (d : Deco) (op : PostfixOperator) (e : Spec.Expr) (hL : LeafUD d e) (hT : TreeUD d e) :
    LeafUD d (.post op e) := by
  intro _ f rest acc r _ h hr
  simp only [renderD, List.append_assoc] at h
  have := leaf_unitD d e hL hT _ f ([Tok.op (opOfPostfix op)] ++ rest) acc r
    (need_or (fun hl => by omega))
    (need_or (fun hl => Or.inl (by omega))) h hr
  rw [this]
  simp only [List.cons_append, List.nil_append, parsePostfix, postfixFacts op, rpn, List.append_assoc]

theorem leafUD_low (d : Deco) (e : Spec.Expr) (h : level e < 13) : LeafUD d e := fun h13 => by omega

theorem treeUD_binL (d : Deco) (b : BinaryOperator) (l r : Spec.Expr) (ha : assocOf b = .Left)
    (hLl : LeafUD d l) (hTl : TreeUD d l) (hLr : LeafUD d r) (hTr : TreeUD d r) : TreeUD d (.bin b l r) := by
  intro f m rest acc res hm hle hnp hst h hres
  obtain ⟨hb, hk1, hk12, hq, hpf, _, hk3⟩ := binFacts b
  have hk3 := hk3 ha
  simp only [level] at hle
  simp only [stopLevel, ha, if_true] at hst
  simp only [renderD, ha, if_true, List.append_assoc] at h
  -- the left operand, then the loop at the operator
  obtain ⟨f1, hf1⟩ := tree_unitD d l hLl hTl _ f m _ acc res hm
    (by by_cases hl : level l < bprec b <;> simp [hl]; omega) (by simp [NoPostfix, hpf])
    (by
      intro hp
      have hl : bprec b ≤ level l := by
        have := need_zero hp
        omega
      simp only [List.cons_append, List.nil_append, Stops]
      exact stopLevel_gt l (bprec b) hk3 hl)
    h hres
  cases f1 with
  | zero => simp [parseLoop] at hf1; exact absurd hf1.symm hres
  | succ g =>
    simp only [List.cons_append, List.nil_append] at hf1
    have hnm : ¬ (opOfBinary b).precedence < m := by unfold bprec at hle; omega
    have hunit : ∀ r1, parseTree g (parenN (d r + if level r ≤ bprec b then 1 else 0) (renderD d r) ++ rest) (bprec b + 1)
        (acc ++ rpn l) = r1 → r1 ≠ .error .fuel → r1 = .ok (rest, acc ++ rpn l ++ rpn r) := by
      intro r1 hr1 hne
      obtain ⟨f2, hf2⟩ := tree_unitD d r hLr hTr _ g (bprec b + 1) rest (acc ++ rpn l) r1 (by omega)
        (need_or (fun hl => by omega)) hnp
        (by
          intro hp
          have hl : bprec b + 1 ≤ level r := by
            have := need_zero hp
            omega
          exact stops_mono hst (Nat.le_of_lt (stopLevel_gt r (bprec b + 1) (by omega) hl)))
        hr1 hne
      exact loop_stops_result hst hf2 hne
    cases hrt : parseTree g (parenN (d r + if level r ≤ bprec b then 1 else 0) (renderD d r) ++ rest) (bprec b + 1) (acc ++ rpn l) with
    | error err =>
      have hrt' : parseTree g (parenN (d r + if level r ≤ bprec b then 1 else 0) (renderD d r) ++ rest)
          (if assocOf b = .Left then (opOfBinary b).precedence + 1 else (opOfBinary b).precedence) (acc ++ rpn l)
          = .error err := by simp only [ha, if_true]; exact hrt
      rw [parseLoop_binary_err g m _ b _ _ _ hb hq hnm err hrt'] at hf1
      have hne : (Except.error err : Except SynErr PState) ≠ .error .fuel := by rw [hf1]; exact hres
      have := hunit _ hrt hne
      simp at this
    | ok p =>
      have := hunit _ hrt (by simp)
      simp only [Except.ok.injEq] at this
      subst this
      have hrt' : parseTree g (parenN (d r + if level r ≤ bprec b then 1 else 0) (renderD d r) ++ rest)
          (if assocOf b = .Left then (opOfBinary b).precedence + 1 else (opOfBinary b).precedence) (acc ++ rpn l)
          = .ok (rest, acc ++ rpn l ++ rpn r) := by simp only [ha, if_true]; exact hrt
      rw [parseLoop_binary_ok g m _ b _ _ _ hb hq hnm _ _ hrt'] at hf1
      have hlen : (acc ++ rpn l ++ rpn r).length - (acc ++ rpn l).length = (rpn r).length := by
        simp only [List.length_append]; omega
      rw [hlen] at hf1
      refine ⟨g, ?_⟩
      rw [← hf1]
      simp [rpn, List.append_assoc]

theorem treeUD_binR (d : Deco) (b : BinaryOperator) (l r : Spec.Expr) (ha : assocOf b = .Right)
    (hLl : LeafUD d l) (hTl : TreeUD d l) (hLr : LeafUD d r) (hTr : TreeUD d r) : TreeUD d (.bin b l r) := by
  intro f m rest acc res hm hle hnp hst h hres
  obtain ⟨hb, hk1, hk12, hq, hpf, hkr, _⟩ := binFacts b
  have hk : bprec b = 1 := hkr ha
  simp only [level, hk] at hle
  have hm1 : m = 1 := by omega
  subst hm1
  have hne : assocOf b ≠ .Left := by rw [ha]; decide
  simp only [stopLevel, hne, if_false] at hst
  simp only [renderD, hne, if_false, List.append_assoc] at h
  obtain ⟨f1, hf1⟩ := tree_unitD d l hLl hTl _ f 1 _ acc res (Nat.le_refl _)
    (need_or (fun _ => level_pos l)) (by simp [NoPostfix, hpf])
    (by
      intro hp
      have hl : 13 ≤ level l := by
        have := need_zero hp
        omega
      rw [stopLevel_of_unary l hl]
      simp only [List.cons_append, List.nil_append, Stops]
      unfold bprec at hk; omega)
    h hres
  cases f1 with
  | zero => simp [parseLoop] at hf1; exact absurd hf1.symm hres
  | succ g =>
    simp only [List.cons_append, List.nil_append] at hf1
    have hnm : ¬ (opOfBinary b).precedence < 1 := by unfold bprec at hk; omega
    have hunit : ∀ r1, parseTree g (parenN (d r) (renderD d r) ++ rest) 1 (acc ++ rpn l) = r1 → r1 ≠ .error .fuel →
        r1 = .ok (rest, acc ++ rpn l ++ rpn r) := by
      intro r1 hr1 hne1
      obtain ⟨f2, hf2⟩ := tree_unitD d r hLr hTr (d r) g 1 rest (acc ++ rpn l) r1 (Nat.le_refl _)
        (Or.inr (level_pos r)) hnp (fun _ => stops_mono hst (stopLevel_pos r)) hr1 hne1
      exact loop_stops_result hst hf2 hne1
    have hprec : (if assocOf b = .Left then (opOfBinary b).precedence + 1 else (opOfBinary b).precedence) = 1 := by
      simp only [hne, if_false]; unfold bprec at hk; exact hk
    cases hrt : parseTree g (parenN (d r) (renderD d r) ++ rest) 1 (acc ++ rpn l) with
    | error err =>
      have hrt' := hrt
      rw [← hprec] at hrt'
      rw [parseLoop_binary_err g 1 _ b _ _ _ hb hq hnm err hrt'] at hf1
      have hne2 : (Except.error err : Except SynErr PState) ≠ .error .fuel := by rw [hf1]; exact hres
      have := hunit _ hrt hne2
      simp at this
    | ok p =>
      have := hunit _ hrt (by simp)
      simp only [Except.ok.injEq] at this
      subst this
      have hrt' := hrt
      rw [← hprec] at hrt'
      rw [parseLoop_binary_ok g 1 _ b _ _ _ hb hq hnm _ _ hrt'] at hf1
      have hlen : (acc ++ rpn l ++ rpn r).length - (acc ++ rpn l).length = (rpn r).length := by
        simp only [List.length_append]; omega
      rw [hlen] at hf1
      refine ⟨g, ?_⟩
      rw [← hf1]
      simp [rpn, List.append_assoc]

theorem treeUD_cond (d : Deco) (c t e : Spec.Expr) (hLc : LeafUD d c) (hTc : TreeUD d c) (hLt : LeafUD d t) (hTt : TreeUD d t)
    (hLe : LeafUD d e) (hTe : TreeUD d e) : TreeUD d (.cond c t e) := by
  intro f m rest acc res hm hle hnp hst h hres
  obtain ⟨hq2, hqpf, hc0, hcpf, _, _⟩ := otherFacts
  simp only [level] at hle
  simp only [stopLevel] at hst
  simp only [renderD, List.append_assoc] at h
  obtain ⟨f1, hf1⟩ := tree_unitD d c hLc hTc _ f m _ acc res hm
    (need_or (fun hl => by omega)) (by simp [NoPostfix, hqpf])
    (by
      intro hp
      have hl : 3 ≤ level c := by
        have := need_zero hp
        omega
      simp only [List.cons_append, List.nil_append, Stops, hq2]
      have := stopLevel_gt c 3 (Nat.le_refl _) hl
      omega)
    h hres
  cases f1 with
  | zero => simp [parseLoop] at hf1; exact absurd hf1.symm hres
  | succ g =>
    simp only [List.cons_append, List.nil_append] at hf1
    have hnm : ¬ Operator.Question.precedence < m := by rw [hq2]; omega
    -- the then-branch, up to the colon
    have hthen : ∀ r1, parseTree g (parenN (d t) (renderD d t) ++ Tok.op Operator.Colon ::
          (parenN (d e + if level e < 2 then 1 else 0) (renderD d e) ++ rest)) 1 (acc ++ rpn c) = r1 → r1 ≠ .error .fuel →
        r1 = .ok (Tok.op Operator.Colon :: (parenN (d e + if level e < 2 then 1 else 0) (renderD d e) ++ rest),
          acc ++ rpn c ++ rpn t) := by
      intro r1 hr1 hne1
      have hsc : ∀ k, 1 ≤ k → Stops k (Tok.op Operator.Colon ::
          (parenN (d e + if level e < 2 then 1 else 0) (renderD d e) ++ rest)) := by
        intro k hk; simp only [Stops, hc0]; omega
      obtain ⟨f2, hf2⟩ := tree_unitD d t hLt hTt (d t) g 1 _ (acc ++ rpn c) r1 (Nat.le_refl _)
        (Or.inr (level_pos t)) (by simp [NoPostfix, hcpf]) (fun _ => hsc _ (stopLevel_pos t)) hr1 hne1
      exact loop_stops_result (hsc 1 (Nat.le_refl _)) hf2 hne1
    -- the else-branch
    have helse : ∀ r2, parseTree g (parenN (d e + if level e < 2 then 1 else 0) (renderD d e) ++ rest) 2
          (acc ++ rpn c ++ rpn t) = r2 → r2 ≠ .error .fuel →
        r2 = .ok (rest, acc ++ rpn c ++ rpn t ++ rpn e) := by
      intro r2 hr2 hne2
      obtain ⟨f3, hf3⟩ := tree_unitD d e hLe hTe _ g 2 rest _ r2 (by omega)
        (by by_cases hl : level e < 2 <;> simp [hl]; omega) hnp
        (by
          intro hp
          have hl : 2 ≤ level e := by
            have := need_zero hp
            omega
          exact stops_mono hst (stopLevel_ge_two e hl))
        hr2 hne2
      exact loop_stops_result hst hf3 hne2
    cases hr1 : parseTree g (parenN (d t) (renderD d t) ++ Tok.op Operator.Colon ::
          (parenN (d e + if level e < 2 then 1 else 0) (renderD d e) ++ rest)) 1 (acc ++ rpn c) with
    | error err =>
      rw [parseLoop_question_err1 g m _ _ hnm err hr1] at hf1
      have hne : (Except.error err : Except SynErr PState) ≠ .error .fuel := by rw [hf1]; exact hres
      have := hthen _ hr1 hne
      simp at this
    | ok p =>
      have := hthen _ hr1 (by simp)
      simp only [Except.ok.injEq] at this
      subst this
      cases hr2 : parseTree g (parenN (d e + if level e < 2 then 1 else 0) (renderD d e) ++ rest) 2 (acc ++ rpn c ++ rpn t) with
      | error err =>
        have hr2' := hr2
        rw [← hq2] at hr2'
        rw [parseLoop_question_err2 g m _ _ _ _ hnm err hr1 hr2'] at hf1
        have hne : (Except.error err : Except SynErr PState) ≠ .error .fuel := by rw [hf1]; exact hres
        have := helse _ hr2 hne
        simp at this
      | ok p2 =>
        have := helse _ hr2 (by simp)
        simp only [Except.ok.injEq] at this
        subst this
        have hr2' := hr2
        rw [← hq2] at hr2'
        rw [parseLoop_question_ok g m _ _ _ _ _ _ hnm hr1 hr2'] at hf1
        have hl1 : (acc ++ rpn c ++ rpn t).length - (acc ++ rpn c).length = (rpn t).length := by
          simp only [List.length_append]; omega
        have hl2 : (acc ++ rpn c ++ rpn t ++ rpn e).length - (acc ++ rpn c ++ rpn t).length = (rpn e).length := by
          simp only [List.length_append]; omega
        rw [hl1, hl2] at hf1
        refine ⟨g, ?_⟩
        rw [← hf1]
        simp [rpn, List.append_assoc]

/-- every tree satisfies both invariants -/
theorem goodD (d : Deco) (e : Spec.Expr) : LeafUD d e ∧ TreeUD d e := by
  induction e with
  | num v =>
    have hL := leafUD_atom d (.value v) (.num v) rfl rfl
    exact ⟨hL, treeUD_of_leafUD d _ (by simp [level]) hL⟩
  | var x =>
    have hL := leafUD_atom d (.variable x) (.var x) rfl rfl
    exact ⟨hL, treeUD_of_leafUD d _ (by simp [level]) hL⟩
  | pre op e ih =>
    have hL := leafUD_pre d op e ih.1 ih.2
    exact ⟨hL, treeUD_of_leafUD d _ (by simp [level]) hL⟩
  | post op e ih =>
    have hL := leafUD_post d op e ih.1 ih.2
    exact ⟨hL, treeUD_of_leafUD d _ (by simp [level]) hL⟩
  | bin b l r ihl ihr =>
    refine ⟨leafUD_low d _ (by simp only [level]; have := (binFacts b).2.2.1; omega), ?_⟩
    cases ha : assocOf b with
    | Left => exact treeUD_binL d b l r ha ihl.1 ihl.2 ihr.1 ihr.2
    | Right => exact treeUD_binR d b l r ha ihl.1 ihl.2 ihr.1 ihr.2
  | cond c t e ihc iht ihe =>
    exact ⟨leafUD_low d _ (by simp [level]), treeUD_cond d c t e ihc.1 ihc.2 iht.1 iht.2 ihe.1 ihe.2⟩

/-- the parser reads a tree written with the needed parentheses and ANY redundant ones back as the
    reverse-Polish vector of that tree -/
theorem parseToks_renderD (d : Deco) (e : Spec.Expr) (f : Nat) (hf : 2 * (renderTop d e).length + 2 ≤ f) :
    parseToks f (renderTop d e) = .ok (rpn e) := by
  have hnf := parseToks_no_fuel f (renderTop d e) hf
  unfold parseToks at hnf ⊢
  unfold renderTop at hnf ⊢
  obtain ⟨hL, hT⟩ := goodD d e
  cases hrt : parseTree f (parenN (d e) (renderD d e)) 1 [] with
  | error err =>
    simp only [hrt] at hnf
    have hne : (Except.error err : Except SynErr PState) ≠ .error .fuel := by
      intro h; injection h with h; subst h; exact hnf rfl
    have h' : parseTree f (parenN (d e) (renderD d e) ++ []) 1 [] = .error err := by simpa using hrt
    obtain ⟨f', hf'⟩ := tree_unitD d e hL hT (d e) f 1 [] [] _ (Nat.le_refl _) (Or.inr (level_pos e)) trivial
      (fun _ => trivial) h' hne
    have := loop_stops_result (m := 1) (rest := []) trivial hf' hne
    simp at this
  | ok p =>
    have h' : parseTree f (parenN (d e) (renderD d e) ++ []) 1 [] = .ok p := by simpa using hrt
    obtain ⟨f', hf'⟩ := tree_unitD d e hL hT (d e) f 1 [] [] _ (Nat.le_refl _) (Or.inr (level_pos e)) trivial
      (fun _ => trivial) h' (by simp)
    have := loop_stops_result (m := 1) (rest := []) trivial hf' (by simp)
    simp only [Except.ok.injEq] at this
    subst this
    simp [parseEndOfInput]

end YashModel.Arith
