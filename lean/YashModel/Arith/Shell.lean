/-
  C03 — the glue between yash-arith and the shell's variable store
  (`/repo/yash-semantics/src/expansion/initial/arith.rs`: `VarEnv`, `expand`).

  * `EnvI`: the `yash_arith::Env` trait (fallible `get_variable` / `assign_variable`).  `evalG` … are
    `eval.rs` transcribed once more over that interface; `evalG_hashMap` (in `ShellLemmas.lean`) proves that
    with the `HashMap` instance they ARE the functions of `Model.lean`, so nothing is modelled twice.
  * `Store`: the part of `yash_env::variable::VariableSet` the glue touches — a stack of contexts (innermost
    first, the base context last) of variables with an optional scalar/array value and a read-only flag.
    `getScalar` = `VariableSet::get_scalar` (the visible variable, only if it is a scalar);
    `assignVisibleOrGlobal` = `get_or_create_variable(name, Scope::Global).assign(..)` (the visible variable
    wherever it lives, else a new one in the base context; read-only → error).  (What C16 proves about the
    per-name stacks refining a stack of maps is used here only as the choice of this representation.)
  * `shellI`: `impl yash_arith::Env for VarEnv` (unset/array → `None`, or `UnsetVariable` under `set -u`).
  * `Scenario` / `runScenario`: a script shape the harness renders and runs on the real shell: global
    declarations, then arithmetic expansions at top level / in a function (with locals declared by
    `typeset`) / in a subshell / in a subshell of a function / in a function called by a function that
    declared the locals; after the expansions every name of a fixed universe is printed as seen from inside,
    again from each enclosing level, and the final global variables are read from the environment.
    An expansion error ends a non-interactive shell (or the subshell it happens in).
-/
import YashModel.Arith.Model
import YashModel.Arith.Unicode
namespace YashModel.Arith
open YashModel.Generated.ArithTables

/-! ## `eval.rs` over the `Env` trait -/

/-- why an arithmetic expansion failed: `yash_arith::ErrorCause` (syntax, portability, evaluation incl. the
    two environment errors) or, before the evaluation, the expansion of an unset parameter in the text under
    `set -u`.  `convert_error_cause` maps each to one `ErrorCause` of the shell; the harness reads that cause
    from the message.  (`modelPanic` is never produced: `evalStr_never_panics`.) -/
inductive ShErr where
  | syntax (e : SynErr)
  /-- `SyntaxError::TokenError(kind)`: `expandArith` names the kind from the expanded text (`refineTokenErr`) -/
  | token (k : TokErr)
  | portability
  | eval (e : EvalErr)
  | unsetParameter
  | modelPanic
  | badCase
  deriving DecidableEq, Repr

structure EnvI (σ : Type) where
  /-- `get_variable`: `Ok(Some v)`, `Ok(None)` or `Err` (= `.error .getVariableError`) -/
  get : σ → Name → Res (Option (List Char))
  /-- `assign_variable`: the new state or `Err` (= `.error .assignVariableError`) -/
  assign : σ → Name → List Char → Res σ

section G
variable {σ : Type} (I : EnvI σ)

def expandVariableG (name : Name) (s : σ) : Res Int :=
  (I.get s name).bind fun o =>
    match o with
    | none => .ok 0
    | some v => Res.ofOption (parseInteger v) .invalidVariableValue

def intoValueG (t : Term) (s : σ) : Res Int :=
  match t with
  | .value v => .ok v
  | .variable n => expandVariableG I n s

def assignG (name : Name) (v : Int) (s : σ) : Res (Int × σ) :=
  (I.assign s name (showInt v)).bind fun s1 => .ok (v, s1)

def applyPrefixG (t : Term) (op : PrefixOperator) (s : σ) : Res (Int × σ) :=
  match op with
  | .Increment =>
    (requireVariable t).bind fun name =>
    (expandVariableG I name s).bind fun v =>
    (Res.ofOption (checked (v + 1)) .overflow).bind fun nv => assignG I name nv s
  | .Decrement =>
    (requireVariable t).bind fun name =>
    (expandVariableG I name s).bind fun v =>
    (Res.ofOption (checked (v - 1)) .overflow).bind fun nv => assignG I name nv s
  | .NumericCoercion => (intoValueG I t s).bind fun v => .ok (v, s)
  | .NumericNegation =>
    (intoValueG I t s).bind fun v => (Res.ofOption (checked (-v)) .overflow).bind fun r => .ok (r, s)
  | .LogicalNegation => (intoValueG I t s).bind fun v => .ok (if v = 0 then 1 else 0, s)
  | .BitwiseNegation => (intoValueG I t s).bind fun v => .ok (bitNot v, s)

def applyPostfixG (t : Term) (op : PostfixOperator) (s : σ) : Res (Int × σ) :=
  (requireVariable t).bind fun name =>
  (expandVariableG I name s).bind fun v =>
  let result := match op with
    | .Increment => checked (v + 1)
    | .Decrement => checked (v - 1)
  (Res.ofOption result .overflow).bind fun nv =>
  (assignG I name nv s).bind fun (_, s1) => .ok (v, s1)

def applyBinaryG (lhs rhs : Term) (op : BinaryOperator) (s : σ) : Res (Int × σ) :=
  match binKind op with
  | .plain =>
    (intoValueG I lhs s).bind fun l =>
    (intoValueG I rhs s).bind fun r =>
    (binaryResult op l r).bind fun v => .ok (v, s)
  | .assign =>
    (requireVariable lhs).bind fun name =>
    (intoValueG I rhs s).bind fun v => assignG I name v s
  | .compound =>
    (requireVariable lhs).bind fun name =>
    (expandVariableG I name s).bind fun l =>
    (intoValueG I rhs s).bind fun r =>
    (binaryResult op l r).bind fun v => assignG I name v s

def valueTermG (r : Res (Int × σ)) : Res (Term × σ) :=
  r.bind fun (v, s) => .ok (.value v, s)

def evalG : Nat → List Ast → σ → Res (Term × σ)
  | 0, _, _ => .fuel
  | f + 1, ast, s =>
    match splitLast ast with
    | none => .panic
    | some (children, root) =>
      match root with
      | .term t => .ok (t, s)
      | .pre op =>
        (evalG f children s).bind fun (t, s1) => valueTermG (applyPrefixG I t op s1)
      | .post op =>
        (evalG f children s).bind fun (t, s1) => valueTermG (applyPostfixG I t op s1)
      | .binary op rhsLen =>
        match splitAtEnd children rhsLen with
        | none => .panic
        | some (lhsAst, rhsAst) =>
          if op = .LogicalOr then
            (evalG f lhsAst s).bind fun (lt, s1) =>
            (intoValueG I lt s1).bind fun l =>
            if l ≠ 0 then .ok (.value 1, s1)
            else
              (evalG f rhsAst s1).bind fun (rt, s2) =>
              (intoValueG I rt s2).bind fun r =>
              (binaryResult .LogicalOr l r).bind fun v => .ok (.value v, s2)
          else if op = .LogicalAnd then
            (evalG f lhsAst s).bind fun (lt, s1) =>
            (intoValueG I lt s1).bind fun l =>
            if l = 0 then .ok (.value 0, s1)
            else
              (evalG f rhsAst s1).bind fun (rt, s2) =>
              (intoValueG I rt s2).bind fun r =>
              (binaryResult .LogicalAnd l r).bind fun v => .ok (.value v, s2)
          else
            (evalG f lhsAst s).bind fun (lt, s1) =>
            (evalG f rhsAst s1).bind fun (rt, s2) =>
            valueTermG (applyBinaryG I lt rt op s2)
      | .conditional thenLen elseLen =>
        match splitAtEnd children elseLen with
        | none => .panic
        | some (children2, elseAst) =>
          match splitAtEnd children2 thenLen with
          | none => .panic
          | some (condAst, thenAst) =>
            (evalG f condAst s).bind fun (ct, s1) =>
            (intoValueG I ct s1).bind fun c =>
            if c ≠ 0 then evalG f thenAst s1 else evalG f elseAst s1

def evalValueG (ast : List Ast) (s : σ) : Res (Int × σ) :=
  (evalG I ast.length ast s).bind fun (t, s1) =>
  (intoValueG I t s1).bind fun v => .ok (v, s1)

/-- `eval_with_config(expression, &mut env, config)` with the cause of a failure (`ErrorCause`) -/
def evalStrG (portable : Bool) (src : List Char) (s : σ) : Except ShErr (Int × σ) :=
  match parse src with
  | .error e => .error (.syntax e)
  | .ok ast =>
    if portable && ast.any isIncDec then .error .portability else
    match evalValueG I ast s with
    | .ok r => .ok r
    | .error e => .error (.eval e)
    | .panic => .error .modelPanic
    | .fuel => .error .modelPanic

end G

/-- `impl Env for HashMap<String, String>` as an instance of the interface -/
def hashMapI : EnvI Env where
  get := fun env n => .ok (env.get n)
  assign := fun env n v => .ok (env.set n v)

/-! ## the shell's variable store -/

inductive SVal where
  | scalar (s : List Char)
  | array (l : List (List Char))
  | none
  deriving DecidableEq, Repr

structure SVar where
  value : SVal
  readOnly : Bool
  deriving DecidableEq, Repr

abbrev Ctx := List (Name × SVar)

/-- contexts, innermost first; the last one is the base (global) context -/
structure Store where
  ctxs : List Ctx
  /-- `set -u` (the `Unset` option is off) -/
  nounset : Bool
  /-- `set -o portable` -/
  portable : Bool := false
  deriving Repr

def Ctx.find (c : Ctx) (name : Name) : Option SVar :=
  (c.find? (fun p => p.1 = name)).map (·.2)

def Ctx.put : Ctx → Name → SVar → Ctx
  | [], name, v => [(name, v)]
  | (n, w) :: rest, name, v => if n = name then (n, v) :: rest else (n, w) :: Ctx.put rest name v

/-- the visible variable: the innermost context that has the name -/
def visible : List Ctx → Name → Option SVar
  | [], _ => none
  | c :: rest, name =>
    match c.find name with
    | some v => some v
    | none => visible rest name

/-- `VariableSet::get_scalar` -/
def getScalar (st : Store) (name : Name) : Option (List Char) :=
  match visible st.ctxs name with
  | some ⟨.scalar s, _⟩ => some s
  | _ => none

/-- `get_or_create_variable(name, Scope::Global).assign(value)`: `none` = read-only -/
def assignVisibleOrGlobal : List Ctx → Name → List Char → Option (List Ctx)
  | [], name, v => some [[(name, ⟨.scalar v, false⟩)]]
  | [base], name, v =>
    match base.find name with
    | some w => if w.readOnly then none else some [base.put name ⟨.scalar v, false⟩]
    | none => some [base.put name ⟨.scalar v, false⟩]
  | c :: rest, name, v =>
    match c.find name with
    | some w => if w.readOnly then none else some (c.put name ⟨.scalar v, false⟩ :: rest)
    | none => (assignVisibleOrGlobal rest name v).map (c :: ·)

/-- `impl yash_arith::Env for VarEnv` -/
def shellI : EnvI Store where
  get := fun st name =>
    match getScalar st name with
    | some v => .ok (some v)
    | none => if st.nounset then .error .getVariableError else .ok none
  assign := fun st name v =>
    match assignVisibleOrGlobal st.ctxs name v with
    | some cs => .ok { st with ctxs := cs }
    | none => .error .assignVariableError

/-! ## scenarios -/

/-- how the text of a variable is printed by `probe "${name-U}"`: the fields -/
def showVisible (st : Store) (name : Name) : List (List Char) :=
  match visible st.ctxs name with
  | some ⟨.scalar s, _⟩ => [s]
  | some ⟨.array l, _⟩ => l
  | _ => [['U']]

inductive CtxKind where
  | top | fn | sub | fnsub | nest
  deriving DecidableEq, Repr

structure Scenario where
  nounset : Bool
  portable : Bool
  globals : Ctx
  kind : CtxKind
  /-- declared by `typeset` at the start of the function -/
  locals : Ctx
  exprs : List (List Char)
  deriving Repr

def isNameStart (c : Char) : Bool := (65 ≤ c.toNat && c.toNat ≤ 90) || (97 ≤ c.toNat && c.toNat ≤ 122) || c == '_'

/-- what `$name` contributes to the text of the expression (`expand_text`; no field splitting there): a
    scalar as it is, the elements of an array joined by the first character of IFS (a blank: the
    scenarios never change IFS); `none` = no such value -/
def textOf (st : Store) (name : Name) : Option (List Char) :=
  match visible st.ctxs name with
  | some ⟨.scalar s, _⟩ => some s
  | some ⟨.array l, _⟩ => some ((l.intersperse [' ']).flatten)
  | _ => none

/-- the text between `$((` and the matching `))` and what follows -/
def splitArith : Nat → List Char → List Char → Option (List Char × List Char)
  | _, [], _ => none
  | 0, ')' :: ')' :: rest, acc => some (acc.reverse, rest)
  | 0, ')' :: _, _ => none
  | d, '(' :: rest, acc => splitArith (d + 1) rest ('(' :: acc)
  | d + 1, ')' :: rest, acc => splitArith d rest (')' :: acc)
  | d, c :: rest, acc => splitArith d rest (c :: acc)

/-- the two command substitutions the harness writes: `$(echo N)` and `$(echo N; st K)`:
    output (trailing newline removed) and exit status of the subshell -/
def cmdSubst (cmd : List Char) : Option (List Char × Nat) :=
  let words (s : List Char) : List (List Char) :=
    ((String.ofList s).splitOn " ").filterMap fun w => if w.isEmpty then none else some w.toList
  match ((String.ofList cmd).splitOn ";").map (fun p => words p.toList) with
  | [[e, n]] => if e = "echo".toList then some (n, 0) else none
  | [[e, n], [s, k]] =>
    if e = "echo".toList ∧ s = "st".toList then (String.ofList k).toNat?.map fun k => (n, k) else none
  | _ => none

mutual
/-- `expand_text` on the expression (`initial::arith::expand` starts with it), for the forms the harness
    writes: `$name`, `${name}`, `$(echo N)`, `$(echo N; st K)` and nested `$(( … ))` — the nested expansion
    is carried out (with its side effects on the variables) before the outer text is evaluated.
    The `Nat` threaded along is the exit status of the last command substitution so far
    (`last_command_subst_exit_status`). -/
def substText : Nat → Store → Nat → List Char → Except ShErr (List Char × Store × Nat)
  | 0, _, _, _ => .error .modelPanic
  | _, st, status, [] => .ok ([], st, status)
  | f + 1, st, status, '$' :: '(' :: '(' :: rest =>
    match splitArith 0 rest [] with
    | none => .error .badCase
    | some (inner, after) =>
      match expandArith f st status inner with
      | .error e => .error e
      | .ok (v, st1, status1) =>
        (substText f st1 status1 after).map fun (t, st2, s2) => (showInt v ++ t, st2, s2)
  | f + 1, st, _, '$' :: '(' :: rest =>
    match cmdSubst (rest.takeWhile (· ≠ ')')) with
    | none => .error .badCase
    | some (out, k) =>
      (substText f st k ((rest.dropWhile (· ≠ ')')).drop 1)).map fun (t, st2, s2) => (out ++ t, st2, s2)
  | f + 1, st, status, '$' :: '{' :: rest =>
    let name := rest.takeWhile (· ≠ '}')
    let after := (rest.dropWhile (· ≠ '}')).drop 1
    match textOf st name with
    | some v => (substText f st status after).map fun (t, st2, s2) => (v ++ t, st2, s2)
    | none => if st.nounset then .error .unsetParameter else substText f st status after
  | f + 1, st, status, '$' :: rest =>
    let name := rest.takeWhile isTermChar
    let after := rest.dropWhile isTermChar
    if name.isEmpty then (substText f st status rest).map fun (t, st2, s2) => ('$' :: t, st2, s2)
    else
      match textOf st name with
      | some v => (substText f st status after).map fun (t, st2, s2) => (v ++ t, st2, s2)
      | none => if st.nounset then .error .unsetParameter else substText f st status after
  | f + 1, st, status, c :: rest => (substText f st status rest).map fun (t, st2, s2) => (c :: t, st2, s2)

/-- the kind of a token error, read off the expanded text (`firstTokenErrU`, no non-ASCII alphanumerics in
    the shell leg); the `none` arm is dead (`token_error_has_a_kind`) -/
def refineTokenErr (t : List Char) : ShErr → ShErr
  | .syntax .tokenError =>
    match firstTokenErrU [] (t.length + 1) t with
    | some k => .token k
    | none => .syntax .tokenError
  | e => e

/-- `initial::arith::expand`: expand the text, evaluate it with the shell's environment -/
def expandArith : Nat → Store → Nat → List Char → Except ShErr (Int × Store × Nat)
  | 0, _, _, _ => .error .modelPanic
  | f + 1, st, status, text =>
    match substText f st status text with
    | .error e => .error e
    | .ok (t, st1, status1) =>
      match evalStrG shellI st1.portable t st1 with
      | .error e => .error (refineTokenErr t e)
      | .ok (v, st2) => .ok (v, st2, status1)
end

/-- the expansions of a body, one output line each (value text and the exit status a command made only of
    this expansion would have); an error in the last component = that expansion failed -/
def runBody (st : Store) : List (List Char) → List (List Char × Nat) × Except ShErr Store
  | [] => ([], .ok st)
  | e :: rest =>
    match expandArith (2 * e.length + 4) st 0 e with
    | .error err => ([], .error err)
    | .ok (v, st1, status) =>
      let r := runBody st1 rest
      ((showInt v, status) :: r.1, r.2)

inductive Line where
  /-- value of an expansion (one field) and the exit status of its last command substitution -/
  | value (s : List Char × Nat)
  /-- fields of `"${name-U}"` -/
  | fields (l : List (List Char))
  deriving Repr

def printAll (names : List Name) (st : Store) : List Line :=
  names.map fun n => Line.fields (showVisible st n)

structure Outcome2 where
  lines : List Line
  /-- `none` = the shell exited at a failing expansion -/
  final : Option Ctx
  /-- the cause of the (only) failing expansion, if any — also when it only ended a subshell -/
  err : Option ShErr := none
  deriving Repr

def pushLocals (st : Store) (locals : Ctx) : Store := { st with ctxs := locals :: st.ctxs }
def popCtx (st : Store) : Store := { st with ctxs := st.ctxs.drop 1 }
def baseCtx (st : Store) : Ctx := st.ctxs.getLast?.getD []

/-- what the rendered script prints and leaves behind -/
def runScenario (names : List Name) (sc : Scenario) : Outcome2 :=
  let st0 : Store := { ctxs := [sc.globals], nounset := sc.nounset, portable := sc.portable }
  match sc.kind with
  | .top =>
    let (vals, r) := runBody st0 sc.exprs
    match r with
    | .error e => ⟨vals.map .value, none, some e⟩
    | .ok st1 => ⟨vals.map .value ++ printAll names st1, some (baseCtx st1), none⟩
  | .fn =>
    let (vals, r) := runBody (pushLocals st0 sc.locals) sc.exprs
    match r with
    | .error e => ⟨vals.map .value, none, some e⟩
    | .ok st1 =>
      let st2 := popCtx st1
      ⟨vals.map .value ++ printAll names st1 ++ printAll names st2, some (baseCtx st2), none⟩
  | .nest =>
    -- `g` runs in its own (empty) context on top of `f`'s
    let (vals, r) := runBody (pushLocals (pushLocals st0 sc.locals) []) sc.exprs
    match r with
    | .error e => ⟨vals.map .value, none, some e⟩
    | .ok st1 =>
      let st2 := popCtx st1
      let st3 := popCtx st2
      ⟨vals.map .value ++ printAll names st1 ++ printAll names st2 ++ printAll names st3,
        some (baseCtx st3), none⟩
  | .sub =>
    let (vals, r) := runBody st0 sc.exprs
    let inner := match r with
      | .error _ => vals.map Line.value
      | .ok st1 => vals.map .value ++ printAll names st1
    ⟨inner ++ printAll names st0, some (baseCtx st0), match r with | .error e => some e | .ok _ => none⟩
  | .fnsub =>
    let stf := pushLocals st0 sc.locals
    let (vals, r) := runBody stf sc.exprs
    let inner := match r with
      | .error _ => vals.map Line.value
      | .ok st1 => vals.map .value ++ printAll names st1
    ⟨inner ++ printAll names stf ++ printAll names st0, some (baseCtx st0),
      match r with | .error e => some e | .ok _ => none⟩

end YashModel.Arith
