/-
  C03 — the Spec column's PARSER (`Spec.pAssign` …: recursive descent by C grammar levels, depth fuel) reads the
  tokens of a rendered tree back as that tree (wave 3, second half).  Devices: `spec_parser_mono` (a result,
  once found, is found with every larger fuel), `lift` (`pBin f n` unrolled into the descent to a level and the
  operator loops below it), `TreeOf` / `LeafOfS` / `InnerS` (the analogues of `TreeUD` / `LeafOf` / `InnerTree`
  of `RenderD.lean`, stated as "if the continuation after the operand succeeds with fuel `f0`, the whole
  succeeds with `f0 + 64·tokens + 16`"), one lemma per node kind.
-/
import YashModel.Arith.SpecLex
namespace YashModel.Arith
open YashModel.Generated.ArithTables

/-- the lexeme of an operator in `OPERATORS` -/
def lexOf (o : Operator) : List Char := ((operators.find? (fun p => p.2 = o)).map (·.1)).getD []

/-- a token of the code's tokenizer as a token of the Spec's lexer (inverse of `tokOfSToken`) -/
def stok : Tok → Spec.SToken
  | .term (.value v) => .num v
  | .term (.variable x) => .ident x
  | .op o => .punct (lexOf o)
  | .err => .bad

abbrev S (ts : List Tok) : List Spec.SToken := ts.map stok

theorem lexFacts (o : Operator) :
    Spec.binaryOfLexeme (lexOf o) = o.as_binary.map (fun p => (p.1, o.precedence, p.2)) ∧
    Spec.prefixOfLexeme (lexOf o) = o.as_prefix ∧ Spec.postfixOfLexeme (lexOf o) = o.as_postfix ∧
    (lexOf o = ['('] ↔ o = .OpenParen) ∧ (lexOf o = [')'] ↔ o = .CloseParen) ∧
    (lexOf o = ['?'] ↔ o = .Question) ∧ (lexOf o = [':'] ↔ o = .Colon) ∧
    tokOfSToken (stok (.op o)) = .op o := by
  cases o <;> decide

theorem binaryAtLevel_lex (n : Nat) (o : Operator) :
    Spec.binaryAtLevel n (lexOf o) =
      match o.as_binary with
      | some (b, _) => if o.precedence = n ∧ o.precedence ≠ 1 then some b else none
      | none => none := by
  unfold Spec.binaryAtLevel
  rw [(lexFacts o).1]
  cases o.as_binary with
  | none => rfl
  | some p => rfl

theorem postfixes_noPostfix (e : Spec.Expr) (rest : List Tok) (h : NoPostfix rest) :
    Spec.postfixes e (S rest) = (e, S rest) := by
  cases rest with
  | nil => simp [Spec.postfixes]
  | cons t ts =>
    cases t with
    | term x => cases x <;> simp [stok, Spec.postfixes]
    | err => simp [stok, Spec.postfixes]
    | op o =>
      simp only [NoPostfix] at h
      simp [stok, Spec.postfixes, (lexFacts o).2.2.1, h]

/-- `pBin f n` unrolled: the descent to level `n + j`, then the operator loops of the levels below it -/
def lift : Nat → Nat → Nat → Spec.P → Spec.P
  | _, _, 0, x => x
  | 0, _, _ + 1, _ => none
  | f + 1, n, j + 1, x => (lift f (n + 1) j x).bind fun (l, t) => Spec.pBinRest f n l t

theorem pBin_lift (j : Nat) : ∀ (f n : Nat) (toks : List Spec.SToken), n + j ≤ 13 → j ≤ f →
    Spec.pBin f n toks = lift f n j (Spec.pBin (f - j) (n + j) toks) := by
  induction j with
  | zero => intro f n toks _ _; simp [lift]
  | succ j ih =>
    intro f n toks hn hf
    cases f with
    | zero => omega
    | succ f =>
      have hlt : ¬ (n ≥ Spec.cUnaryLevel) := by unfold Spec.cUnaryLevel; omega
      simp only [Spec.pBin, hlt, if_false, lift]
      rw [ih f (n + 1) toks (by omega) (by omega)]
      have e1 : f + 1 - (j + 1) = f - j := by omega
      have e2 : n + (j + 1) = n + 1 + j := by omega
      rw [e1, e2]

/-- the loops of the levels `n … n+j-1` do nothing when the next token is no binary operator of these levels -/
theorem lift_pass (j : Nat) : ∀ (f n : Nat) (l : Spec.Expr) (rest : List Tok), j + 1 ≤ f → Stops n rest →
    lift f n j (some (l, S rest)) = some (l, S rest) := by
  induction j with
  | zero => intro f n l rest _ _; simp [lift]
  | succ j ih =>
    intro f n l rest hf hs
    cases f with
    | zero => omega
    | succ f =>
      simp only [lift]
      rw [ih f (n + 1) l rest (by omega) (stops_mono hs (by omega))]
      simp only [Option.bind_some]
      cases f with
      | zero => omega
      | succ f =>
        cases rest with
        | nil => simp [Spec.pBinRest]
        | cons t ts =>
          cases t with
          | term x => cases x <;> simp [stok, Spec.pBinRest]
          | err => simp [stok, Spec.pBinRest]
          | op o =>
            simp only [Stops] at hs
            simp only [List.map_cons, stok, Spec.pBinRest, binaryAtLevel_lex]
            cases hb : o.as_binary with
            | none => simp
            | some p =>
              have : ¬ (o.precedence = n ∧ o.precedence ≠ 1) := by omega
              simp [this]

theorem lift_split (j1 : Nat) : ∀ (f n j2 : Nat) (x : Spec.P), j1 ≤ f →
    lift f n (j1 + j2) x = lift f n j1 (lift (f - j1) (n + j1) j2 x) := by
  induction j1 with
  | zero => intro f n j2 x _; simp [lift]
  | succ j1 ih =>
    intro f n j2 x hf
    cases f with
    | zero => omega
    | succ f =>
      have e : j1 + 1 + j2 = (j1 + j2) + 1 := by omega
      rw [e]
      simp only [lift]
      rw [ih f (n + 1) j2 x (by omega)]
      have e1 : f + 1 - (j1 + 1) = f - j1 := by omega
      have e2 : n + (j1 + 1) = n + 1 + j1 := by omega
      rw [e1, e2]

open Spec in
theorem spec_parser_mono (f : Nat) :
    (∀ toks r, pAssign f toks = some r → pAssign (f + 1) toks = some r) ∧
    (∀ toks r, pCond f toks = some r → pCond (f + 1) toks = some r) ∧
    (∀ n toks r, pBin f n toks = some r → pBin (f + 1) n toks = some r) ∧
    (∀ n l toks r, pBinRest f n l toks = some r → pBinRest (f + 1) n l toks = some r) ∧
    (∀ toks r, pUnary f toks = some r → pUnary (f + 1) toks = some r) ∧
    (∀ toks r, pPrimary f toks = some r → pPrimary (f + 1) toks = some r) := by
  induction f with
  | zero => simp [pAssign, pCond, pBin, pBinRest, pUnary, pPrimary]
  | succ f ih =>
    obtain ⟨iA, iC, iB, iR, iU, iP⟩ := ih
    refine ⟨?_, ?_, ?_, ?_, ?_, ?_⟩
    · intro toks r h
      rw [pAssign] at h ⊢
      cases hc : pCond f toks with
      | none => simp [hc] at h
      | some p =>
        obtain ⟨l, t1⟩ := p
        rw [iC _ _ hc]
        simp only [hc, Option.bind_some] at h ⊢
        rcases t1 with _ | ⟨hd, tl⟩
        · exact h
        · cases hd with
          | punct p =>
            simp only at h ⊢
            cases hb : assignmentOfLexeme p with
            | none => simpa [hb] using h
            | some b =>
              simp only [hb] at h ⊢
              cases ha : pAssign f tl with
              | none => simp [ha] at h
              | some q => simpa [ha, iA _ _ ha] using h
          | _ => exact h
    · intro toks r h
      rw [pCond] at h ⊢
      cases hc : pBin f 3 toks with
      | none => simp [hc] at h
      | some p =>
        obtain ⟨c, t1⟩ := p
        rw [iB _ _ _ hc]
        simp only [hc, Option.bind_some] at h ⊢
        rcases t1 with _ | ⟨hd, tl⟩
        · exact h
        · cases hd with
          | punct p =>
            simp only at h ⊢
            by_cases hq : p = ['?']
            · simp only [hq, if_true] at h ⊢
              cases ha : pAssign f tl with
              | none => simp [ha] at h
              | some q =>
                obtain ⟨t, t2⟩ := q
                rw [iA _ _ ha]
                simp only [ha, Option.bind_some] at h ⊢
                rcases t2 with _ | ⟨hd2, tl2⟩
                · exact h
                · cases hd2 with
                  | punct p2 =>
                    simp only at h ⊢
                    by_cases hq2 : p2 = [':']
                    · simp only [hq2, if_true] at h ⊢
                      cases hd : pCond f tl2 with
                      | none => simp [hd] at h
                      | some q2 => simpa [hd, iC _ _ hd] using h
                    · simpa [hq2] using h
                  | _ => exact h
            · simpa [hq] using h
          | _ => exact h
    · intro n toks r h
      rw [pBin] at h ⊢
      by_cases hn : n ≥ cUnaryLevel
      · simp only [hn, if_true] at h ⊢; exact iU _ _ h
      · simp only [hn, if_false] at h ⊢
        cases hc : pBin f (n + 1) toks with
        | none => simp [hc] at h
        | some p =>
          obtain ⟨l, t1⟩ := p
          rw [iB _ _ _ hc]
          simp only [hc, Option.bind_some] at h ⊢
          exact iR _ _ _ _ h
    · intro n l toks r h
      rcases toks with _ | ⟨hd, tl⟩
      · simpa [pBinRest] using h
      · cases hd with
        | punct p =>
          rw [pBinRest] at h ⊢
          cases hb : binaryAtLevel n p with
          | none => simpa [hb] using h
          | some b =>
            simp only [hb] at h ⊢
            cases hc : pBin f (n + 1) tl with
            | none => simp [hc] at h
            | some q =>
              obtain ⟨r1, t1⟩ := q
              rw [iB _ _ _ hc]
              simp only [hc, Option.bind_some] at h ⊢
              exact iR _ _ _ _ h
        | _ => simpa [pBinRest] using h
    · intro toks r h
      rcases toks with _ | ⟨hd, tl⟩
      · simp only [pUnary] at h ⊢; exact iP _ _ h
      · cases hd with
        | punct p =>
          rw [pUnary] at h ⊢
          cases hb : prefixOfLexeme p with
          | none => simp only [hb] at h ⊢; exact iP _ _ h
          | some o =>
            simp only [hb] at h ⊢
            cases hc : pUnary f tl with
            | none => simp [hc] at h
            | some q => simpa [hc, iU _ _ hc] using h
        | _ => simp only [pUnary] at h ⊢; exact iP _ _ h
    · intro toks r h
      rcases toks with _ | ⟨hd, tl⟩
      · simp [pPrimary] at h
      · cases hd with
        | punct p =>
          rw [pPrimary] at h ⊢
          by_cases hq : p = ['(']
          · simp only [hq, if_true] at h ⊢
            cases hc : pAssign f tl with
            | none => simp [hc] at h
            | some q =>
              obtain ⟨e, t1⟩ := q
              rw [iA _ _ hc]
              simp only [hc, Option.bind_some] at h ⊢
              exact h
          · simp [hq] at h
        | _ => simpa [pPrimary] using h

theorem pBinRest_mono_le {f g n : Nat} {l : Spec.Expr} {toks : List Spec.SToken} {r : Spec.Expr × List Spec.SToken}
    (h : Spec.pBinRest f n l toks = some r) (hle : f ≤ g) : Spec.pBinRest g n l toks = some r := by
  induction hle with
  | refl => exact h
  | step _ ih => exact (spec_parser_mono _).2.2.2.1 _ _ _ _ ih

theorem lift_mono (j : Nat) : ∀ (f g n : Nat) (x : Spec.P) (R : Spec.Expr × List Spec.SToken),
    lift f n j x = some R → f ≤ g → lift g n j x = some R := by
  induction j with
  | zero => intro f g n x R h _; simpa [lift] using h
  | succ j ih =>
    intro f g n x R h hle
    cases f with
    | zero => simp [lift] at h
    | succ f =>
      cases g with
      | zero => omega
      | succ g =>
        simp only [lift] at h ⊢
        cases hi : lift f (n + 1) j x with
        | none => simp [hi] at h
        | some p =>
          obtain ⟨l, t⟩ := p
          rw [ih f g (n + 1) x (l, t) hi (by omega)]
          simp only [hi, Option.bind_some] at h ⊢
          exact pBinRest_mono_le h (by omega)

def LeafOfS (ts : List Tok) (e : Spec.Expr) : Prop :=
  ∀ (f : Nat) (rest : List Tok), 64 * ts.length + 4 ≤ f →
    Spec.pUnary f (S (ts ++ rest)) = some (Spec.postfixes e (S rest))

def InnerS (ts : List Tok) (e : Spec.Expr) : Prop :=
  ∀ (f : Nat) (rest : List Tok), 64 * ts.length + 32 ≤ f →
    Spec.pAssign f (S (ts ++ Tok.op .CloseParen :: rest)) = some (e, S (Tok.op .CloseParen :: rest))

def TreeOf (ts : List Tok) (e : Spec.Expr) (lv sl : Nat) : Prop :=
  ∀ (f0 f n : Nat) (rest : List Tok) (R : Spec.Expr × List Spec.SToken),
    3 ≤ n → n ≤ 13 → n ≤ lv → f0 + 64 * ts.length + 16 ≤ f → NoPostfix rest → Stops sl rest →
    lift f0 n (min lv 12 + 1 - n) (some (e, S rest)) = some R →
    Spec.pBin f n (S (ts ++ rest)) = some R

theorem pBin13 (f : Nat) (toks : List Spec.SToken) : Spec.pBin (f + 1) 13 toks = Spec.pUnary f toks := by
  rw [Spec.pBin]; simp [Spec.cUnaryLevel]

theorem treeOf_of_leafOf (ts : List Tok) (e : Spec.Expr) (h : LeafOfS ts e) (sl : Nat) : TreeOf ts e 15 sl := by
  intro f0 f n rest R h3 h13 _ hf hnp _ hR
  rw [pBin_lift (13 - n) f n _ (by omega) (by omega)]
  have e1 : n + (13 - n) = 13 := by omega
  rw [e1]
  obtain ⟨g, hg⟩ : ∃ g, f - (13 - n) = g + 1 := ⟨f - (13 - n) - 1, by omega⟩
  rw [hg, pBin13, h g rest (by omega), postfixes_noPostfix e rest hnp]
  have e2 : min 15 12 + 1 - n = 13 - n := by omega
  rw [e2] at hR
  exact lift_mono _ _ _ _ _ _ hR (by omega)

theorem closeFacts : lexOf .CloseParen = [')'] ∧ lexOf .OpenParen = ['('] ∧
    Spec.assignmentOfLexeme [')'] = none ∧ Spec.prefixOfLexeme ['('] = none ∧
    Operator.CloseParen.precedence = 0 ∧ Operator.CloseParen.as_postfix = none := by decide

theorem leafOfS_paren (ts : List Tok) (e : Spec.Expr) (hT : InnerS ts e) :
    LeafOfS ([.op .OpenParen] ++ ts ++ [.op .CloseParen]) e := by
  intro f rest hf
  obtain ⟨g, hg⟩ : ∃ g, f = g + 2 := ⟨f - 2, by simp at hf; omega⟩
  subst hg
  simp only [List.cons_append, List.nil_append, List.append_assoc, List.map_cons, stok, closeFacts.2.1]
  rw [Spec.pUnary]
  simp only [closeFacts.2.2.2.1]
  rw [Spec.pPrimary]
  simp only [if_true]
  have := hT g rest (by simp at hf; omega)
  simp only [List.map_append, List.map_cons, stok, closeFacts.1] at this
  simp only [List.map_append, List.map_cons, stok, closeFacts.1, this, Option.bind_some, if_true]

theorem innerS_of_treeOf (ts : List Tok) (e : Spec.Expr) (lv sl : Nat) (h3 : 3 ≤ lv) (hsl : 1 ≤ sl)
    (hT : TreeOf ts e lv sl) : InnerS ts e := by
  intro f rest hf
  obtain ⟨g, hg⟩ : ∃ g, f = g + 2 := ⟨f - 2, by omega⟩
  subst hg
  have hnp : NoPostfix (Tok.op Operator.CloseParen :: rest) := closeFacts.2.2.2.2.2
  have hst : ∀ k, 1 ≤ k → Stops k (Tok.op Operator.CloseParen :: rest) := by
    intro k hk; simp only [Stops, closeFacts.2.2.2.2.1]; omega
  have hb := hT 11 g 3 (Tok.op .CloseParen :: rest) (e, S (Tok.op .CloseParen :: rest)) (by omega) (by omega) h3
    (by omega) hnp (hst sl hsl) (lift_pass _ 11 3 e _ (by omega) (hst 3 (by omega)))
  rw [Spec.pAssign, Spec.pCond, hb]
  simp only [Option.bind_some, List.map_cons, stok, closeFacts.1]
  have hq : ¬ ([')'] = ['?']) := by decide
  simp only [hq, if_false, Option.bind_some, closeFacts.2.2.1]

theorem innerS_of_leafOf (ts : List Tok) (e : Spec.Expr) (h : LeafOfS ts e) : InnerS ts e :=
  innerS_of_treeOf ts e 15 16 (by omega) (by omega) (treeOf_of_leafOf ts e h 16)


theorem lift_some_fuel (j : Nat) : ∀ (f n : Nat) (x : Spec.P) (R : Spec.Expr × List Spec.SToken),
    lift f n j x = some R → j ≤ f ∧ ∃ R1, x = some R1 := by
  induction j with
  | zero => intro f n x R h; exact ⟨Nat.zero_le _, R, by simpa [lift] using h⟩
  | succ j ih =>
    intro f n x R h
    cases f with
    | zero => simp [lift] at h
    | succ f =>
      simp only [lift] at h
      cases hi : lift f (n + 1) j x with
      | none => simp [hi] at h
      | some p =>
        obtain ⟨h1, h2⟩ := ih f (n + 1) x p hi
        exact ⟨by omega, h2⟩

theorem use_right (ts : List Tok) (e : Spec.Expr) (lv sl : Nat) (hT : TreeOf ts e lv sl) (f n : Nat)
    (rest : List Tok) (h3 : 3 ≤ n) (h13 : n ≤ 13) (hlv : n ≤ lv) (hf : 64 * ts.length + 27 ≤ f)
    (hnp : NoPostfix rest) (hs1 : Stops sl rest) (hs2 : Stops n rest) :
    Spec.pBin f n (S (ts ++ rest)) = some (e, S rest) :=
  hT 11 f n rest (e, S rest) h3 h13 hlv (by omega) hnp hs1 (lift_pass _ 11 n e rest (by omega) hs2)

theorem treeOf_binL (b : BinaryOperator) (l r : Spec.Expr) (Ul Ur : List Tok) (lvl sll lvr slr : Nat)
    (ha : assocOf b = .Left) (hTl : TreeOf Ul l lvl sll) (hTr : TreeOf Ur r lvr slr)
    (hl : bprec b ≤ lvl) (hsl : bprec b < sll) (hr : bprec b + 1 ≤ lvr) (hsr : bprec b + 1 ≤ slr) :
    TreeOf (Ul ++ [.op (opOfBinary b)] ++ Ur) (.bin b l r) (bprec b) (bprec b + 1) := by
  obtain ⟨hbin, _, h12, _, hpo, _, hleft⟩ := binFacts b
  have h3k := hleft ha
  intro f0 f n rest R h3 h13 hn hf hnp hst hR
  have hmin : min (bprec b) 12 + 1 - n = (bprec b - n) + 1 := by omega
  rw [hmin] at hR
  obtain ⟨hfuel, _⟩ := lift_some_fuel _ _ _ _ _ hR
  rw [lift_split (bprec b - n) f0 n 1 _ (by omega)] at hR
  obtain ⟨_, R1, hR1⟩ := lift_some_fuel _ _ _ _ _ hR
  rw [hR1] at hR
  have hk : n + (bprec b - n) = bprec b := by omega
  rw [hk] at hR1
  obtain ⟨g', hg'⟩ : ∃ g', f0 - (bprec b - n) = g' + 1 := ⟨f0 - (bprec b - n) - 1, by omega⟩
  rw [hg'] at hR1
  simp only [lift, Option.bind_some] at hR1
  -- hR1 : pBinRest g' k (bin b l r) (S rest) = some R1
  rw [pBin_lift (bprec b - n) f n _ (by omega) (by simp at hf; omega), hk]
  have hgoal : Spec.pBin (f - (bprec b - n)) (bprec b)
      (S (Ul ++ [Tok.op (opOfBinary b)] ++ Ur ++ rest)) = some R1 := by
    have hre : Ul ++ [Tok.op (opOfBinary b)] ++ Ur ++ rest = Ul ++ (Tok.op (opOfBinary b) :: (Ur ++ rest)) := by simp
    rw [hre]
    have hnp1 : NoPostfix (Tok.op (opOfBinary b) :: (Ur ++ rest)) := hpo
    have hst1 : ∀ m, bprec b < m → Stops m (Tok.op (opOfBinary b) :: (Ur ++ rest)) := by
      intro m hm; simp only [Stops]; unfold bprec at hm; exact hm
    apply hTl (g' + 64 * Ur.length + 40) _ (bprec b) _ R1 h3k (by omega) hl
      (by simp only [List.length_append, List.length_cons, List.length_nil] at hf; omega) hnp1 (hst1 _ hsl)
    have hsp : min lvl 12 + 1 - bprec b = 1 + (min lvl 12 - bprec b) := by omega
    rw [hsp, lift_split 1 _ _ _ _ (by omega),
      lift_pass _ _ _ l _ (by omega) (hst1 _ (by omega))]
    obtain ⟨q, hq⟩ : ∃ q, g' + 64 * Ur.length + 40 = q + 2 := ⟨g' + 64 * Ur.length + 38, by omega⟩
    rw [hq]
    simp only [lift, Option.bind_some, List.map_cons, stok]
    rw [Spec.pBinRest]
    simp only [binaryAtLevel_lex, hbin]
    have hcond : (opOfBinary b).precedence = bprec b ∧ (opOfBinary b).precedence ≠ 1 := by
      unfold bprec at h3k ⊢; exact ⟨rfl, by omega⟩
    have hne : bprec b ≠ 1 := by omega
    simp only [hcond, and_self, if_true, hne, ne_eq, not_false_eq_true]
    rw [use_right Ur r lvr slr hTr q (bprec b + 1) rest (by omega) (by omega) hr (by omega) hnp
      (stops_mono hst hsr) hst]
    simp only [Option.bind_some]
    exact pBinRest_mono_le (f := g') (g := q) hR1 (by omega)
  rw [hgoal]
  exact lift_mono _ _ _ _ _ _ hR (by omega)


theorem parenN_one (ts : List Tok) (m : Nat) :
    parenN (m + 1) ts = [.op .OpenParen] ++ parenN m ts ++ [.op .CloseParen] := rfl

theorem leafOfS_parenN (ts : List Tok) (e : Spec.Expr) (hI : InnerS ts e) : ∀ m, LeafOfS (parenN (m + 1) ts) e
  | 0 => by rw [parenN_one]; exact leafOfS_paren ts e hI
  | m + 1 => by
    rw [parenN_one]
    exact leafOfS_paren _ e (innerS_of_leafOf _ e (leafOfS_parenN ts e hI m))

def LeafS' (d : Deco) (e : Spec.Expr) : Prop :=
  13 ≤ level e → ∀ (f : Nat) (rest : List Tok), 64 * (renderD d e).length + 4 ≤ f →
    (14 ≤ level e ∨ NoPostfix rest) →
    Spec.pUnary f (S (renderD d e ++ rest)) = some (Spec.postfixes e (S rest))

def TreeS' (d : Deco) (e : Spec.Expr) : Prop := TreeOf (renderD d e) e (level e) (stopLevel e)

theorem level_lt_stop (e : Spec.Expr) (h : 3 ≤ level e) : level e < stopLevel e := by
  cases e with
  | bin b l r =>
    simp only [level, stopLevel] at h ⊢
    by_cases ha : assocOf b = .Left
    · simp [ha]
    · have := (binFacts b).2.2.2.2.2.1 (by cases hq : assocOf b <;> simp_all)
      omega
  | cond c t e => simp [level] at h
  | _ => simp [level, stopLevel]

theorem treeS_of_leafS (d : Deco) (e : Spec.Expr) (h13 : 13 ≤ level e) (hL : LeafS' d e) : TreeS' d e := by
  intro f0 f n rest R h3 hn13 _ hf hnp _ hR
  rw [pBin_lift (13 - n) f n _ (by omega) (by omega)]
  have e1 : n + (13 - n) = 13 := by omega
  rw [e1]
  obtain ⟨g, hg⟩ : ∃ g, f - (13 - n) = g + 1 := ⟨f - (13 - n) - 1, by omega⟩
  rw [hg, pBin13, hL h13 g rest (by omega) (Or.inr hnp), postfixes_noPostfix e rest hnp]
  have e2 : min (level e) 12 + 1 - n = 13 - n := by omega
  rw [e2] at hR
  exact lift_mono _ _ _ _ _ _ hR (by omega)

def AssignOf (ts : List Tok) (e : Spec.Expr) : Prop :=
  ∀ (f : Nat) (rest : List Tok), 64 * ts.length + 32 ≤ f → NoPostfix rest → Stops 1 rest →
    Spec.pAssign f (S (ts ++ rest)) = some (e, S rest)

def CondOf (ts : List Tok) (e : Spec.Expr) : Prop :=
  ∀ (f : Nat) (rest : List Tok), 64 * ts.length + 31 ≤ f → NoPostfix rest → Stops 2 rest →
    Spec.pCond f (S (ts ++ rest)) = some (e, S rest)

theorem lowFacts (o : Operator) : (o.precedence < 2 → lexOf o ≠ ['?']) ∧
    (o.precedence < 1 → Spec.assignmentOfLexeme (lexOf o) = none) := by
  cases o <;> decide

theorem pCond_close (g : Nat) (toks : List Spec.SToken) (e : Spec.Expr) (rest : List Tok)
    (h : Spec.pBin g 3 toks = some (e, S rest)) (hs : Stops 2 rest) :
    Spec.pCond (g + 1) toks = some (e, S rest) := by
  rw [Spec.pCond, h]
  simp only [Option.bind_some]
  cases rest with
  | nil => rfl
  | cons t ts =>
    cases t with
    | term x => cases x <;> rfl
    | err => rfl
    | op o =>
      simp only [Stops] at hs
      simp only [S, List.map_cons, stok, (lowFacts o).1 hs, if_false]

theorem pAssign_close (g : Nat) (toks : List Spec.SToken) (e : Spec.Expr) (rest : List Tok)
    (h : Spec.pCond g toks = some (e, S rest)) (hs : Stops 1 rest) :
    Spec.pAssign (g + 1) toks = some (e, S rest) := by
  rw [Spec.pAssign, h]
  simp only [Option.bind_some]
  cases rest with
  | nil => rfl
  | cons t ts =>
    cases t with
    | term x => cases x <;> rfl
    | err => rfl
    | op o =>
      simp only [Stops] at hs
      simp only [S, List.map_cons, stok, (lowFacts o).2 hs]

theorem condOf_of_treeOf (ts : List Tok) (e : Spec.Expr) (lv sl : Nat) (h3 : 3 ≤ lv) (hsl : 3 ≤ sl)
    (hT : TreeOf ts e lv sl) : CondOf ts e := by
  intro f rest hf hnp hst
  obtain ⟨g, hg⟩ : ∃ g, f = g + 1 := ⟨f - 1, by omega⟩
  subst hg
  exact pCond_close g _ e rest
    (use_right ts e lv sl hT g 3 rest (by omega) (by omega) h3 (by omega) hnp (stops_mono hst (by omega))
      (stops_mono hst (by omega))) hst

theorem assignOf_of_condOf (ts : List Tok) (e : Spec.Expr) (hC : CondOf ts e) : AssignOf ts e := by
  intro f rest hf hnp hst
  obtain ⟨g, hg⟩ : ∃ g, f = g + 1 := ⟨f - 1, by omega⟩
  subst hg
  exact pAssign_close g _ e rest (hC g rest (by omega) hnp (stops_mono hst (by omega))) hst

theorem innerS_of_assignOf (ts : List Tok) (e : Spec.Expr) (hA : AssignOf ts e) : InnerS ts e := by
  intro f rest hf
  exact hA f (Tok.op .CloseParen :: rest) hf closeFacts.2.2.2.2.2
    (by simp only [Stops, closeFacts.2.2.2.2.1]; omega)

theorem unit_leaf (d : Deco) (x : Spec.Expr) (hL : LeafS' d x) (hA : AssignOf (renderD d x) x) (c : Nat)
    (f : Nat) (rest : List Tok) (hf : 64 * (parenN c (renderD d x)).length + 4 ≤ f)
    (hc : 1 ≤ c ∨ 14 ≤ level x ∨ (13 ≤ level x ∧ NoPostfix rest)) :
    Spec.pUnary f (S (parenN c (renderD d x) ++ rest)) = some (Spec.postfixes x (S rest)) := by
  cases c with
  | zero =>
    simp only [parenN] at hf ⊢
    rcases hc with hc | hc | hc
    · omega
    · exact hL (by omega) f rest hf (Or.inl hc)
    · exact hL hc.1 f rest hf (Or.inr hc.2)
  | succ m =>
    exact leafOfS_parenN _ x (innerS_of_assignOf _ x hA) m f rest hf

theorem unit_tree_paren (d : Deco) (x : Spec.Expr) (hA : AssignOf (renderD d x) x) (m : Nat) :
    TreeOf (parenN (m + 1) (renderD d x)) x 15 16 :=
  treeOf_of_leafOf _ x (leafOfS_parenN _ x (innerS_of_assignOf _ x hA) m) 16

/-- a unit `parenN c (R x)` read by `pAssign` / `pCond` -/
theorem unit_assign (d : Deco) (x : Spec.Expr) (hA : AssignOf (renderD d x) x) (c : Nat) :
    AssignOf (parenN c (renderD d x)) x := by
  cases c with
  | zero => exact hA
  | succ m =>
    exact assignOf_of_condOf _ x (condOf_of_treeOf _ x 15 16 (by omega) (by omega) (unit_tree_paren d x hA m))

theorem unit_cond (d : Deco) (x : Spec.Expr) (hA : AssignOf (renderD d x) x)
    (hC : 2 ≤ level x → CondOf (renderD d x) x) (c : Nat) (hc : 1 ≤ c ∨ 2 ≤ level x) :
    CondOf (parenN c (renderD d x)) x := by
  cases c with
  | zero => exact hC (by omega)
  | succ m => exact condOf_of_treeOf _ x 15 16 (by omega) (by omega) (unit_tree_paren d x hA m)

theorem stop16_of_level13 (e : Spec.Expr) (h : 13 ≤ level e) : stopLevel e = 16 := by
  cases e with
  | bin b l r => have := (binFacts b).2.2.1; simp [level] at h; omega
  | cond c t e => simp [level] at h
  | _ => rfl

theorem prec_lt_16 (o : Operator) : o.precedence < 16 := by cases o <;> decide

theorem stops16 (rest : List Tok) : Stops 16 rest := by
  cases rest with
  | nil => trivial
  | cons t ts => cases t with
    | op o => exact prec_lt_16 o
    | _ => trivial

/-- everything the Spec's parser does on the tokens of `e` -/
def GoodS (d : Deco) (e : Spec.Expr) : Prop :=
  LeafS' d e ∧ (3 ≤ level e → TreeS' d e) ∧ AssignOf (renderD d e) e ∧ (2 ≤ level e → CondOf (renderD d e) e)

theorem goodS_of_tree (d : Deco) (e : Spec.Expr) (h3 : 3 ≤ level e) (hL : LeafS' d e) (hT : TreeS' d e) :
    GoodS d e := by
  have hC : CondOf (renderD d e) e :=
    condOf_of_treeOf _ e _ _ h3 (by have := level_lt_stop e h3; omega) hT
  exact ⟨hL, fun _ => hT, assignOf_of_condOf _ e hC, fun _ => hC⟩

theorem questionFacts : lexOf .Question = ['?'] ∧ lexOf .Colon = [':'] ∧ Operator.Question.precedence = 2 ∧
    Operator.Colon.precedence = 0 ∧ Operator.Question.as_postfix = none ∧ Operator.Colon.as_postfix = none := by
  decide

theorem goodS (d : Deco) (e : Spec.Expr) : GoodS d e := by
  induction e with
  | num v =>
    have hL : LeafS' d (.num v) := by
      intro _ f rest hf _
      obtain ⟨g, hg⟩ : ∃ g, f = g + 2 := ⟨f - 2, by omega⟩
      subst hg
      simp only [renderD, List.cons_append, List.nil_append, List.map_cons, stok]
      rw [Spec.pUnary, Spec.pPrimary]
      intro p r h; cases h
    exact goodS_of_tree d _ (by simp [level]) hL (treeS_of_leafS d _ (by simp [level]) hL)
  | var x =>
    have hL : LeafS' d (.var x) := by
      intro _ f rest hf _
      obtain ⟨g, hg⟩ : ∃ g, f = g + 2 := ⟨f - 2, by omega⟩
      subst hg
      simp only [renderD, List.cons_append, List.nil_append, List.map_cons, stok]
      rw [Spec.pUnary, Spec.pPrimary]
      intro p r h; cases h
    exact goodS_of_tree d _ (by simp [level]) hL (treeS_of_leafS d _ (by simp [level]) hL)
  | pre op x ih =>
    obtain ⟨hLx, _, hAx, _⟩ := ih
    have hL : LeafS' d (.pre op x) := by
      intro _ f rest hf hor
      have hnp : NoPostfix rest := by
        rcases hor with h | h
        · simp [level] at h
        · exact h
      obtain ⟨g, hg⟩ : ∃ g, f = g + 1 := ⟨f - 1, by omega⟩
      subst hg
      simp only [renderD, List.cons_append, List.map_cons, stok] at hf ⊢
      rw [Spec.pUnary]
      simp only [(lexFacts _).2.1, (prefixFacts op).1]
      rw [unit_leaf d x hLx hAx _ g rest (by simp at hf; omega)
        (by by_cases hlv : level x < 13
            · exact Or.inl (by simp [hlv])
            · exact Or.inr (Or.inr ⟨by omega, hnp⟩))]
      simp [postfixes_noPostfix _ rest hnp]
    exact goodS_of_tree d _ (by simp [level]) hL (treeS_of_leafS d _ (by simp [level]) hL)
  | post op x ih =>
    obtain ⟨hLx, _, hAx, _⟩ := ih
    have hL : LeafS' d (.post op x) := by
      intro _ f rest hf _
      simp only [renderD, List.append_assoc, List.cons_append, List.nil_append] at hf ⊢
      rw [unit_leaf d x hLx hAx _ f _ (by simp at hf; omega)
        (by by_cases hlv : level x < 14
            · exact Or.inl (by simp [hlv])
            · exact Or.inr (Or.inl (by omega)))]
      simp only [List.map_cons, stok]
      rw [Spec.postfixes]
      simp only [(lexFacts _).2.2.1, postfixFacts op]
    exact goodS_of_tree d _ (by simp [level]) hL (treeS_of_leafS d _ (by simp [level]) hL)
  | bin b l r ihl ihr =>
    obtain ⟨hLl, hTl, hAl, _⟩ := ihl
    obtain ⟨hLr, hTr, hAr, _⟩ := ihr
    by_cases ha : assocOf b = .Left
    · have h3k := (binFacts b).2.2.2.2.2.2 ha
      have hk12 := (binFacts b).2.2.1
      have hLe : LeafS' d (.bin b l r) := fun h => by simp [level] at h; omega
      refine goodS_of_tree d _ (by simpa [level] using h3k) hLe ?_
      unfold TreeS'
      simp only [renderD, ha, if_true, level, stopLevel]
      have hUl : ∃ lvl sll, TreeOf (parenN (d l + if level l < bprec b then 1 else 0) (renderD d l)) l lvl sll ∧
          bprec b ≤ lvl ∧ bprec b < sll := by
        by_cases hc : d l + (if level l < bprec b then 1 else 0) = 0
        · rw [hc]
          have hlv : ¬ level l < bprec b := need_zero hc
          exact ⟨level l, stopLevel l, hTl (by omega), by omega, by have := level_lt_stop l (by omega); omega⟩
        · obtain ⟨m, hm⟩ : ∃ m, d l + (if level l < bprec b then 1 else 0) = m + 1 := ⟨_, (Nat.succ_pred hc).symm⟩
          rw [hm]
          exact ⟨15, 16, unit_tree_paren d l hAl m, by omega, by omega⟩
      have hUr : ∃ lvr slr, TreeOf (parenN (d r + if level r ≤ bprec b then 1 else 0) (renderD d r)) r lvr slr ∧
          bprec b + 1 ≤ lvr ∧ bprec b + 1 ≤ slr := by
        by_cases hc : d r + (if level r ≤ bprec b then 1 else 0) = 0
        · rw [hc]
          have hlv : ¬ level r ≤ bprec b := need_zero hc
          exact ⟨level r, stopLevel r, hTr (by omega), by omega, by have := level_lt_stop r (by omega); omega⟩
        · obtain ⟨m, hm⟩ : ∃ m, d r + (if level r ≤ bprec b then 1 else 0) = m + 1 := ⟨_, (Nat.succ_pred hc).symm⟩
          rw [hm]
          exact ⟨15, 16, unit_tree_paren d r hAr m, by omega, by omega⟩
      obtain ⟨lvl, sll, hTl', hl1, hl2⟩ := hUl
      obtain ⟨lvr, slr, hTr', hr1, hr2⟩ := hUr
      exact treeOf_binL b l r _ _ lvl sll lvr slr ha hTl' hTr' hl1 hl2 hr1 hr2
    · -- assignment operators: `unary-expression op assignment-expression`
      have har : assocOf b = .Right := by cases hq : assocOf b <;> simp_all
      obtain ⟨hbin, _, _, _, hpo, hone, _⟩ := binFacts b
      have h1 := hone har
      have hlev : level (.bin b l r) = 1 := by simpa [level] using h1
      refine ⟨fun h => by omega, fun h => by omega, ?_, fun h => by omega⟩
      intro f rest hf hnp hst
      simp only [renderD, ha, if_false, List.append_assoc, List.cons_append, List.nil_append] at hf ⊢
      obtain ⟨g, hg⟩ : ∃ g, f = g + 2 := ⟨f - 2, by omega⟩
      subst hg
      -- the left operand is a leaf-like unit: level ≥ 13 or parenthesised
      have hUl : TreeOf (parenN (d l + if level l < 13 then 1 else 0) (renderD d l)) l 15 16 := by
        by_cases hc : d l + (if level l < 13 then 1 else 0) = 0
        · rw [hc]
          have hlv : ¬ level l < 13 := need_zero hc
          intro f0 f n rest R a1 a2 _ a4 a5 _ a7
          have := treeS_of_leafS d l (by omega) hLl f0 f n rest R a1 a2 (by omega) a4 a5
            (by rw [stop16_of_level13 l (by omega)]; exact stops16 _)
            (by have e : min (level l) 12 = min 15 12 := by omega
                rw [e]; exact a7)
          exact this
        · obtain ⟨m, hm⟩ : ∃ m, d l + (if level l < 13 then 1 else 0) = m + 1 := ⟨_, (Nat.succ_pred hc).symm⟩
          rw [hm]; exact unit_tree_paren d l hAl m
      have hnp1 : NoPostfix (Tok.op (opOfBinary b) :: (parenN (d r) (renderD d r) ++ rest)) := hpo
      have hst1 : ∀ m, 1 < m → Stops m (Tok.op (opOfBinary b) :: (parenN (d r) (renderD d r) ++ rest)) := by
        intro m hm; simp only [Stops]; unfold bprec at h1; omega
      have hc := pCond_close g _ l _
        (use_right _ l 15 16 hUl g 3 _ (by omega) (by omega) (by omega)
          (by simp only [List.length_append, List.length_cons] at hf; omega) hnp1 (hst1 16 (by omega)) (hst1 3 (by omega)))
        (hst1 2 (by omega))
      rw [Spec.pAssign, hc]
      simp only [Option.bind_some, S, List.map_cons, stok]
      have hal : Spec.assignmentOfLexeme (lexOf (opOfBinary b)) = some b := by
        unfold Spec.assignmentOfLexeme
        rw [(lexFacts _).1, hbin]
        unfold bprec at h1
        simp [h1]
      simp only [hal]
      rw [unit_assign d r hAr (d r) (g + 1) rest (by simp only [List.length_append, List.length_cons] at hf; omega) hnp hst]
      rfl
  | cond c t e ihc iht ihe =>
    obtain ⟨hLc, hTc, hAc, _⟩ := ihc
    obtain ⟨_, _, hAt, _⟩ := iht
    obtain ⟨_, _, hAe, hCe⟩ := ihe
    have hlev : level (.cond c t e) = 2 := rfl
    have hC : CondOf (renderD d (.cond c t e)) (.cond c t e) := by
      intro f rest hf hnp hst
      simp only [renderD, List.append_assoc, List.cons_append, List.nil_append] at hf ⊢
      obtain ⟨g, hg⟩ : ∃ g, f = g + 1 := ⟨f - 1, by omega⟩
      subst hg
      have hUc : ∃ lv sl, TreeOf (parenN (d c + if level c ≤ 2 then 1 else 0) (renderD d c)) c lv sl ∧ 3 ≤ lv ∧ 3 ≤ sl := by
        by_cases hc : d c + (if level c ≤ 2 then 1 else 0) = 0
        · rw [hc]
          have hlv : ¬ level c ≤ 2 := need_zero hc
          exact ⟨level c, stopLevel c, hTc (by omega), by omega, by have := level_lt_stop c (by omega); omega⟩
        · obtain ⟨m, hm⟩ : ∃ m, d c + (if level c ≤ 2 then 1 else 0) = m + 1 := ⟨_, (Nat.succ_pred hc).symm⟩
          rw [hm]; exact ⟨15, 16, unit_tree_paren d c hAc m, by omega, by omega⟩
      obtain ⟨lv, sl, hTc', hlv3, hsl3⟩ := hUc
      have hstq : ∀ m, 2 < m → Stops m (Tok.op Operator.Question ::
          (parenN (d t) (renderD d t) ++ Tok.op Operator.Colon ::
            (parenN (d e + if level e < 2 then 1 else 0) (renderD d e) ++ rest))) := by
        intro m hm; simp only [Stops, questionFacts.2.2.1]; omega
      have hnpq : NoPostfix (Tok.op Operator.Question ::
          (parenN (d t) (renderD d t) ++ Tok.op Operator.Colon ::
            (parenN (d e + if level e < 2 then 1 else 0) (renderD d e) ++ rest))) := questionFacts.2.2.2.2.1
      have hb := use_right _ c lv sl hTc' g 3 _ (by omega) (by omega) hlv3
        (by simp only [List.length_append, List.length_cons] at hf; omega) hnpq
        (hstq sl (by omega)) (hstq 3 (by omega))
      rw [Spec.pCond, hb]
      simp only [Option.bind_some, S, List.map_cons, stok, questionFacts.1, if_true]
      have hcolon : Stops 1 (Tok.op Operator.Colon ::
          (parenN (d e + if level e < 2 then 1 else 0) (renderD d e) ++ rest)) := by
        simp only [Stops, questionFacts.2.2.2.1]; omega
      have hnpc : NoPostfix (Tok.op Operator.Colon ::
          (parenN (d e + if level e < 2 then 1 else 0) (renderD d e) ++ rest)) := questionFacts.2.2.2.2.2
      have ht := unit_assign d t hAt (d t) g _
        (by simp only [List.length_append, List.length_cons] at hf; omega) hnpc hcolon
      simp only [S, List.map_append, List.map_cons, stok, questionFacts.2.1] at ht
      simp only [List.map_append, List.map_cons, stok, questionFacts.2.1, ht, Option.bind_some, if_true]
      have he := unit_cond d e hAe hCe (d e + if level e < 2 then 1 else 0)
        (by by_cases hl : level e < 2
            · exact Or.inl (by simp [hl])
            · exact Or.inr (by omega)) g rest
        (by simp only [List.length_append, List.length_cons] at hf; omega) hnp hst
      simp only [S, List.map_append] at he
      rw [he]; rfl
    exact ⟨fun h => by omega, fun h => by omega, assignOf_of_condOf _ _ hC, fun _ => hC⟩

/-- the Spec's parser reads the tokens of EVERY tree (needed and any redundant parentheses) back as the tree -/
theorem pAssign_renderTop (d : Deco) (e : Spec.Expr) (f : Nat)
    (hf : 64 * (renderTop d e).length + 32 ≤ f) : Spec.pAssign f (S (renderTop d e)) = some (e, []) := by
  obtain ⟨_, _, hA, _⟩ := goodS d e
  have := unit_assign d e hA (d e) f [] (by simpa [renderTop] using hf) trivial trivial
  simpa [renderTop, S] using this

theorem lexOf_operators : ∀ q ∈ operators, lexOf q.2 = q.1 := by decide

theorem stok_of_tok (x : Spec.SToken) (t : Tok) (h : tokOfSToken x = t) (ht : t ≠ .err) : x = stok t := by
  cases x with
  | num v => subst h; rfl
  | ident n => subst h; rfl
  | bad => subst h; exact absurd rfl ht
  | punct p =>
    unfold tokOfSToken opOfLexeme at h
    cases hf : operators.find? (fun q => q.1 = p) with
    | none => simp [hf] at h; exact absurd h.symm ht
    | some q =>
      simp only [hf, Option.map_some] at h
      subst h
      have hm := List.mem_of_find?_eq_some hf
      have hp : q.1 = p := by simpa using List.find?_some hf
      simp only [stok, lexOf_operators q hm, hp]

theorem S_of_map (xs : List Spec.SToken) : ∀ (ts : List Tok), xs.map tokOfSToken = ts → (∀ t ∈ ts, t ≠ Tok.err) →
    xs = S ts := by
  induction xs with
  | nil => intro ts h _; simp at h; subst h; rfl
  | cons x xs ih =>
    intro ts h hne
    cases ts with
    | nil => simp at h
    | cons t ts =>
      simp only [List.map_cons, List.cons.injEq] at h
      simp only [S, List.map_cons]
      rw [stok_of_tok x t h.1 (hne t (by simp)), ih ts h.2 (fun t' ht' => hne t' (by simp [ht']))]

theorem parenN_noerr (ts : List Tok) (h : ∀ t ∈ ts, t ≠ Tok.err) : ∀ n, ∀ t ∈ parenN n ts, t ≠ Tok.err
  | 0 => h
  | n + 1 => by
    intro t ht
    simp only [parenN, List.cons_append, List.nil_append, List.mem_cons, List.mem_append, List.not_mem_nil,
      or_false] at ht
    rcases ht with ht | ht | ht
    · rw [ht]; simp
    · exact parenN_noerr ts h n t ht
    · rw [ht]; simp

theorem renderD_noerr (d : Deco) (e : Spec.Expr) : ∀ t ∈ renderD d e, t ≠ Tok.err := by
  induction e with
  | num v => simp [renderD]
  | var x => simp [renderD]
  | pre op x ih =>
    intro t ht
    simp only [renderD, List.mem_cons] at ht
    rcases ht with ht | ht
    · rw [ht]; simp
    · exact parenN_noerr _ ih _ t ht
  | post op x ih =>
    intro t ht
    simp only [renderD, List.mem_append, List.mem_cons, List.not_mem_nil, or_false] at ht
    rcases ht with ht | ht
    · exact parenN_noerr _ ih _ t ht
    · rw [ht]; simp
  | bin b l r ihl ihr =>
    intro t ht
    simp only [renderD] at ht
    split at ht <;>
      simp only [List.mem_append, List.mem_cons, List.not_mem_nil, or_false] at ht <;>
      (rcases ht with (ht | ht) | ht
       · exact parenN_noerr _ ihl _ t ht
       · rw [ht]; simp
       · exact parenN_noerr _ ihr _ t ht)
  | cond c x y ihc ihx ihy =>
    intro t ht
    simp only [renderD, List.mem_append, List.mem_cons, List.not_mem_nil, or_false] at ht
    rcases ht with (((ht | ht) | ht) | ht) | ht
    · exact parenN_noerr _ ihc _ t ht
    · rw [ht]; simp
    · exact parenN_noerr _ ihx _ t ht
    · rw [ht]; simp
    · exact parenN_noerr _ ihy _ t ht

theorem renderTop_noerr (d : Deco) (e : Spec.Expr) : ∀ t ∈ renderTop d e, t ≠ Tok.err :=
  parenN_noerr _ (renderD_noerr d e) _

theorem table_prefix_closed : ∀ q ∈ operators, q.1.length ≤ 3 ∧ ∀ n ∈ [1, 2, 3], q.1.take n ∈ operators.map (·.1) := by decide

/-! ## `$name` in the text of an arithmetic expansion (shell leg) -/

theorem termChar_not_open (c : Char) (h : isTermChar c = true) : c ≠ '(' ∧ c ≠ '{' := by
  constructor <;> (intro hc; subst hc; revert h; decide)

theorem substText_dollar (f : Nat) (st : Store) (status : Nat) (c : Char) (cs after v : List Char)
    (hname : ∀ ch ∈ c :: cs, isTermChar ch = true)
    (hafter : ∀ ch, after.head? = some ch → isTermChar ch = false)
    (hv : textOf st (c :: cs) = some v) :
    substText (f + 1) st status ('$' :: ((c :: cs) ++ after)) =
      (substText f st status after).map fun (t, st2, s2) => (v ++ t, st2, s2) := by
  obtain ⟨h1, h2⟩ := termChar_not_open c (hname c (by simp))
  obtain ⟨htw, hdw⟩ := takeWhile_term_general (c :: cs) after hname hafter
  simp only [List.cons_append] at htw hdw ⊢
  rw [substText]
  · simp only [htw, hdw, List.isEmpty_cons, Bool.false_eq_true, if_false, hv]
  · intro rest h; simp only [List.cons.injEq] at h; exact h1 h.1
  · intro rest h; simp only [List.cons.injEq] at h; exact h1 h.1
  · intro rest h; simp only [List.cons.injEq] at h; exact h2 h.1
/-! ## the admissible causes (`Spec.fails`) against the Spec's value -/

open Spec in
theorem why_none_iff_arith (op : BinaryOperator) (a b : Int) :
    why (arithOf op) a b = none ↔ (arith op a b).isSome := by
  rw [why_none_iff]
  unfold arith definedOp exactOp
  by_cases h : definedA (arithOf op) a b ∧ InRange (exactA (arithOf op) a b) <;> simp [h]

theorem isSome_map {α β : Type} (o : Option α) (f : α → β) : (o.map f).isSome = o.isSome := by
  cases o <;> rfl

open Spec in
theorem fails_nil_iff (e : Expr) : ∀ env, litsInRange e → (fails e env = [] ↔ (evalExact e env).isSome) := by
  induction e with
  | num v =>
    intro env hl
    have : Spec.InRange v := (inRange_iff v).mp hl
    simp [fails, evalExact, represent, this]
  | var x =>
    intro env _
    simp only [fails, evalExact, isSome_map]
    cases readVar env x <;> simp
  | pre op e ih =>
    intro env hl
    have ih' := ih env hl
    cases op with
    | Increment =>
      cases e <;> simp only [fails, evalExact, reduceCtorEq, Option.isSome_none, List.cons_ne_nil, iff_false, not_false_eq_true, Bool.false_eq_true] <;> try trivial
      rename_i x
      cases readVar env x with
      | none => simp
      | some v => simp only [Option.bind_some, isSome_map, if_true]; cases represent (v + 1) <;> simp
    | Decrement =>
      cases e <;> simp only [fails, evalExact, reduceCtorEq, Option.isSome_none, List.cons_ne_nil, iff_false, not_false_eq_true, Bool.false_eq_true] <;> try trivial
      rename_i x
      cases readVar env x with
      | none => simp
      | some v => simp only [Option.bind_some, isSome_map, reduceCtorEq, if_false]; cases represent (v - 1) <;> simp
    | NumericCoercion => simpa [fails, evalExact] using ih'
    | LogicalNegation => simpa [fails, evalExact, isSome_map] using ih'
    | BitwiseNegation => simpa [fails, evalExact, isSome_map] using ih'
    | NumericNegation =>
      simp only [fails, evalExact]
      cases hf : fails e env with
      | nil =>
        have hs := ih'.mp hf
        cases hx : evalExact e env with
        | none => rw [hx] at hs; simp at hs
        | some p =>
          obtain ⟨v, env1⟩ := p
          simp only [Option.bind_some, isSome_map]
          cases represent (-v) <;> simp
      | cons a t =>
        have hn : evalExact e env = none := by
          cases hx : evalExact e env with
          | none => rfl
          | some p => have := ih'.mpr (by rw [hx]; rfl); rw [hf] at this; simp at this
        simp [hn]
  | post op e ih =>
    intro env hl
    cases e <;> simp only [fails, evalExact, reduceCtorEq, Option.isSome_none, List.cons_ne_nil, iff_false, not_false_eq_true, Bool.false_eq_true] <;> try trivial
    rename_i x
    cases readVar env x with
    | none => simp
    | some v =>
      simp only [Option.bind_some, isSome_map]
      cases op
      · simp only [↓reduceIte]; cases represent (v + 1) <;> simp
      · simp only [reduceCtorEq, ↓reduceIte]; cases represent (v - 1) <;> simp
  | cond c t e ihc iht ihe =>
    intro env hl
    obtain ⟨hlc, hlt, hle⟩ := hl
    simp only [fails, evalExact]
    cases hf : fails c env with
    | nil =>
      have hs := (ihc env hlc).mp hf
      cases hx : evalExact c env with
      | none => rw [hx] at hs; simp at hs
      | some p =>
        obtain ⟨a, env1⟩ := p
        simp only [Option.bind_some]
        by_cases ha : a ≠ 0
        · simp only [if_pos ha]; exact iht env1 hlt
        · simp only [if_neg ha]; exact ihe env1 hle
    | cons a t' =>
      have hn : evalExact c env = none := by
        cases hx : evalExact c env with
        | none => rfl
        | some p => have := (ihc env hlc).mpr (by rw [hx]; rfl); rw [hf] at this; simp at this
      simp [hn]
  | bin op l r ihl ihr =>
    intro env hl
    obtain ⟨hll, hlr⟩ := hl
    have none_of_cons : ∀ (x : Expr) (env : Env) (a : Fail) (t : List Fail), litsInRange x →
        (fails x env = [] ↔ (evalExact x env).isSome) → fails x env = a :: t → evalExact x env = none := by
      intro x env a t _ hiff hf
      cases hx : evalExact x env with
      | none => rfl
      | some p => have := hiff.mpr (by rw [hx]; rfl); rw [hf] at this; simp at this
    by_cases h1 : op = .LogicalOr
    · subst h1
      simp only [fails, evalExact, true_or, if_true, true_and, reduceCtorEq, false_and, or_false]
      cases hf : fails l env with
      | nil =>
        have hs := (ihl env hll).mp hf
        cases hx : evalExact l env with
        | none => rw [hx] at hs; simp at hs
        | some p =>
          obtain ⟨a, env1⟩ := p
          simp only [Option.bind_some]
          by_cases ha : a ≠ 0
          · simp [if_pos ha]
          · simp only [if_neg ha, isSome_map]; exact ihr env1 hlr
      | cons a t => simp [none_of_cons l env a t hll (ihl env hll) hf]
    · by_cases h2 : op = .LogicalAnd
      · subst h2
        simp only [fails, evalExact, or_true, if_true, reduceCtorEq, if_false, false_and, false_or, true_and]
        cases hf : fails l env with
        | nil =>
          have hs := (ihl env hll).mp hf
          cases hx : evalExact l env with
          | none => rw [hx] at hs; simp at hs
          | some p =>
            obtain ⟨a, env1⟩ := p
            simp only [Option.bind_some]
            by_cases ha : a = 0
            · simp [if_pos ha]
            · simp only [if_neg ha, isSome_map]; exact ihr env1 hlr
        | cons a t => simp [none_of_cons l env a t hll (ihl env hll) hf]
      · have hno : ¬ (op = .LogicalOr ∨ op = .LogicalAnd) := by simp [h1, h2]
        simp only [fails, evalExact, hno, h1, h2, if_false]
        cases hk : kindOf op with
        | plain =>
          simp only
          cases hx : evalExact l env with
          | none =>
            have hfl : fails l env ≠ [] := fun h => by have := (ihl env hll).mp h; rw [hx] at this; simp at this
            cases hf : fails l env with
            | nil => exact absurd hf hfl
            | cons a t => simp
          | some p =>
            obtain ⟨a, env1⟩ := p
            have hfl : fails l env = [] := (ihl env hll).mpr (by rw [hx]; rfl)
            simp only [hfl, List.isEmpty_nil, true_and, List.nil_append, Option.bind_some]
            cases hy : evalExact r env1 with
            | none =>
              have hfr : fails r env1 ≠ [] := fun h => by have := (ihr env1 hlr).mp h; rw [hy] at this; simp at this
              cases hf : fails r env1 with
              | nil => exact absurd hf hfr
              | cons a' t => simp
            | some q =>
              obtain ⟨b, env2⟩ := q
              have hfr : fails r env1 = [] := (ihr env1 hlr).mpr (by rw [hy]; rfl)
              simp only [hfr, List.isEmpty_nil, if_true, Option.bind_some, isSome_map]
              have hw := why_none_iff_arith op a b
              cases hwq : why (arithOf op) a b with
              | none => simp [hw.mp hwq]
              | some qq =>
                have : (arith op a b).isSome = false := by
                  cases har : arith op a b with
                  | none => rfl
                  | some v => have := hw.mpr (by rw [har]; rfl); rw [hwq] at this; simp at this
                simp [this]
        | assign =>
          cases l with
          | var x => simp only [isSome_map]; exact ihr env hlr
          | _ => simp
        | compound =>
          cases l with
          | var x =>
            simp only
            cases hrd : readVar env x with
            | none => simp
            | some a =>
              simp only [Option.isNone_some, Bool.false_eq_true, if_false, List.isEmpty_nil, true_and, List.nil_append,
                Option.bind_some]
              cases hy : evalExact r env with
              | none =>
                have hfr : fails r env ≠ [] := fun h => by have := (ihr env hlr).mp h; rw [hy] at this; simp at this
                cases hf : fails r env with
                | nil => exact absurd hf hfr
                | cons a' t => simp
              | some q =>
                obtain ⟨b, env2⟩ := q
                have hfr : fails r env = [] := (ihr env hlr).mpr (by rw [hy]; rfl)
                simp only [hfr, List.isEmpty_nil, if_true, Option.bind_some, isSome_map]
                have hw := why_none_iff_arith op a b
                cases hwq : why (arithOf op) a b with
                | none => simp [hw.mp hwq]
                | some qq =>
                  have : (arith op a b).isSome = false := by
                    cases har : arith op a b with
                    | none => rfl
                    | some v => have := hw.mpr (by rw [har]; rfl); rw [hwq] at this; simp at this
                  simp [this]
          | _ => simp
end YashModel.Arith
