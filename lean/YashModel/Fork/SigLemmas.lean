/-
  C08 — every write of the Trap model (C11) to the process's signal state is a `sigaction` / `sigmask` call of the
  process itself: `Sys.setDisposition` (the one primitive `TrapSet` uses) is `[sigmask block]? sigaction [sigmask
  unblock]?` of `Call.runT`, up to `Sys.selectMask` (which is `Concurrent`'s shell-side select mask, not part of
  `Process`).  Helper lemmas; the property theorems are in `Theorems.lean`.
-/
import YashModel.Fork.RedirLemmas
namespace YashModel.Fork
open YashModel.Trap (Disp Sys)

/-- the part of `Sys` that lives in `Process`: `dispositions` and `blocked_signals` -/
def SysEq (a b : Sys) : Prop := a.disp = b.disp ∧ a.blocked = b.blocked

/-- everything of a process except its signal state is the same -/
def Proc.SameButSys (p q : Proc) : Prop :=
  q.fds = p.fds ∧ q.cwd = p.cwd ∧ q.umask = p.umask ∧ q.ppid = p.ppid ∧ q.ttyAvail = p.ttyAvail ∧ q.nofile = p.nofile

/-- `s'` is — up to the shell-side select mask — what a list of `sigaction` / `sigmask` calls of a process makes of
    the signal state `s`, whatever else the process looks like; nothing else of the process changes -/
def SysReach (s s' : Sys) : Prop :=
  ∃ cs : List Call,
    (∀ c ∈ cs, (∃ sig d, c = .sigaction sig d) ∨ (∃ b sig, c = .sigmask b sig))
    ∧ ∀ p : Proc, SysEq p.sys s → SysEq (runCalls p cs).sys s' ∧ p.SameButSys (runCalls p cs)

theorem SysReach.refl (s : Sys) : SysReach s s :=
  ⟨[], by simp, fun p h => ⟨h, rfl, rfl, rfl, rfl, rfl, rfl⟩⟩

theorem SysReach.trans {a b c : Sys} (h1 : SysReach a b) (h2 : SysReach b c) : SysReach a c := by
  obtain ⟨c1, k1, r1⟩ := h1
  obtain ⟨c2, k2, r2⟩ := h2
  refine ⟨c1 ++ c2, ?_, fun p hp => ?_⟩
  · intro x hx
    rcases List.mem_append.mp hx with hx | hx
    · exact k1 x hx
    · exact k2 x hx
  · rw [runCalls_app]
    obtain ⟨e1, f1⟩ := r1 p hp
    obtain ⟨e2, f2⟩ := r2 (runCalls p c1) e1
    obtain ⟨a1, a2, a3, a4, a5, a6⟩ := f1
    obtain ⟨b1, b2, b3, b4, b5, b6⟩ := f2
    exact ⟨e2, b1.trans a1, b2.trans a2, b3.trans a3, b4.trans a4, b5.trans a5, b6.trans a6⟩

theorem sysReach_of_eq {a b c : Sys} (h : SysReach a b) (e : SysEq b c) : SysReach a c := by
  obtain ⟨cs, k, r⟩ := h
  exact ⟨cs, k, fun p hp => ⟨⟨(r p hp).1.1.trans e.1, (r p hp).1.2.trans e.2⟩, (r p hp).2⟩⟩

/-- `Concurrent::set_disposition`: block first when installing a handler, `sigaction`, unblock after anything else -/
theorem setDisposition_reach (s : Sys) (sig : Nat) (d : Disp) : SysReach s (s.setDisposition sig d).2 := by
  by_cases hd : d = .catch
  · subst hd
    refine ⟨[.sigmask true sig, .sigaction sig .catch], ?_, fun p hp => ?_⟩
    · intro c hc
      simp only [List.mem_cons, List.not_mem_nil, or_false] at hc
      rcases hc with rfl | rfl
      · exact .inr ⟨true, sig, rfl⟩
      · exact .inl ⟨sig, .catch, rfl⟩
    · obtain ⟨h1, h2⟩ := hp
      refine ⟨⟨?_, ?_⟩, rfl, rfl, rfl, rfl, rfl, rfl⟩
      · simp [runCalls, Call.run, Call.runT, Sys.setDisposition, Sys.updateMask, h1]
      · simp [runCalls, Call.run, Call.runT, Sys.setDisposition, Sys.updateMask, h2]
  · refine ⟨[.sigaction sig d, .sigmask false sig], ?_, fun p hp => ?_⟩
    · intro c hc
      simp only [List.mem_cons, List.not_mem_nil, or_false] at hc
      rcases hc with rfl | rfl
      · exact .inl ⟨sig, d, rfl⟩
      · exact .inr ⟨false, sig, rfl⟩
    · obtain ⟨h1, h2⟩ := hp
      refine ⟨⟨?_, ?_⟩, rfl, rfl, rfl, rfl, rfl, rfl⟩
      · simp [runCalls, Call.run, Call.runT, Sys.setDisposition, Sys.updateMask, h1, hd]
      · simp [runCalls, Call.run, Call.runT, Sys.setDisposition, Sys.updateMask, h2, hd]


/-! ### the functions of the Trap model, composed from `setDisposition` -/

theorem sysReach_ite (c : Prop) [Decidable c] (s : Sys) (sig : Nat) (d : Disp) :
    SysReach s (if c then (s.setDisposition sig d).2 else s) := by
  split
  · exact setDisposition_reach s sig d
  · exact .refl s

theorem gsSetAction_reach (sys : Sys) (e : Option Trap.GrandState) (cond : Nat) (a : Trap.Action) (origin : Nat)
    (ov : Bool) : SysReach sys (Trap.GrandState.setAction sys e cond a origin ov).1 := by
  unfold Trap.GrandState.setAction
  simp only []
  split
  · split
    · split
      · exact setDisposition_reach sys cond .ignore
      · exact (sysReach_ite _ sys cond .ignore).trans (sysReach_ite _ _ cond _)
    · exact .refl sys
  · split
    · exact .refl sys
    · exact sysReach_ite _ sys cond _

theorem setAction_reach (st : Trap.State) (cond : Nat) (a : Trap.Action) (origin : Nat) (ov : Bool) :
    SysReach st.sys (Trap.setAction st cond a origin ov).1.sys := by
  unfold Trap.setAction
  split
  · exact .refl _
  · split
    · exact .refl _
    · exact gsSetAction_reach _ _ _ _ _ _

theorem gsEnterSubshell_reach (sys : Sys) (g : Trap.GrandState) (cond : Nat) (opt : Trap.SubOpt) :
    SysReach sys (g.enterSubshell sys cond opt).1 := by
  unfold Trap.GrandState.enterSubshell
  exact sysReach_ite _ sys cond _

theorem enterAll_reach (ii ks : Bool) (t : Trap.TrapMap) :
    ∀ sys : Sys, SysReach sys (Trap.enterAll sys ii ks t).1 := by
  induction t with
  | nil => intro sys; exact .refl sys
  | cons hd tl ih =>
    obtain ⟨k, g⟩ := hd
    intro sys
    exact (gsEnterSubshell_reach sys g k _).trans (ih _)

theorem ignoreIfVacant_reach (st : Trap.State) (sig : Nat) : SysReach st.sys (Trap.ignoreIfVacant st sig).sys := by
  unfold Trap.ignoreIfVacant
  split
  · exact setDisposition_reach st.sys sig .ignore
  · exact .refl _

/-- `TrapSet::enter_subshell`: every change of the signal state is a call of the process itself -/
theorem enterSubshell_reach (st : Trap.State) (ii ks : Bool) :
    SysReach st.sys (Trap.enterSubshell st ii ks).sys := by
  unfold Trap.enterSubshell
  simp only []
  have h := enterAll_reach ii ks (Trap.clearParents st.traps) st.sys
  split
  · have h1 : ∀ st1 : Trap.State, SysReach st.sys st1.sys →
        SysReach st.sys (Trap.ignoreIfVacant (Trap.ignoreIfVacant st1 Trap.SIGINT) Trap.SIGQUIT).sys :=
      fun st1 hs => (hs.trans (ignoreIfVacant_reach st1 Trap.SIGINT)).trans (ignoreIfVacant_reach _ Trap.SIGQUIT)
    exact h1 _ h
  · exact h

theorem gsSetInternal_reach (sys : Sys) (e : Option Trap.GrandState) (sig : Nat) (d : Disp) :
    SysReach sys (Trap.GrandState.setInternal sys e sig d).1 := by
  unfold Trap.GrandState.setInternal
  split
  · split
    · exact .refl sys
    · exact setDisposition_reach sys sig d
  · exact sysReach_ite _ sys sig _

theorem setInternal_reach (st : Trap.State) (sig : Nat) (d : Disp) :
    SysReach st.sys (Trap.setInternal st sig d).sys := gsSetInternal_reach _ _ _ _

/-- `enable_/disable_internal_dispositions_for_stoppers` -/
theorem stoppers_reach (st : Trap.State) :
    SysReach st.sys (Trap.enableStoppers st).sys ∧ SysReach st.sys (Trap.disableStoppers st).sys :=
  ⟨((setInternal_reach st _ _).trans (setInternal_reach _ _ _)).trans (setInternal_reach _ _ _),
   ((setInternal_reach st _ _).trans (setInternal_reach _ _ _)).trans (setInternal_reach _ _ _)⟩

end YashModel.Fork
