/-
  C08 — property theorems (theorem half of a PARTIAL claim; see props/C08.json `level_text`).

  Part 1 speaks about the maps the translator re-extracts from the Rust source on every run
  (`Generated/ForkMaps.lean`): `decide` over genuinely finite tables, plus their meaning for an arbitrary
  assignment of values to field names.  Part 2 speaks about the record model of `Fork/Model.lean`
  (`run_in_child_process`, `Config::start`, `TrapSet::enter_subshell` from the Trap model of C11).

  What no theorem here can say: that the *real* clone shares no interior-mutable cell between parent and
  child (`Rc<RefCell<…>>` reachable from a cloned field — listed by `interiorMutability` in the generated file),
  and that nothing goes wrong under interleaving of child and parent.  A value model has no aliasing; only the
  correspondence sweep (harness/src/bin/c08.rs) exhibits those.
-/
import YashModel.Fork.Fields
import YashModel.Fork.Lemmas
namespace YashModel.Fork
open YashModel.Generated.ForkMaps
open YashModel.Trap (GrandState TrapState Action SubOpt)

/-! ## Part 1 — the generated field maps -/

/-- ★ Every state field of `Env` is restored by `restore_into_env` from the state field that
    `extract_from_env` filled from *that same* `Env` field (none swapped), every field of `ForkEnvState` is
    both filled and put back (none dropped), and `system` — the only field not restored — is never moved out. -/
theorem restore_extract_id :
    (∀ f ∈ envFields, f ≠ "system" → roundTrip f = some f)
    ∧ (∀ s ∈ stateFields, (extractPairs.map (·.1)).contains s ∧ (restoreMap.map (·.2)).contains s)
    ∧ (∀ f ∈ envFields, roundTripOK f = true)
    ∧ isTaken "system" = false := by decide

/-- ★ Every state field of `Env` reaches the child: through `extract_from_env`, `ForkEnvState::clone`
    (and `clone_from`) and `into_env_with_system` the child's field `f` holds the parent's field `f`; the
    child's `system` is its own handle; `Env::clone_with_system` copies every state field too. -/
theorem clone_complete :
    (∀ f ∈ envFields, f ≠ "system" → childSource f = some f)
    ∧ childSource "system" = some "@system"
    ∧ (∀ s ∈ stateFields, srcOf stateCloneMap s = some s ∧ srcOf stateCloneFromMap s = some s)
    ∧ (∀ f ∈ envFields, f ≠ "system" → srcOf cloneWithSystemMap f = some f)
    ∧ srcOf cloneWithSystemMap "system" = some "@system" := by decide

/-- No field is written twice by any of the maps, no field is read twice, and the maps mention exactly the
    declared fields. -/
theorem no_field_twice :
    (extractMap.map (·.1)).Nodup ∧ (extractMap.map (·.2.1)).Nodup
    ∧ (restoreMap.map (·.1)).Nodup ∧ (restoreMap.map (·.2)).Nodup
    ∧ (intoEnvMap.map (·.1)).Nodup ∧ (intoEnvMap.map (·.2)).Nodup
    ∧ (stateCloneMap.map (·.1)).Nodup ∧ (stateCloneMap.map (·.2)).Nodup
    ∧ (cloneWithSystemMap.map (·.1)).Nodup ∧ (cloneWithSystemMap.map (·.2)).Nodup
    ∧ (processForkMap.map (·.1)).Nodup
    ∧ envFields.Nodup ∧ stateFields.Nodup
    ∧ (intoEnvMap.map (·.1)) = envFields
    ∧ (extractMap.map (·.1)) = stateFields
    ∧ (∀ p ∈ processForkMap, processFields.contains p.1) := by decide

/-- Meaning of `restore_extract_id` for *any* environment (an arbitrary assignment of values of any type to
    field names) and any defaults left behind by `take`: after `restore_into_env (extract_from_env env)` every
    field of `Env` holds what it held before — whatever happened to the extracted state's clone in the child. -/
theorem fields_restore_extract {V : Type} (env dflt : String → V) :
    ∀ f ∈ envFields, restoreF (extractF env dflt).1 (extractF env dflt).2 f = env f := by
  intro f hf
  have hok := restore_extract_id.2.2.1 f hf
  unfold roundTripOK at hok
  unfold restoreF extractF
  cases h : srcOf restoreMap f with
  | none =>
    simp only [h] at hok ⊢
    have : isTaken f = false := by simpa using hok
    simp [this]
  | some s =>
    simp only [h] at hok ⊢
    have h2 : srcOf extractPairs s = some f := by simpa using hok
    simp [h2]

example : restoreF (extractF (fun f => f ++ "!") (fun _ => "")).1 (extractF (fun f => f ++ "!") (fun _ => "")).2
    "variables" = "variables!" := by decide

/-- ★ `Process::fork_from` in the code as it is (the *generated* `processForkMap`) copies every per-process
    field the property names: the child's fd table, working directory, umask, signal dispositions and blocked
    mask are the parent's — i.e. the code's copy list covers the Spec's (`specCopied`).
    (Before /repo commit 6f37a10 `cwd` and `umask` were missing and only a `_partial` version held.) -/
theorem child_process_copy (ppid : Nat) (p : Proc) :
    (∀ f ∈ specCopied, isCopied implCopied f.1 = true)
    ∧ isCopied implCopied "resource_limits" = true
    ∧ (Proc.forkFrom implCopied ppid p).fds = p.fds
    ∧ (Proc.forkFrom implCopied ppid p).cwd = p.cwd
    ∧ (Proc.forkFrom implCopied ppid p).umask = p.umask
    ∧ (Proc.forkFrom implCopied ppid p).sys.disp = p.sys.disp
    ∧ (Proc.forkFrom implCopied ppid p).sys.blocked = p.sys.blocked := by
  have h0 : ∀ f ∈ specCopied, isCopied implCopied f.1 = true := by decide
  have h1 : isCopied implCopied "fds" = true := by decide
  have h2 : isCopied implCopied "dispositions" = true := by decide
  have h3 : isCopied implCopied "blocked_signals" = true := by decide
  have h4 : isCopied implCopied "cwd" = true := by decide
  have h5 : isCopied implCopied "umask" = true := by decide
  exact ⟨h0, by decide, by simp [Proc.forkFrom, h1, h2, h3, h4, h5]⟩

/-- the child of a parent in `/d1` with umask 027 -/
example : (Proc.forkFrom implCopied 2 { initialEnv.system with cwd := "/d1", umask := "027" }).cwd = "/d1"
    ∧ (Proc.forkFrom implCopied 2 { initialEnv.system with cwd := "/d1", umask := "027" }).umask = "027" := by
  decide

/-- … and nothing else: what belongs to the execution state of the parent process itself is NOT inherited by
    the forked child (POSIX `fork`: "the set of signals pending for the child process shall be initialized to
    the empty set"; process state, caught signals, wakers and the `exec` record start afresh), and the copy list
    is exactly the twelve inherited fields. -/
theorem child_process_fresh :
    (∀ f ∈ ["pending_signals", "caught_signals", "caught_signals_count", "state", "state_has_changed",
            "resumption_awaiters", "signal_wakers", "last_exec"], isCopied implCopied f = false)
    ∧ (∀ f ∈ processFields, isCopied implCopied f = true ↔
        f ∈ ["pgid", "uid", "euid", "gid", "egid", "fds", "umask", "cwd", "resource_limits", "dispositions",
             "blocked_signals"])
    ∧ srcOf implCopied "ppid" = some "@ppid" := by decide

/-- ★ A fork duplicates EVERY open descriptor whatever the soft RLIMIT_NOFILE is (lowering the limit never
    closes a descriptor, and the child inherits the lowered limit too): the code does not hand the descriptors
    over through the limit-checking accessor after the limits were copied (generated `forkFdsLimitChecked`), and
    in the model the child's table is the parent's for every value of the limit. -/
theorem child_fds_for_every_limit (ppid : Nat) (p : Proc) (limit : String) :
    forkFdsLimitChecked = false
    ∧ (Proc.forkFrom implCopied ppid { p with nofile := limit }).fds = p.fds
    ∧ (Proc.forkFrom implCopied ppid { p with nofile := limit }).nofile = limit := by
  have h1 : isCopied implCopied "fds" = true := by decide
  have h2 : isCopied implCopied "resource_limits" = true := by decide
  refine ⟨by decide, ?_, ?_⟩ <;> simp [Proc.forkFrom, h1, h2]

/-- a descriptor above a lowered limit: still there in the child -/
example : fdGet (Proc.forkFrom implCopied 2
    { initialEnv.system with fds := fdPut initialEnv.system.fds 20 { label := "f1" }, nofile := "16" }).fds 20
    = some { label := "f1" } := by decide

/-- With everything POSIX names copied (`specCopied`, the Spec's fork) the child process is the parent's. -/
theorem child_process_copy_spec (ppid : Nat) (p : Proc) :
    (Proc.forkFrom specCopied ppid p).fds = p.fds ∧ (Proc.forkFrom specCopied ppid p).cwd = p.cwd
    ∧ (Proc.forkFrom specCopied ppid p).umask = p.umask ∧ (Proc.forkFrom specCopied ppid p).sys = p.sys := by
  have h1 : isCopied specCopied "fds" = true := by decide
  have h2 : isCopied specCopied "dispositions" = true := by decide
  have h3 : isCopied specCopied "blocked_signals" = true := by decide
  have h4 : isCopied specCopied "cwd" = true := by decide
  have h5 : isCopied specCopied "umask" = true := by decide
  simp [Proc.forkFrom, h1, h2, h3, h4, h5]

/-! ## Part 2 — the record model -/

/-- ★ `Env::run_in_child_process`: for ANY child task (any function of the child's environment, of any result
    type) and any process-level copy list, the parent's environment after the call is the environment before.
    (In a value model this holds by construction — the child works on a copy; it is stated so that the
    correspondence run has a definite prediction.) -/
theorem fork_isolated {β : Type} (copied : List (String × String)) (env : Env) (childTask : Env → β) :
    (runInChild copied env childTask).1 = env := by
  cases env; rfl

/-- The child task receives a copy: all fourteen state fields are the parent's, the system handle is the
    forked process. -/
theorem child_entry_copy (copied : List (String × String)) (env : Env) :
    (runInChild copied env id).2 = { env with system := Proc.forkFrom copied env.mainPid env.system } := by
  cases env; rfl

/-- ★ A whole subshell of any kind, with any body: the starting shell's state afterwards is what it does *by
    itself* (`parentSide`: nothing for the synchronous kinds; for `&` its own job-table entry, its own mutators
    between `&` and `wait`, and the removal of the finished job by `wait $!`), except the exit status — nothing
    depends on `body`. -/
theorem subshell_isolated (copied : List (String × String)) (k : Kind) (sh : Shell) (body : Shell → Shell)
    (during : List Op) (h : sh.halted = none) :
    { (runKind copied k sh body during).env with exitStatus := 0 }
      = { (parentSide k sh.env during).env with exitStatus := 0 } := by
  unfold runKind
  simp only [h, Option.isSome_none, Bool.false_eq_true, if_false, startKind_parent, finishKind_env]

/-- … and for the synchronous kinds that is the state before, job table included. -/
theorem sync_subshell_isolated (copied : List (String × String)) (k : Kind) (sh : Shell) (body : Shell → Shell)
    (h : sh.halted = none) (hk : k ≠ .async) :
    { (runKind copied k sh body []).env with exitStatus := 0 } = { sh.env with exitStatus := 0 } := by
  rw [subshell_isolated copied k sh body [] h]
  cases k <;> first | exact absurd rfl hk | rfl

example : { (runKind implCopied .paren { env := initialEnv }
      (fun c => applyOps c [.set "va" "1", .cd "/d1", .bg]) []).env with exitStatus := 0 }
    = { initialEnv with exitStatus := 0 } :=
  sync_subshell_isolated implCopied .paren { env := initialEnv } _ rfl (by decide)

/-- "Every subshell construct occurring anywhere in the program, at any nesting depth, leaves its starter's
    state as the starter itself made it": the predicate, by recursion on the program. -/
def AllIsolated (copied : List (String × String)) : Prog → Prop
  | .ops _ => True
  | .snap _ _ => True
  | .ok => True
  | .exitTrap => True
  | .seq a b => AllIsolated copied a ∧ AllIsolated copied b
  | .sub k body during =>
    (∀ sh : Shell, sh.halted = none →
        { (runProg copied (.sub k body during) sh).env with exitStatus := 0 }
          = { (parentSide k sh.env during).env with exitStatus := 0 })
    ∧ AllIsolated copied body

/-- ★★ Isolation for EVERY program of the modelled fragment (mutators, snapshots, `$?` steps, subshell
    constructs of all six kinds — job-controlled or not —, sequenced and nested to ANY depth, with the starter's
    own mutators between `&` and `wait`): at every occurrence of a subshell construct, from every live starting
    shell, the starter's whole state afterwards (variables, positional parameters, functions, aliases, options,
    traps, fd table, cwd, umask, dispositions, stack, …) equals what the starter itself made of the state before
    (`parentSide`: nothing for a synchronous kind; for `&` its own job entry / `$!`, its own mutators, the removal
    of the finished job), except `$?` — whatever the body, itself any program of the fragment, does.
    By induction on the program; the output is not part of the state (it is in `Shell.events`). -/
theorem subshell_isolated_nested (copied : List (String × String)) : ∀ p : Prog, AllIsolated copied p := by
  intro p
  induction p with
  | ops _ => trivial
  | snap _ _ => trivial
  | ok => trivial
  | exitTrap => trivial
  | seq a b iha ihb => exact ⟨iha, ihb⟩
  | sub k body during ih =>
    exact ⟨fun sh h => subshell_isolated copied k sh (runProg copied body) during h, ih⟩

/-- the programs the sweep runs are in the fragment, so all their levels are isolated (depth 1, 2, 3, …) -/
theorem case_levels_isolated (copied : List (String × String)) (c : Case) : AllIsolated copied (caseProg c) :=
  subshell_isolated_nested copied (caseProg c)

example : AllIsolated implCopied
    (.sub .paren (.seq (.ops [.set "va" "1"]) (.sub .async (.sub .subst (.ops [.cd "/d1", .bg]) []) [])) []) :=
  subshell_isolated_nested _ _

/-- ★ "The parent observes only the exit status (and the output)": two bodies whose child processes end with
    the same status — exited or killed — leave the starter in the same state, halted or not in the same way;
    only the output (`events`) can differ. -/
theorem parent_observes_only_status (copied : List (String × String)) (k : Kind) (sh : Shell)
    (body1 body2 : Shell → Shell) (during : List Op)
    (hs : (childShell copied k sh body1).halted.getD (childShell copied k sh body1).env.exitStatus
        = (childShell copied k sh body2).halted.getD (childShell copied k sh body2).env.exitStatus) :
    (runKind copied k sh body1 during).env = (runKind copied k sh body2 during).env
    ∧ (runKind copied k sh body1 during).halted = (runKind copied k sh body2 during).halted := by
  unfold runKind
  by_cases h : sh.halted.isSome
  · simp [h]
  · simp only [h, Bool.false_eq_true, if_false, startKind_parent, hs]
    constructor
    · simp only [finishKind_env]
    · simp only [finishKind_halted]

/-- ★ The parent's side of an asynchronous list without mutators of its own: when the identities in the job
    table are fresh (always the case for a table built by `Jobs.add`), the only thing that changes in the
    starter is `$!` (and the identity counter): the job list is the one before, the job of the `&` having been
    entered and removed again by `wait $!`. -/
theorem async_parent_side (env : Env) (hfresh : ∀ e ∈ env.jobs.list, e.2.1 ≠ env.jobs.next) :
    (parentSide .async env []).env
      = { env with jobs := { env.jobs with last := some env.jobs.next, next := env.jobs.next + 1 } } := by
  have hl : (env.jobs.list ++ [(env.jobs.freeNumber, env.jobs.next, true)]).filter
      (fun e => decide (e.2.1 ≠ env.jobs.next)) = env.jobs.list := by
    have h1 : env.jobs.list.filter (fun e => decide (e.2.1 ≠ env.jobs.next)) = env.jobs.list := by
      apply List.filter_eq_self.mpr
      intro e he
      simpa using hfresh e he
    rw [List.filter_append, h1]
    simp [List.filter]
  show ({ (applyOps { env := { env with jobs := env.jobs.add } } []) with
          env := { (applyOps { env := { env with jobs := env.jobs.add } } []).env with
            jobs := (applyOps { env := { env with jobs := env.jobs.add } } []).env.jobs.removeLast } } : Shell).env = _
  simp only [applyOps, List.foldl_nil, Jobs.add, Jobs.removeLast, hl]

/-- ★ A child that ENDS BY A SIGNAL: for every synchronous kind of subshell, whenever the situation is not the
    documented top-level interactive Trap.SIGINT one — the starting shell is itself a subshell (any level >= 1), or
    not interactive, or has a non-default Trap.SIGINT action, or the signal is not Trap.SIGINT — the starting shell only
    observes the status (`384 + sig` through the kind's status rule) and GOES ON: it is not halted, the status
    is in `$?`, its state is the state before. (`errexit` off; an asynchronous list is waited for by `wait`,
    which has no such rule at all.) -/
theorem signaled_child_only_status (copied : List (String × String)) (k : Kind) (sh : Shell)
    (body : Shell → Shell) (sig : Nat) (h : sh.halted = none) (hk : k ≠ .async)
    (hc : (childShell copied k sh body).halted = some (384 + sig))
    (hn : sh.env.stack.contains "Subshell" = true ∨ sh.env.options.contains "interactive" = false
      ∨ sigintDefault sh.env = false ∨ sig ≠ Trap.SIGINT)
    (herr : sh.env.options.contains "errexit" = false) :
    (runKind copied k sh body []).halted = none
    ∧ (runKind copied k sh body []).env.exitStatus
        = kindStatus k (sh.env.options.contains "pipefail") (384 + sig)
    ∧ { (runKind copied k sh body []).env with exitStatus := 0 } = { sh.env with exitStatus := 0 } := by
  have hi : ∀ st, (st = 384 + sig ∨ st = 0) →
      interruptedBy k (controlsJobs sh.env) sh.env st = none := by
    intro st hst
    apply interruptedBy_eq_none
    rcases hn with hn | hn | hn | hn
    · exact Or.inl hn
    · exact Or.inr (Or.inl hn)
    · exact Or.inr (Or.inr (Or.inl hn))
    · refine Or.inr (Or.inr (Or.inr ?_))
      rcases hst with rfl | rfl
      · intro hc'; exact hn (by omega)
      · simp [Trap.SIGINT]
  refine ⟨?_, ?_, sync_subshell_isolated copied k sh body h hk⟩
  all_goals
    unfold runKind
    simp only [h, Option.isSome_none, Bool.false_eq_true, if_false, startKind_parent, parentSide_sync k _ hk, hc,
      Option.getD_some]
    have hw : interruptedBy k (controlsJobs sh.env) sh.env
        (if (k == Kind.subst) = true then 384 + sig
         else kindStatus k (sh.env.options.contains "pipefail") (384 + sig)) = none := by
      apply hi
      generalize sh.env.options.contains "pipefail" = pf
      cases k <;> cases pf <;> simp [kindStatus]
    simp only [hw]
    have herr' : ¬ "errexit" ∈ sh.env.options := by simpa using herr
    unfold finishKind
    simp [herr']

/-- The clause the round-3 seeded change broke: inside a subshell environment (any level >= 1) the Trap.SIGINT rule
    never applies, whatever the `interactive` option says. -/
theorem subshell_never_interrupts (k : Kind) (jc : Bool) (env : Env) (status : Nat)
    (h : env.stack.contains "Subshell" = true) : interruptedBy k jc env status = none :=
  interruptedBy_eq_none k jc env status (Or.inl h)

/-- The documented exception, as a clause: at the top level of an *interactive* shell whose Trap.SIGINT action is
    the default, a `( )` or `$( )` whose process was killed by Trap.SIGINT interrupts the command line
    (`Divert::Interrupt(Some(384 + SIGINT))`; in the harness's read-eval loop: the script ends with that status,
    after the EXIT trap). -/
theorem interactive_sigint_interrupts (copied : List (String × String)) (k : Kind) (sh : Shell)
    (body : Shell → Shell) (h : sh.halted = none) (hk : k = .paren ∨ k = .subst)
    (hc : (childShell copied k sh body).halted = some (384 + Trap.SIGINT))
    (hi : isInteractive sh.env = true) (hd : sigintDefault sh.env = true) :
    (runKind copied k sh body []).halted = some (384 + Trap.SIGINT) := by
  have hka : k ≠ .async := by rcases hk with rfl | rfl <;> decide
  unfold runKind
  simp only [h, Option.isSome_none, Bool.false_eq_true, if_false, startKind_parent, parentSide_sync k _ hka, hc,
    Option.getD_some]
  rcases hk with rfl | rfl <;>
    simp [interruptedBy, interruptsOnSigint, kindStatus, hi, hd, finishKind, exitShell]

/-- ★ `TrapSet::enter_subshell` as run by the child prologue of `Config::start`: afterwards
    (1) no condition has a command action;
    (2) a condition that was ignored is still ignored;
    (3) the command action the parent had is remembered as `parent_state` (what `trap` prints in the subshell). -/
theorem subshell_traps_reset (ii ks : Bool) (env : Env) :
    (∀ c g', Trap.get (subshellEntry ii ks env).traps c = some g' → g'.current.action.isCommand = false)
    ∧ (∀ c g, Trap.get env.traps c = some g → g.current.action = .ignore →
        ∃ g', Trap.get (subshellEntry ii ks env).traps c = some g' ∧ g'.current.action = .ignore)
    ∧ (∀ c g n, Trap.get env.traps c = some g → g.current.action = .command n →
        ∃ g', Trap.get (subshellEntry ii ks env).traps c = some g' ∧ g'.parent = some g.current
          ∧ g'.current.action ≠ .command n) := by
  have htr : (subshellEntry ii ks env).traps
      = (Trap.enterSubshell { sys := env.system.sys, traps := env.traps } ii ks).traps := rfl
  refine ⟨?_, ?_, ?_⟩
  · intro c g' hg'
    rw [htr] at hg'
    cases h : Trap.get env.traps c with
    | some g =>
      rw [get_enterSubshell_some { sys := env.system.sys, traps := env.traps } ii ks c g h] at hg'
      cases hg'
      exact enterState_not_command _ _
    | none =>
      rcases get_enterSubshell_none { sys := env.system.sys, traps := env.traps } ii ks c h with h0 | ⟨sys, h1⟩
      · rw [h0] at hg'; cases hg'
      · rw [h1] at hg'; cases hg'
        rw [ignore_action]; rfl
  · intro c g hg hi
    refine ⟨g.clearParent.enterState (Trap.subshellOption c g.clearParent ii ks), ?_, ?_⟩
    · rw [htr]; exact get_enterSubshell_some { sys := env.system.sys, traps := env.traps } ii ks c g hg
    · exact enterState_ignore _ _ (by rw [clearParent_current]; exact hi)
  · intro c g n hg hc
    refine ⟨g.clearParent.enterState (Trap.subshellOption c g.clearParent ii ks), ?_, ?_, ?_⟩
    · rw [htr]; exact get_enterSubshell_some { sys := env.system.sys, traps := env.traps } ii ks c g hg
    · rw [enterState_parent _ _ n (by rw [clearParent_current]; exact hc)]; rfl
    · intro hcontra
      have := enterState_not_command g.clearParent (Trap.subshellOption c g.clearParent ii ks)
      rw [hcontra] at this
      simp [Action.isCommand] at this

/-- The EXIT trap (and every other trap command) of the starting shell cannot run in the subshell: right
    after entry no condition has a command to run, so `run_exit_trap` at the end of a child of any kind runs
    only a command the child itself has set. -/
theorem subshell_no_inherited_trap_command (ii ks : Bool) (env : Env) (c : Nat) :
    trapCommandOf (subshellEntry ii ks env) c = none := by
  unfold trapCommandOf
  cases h : Trap.get (subshellEntry ii ks env).traps c with
  | none => rfl
  | some g =>
    have hc := (subshell_traps_reset ii ks env).1 c g h
    cases ha : g.current.action with
    | command n => rw [ha] at hc; simp [Action.isCommand] at hc
    | default => simp [ha]
    | ignore => simp [ha]

/-- ★ Copy on entry, the part of `Config::start`'s child prologue that is NOT the trap reset: aliases,
    functions, options (`monitor` included), variables, positional parameters, exit status and the process's
    fd table / cwd / umask are exactly the starter's; the jobs are the same jobs, only disowned, and `$!` still
    designates the same one; the stack gains the `Subshell` frame. -/
theorem subshell_entry_copy (ii ks : Bool) (env : Env) :
    (subshellEntry ii ks env).aliases = env.aliases
    ∧ (subshellEntry ii ks env).functions = env.functions
    ∧ (subshellEntry ii ks env).options = env.options
    ∧ (subshellEntry ii ks env).variables = env.variables
    ∧ (subshellEntry ii ks env).exitStatus = env.exitStatus
    ∧ (subshellEntry ii ks env).system.fds = env.system.fds
    ∧ (subshellEntry ii ks env).system.cwd = env.system.cwd
    ∧ (subshellEntry ii ks env).system.umask = env.system.umask
    ∧ (subshellEntry ii ks env).stack = "Subshell" :: env.stack
    ∧ (subshellEntry ii ks env).jobs.last = env.jobs.last
    ∧ (subshellEntry ii ks env).jobs.list.map (fun e => (e.1, e.2.1)) = env.jobs.list.map (fun e => (e.1, e.2.1))
    ∧ (∀ e ∈ (subshellEntry ii ks env).jobs.list, e.2.2 = false) := by
  refine ⟨rfl, rfl, rfl, rfl, rfl, rfl, rfl, rfl, rfl, rfl, ?_, ?_⟩
  · show (env.jobs.disownAll).list.map _ = _
    simp [Jobs.disownAll, List.map_map, Function.comp_def]
  · intro e he
    have he' : e ∈ (env.jobs.disownAll).list := he
    simp only [Jobs.disownAll, List.mem_map] at he'
    obtain ⟨x, _, rfl⟩ := he'
    rfl

/-- a shell with `monitor` on and one background job: the subshell still has `monitor` and lists the job -/
example :
    let env := (applyOps { env := initialEnv } [.optOn "monitor", .bg]).env
    env.options.contains "monitor" = true
    ∧ (subshellEntry false false env).options.contains "monitor" = true
    ∧ showJobs (subshellEntry false false env).jobs = "j=1 !=j1" := by
  decide

/-- non-vacuity: a parent with `trap 'probe T1' INT; trap '' QUIT` -/
example :
    let env := (applyOps { env := initialEnv } [.trap Trap.SIGINT (.cmd 1), .trap Trap.SIGQUIT .ign]).env
    ((Trap.get env.traps Trap.SIGINT).map (·.current.action)) = some (.command 1)
    ∧ ((Trap.get (subshellEntry false true env).traps Trap.SIGINT).map (·.current.action)) = some .default
    ∧ ((Trap.get (subshellEntry false true env).traps Trap.SIGINT).bind (·.parent)).map (·.action) = some (.command 1)
    ∧ ((Trap.get (subshellEntry false true env).traps Trap.SIGQUIT).map (·.current.action)) = some .ignore
    ∧ ((Trap.get (subshellEntry true true env).traps Trap.SIGINT).map (·.current.action)) = some .ignore := by
  decide

/-- ★ Trap reset for EVERY kind of subshell, job-controlled or not (the job-controlled pipeline enters twice):
    in the environment the task starts from, no condition has a command action, and a condition the starter
    ignored is still ignored. -/
theorem kind_entry_traps (copied : List (String × String)) (k : Kind) (jc : Bool) (env : Env) :
    (∀ c g', Trap.get (entryEnv copied k jc env).traps c = some g' → g'.current.action.isCommand = false)
    ∧ (∀ c g, Trap.get env.traps c = some g → g.current.action = .ignore →
        ∃ g', Trap.get (entryEnv copied k jc env).traps c = some g' ∧ g'.current.action = .ignore) := by
  have one : ∀ (ii ks : Bool) (e : Env),
      (∀ c g', Trap.get (subshellEntry ii ks (forkedCopy copied e)).traps c = some g' →
          g'.current.action.isCommand = false)
      ∧ (∀ c g, Trap.get e.traps c = some g → g.current.action = .ignore →
          ∃ g', Trap.get (subshellEntry ii ks (forkedCopy copied e)).traps c = some g'
            ∧ g'.current.action = .ignore) := by
    intro ii ks e
    exact ⟨(subshell_traps_reset ii ks (forkedCopy copied e)).1,
           (subshell_traps_reset ii ks (forkedCopy copied e)).2.1⟩
  have two : (∀ c g', Trap.get (subshellEntry false true (forkedCopy copied
        (subshellEntry false false (forkedCopy copied env)))).traps c = some g' →
          g'.current.action.isCommand = false)
      ∧ (∀ c g, Trap.get env.traps c = some g → g.current.action = .ignore →
          ∃ g', Trap.get (subshellEntry false true (forkedCopy copied
            (subshellEntry false false (forkedCopy copied env)))).traps c = some g'
            ∧ g'.current.action = .ignore) := by
    refine ⟨(one false true _).1, ?_⟩
    intro c g hg hi
    obtain ⟨g1, hg1, hi1⟩ := (one false false env).2 c g hg hi
    exact (one false true _).2 c g1 hg1 hi1
  cases k <;> cases jc <;>
    simp only [entryEnv, Bool.not_true, Bool.not_false, if_true, Bool.false_eq_true, if_false] <;>
    first | exact two | exact one _ _ env

/-- ★ Copy on entry for EVERY kind: besides the plumbing of the kind (fd 0 / fd 1) the task of the subshell
    starts with the starter's aliases, functions, options, variables and positional parameters, `$?`, `$!`. -/
theorem kind_entry_copy (copied : List (String × String)) (k : Kind) (jc : Bool) (env : Env) :
    (entryEnv copied k jc env).aliases = env.aliases
    ∧ (entryEnv copied k jc env).functions = env.functions
    ∧ (entryEnv copied k jc env).options = env.options
    ∧ (entryEnv copied k jc env).variables = env.variables
    ∧ (entryEnv copied k jc env).exitStatus = env.exitStatus
    ∧ (entryEnv copied k jc env).jobs.last = env.jobs.last := by
  cases k <;> cases jc <;> exact ⟨rfl, rfl, rfl, rfl, rfl, rfl⟩

/-- ★ … and at process level, for the code as it is (generated `processForkMap`): the task of EVERY kind
    starts with the starter's fd table, working directory and umask (before the kind's own plumbing of fd 0/1). -/
theorem kind_entry_process (k : Kind) (jc : Bool) (env : Env) :
    (entryEnv implCopied k jc env).system.fds = env.system.fds
    ∧ (entryEnv implCopied k jc env).system.cwd = env.system.cwd
    ∧ (entryEnv implCopied k jc env).system.umask = env.system.umask := by
  have cp := fun (n : Nat) (p : Proc) => (child_process_copy n p).2.2
  have step : ∀ (ii ks : Bool) (e : Env),
      (subshellEntry ii ks (forkedCopy implCopied e)).system.fds = e.system.fds
      ∧ (subshellEntry ii ks (forkedCopy implCopied e)).system.cwd = e.system.cwd
      ∧ (subshellEntry ii ks (forkedCopy implCopied e)).system.umask = e.system.umask := by
    intro ii ks e
    exact ⟨(cp e.mainPid e.system).1, (cp e.mainPid e.system).2.1, (cp e.mainPid e.system).2.2.1⟩
  have two : (subshellEntry false true (forkedCopy implCopied
        (subshellEntry false false (forkedCopy implCopied env)))).system.fds = env.system.fds
      ∧ (subshellEntry false true (forkedCopy implCopied
        (subshellEntry false false (forkedCopy implCopied env)))).system.cwd = env.system.cwd
      ∧ (subshellEntry false true (forkedCopy implCopied
        (subshellEntry false false (forkedCopy implCopied env)))).system.umask = env.system.umask := by
    obtain ⟨a1, a2, a3⟩ := step false false env
    obtain ⟨b1, b2, b3⟩ := step false true (subshellEntry false false (forkedCopy implCopied env))
    exact ⟨b1.trans a1, b2.trans a2, b3.trans a3⟩
  cases k <;> cases jc <;>
    simp only [entryEnv, Bool.not_true, Bool.not_false, if_true, Bool.false_eq_true, if_false] <;>
    first | exact two | exact step _ _ env

/-- What ties the three `kind_entry_*` theorems to the run: the child process of a subshell of kind `k` is the
    body applied to `entryEnv` (+ the kind's plumbing of fd 0/1), followed by its EXIT trap. -/
theorem child_starts_from_entry (copied : List (String × String)) (k : Kind) (sh : Shell) (body : Shell → Shell) :
    childShell copied k sh body
      = runExitTrap (body { env := plumb k (controlsJobs sh.env) (entryEnv copied k (controlsJobs sh.env) sh.env) }) := by
  unfold childShell
  rw [startKind_child]

end YashModel.Fork
