/-
  C08 — property theorems (theorem half of a PARTIAL claim; see props/C08.json `level_text`).

  Part 1 speaks about the maps the translator re-extracts from the Rust source on every run
  (`Generated/ForkMaps.lean`): `decide` over genuinely finite tables, plus their meaning for an arbitrary
  assignment of values to field names.  Part 2 speaks about the record model of `Fork/Model.lean`
  (`run_in_child_process`, `Config::start`, `TrapSet::enter_subshell` from the Trap model of C11).

  What no theorem here can say: that the *real* clone shares no interior-mutable cell between parent and
  child (`Rc<RefCell<…>>` reachable from a cloned field — listed by `interiorMutability` in the generated file),
  and that nothing goes wrong under interleaving of child and parent.  A value model has no aliasing; only the
  correspondence sweep (harness/src/bin/c08.rs) exhibits those.
-/
import YashModel.Fork.RedirLemmas
import YashModel.Fork.SigLemmas
import YashModel.Fork.PlumbLemmas
import YashModel.Fork.PipeBridge
import YashModel.Fork.Fields
import YashModel.Fork.Lemmas
import YashModel.Fork.SharedLemmas
import YashModel.Fork.TrapInv
import YashModel.Fork.RunLemmas
import YashModel.Generated.ForkSystem
namespace YashModel.Fork
open YashModel.Generated.ForkMaps
open YashModel.Trap (GrandState TrapState Action SubOpt)

/-! ## Part 1 — the generated field maps -/

/-- ★ Every state field of `Env` is restored by `restore_into_env` from the state field that
    `extract_from_env` filled from *that same* `Env` field (none swapped), every field of `ForkEnvState` is
    both filled and put back (none dropped), and `system` — the only field not restored — is never moved out. -/
theorem restore_extract_id :
    (∀ f ∈ envFields, f ≠ "system" → roundTrip f = some f)
    ∧ (∀ s ∈ stateFields, (extractPairs.map (·.1)).contains s ∧ (restoreMap.map (·.2)).contains s)
    ∧ (∀ f ∈ envFields, roundTripOK f = true)
    ∧ isTaken "system" = false := by decide

/-- ★ Every state field of `Env` reaches the child: through `extract_from_env`, `ForkEnvState::clone`
    (and `clone_from`) and `into_env_with_system` the child's field `f` holds the parent's field `f`; the
    child's `system` is its own handle; `Env::clone_with_system` copies every state field too. -/
theorem clone_complete :
    (∀ f ∈ envFields, f ≠ "system" → childSource f = some f)
    ∧ childSource "system" = some "@system"
    ∧ (∀ s ∈ stateFields, srcOf stateCloneMap s = some s ∧ srcOf stateCloneFromMap s = some s)
    ∧ (∀ f ∈ envFields, f ≠ "system" → srcOf cloneWithSystemMap f = some f)
    ∧ srcOf cloneWithSystemMap "system" = some "@system" := by decide

/-- No field is written twice by any of the maps, no field is read twice, and the maps mention exactly the
    declared fields. -/
theorem no_field_twice :
    (extractMap.map (·.1)).Nodup ∧ (extractMap.map (·.2.1)).Nodup
    ∧ (restoreMap.map (·.1)).Nodup ∧ (restoreMap.map (·.2)).Nodup
    ∧ (intoEnvMap.map (·.1)).Nodup ∧ (intoEnvMap.map (·.2)).Nodup
    ∧ (stateCloneMap.map (·.1)).Nodup ∧ (stateCloneMap.map (·.2)).Nodup
    ∧ (cloneWithSystemMap.map (·.1)).Nodup ∧ (cloneWithSystemMap.map (·.2)).Nodup
    ∧ (processForkMap.map (·.1)).Nodup
    ∧ envFields.Nodup ∧ stateFields.Nodup
    ∧ (intoEnvMap.map (·.1)) = envFields
    ∧ (extractMap.map (·.1)) = stateFields
    ∧ (∀ p ∈ processForkMap, processFields.contains p.1) := by decide

/-- Meaning of `restore_extract_id` for *any* environment (an arbitrary assignment of values of any type to
    field names) and any defaults left behind by `take`: after `restore_into_env (extract_from_env env)` every
    field of `Env` holds what it held before — whatever happened to the extracted state's clone in the child. -/
theorem fields_restore_extract {V : Type} (env dflt : String → V) :
    ∀ f ∈ envFields, restoreF (extractF env dflt).1 (extractF env dflt).2 f = env f := by
  intro f hf
  have hok := restore_extract_id.2.2.1 f hf
  unfold roundTripOK at hok
  unfold restoreF extractF
  cases h : srcOf restoreMap f with
  | none =>
    simp only [h] at hok ⊢
    have : isTaken f = false := by simpa using hok
    simp [this]
  | some s =>
    simp only [h] at hok ⊢
    have h2 : srcOf extractPairs s = some f := by simpa using hok
    simp [h2]

example : restoreF (extractF (fun f => f ++ "!") (fun _ => "")).1 (extractF (fun f => f ++ "!") (fun _ => "")).2
    "variables" = "variables!" := by decide

/-- ★ `Process::fork_from` in the code as it is (the *generated* `processForkMap`) copies every per-process
    field the property names: the child's fd table, working directory, umask, signal dispositions and blocked
    mask are the parent's — i.e. the code's copy list covers the Spec's (`specCopied`).
    (Before /repo commit 6f37a10 `cwd` and `umask` were missing and only a `_partial` version held.) -/
theorem child_process_copy (ppid : Nat) (p : Proc) :
    (∀ f ∈ specCopied, isCopied implCopied f.1 = true)
    ∧ isCopied implCopied "resource_limits" = true
    ∧ (Proc.forkFrom implCopied ppid p).fds = p.fds
    ∧ (Proc.forkFrom implCopied ppid p).cwd = p.cwd
    ∧ (Proc.forkFrom implCopied ppid p).umask = p.umask
    ∧ (Proc.forkFrom implCopied ppid p).sys.disp = p.sys.disp
    ∧ (Proc.forkFrom implCopied ppid p).sys.blocked = p.sys.blocked := by
  have h0 : ∀ f ∈ specCopied, isCopied implCopied f.1 = true := by decide
  have h1 : isCopied implCopied "fds" = true := by decide
  have h2 : isCopied implCopied "dispositions" = true := by decide
  have h3 : isCopied implCopied "blocked_signals" = true := by decide
  have h4 : isCopied implCopied "cwd" = true := by decide
  have h5 : isCopied implCopied "umask" = true := by decide
  exact ⟨h0, by decide, by simp [Proc.forkFrom, h1, h2, h3, h4, h5]⟩

/-- the child of a parent in `/d1` with umask 027 -/
example : (Proc.forkFrom implCopied 2 { initialEnv.system with cwd := "/d1", umask := "027" }).cwd = "/d1"
    ∧ (Proc.forkFrom implCopied 2 { initialEnv.system with cwd := "/d1", umask := "027" }).umask = "027" := by
  decide

/-- … and nothing else: what belongs to the execution state of the parent process itself is NOT inherited by
    the forked child (POSIX `fork`: "the set of signals pending for the child process shall be initialized to
    the empty set"; process state, caught signals, wakers and the `exec` record start afresh), and the copy list
    is exactly the twelve inherited fields. -/
theorem child_process_fresh :
    (∀ f ∈ ["pending_signals", "caught_signals", "caught_signals_count", "state", "state_has_changed",
            "resumption_awaiters", "signal_wakers", "last_exec"], isCopied implCopied f = false)
    ∧ (∀ f ∈ processFields, isCopied implCopied f = true ↔
        f ∈ ["pgid", "uid", "euid", "gid", "egid", "fds", "umask", "cwd", "resource_limits", "dispositions",
             "blocked_signals"])
    ∧ srcOf implCopied "ppid" = some "@ppid" := by decide

/-- ★ A fork duplicates EVERY open descriptor whatever the soft RLIMIT_NOFILE is (lowering the limit never
    closes a descriptor, and the child inherits the lowered limit too): the code does not hand the descriptors
    over through the limit-checking accessor after the limits were copied (generated `forkFdsLimitChecked`), and
    in the model the child's table is the parent's for every value of the limit. -/
theorem child_fds_for_every_limit (ppid : Nat) (p : Proc) (limit : Option Nat) :
    forkFdsLimitChecked = false
    ∧ (Proc.forkFrom implCopied ppid { p with nofile := limit }).fds = p.fds
    ∧ (Proc.forkFrom implCopied ppid { p with nofile := limit }).nofile = limit := by
  have h1 : isCopied implCopied "fds" = true := by decide
  have h2 : isCopied implCopied "resource_limits" = true := by decide
  refine ⟨by decide, ?_, ?_⟩ <;> simp [Proc.forkFrom, h1, h2]

/-- a descriptor above a lowered limit: still there in the child -/
example : fdGet (Proc.forkFrom implCopied 2
    { initialEnv.system with fds := fdPut initialEnv.system.fds 20 { label := "f1" }, nofile := some 16 }).fds 20
    = some { label := "f1" } := by decide

/-- With everything POSIX names copied (`specCopied`, the Spec's fork) the child process is the parent's. -/
theorem child_process_copy_spec (ppid : Nat) (p : Proc) :
    (Proc.forkFrom specCopied ppid p).fds = p.fds ∧ (Proc.forkFrom specCopied ppid p).cwd = p.cwd
    ∧ (Proc.forkFrom specCopied ppid p).umask = p.umask ∧ (Proc.forkFrom specCopied ppid p).sys = p.sys := by
  have h1 : isCopied specCopied "fds" = true := by decide
  have h2 : isCopied specCopied "dispositions" = true := by decide
  have h3 : isCopied specCopied "blocked_signals" = true := by decide
  have h4 : isCopied specCopied "cwd" = true := by decide
  have h5 : isCopied specCopied "umask" = true := by decide
  simp [Proc.forkFrom, h1, h2, h3, h4, h5]

/-! ## Part 2 — the record model -/

/-- ★ `Env::run_in_child_process`: for ANY child task (any function of the child's environment, of any result
    type) and any process-level copy list, the parent's environment after the call is the environment before.
    (In a value model this holds by construction — the child works on a copy; it is stated so that the
    correspondence run has a definite prediction.) -/
theorem fork_isolated {β : Type} (copied : List (String × String)) (env : Env) (childTask : Env → β) :
    (runInChild copied env childTask).1 = env := by
  cases env; rfl

/-- The child task receives a copy: all fourteen state fields are the parent's, the system handle is the
    forked process. -/
theorem child_entry_copy (copied : List (String × String)) (env : Env) :
    (runInChild copied env id).2 = { env with system := Proc.forkFrom copied env.mainPid env.system } := by
  cases env; rfl

/-- ★ A whole subshell of any kind, with any body: the starting shell's state afterwards is what it does *by
    itself* (`parentSide`: nothing for the synchronous kinds; for `&` its own job-table entry, its own mutators
    between `&` and `wait`, and the removal of the finished job by `wait $!`), except the exit status — nothing
    depends on `body`. -/
theorem subshell_isolated (copied : List (String × String)) (k : Kind) (sh : Shell) (body : Shell → Shell)
    (during : List Op) (h : sh.halted = none) :
    { (runKind copied k sh body during).env with exitStatus := 0 }
      = { (parentSide k sh.env during).env with exitStatus := 0 } := by
  unfold runKind
  simp only [h, Option.isSome_none, Bool.false_eq_true, if_false, startKind_parent, finishKind_env]

/-- … and for the synchronous kinds that is the state before, job table included. -/
theorem sync_subshell_isolated (copied : List (String × String)) (k : Kind) (sh : Shell) (body : Shell → Shell)
    (h : sh.halted = none) (hk : k ≠ .async) :
    { (runKind copied k sh body []).env with exitStatus := 0 } = { sh.env with exitStatus := 0 } := by
  rw [subshell_isolated copied k sh body [] h]
  cases k <;> first | exact absurd rfl hk | rfl

example : { (runKind implCopied .paren { env := initialEnv }
      (fun c => applyOps c [.set "va" "1", .cd "/d1", .bg]) []).env with exitStatus := 0 }
    = { initialEnv with exitStatus := 0 } :=
  sync_subshell_isolated implCopied .paren { env := initialEnv } _ rfl (by decide)

/-- "Every subshell construct occurring anywhere in the program, at any nesting depth, leaves its starter's
    state as the starter itself made it": the predicate, by recursion on the program. -/
def AllIsolated (copied : List (String × String)) : Prog → Prop
  | .ops _ => True
  | .snap _ _ => True
  | .ok => True
  | .exitTrap => True
  | .seq a b => AllIsolated copied a ∧ AllIsolated copied b
  | .sub k body during =>
    (∀ sh : Shell, sh.halted = none →
        { (runProg copied (.sub k body during) sh).env with exitStatus := 0 }
          = { (parentSide k sh.env during).env with exitStatus := 0 })
    ∧ AllIsolated copied body

/-- ★★ Isolation for EVERY program of the modelled fragment (mutators, snapshots, `$?` steps, subshell
    constructs of all six kinds — job-controlled or not —, sequenced and nested to ANY depth, with the starter's
    own mutators between `&` and `wait`): at every occurrence of a subshell construct, from every live starting
    shell, the starter's whole state afterwards (variables, positional parameters, functions, aliases, options,
    traps, fd table, cwd, umask, dispositions, stack, …) equals what the starter itself made of the state before
    (`parentSide`: nothing for a synchronous kind; for `&` its own job entry / `$!`, its own mutators, the removal
    of the finished job), except `$?` — whatever the body, itself any program of the fragment, does.
    By induction on the program; the output is not part of the state (it is in `Shell.events`). -/
theorem subshell_isolated_nested (copied : List (String × String)) : ∀ p : Prog, AllIsolated copied p := by
  intro p
  induction p with
  | ops _ => trivial
  | snap _ _ => trivial
  | ok => trivial
  | exitTrap => trivial
  | seq a b iha ihb => exact ⟨iha, ihb⟩
  | sub k body during ih =>
    exact ⟨fun sh h => subshell_isolated copied k sh (runProg copied body) during h, ih⟩

/-- the programs the sweep runs are in the fragment, so all their levels are isolated (depth 1, 2, 3, …) -/
theorem case_levels_isolated (copied : List (String × String)) (c : Case) : AllIsolated copied (caseProg c) :=
  subshell_isolated_nested copied (caseProg c)

example : AllIsolated implCopied
    (.sub .paren (.seq (.ops [.set "va" "1"]) (.sub .async (.sub .subst (.ops [.cd "/d1", .bg]) []) [])) []) :=
  subshell_isolated_nested _ _

/-- ★ "The parent observes only the exit status (and the output)": two bodies whose child processes end with
    the same status — exited or killed — leave the starter in the same state, halted or not in the same way;
    only the output (`events`) can differ. -/
theorem parent_observes_only_status (copied : List (String × String)) (k : Kind) (sh : Shell)
    (body1 body2 : Shell → Shell) (during : List Op)
    (hs : (childShell copied k sh body1).halted.getD (childShell copied k sh body1).env.exitStatus
        = (childShell copied k sh body2).halted.getD (childShell copied k sh body2).env.exitStatus) :
    (runKind copied k sh body1 during).env = (runKind copied k sh body2 during).env
    ∧ (runKind copied k sh body1 during).halted = (runKind copied k sh body2 during).halted := by
  unfold runKind
  by_cases h : sh.halted.isSome
  · simp [h]
  · simp only [h, Bool.false_eq_true, if_false, startKind_parent, hs]
    constructor
    · simp only [finishKind_env]
    · simp only [finishKind_halted]

/-- ★ The parent's side of an asynchronous list without mutators of its own: when the identities in the job
    table are fresh (always the case for a table built by `Jobs.add`), the only thing that changes in the
    starter is `$!` (and the identity counter): the job list is the one before, the job of the `&` having been
    entered and removed again by `wait $!`. -/
theorem async_parent_side (env : Env) (hfresh : ∀ e ∈ env.jobs.list, e.2.1 ≠ env.jobs.next) :
    (parentSide .async env []).env
      = { env with jobs := { env.jobs with last := some env.jobs.next, next := env.jobs.next + 1 } } := by
  have hl : (env.jobs.list ++ [(env.jobs.freeNumber, env.jobs.next, true)]).filter
      (fun e => decide (e.2.1 ≠ env.jobs.next)) = env.jobs.list := by
    have h1 : env.jobs.list.filter (fun e => decide (e.2.1 ≠ env.jobs.next)) = env.jobs.list := by
      apply List.filter_eq_self.mpr
      intro e he
      simpa using hfresh e he
    rw [List.filter_append, h1]
    simp [List.filter]
  show ({ (applyOps { env := { env with jobs := env.jobs.add } } []) with
          env := { (applyOps { env := { env with jobs := env.jobs.add } } []).env with
            jobs := (applyOps { env := { env with jobs := env.jobs.add } } []).env.jobs.removeLast } } : Shell).env = _
  simp only [applyOps, List.foldl_nil, Jobs.add, Jobs.removeLast, hl]

/-- ★ A child that ENDS BY A SIGNAL: for every synchronous kind of subshell, whenever the situation is not the
    documented top-level interactive Trap.SIGINT one — the starting shell is itself a subshell (any level >= 1), or
    not interactive, or has a non-default Trap.SIGINT action, or the signal is not Trap.SIGINT — the starting shell only
    observes the status (`384 + sig` through the kind's status rule) and GOES ON: it is not halted, the status
    is in `$?`, its state is the state before. (`errexit` off; an asynchronous list is waited for by `wait`,
    which has no such rule at all.) -/
theorem signaled_child_only_status (copied : List (String × String)) (k : Kind) (sh : Shell)
    (body : Shell → Shell) (sig : Nat) (h : sh.halted = none) (hk : k ≠ .async)
    (hc : (childShell copied k sh body).halted = some (384 + sig))
    (hn : sh.env.stack.contains "Subshell" = true ∨ sh.env.options.contains "interactive" = false
      ∨ sigintDefault sh.env = false ∨ sig ≠ Trap.SIGINT)
    (herr : sh.env.options.contains "errexit" = false) :
    (runKind copied k sh body []).halted = none
    ∧ (runKind copied k sh body []).env.exitStatus
        = kindStatus k (sh.env.options.contains "pipefail") (384 + sig)
    ∧ { (runKind copied k sh body []).env with exitStatus := 0 } = { sh.env with exitStatus := 0 } := by
  have hi : ∀ st, (st = 384 + sig ∨ st = 0) →
      interruptedBy k (controlsJobs sh.env) sh.env st = none := by
    intro st hst
    apply interruptedBy_eq_none
    rcases hn with hn | hn | hn | hn
    · exact Or.inl hn
    · exact Or.inr (Or.inl hn)
    · exact Or.inr (Or.inr (Or.inl hn))
    · refine Or.inr (Or.inr (Or.inr ?_))
      rcases hst with rfl | rfl
      · intro hc'; exact hn (by omega)
      · simp [Trap.SIGINT]
  refine ⟨?_, ?_, sync_subshell_isolated copied k sh body h hk⟩
  all_goals
    unfold runKind
    simp only [h, Option.isSome_none, Bool.false_eq_true, if_false, startKind_parent, parentSide_sync k _ hk, hc,
      Option.getD_some]
    have hw : interruptedBy k (controlsJobs sh.env) sh.env
        (if (k == Kind.subst) = true then 384 + sig
         else kindStatus k (sh.env.options.contains "pipefail") (384 + sig)) = none := by
      apply hi
      generalize sh.env.options.contains "pipefail" = pf
      cases k <;> cases pf <;> simp [kindStatus]
    simp only [hw]
    have herr' : ¬ "errexit" ∈ sh.env.options := by simpa using herr
    unfold finishKind
    simp [herr']

/-- The clause the round-3 seeded change broke: inside a subshell environment (any level >= 1) the Trap.SIGINT rule
    never applies, whatever the `interactive` option says. -/
theorem subshell_never_interrupts (k : Kind) (jc : Bool) (env : Env) (status : Nat)
    (h : env.stack.contains "Subshell" = true) : interruptedBy k jc env status = none :=
  interruptedBy_eq_none k jc env status (Or.inl h)

/-- The documented exception, as a clause: at the top level of an *interactive* shell whose Trap.SIGINT action is
    the default, a `( )` or `$( )` whose process was killed by Trap.SIGINT interrupts the command line
    (`Divert::Interrupt(Some(384 + SIGINT))`; in the harness's read-eval loop: the script ends with that status,
    after the EXIT trap). -/
theorem interactive_sigint_interrupts (copied : List (String × String)) (k : Kind) (sh : Shell)
    (body : Shell → Shell) (h : sh.halted = none) (hk : k = .paren ∨ k = .subst)
    (hc : (childShell copied k sh body).halted = some (384 + Trap.SIGINT))
    (hi : isInteractive sh.env = true) (hd : sigintDefault sh.env = true) :
    (runKind copied k sh body []).halted = some (384 + Trap.SIGINT) := by
  have hka : k ≠ .async := by rcases hk with rfl | rfl <;> decide
  unfold runKind
  simp only [h, Option.isSome_none, Bool.false_eq_true, if_false, startKind_parent, parentSide_sync k _ hka, hc,
    Option.getD_some]
  rcases hk with rfl | rfl <;>
    simp [interruptedBy, interruptsOnSigint, kindStatus, hi, hd, finishKind, exitShell]

/-- ★ `TrapSet::enter_subshell` as run by the child prologue of `Config::start`: afterwards
    (1) no condition has a command action;
    (2) a condition that was ignored is still ignored;
    (3) the command action the parent had is remembered as `parent_state` (what `trap` prints in the subshell). -/
theorem subshell_traps_reset (ii ks : Bool) (env : Env) :
    (∀ c g', Trap.get (subshellEntry ii ks env).traps c = some g' → g'.current.action.isCommand = false)
    ∧ (∀ c g, Trap.get env.traps c = some g → g.current.action = .ignore →
        ∃ g', Trap.get (subshellEntry ii ks env).traps c = some g' ∧ g'.current.action = .ignore)
    ∧ (∀ c g n, Trap.get env.traps c = some g → g.current.action = .command n →
        ∃ g', Trap.get (subshellEntry ii ks env).traps c = some g' ∧ g'.parent = some g.current
          ∧ g'.current.action ≠ .command n) := by
  have htr : (subshellEntry ii ks env).traps
      = (Trap.enterSubshell { sys := env.system.sys, traps := env.traps } ii ks).traps := rfl
  refine ⟨?_, ?_, ?_⟩
  · intro c g' hg'
    rw [htr] at hg'
    cases h : Trap.get env.traps c with
    | some g =>
      rw [get_enterSubshell_some { sys := env.system.sys, traps := env.traps } ii ks c g h] at hg'
      cases hg'
      exact enterState_not_command _ _
    | none =>
      rcases get_enterSubshell_none { sys := env.system.sys, traps := env.traps } ii ks c h with h0 | ⟨sys, h1⟩
      · rw [h0] at hg'; cases hg'
      · rw [h1] at hg'; cases hg'
        rw [ignore_action]; rfl
  · intro c g hg hi
    refine ⟨g.clearParent.enterState (Trap.subshellOption c g.clearParent ii ks), ?_, ?_⟩
    · rw [htr]; exact get_enterSubshell_some { sys := env.system.sys, traps := env.traps } ii ks c g hg
    · exact enterState_ignore _ _ (by rw [clearParent_current]; exact hi)
  · intro c g n hg hc
    refine ⟨g.clearParent.enterState (Trap.subshellOption c g.clearParent ii ks), ?_, ?_, ?_⟩
    · rw [htr]; exact get_enterSubshell_some { sys := env.system.sys, traps := env.traps } ii ks c g hg
    · rw [enterState_parent _ _ n (by rw [clearParent_current]; exact hc)]; rfl
    · intro hcontra
      have := enterState_not_command g.clearParent (Trap.subshellOption c g.clearParent ii ks)
      rw [hcontra] at this
      simp [Action.isCommand] at this

/-- The EXIT trap (and every other trap command) of the starting shell cannot run in the subshell: right
    after entry no condition has a command to run, so `run_exit_trap` at the end of a child of any kind runs
    only a command the child itself has set. -/
theorem subshell_no_inherited_trap_command (ii ks : Bool) (env : Env) (c : Nat) :
    trapCommandOf (subshellEntry ii ks env) c = none := by
  unfold trapCommandOf
  cases h : Trap.get (subshellEntry ii ks env).traps c with
  | none => rfl
  | some g =>
    have hc := (subshell_traps_reset ii ks env).1 c g h
    cases ha : g.current.action with
    | command n => rw [ha] at hc; simp [Action.isCommand] at hc
    | default => simp [ha]
    | ignore => simp [ha]

/-- ★ Copy on entry, the part of `Config::start`'s child prologue that is NOT the trap reset: aliases,
    functions, options (`monitor` included), variables, positional parameters, exit status and the process's
    fd table / cwd / umask are exactly the starter's; the jobs are the same jobs, only disowned, and `$!` still
    designates the same one; the stack gains the `Subshell` frame. -/
theorem subshell_entry_copy (ii ks : Bool) (env : Env) :
    (subshellEntry ii ks env).aliases = env.aliases
    ∧ (subshellEntry ii ks env).functions = env.functions
    ∧ (subshellEntry ii ks env).options = env.options
    ∧ (subshellEntry ii ks env).variables = env.variables
    ∧ (subshellEntry ii ks env).exitStatus = env.exitStatus
    ∧ (subshellEntry ii ks env).system.fds = env.system.fds
    ∧ (subshellEntry ii ks env).system.cwd = env.system.cwd
    ∧ (subshellEntry ii ks env).system.umask = env.system.umask
    ∧ (subshellEntry ii ks env).stack = "Subshell" :: env.stack
    ∧ (subshellEntry ii ks env).jobs.last = env.jobs.last
    ∧ (subshellEntry ii ks env).jobs.list.map (fun e => (e.1, e.2.1)) = env.jobs.list.map (fun e => (e.1, e.2.1))
    ∧ (∀ e ∈ (subshellEntry ii ks env).jobs.list, e.2.2 = false) := by
  refine ⟨rfl, rfl, rfl, rfl, rfl, rfl, rfl, rfl, rfl, rfl, ?_, ?_⟩
  · show (env.jobs.disownAll).list.map _ = _
    simp [Jobs.disownAll, List.map_map, Function.comp_def]
  · intro e he
    have he' : e ∈ (env.jobs.disownAll).list := he
    simp only [Jobs.disownAll, List.mem_map] at he'
    obtain ⟨x, _, rfl⟩ := he'
    rfl

/-- a shell with `monitor` on and one background job: the subshell still has `monitor` and lists the job -/
example :
    let env := (applyOps { env := initialEnv } [.optOn "monitor", .bg]).env
    env.options.contains "monitor" = true
    ∧ (subshellEntry false false env).options.contains "monitor" = true
    ∧ showJobs (subshellEntry false false env).jobs = "j=1 !=j1" := by
  decide

/-- non-vacuity: a parent with `trap 'probe T1' INT; trap '' QUIT` -/
example :
    let env := (applyOps { env := initialEnv } [.trap Trap.SIGINT (.cmd 1), .trap Trap.SIGQUIT .ign]).env
    ((Trap.get env.traps Trap.SIGINT).map (·.current.action)) = some (.command 1)
    ∧ ((Trap.get (subshellEntry false true env).traps Trap.SIGINT).map (·.current.action)) = some .default
    ∧ ((Trap.get (subshellEntry false true env).traps Trap.SIGINT).bind (·.parent)).map (·.action) = some (.command 1)
    ∧ ((Trap.get (subshellEntry false true env).traps Trap.SIGQUIT).map (·.current.action)) = some .ignore
    ∧ ((Trap.get (subshellEntry true true env).traps Trap.SIGINT).map (·.current.action)) = some .ignore := by
  decide

/-- ★ Trap reset for EVERY kind of subshell, job-controlled or not (the job-controlled pipeline enters twice):
    in the environment the task starts from, no condition has a command action, and a condition the starter
    ignored is still ignored. -/
theorem kind_entry_traps (copied : List (String × String)) (k : Kind) (jc : Bool) (env : Env) :
    (∀ c g', Trap.get (entryEnv copied k jc env).traps c = some g' → g'.current.action.isCommand = false)
    ∧ (∀ c g, Trap.get env.traps c = some g → g.current.action = .ignore →
        ∃ g', Trap.get (entryEnv copied k jc env).traps c = some g' ∧ g'.current.action = .ignore) := by
  have one : ∀ (ii ks : Bool) (e : Env),
      (∀ c g', Trap.get (subshellEntry ii ks (forkedCopy copied e)).traps c = some g' →
          g'.current.action.isCommand = false)
      ∧ (∀ c g, Trap.get e.traps c = some g → g.current.action = .ignore →
          ∃ g', Trap.get (subshellEntry ii ks (forkedCopy copied e)).traps c = some g'
            ∧ g'.current.action = .ignore) := by
    intro ii ks e
    exact ⟨(subshell_traps_reset ii ks (forkedCopy copied e)).1,
           (subshell_traps_reset ii ks (forkedCopy copied e)).2.1⟩
  have two : (∀ c g', Trap.get (subshellEntry false true (forkedCopy copied
        (subshellEntry false false (forkedCopy copied env)))).traps c = some g' →
          g'.current.action.isCommand = false)
      ∧ (∀ c g, Trap.get env.traps c = some g → g.current.action = .ignore →
          ∃ g', Trap.get (subshellEntry false true (forkedCopy copied
            (subshellEntry false false (forkedCopy copied env)))).traps c = some g'
            ∧ g'.current.action = .ignore) := by
    refine ⟨(one false true _).1, ?_⟩
    intro c g hg hi
    obtain ⟨g1, hg1, hi1⟩ := (one false false env).2 c g hg hi
    exact (one false true _).2 c g1 hg1 hi1
  cases k <;> cases jc <;>
    simp only [entryEnv, Bool.not_true, Bool.not_false, if_true, Bool.false_eq_true, if_false] <;>
    first | exact two | exact one _ _ env

/-- ★ Copy on entry for EVERY kind: besides the plumbing of the kind (fd 0 / fd 1) the task of the subshell
    starts with the starter's aliases, functions, options, variables and positional parameters, `$?`, `$!`. -/
theorem kind_entry_copy (copied : List (String × String)) (k : Kind) (jc : Bool) (env : Env) :
    (entryEnv copied k jc env).aliases = env.aliases
    ∧ (entryEnv copied k jc env).functions = env.functions
    ∧ (entryEnv copied k jc env).options = env.options
    ∧ (entryEnv copied k jc env).variables = env.variables
    ∧ (entryEnv copied k jc env).exitStatus = env.exitStatus
    ∧ (entryEnv copied k jc env).jobs.last = env.jobs.last := by
  cases k <;> cases jc <;> exact ⟨rfl, rfl, rfl, rfl, rfl, rfl⟩

/-- ★ … and at process level, for the code as it is (generated `processForkMap`): the task of EVERY kind
    starts with the starter's fd table, working directory and umask (before the kind's own plumbing of fd 0/1). -/
theorem kind_entry_process (k : Kind) (jc : Bool) (env : Env) :
    (entryEnv implCopied k jc env).system.fds = env.system.fds
    ∧ (entryEnv implCopied k jc env).system.cwd = env.system.cwd
    ∧ (entryEnv implCopied k jc env).system.umask = env.system.umask := by
  have cp := fun (n : Nat) (p : Proc) => (child_process_copy n p).2.2
  have step : ∀ (ii ks : Bool) (e : Env),
      (subshellEntry ii ks (forkedCopy implCopied e)).system.fds = e.system.fds
      ∧ (subshellEntry ii ks (forkedCopy implCopied e)).system.cwd = e.system.cwd
      ∧ (subshellEntry ii ks (forkedCopy implCopied e)).system.umask = e.system.umask := by
    intro ii ks e
    exact ⟨(cp e.mainPid e.system).1, (cp e.mainPid e.system).2.1, (cp e.mainPid e.system).2.2.1⟩
  have two : (subshellEntry false true (forkedCopy implCopied
        (subshellEntry false false (forkedCopy implCopied env)))).system.fds = env.system.fds
      ∧ (subshellEntry false true (forkedCopy implCopied
        (subshellEntry false false (forkedCopy implCopied env)))).system.cwd = env.system.cwd
      ∧ (subshellEntry false true (forkedCopy implCopied
        (subshellEntry false false (forkedCopy implCopied env)))).system.umask = env.system.umask := by
    obtain ⟨a1, a2, a3⟩ := step false false env
    obtain ⟨b1, b2, b3⟩ := step false true (subshellEntry false false (forkedCopy implCopied env))
    exact ⟨b1.trans a1, b2.trans a2, b3.trans a3⟩
  cases k <;> cases jc <;>
    simp only [entryEnv, Bool.not_true, Bool.not_false, if_true, Bool.false_eq_true, if_false] <;>
    first | exact two | exact step _ _ env

/-- What ties the three `kind_entry_*` theorems to the run: the child process of a subshell of kind `k` is the
    body applied to `entryEnv` (+ the kind's plumbing of fd 0/1), followed by its EXIT trap. -/
theorem child_starts_from_entry (copied : List (String × String)) (k : Kind) (sh : Shell) (body : Shell → Shell) :
    childShell copied k sh body
      = runExitTrap (body { env := plumb k (controlsJobs sh.env) (entryEnv copied k (controlsJobs sh.env) sh.env) }) := by
  unfold childShell
  rw [startKind_child]

/-! ## Part 3 — the SHARED process table of the virtual system (`Fork/Shared.lean`)

In the code all virtual processes live in one `SystemState` behind `Rc<RefCell<…>>`; a process is a handle with a
`process_id`.  Parts 1–2 model a shell's process state by value.  This part is about the shared table itself:
which entry a call can change (`exec_frame`, tied to the source by the generated `systemWrites` table), what a fork
does to the table (`fork_frame`), and — the `schedules` quantifier of the property — that under EVERY interleaving
of the calls of a parent, its child and anybody else each process ends with exactly its own calls applied to what
it inherited (`interleaving_isolated`, `shared_table_is_spec`). -/

/-- The methods of `VirtualSystem` behind the calls of the model (`Call`, `SysState.fork`). -/
def modelledMethods : List String :=
  ["Umask::umask", "Chdir::chdir", "Open::open", "Dup::dup", "Dup::dup2", "Close::close", "Fcntl::fcntl_setfd",
   "Sigaction::sigaction", "Sigmask::sigmask", "SetRlimit::setrlimit"]

/-- the write classes the generated table records for a method (`none`: no such method) -/
def writesOf (m : String) : Option (List String) := (Generated.ForkSystem.systemWrites.find? (·.1 == m)).map (·.2)

/-- ★ The tie of `exec_frame` to the source (generated `systemWrites`, re-extracted from virtual.rs on every run):
    (1) every system call behind the model's `Call`s writes the caller's own entry `processes[self.process_id]` and
        nothing else of the shared state — except `open` (the file system) and `sigmask` (whose only foreign write is
        the SIGCHLD raised in the parent when unblocking delivers a pending stop/terminate signal to the caller: no
        signal is ever pending in the modelled runs);
    (2) `run_in_child_process` only inserts an entry;
    (3) the system calls that write anything but their own entry and the file system are EXACTLY `exit` (SIGCHLD to the
        parent), `run_in_child_process`, `kill`/`raise`, `setpgid`, `sigmask`, `tcsetpgrp` and `wait` — in particular
        not `umask`, `chdir`, `dup`, `dup2`, `close`, `fcntl_setfd`, `sigaction`, `setrlimit`, `open`, `pipe`. -/
theorem syscalls_address_own_process :
    (∀ m ∈ modelledMethods, m ≠ "Open::open" → m ≠ "Sigmask::sigmask" → writesOf m = some ["self"])
    ∧ writesOf "Open::open" = some ["fs", "self"]
    ∧ writesOf "Sigmask::sigmask" = some ["other", "self"]
    ∧ writesOf "Fork::run_in_child_process" = some ["insert"]
    ∧ (Generated.ForkSystem.systemWrites.filter (fun r => r.2.any (fun w => w != "self" && w != "fs"))).map (·.1)
        = ["Exit::exit", "Fork::run_in_child_process", "SendSignal::kill", "SendSignal::raise", "SetPgid::setpgid",
           "Sigmask::sigmask", "TcSetPgrp::tcsetpgrp", "Wait::wait"] := by decide

/-- how `startKind` / `startSubshell` / `subshellEntry` take the constructs of yash-semantics to be configured:
    (source file, `Config.job_control`, `Config.ignores_sigint_sigquit`) — `( )` and the wrapper of a job-controlled
    pipeline are `Config::foreground()`, `$( )` and the members of a pipeline `Config::new()`, `&` is background
    with `ignores_sigint_sigquit` -/
def modelledStarts : List (String × String × Bool) :=
  [("command_subst.rs", "None", false), ("item.rs", "Background", true), ("pipeline.rs", "Foreground", false),
   ("pipeline.rs", "None", false), ("subshell.rs", "Foreground", false)]

/-- ★ The tie of `startKind` / `startSubshell` / `subshellEntry` to the source (generated `ForkSystem` tables,
    re-extracted from yash-semantics and `Config::start` on every run): every construct builds the `Config` the
    model assumes, and no other place builds one; `Config::start` hands `enter_subshell` exactly
    `ignores_sigint_sigquit && !job-controlled` and `!job-controlled` (truth tables of the two Rust expressions);
    the child task pushes the `Subshell` frame, disowns the jobs and resets the traps BEFORE the task runs, in
    that order. -/
theorem subshell_configs_as_modelled :
    Generated.ForkSystem.subshellStarts.map (fun r => (r.1, r.2.2.1, r.2.2.2)) = modelledStarts
    ∧ (∀ flag jc : Bool, (Generated.ForkSystem.startIgnoreTable.find? (fun r => r.1 == flag && r.2.1 == jc)).map (·.2.2)
        = some (flag && !jc))
    ∧ (∀ jc : Bool, (Generated.ForkSystem.startKeepTable.find? (·.1 == jc)).map (·.2) = some (!jc))
    ∧ Generated.ForkSystem.childPrologue
        = ["push_frame", "setpgid", "disown_all", "enter_subshell", "task", "exit_or_raise"] := by decide

/-- ★ Frame: a call made through the handle of process `pid` changes the entry of `pid` by the call's effect on that
    one `Process` (`Call.run`, nothing on failure) and leaves the entry of EVERY other process untouched. -/
theorem exec_frame (s : SysState) (pid : Nat) (c : Call) :
    (∀ q, q ≠ pid → (s.exec pid c).2.processes.get q = s.processes.get q)
    ∧ (s.exec pid c).2.processes.get pid = (s.processes.get pid).map (fun p => (c.run p).2) := by
  constructor
  · intro q hq; rw [exec_get]; simp [hq]
  · rw [exec_get]; simp

/-- ★ `run_in_child_process` on the table: the pid handed out was not in use; the new entry is
    `Process::fork_from(parent)`; every entry that existed — the forking process's own included — is untouched. -/
theorem fork_frame (copied : List (String × String)) (s : SysState) (pid : Nat) (p : Proc)
    (h : s.processes.get pid = some p) :
    s.processes.get s.nextPid = none
    ∧ (s.fork copied pid).2.processes.get s.nextPid = some (Proc.forkFrom copied pid p)
    ∧ (∀ q, q ≠ s.nextPid → (s.fork copied pid).2.processes.get q = s.processes.get q)
    ∧ (s.fork copied pid).2.processes.get pid = some p := by
  have hfresh := nextPid_fresh s
  have hne : pid ≠ s.nextPid := by intro e; rw [e, hfresh] at h; cases h
  refine ⟨hfresh, ?_, ?_, ?_⟩
  · rw [fork_get, h]; simp
  · intro q hq; rw [fork_get, h]; simp [hq]
  · rw [fork_get, h]; simp [hne]

/-- ★★ "Under every interleaving of the child with the parent": after a fork, whatever the order in which the calls
    of the child and of the parent (umask, chdir, open, dup, dup2, close, fcntl, sigaction, sigmask, setrlimit — in
    any number) reach the shared `SystemState`, the parent's entry ends as the parent's OWN calls applied to its entry
    before the fork, the child's entry as the child's own calls applied to `Process::fork_from(parent)`, and no third
    process is touched.  Nothing the child does shows in the parent, at any intermediate point (the statement holds
    for every prefix of the schedule, being quantified over all schedules). -/
theorem interleaving_isolated (copied : List (String × String)) (s : SysState) (parent : Nat) (p0 : Proc)
    (h : s.processes.get parent = some p0) (sched : List (Bool × Call)) :
    ((s.fork copied parent).2.run copied (schedOf parent s.nextPid sched)).processes.get parent
        = some (runCalls p0 ((sched.filter (fun x => !x.1)).map (·.2)))
    ∧ ((s.fork copied parent).2.run copied (schedOf parent s.nextPid sched)).processes.get s.nextPid
        = some (runCalls (Proc.forkFrom copied parent p0) ((sched.filter (fun x => x.1)).map (·.2)))
    ∧ ∀ q, q ≠ parent → q ≠ s.nextPid →
        ((s.fork copied parent).2.run copied (schedOf parent s.nextPid sched)).processes.get q
          = s.processes.get q := by
  obtain ⟨hfresh, hchild, hothers, hparent⟩ := fork_frame copied s parent p0 h
  have hne : parent ≠ s.nextPid := by intro e; rw [e, hfresh] at h; cases h
  obtain ⟨r1, r2, r3⟩ := run_two copied parent s.nextPid hne sched (s.fork copied parent).2 p0 _ hparent hchild
  exact ⟨r1, r2, fun q hq1 hq2 => (r3 q hq1 hq2).trans (hothers q hq2)⟩

/-- non-vacuity of `interleaving_isolated`: the child sets its umask, closes stdout and ignores SIGINT while the
    parent opens a file and lowers its descriptor limit, interleaved -/
def exampleInterleaving : ProcTable :=
  ((initialSys.fork implCopied 2).2.run implCopied (schedOf 2 initialSys.nextPid
    [(true, .umask "077"), (false, .open "f1"), (true, .close 1), (true, .sigaction Trap.SIGINT .ignore),
     (false, .setrlimit (some 16))])).processes

/-- … each entry shows only its owner's calls -/
example :
    (exampleInterleaving.get 2).map (fun p => (p.umask, p.nofile)) = some ("644", some 16)
    ∧ (exampleInterleaving.get 2).map (fun p => (fdGet p.fds 3, fdGet p.fds 1))
        = some (some { label := "f1" }, some { label := "out" })
    ∧ (exampleInterleaving.get 2).map (fun p => (p.sys.disp Trap.SIGINT, p.ppid)) = some (.default, 1)
    ∧ (exampleInterleaving.get 3).map (fun p => (p.umask, p.nofile)) = some ("077", none)
    ∧ (exampleInterleaving.get 3).map (fun p => (fdGet p.fds 3, fdGet p.fds 1)) = some (none, none)
    ∧ (exampleInterleaving.get 3).map (fun p => (p.sys.disp Trap.SIGINT, p.ppid)) = some (.ignore, 2) := by
  decide

/-- ★ The process-level fork of the code (generated copy list of `Process::fork_from`) IS the Spec's fork (POSIX: fd
    table, cwd, umask, dispositions, mask, limits), as functions on processes — so every run of the model with the
    code's fork equals the run with the Spec's fork (`impl_run_eq_spec_run`). -/
theorem forkFrom_impl_eq_spec : Proc.forkFrom implCopied = Proc.forkFrom specCopied := forkFrom_impl_eq_spec'

/-- ★★ For EVERY schedule of calls and forks of any number of processes (what the `X:` cases run, one real
    `SystemState`, the handles used in the order the schedule says): every entry of the shared table, as the code's
    fork produces it (generated copy list), is what the Spec says about that process alone — its own calls applied
    to the copy of its creator's state at the moment of its creation (`specProc`, which never looks at a table and
    skips every step of another process); the pids in use are exactly `2 … 2 + (number of forks)`; and every call
    answers what the Spec says (`ok`, the descriptor, the pid, or the error).  This is the `=Spec` column of the `X:`
    cases as a theorem. -/
theorem shared_table_is_spec (sched : List (Nat × XOp)) :
    (∀ q, (initialSys.run implCopied sched).processes.get q = specProc specCopied sched.reverse q)
    ∧ (∀ q, ((initialSys.run implCopied sched).processes.get q).isSome = true
        ↔ (2 ≤ q ∧ q ≤ 2 + specCount sched.reverse))
    ∧ (∀ x : Nat × XOp, ((initialSys.run implCopied sched).step implCopied x.1 x.2).1
        = specResult specCopied sched.reverse x.1 x.2) := by
  have m := matches_run implCopied sched
  refine ⟨fun q => (m.entries q).trans (specProc_impl_eq_spec _ q), m.pids, ?_⟩
  intro x
  obtain ⟨p, op⟩ := x
  have he := m.entries p
  unfold specResult
  rw [← specProc_impl_eq_spec, ← he]
  cases op with
  | call c =>
    show ((initialSys.run implCopied sched).exec p c).1 = _
    unfold SysState.exec
    cases (initialSys.run implCopied sched).processes.get p <;> rfl
  | fork =>
    show ((initialSys.run implCopied sched).fork implCopied p).1 = _
    rw [fork_result, m.nextPid]
    cases (initialSys.run implCopied sched).processes.get p <;> rfl

/-- The Spec's per-process reading, stated on its own: a step of ANOTHER process never changes what the Spec says
    about `q` — unless it is the fork that creates `q`. -/
theorem spec_skips_other_processes (copied : List (String × String)) (h : List (Nat × XOp)) (p q : Nat) (op : XOp)
    (hpq : p ≠ q) (hnew : q ≠ 3 + specCount h) :
    specProc copied ((p, op) :: h) q = specProc copied h q := by
  cases op with
  | call c => simp [specProc, hpq]
  | fork => simp [specProc, hnew]


/-- non-vacuity of `fork_frame` / `spec_skips_other_processes`: process 2 exists in the initial system; after one
    fork a call of process 3 does not change what the Spec says about process 2 -/
example :
    (initialSys.processes.get 2).isSome = true
    ∧ (3 : Nat) ≠ 2 ∧ (2 : Nat) ≠ 3 + specCount [((2 : Nat), XOp.fork)]
    ∧ ((specProc specCopied [(3, .call (.umask "077")), (2, .fork)] 2).map (·.umask)) = some "644"
    ∧ ((specProc specCopied [(3, .call (.umask "077")), (2, .fork)] 3).map (·.umask)) = some "077" := by
  decide

/-! ## Part 4 — composition with C11: the PROCESS of a subshell after entry, at every level of every run

`subshell_traps_reset` / `kind_entry_traps` speak about the trap SET.  What decides whether a signal runs the
starter's trap in the subshell is the disposition installed in the child PROCESS.  C11 proves
(`Trap.subshell_dispositions`, `Trap.subshell_vacant`) what `enter_subshell` installs — under C11's invariant
`Trap.Inv`.  Here the invariant is shown to hold in every shell a program of the fragment reaches and in every
subshell it starts (`trap_invariant_everywhere`), so C11's theorems apply at every level of every run
(`entries_hold`, `case_entry_dispositions`). -/

/-- ★ C11's invariant (installed disposition of every signal = merge of the trap-set entry and the internal
    disposition; mask consistent; map sorted) survives EVERY program of the fragment: mutators (`trap`, `set -m`
    with its internal dispositions, …), snapshots (`trap` listing = `peek_state`), subshell constructs of every
    kind with any body. -/
theorem trap_invariant_everywhere (init : Nat → Trap.Disp) (hinit : ∀ s, init s ≠ .catch) :
    ∀ (p : Prog) (sh : Shell), TrapOK init sh.env → TrapOK init (runProg implCopied p sh).env := by
  intro p
  induction p with
  | ops l => intro sh h; exact applyOps_trapOK init hinit l sh h
  | snap w tag => intro sh h; exact snapshotT_trapOK init hinit w sh tag h
  | ok =>
    intro sh h
    show TrapOK init (if sh.halted.isSome then sh else { sh with env := { sh.env with exitStatus := 0 } }).env
    split <;> exact h
  | exitTrap => intro sh h; show TrapOK init (runExitTrap sh).env; rw [runExitTrap_env]; exact h
  | seq a b iha ihb => intro sh h; exact ihb _ (iha sh h)
  | sub k body during _ =>
    intro sh h
    show TrapOK init (runKind implCopied k sh (runProg implCopied body) during).env
    unfold runKind
    split
    · exact h
    · simp only [startKind_parent, finishKind_env]
      exact parentSide_trapOK init hinit k sh.env during h

/-- What holds in the process of a subshell of kind `k` started from `env`, right after entry (before the body):
    C11's invariant again; NO signal except SIGCHLD has a handler installed (neither a trap command of the starter
    nor an internal handler of an interactive shell can run in the subshell); a signal whose trap action the
    starter had set to ignore is ignored by the process. -/
def EntryClaims (init : Nat → Trap.Disp) (k : Kind) (jc : Bool) (env : Env) : Prop :=
  TrapOK init (entryEnv implCopied k jc env)
  ∧ (∀ s, s ≠ 0 → s ≠ Trap.SIGCHLD → (entryEnv implCopied k jc env).system.sys.disp s ≠ .catch)
  ∧ (∀ s g, s ≠ 0 → s ≠ Trap.SIGCHLD → Trap.get env.traps s = some g → g.current.action = .ignore →
      (entryEnv implCopied k jc env).system.sys.disp s = .ignore)

/-- ★ The process-level half of "traps with command actions are reset to default while ignored signals stay
    ignored", for EVERY kind, job-controlled or not (two entries for a job-controlled pipeline), from any starter
    that satisfies C11's invariant.  Composition of `child_process_copy` (the fork copies dispositions and mask),
    C11's `subshell_dispositions` / `subshell_vacant` and `subshell_traps_reset`. -/
theorem kind_entry_dispositions (init : Nat → Trap.Disp) (hinit : ∀ s, init s ≠ .catch) (k : Kind) (jc : Bool)
    (env : Env) (h : TrapOK init env) : EntryClaims init k jc env := by
  have one : ∀ (ii ks : Bool) (e : Env), TrapOK init e →
      TrapOK init (subshellEntry ii ks (forkedCopy implCopied e))
      ∧ (∀ s, s ≠ 0 → s ≠ Trap.SIGCHLD → (subshellEntry ii ks (forkedCopy implCopied e)).system.sys.disp s ≠ .catch)
      ∧ (∀ s g, s ≠ 0 → s ≠ Trap.SIGCHLD → Trap.get e.traps s = some g → g.current.action = .ignore →
          (subshellEntry ii ks (forkedCopy implCopied e)).system.sys.disp s = .ignore) := by
    intro ii ks e he
    have hf := forkedCopy_trapOK init e he
    exact ⟨subshellEntry_trapOK init ii ks _ hf,
           fun s hs0 hc => entry_no_handler init hinit ii ks _ hf s hs0 hc,
           fun s g hs0 hc hg ha => entry_ignored_stays init ii ks _ hf s hs0 hc g hg ha⟩
  have two : TrapOK init env →
      TrapOK init (subshellEntry false true (forkedCopy implCopied (subshellEntry false false (forkedCopy implCopied env))))
      ∧ (∀ s, s ≠ 0 → s ≠ Trap.SIGCHLD → (subshellEntry false true (forkedCopy implCopied
          (subshellEntry false false (forkedCopy implCopied env)))).system.sys.disp s ≠ .catch)
      ∧ (∀ s g, s ≠ 0 → s ≠ Trap.SIGCHLD → Trap.get env.traps s = some g → g.current.action = .ignore →
          (subshellEntry false true (forkedCopy implCopied
            (subshellEntry false false (forkedCopy implCopied env)))).system.sys.disp s = .ignore) := by
    intro he
    obtain ⟨a1, _, _⟩ := one false false env he
    obtain ⟨b1, b2, b3⟩ := one false true _ a1
    refine ⟨b1, b2, ?_⟩
    intro s g hs0 hc hg ha
    obtain ⟨g1, hg1, ha1⟩ := (subshell_traps_reset false false (forkedCopy implCopied env)).2.1 s g hg ha
    exact b3 s g1 hs0 hc hg1 ha1
  unfold EntryClaims
  cases k <;> cases jc <;>
    simp only [entryEnv, Bool.not_true, Bool.not_false, if_true, Bool.false_eq_true, if_false] <;>
    first | exact two h | exact one _ _ env h

/-- … and a command trap of the starter leaves the DEFAULT disposition in the child process, whenever the entry
    does not ignore that signal on purpose (`Trap.subshellOption … = clear`: everything except INT/QUIT of a
    non-job-controlled `&` and the stop signals of a job-control shell's non-job-controlled subshell). -/
theorem entry_command_trap_default (init : Nat → Trap.Disp) (ii ks : Bool) (env : Env) (h : TrapOK init env)
    (s : Nat) (hs0 : s ≠ 0) (g : Trap.GrandState) (n : Nat) (hg : Trap.get env.traps s = some g)
    (ha : g.current.action = .command n) (hopt : Trap.subshellOption s g ii ks = .clear) :
    (subshellEntry ii ks (forkedCopy implCopied env)).system.sys.disp s = .default :=
  entry_command_default init ii ks _ (forkedCopy_trapOK init env h) s hs0 g n hg ha hopt

/-- non-vacuity of `entry_command_trap_default`: `trap 'probe T1' USR1` in the starter -/
example :
    let env := (applyOps { env := initialEnv } [.trap Trap.SIGUSR1 (.cmd 1)]).env
    ((Trap.get env.traps Trap.SIGUSR1).map (·.current.action)) = some (.command 1)
    ∧ ((Trap.get env.traps Trap.SIGUSR1).map (fun g => Trap.subshellOption Trap.SIGUSR1 g false true)) = some .clear
    ∧ env.system.sys.disp Trap.SIGUSR1 = .catch
    ∧ (subshellEntry false true (forkedCopy implCopied env)).system.sys.disp Trap.SIGUSR1 = .default := by
  decide

/-- "At every subshell construct the run of `p` from `sh` actually reaches — at any nesting depth — the entry
    claims hold": the predicate follows the execution (the second part of a sequence starts from the shell the
    first part left; the body of a subshell starts from its entry environment). -/
def EntriesHold (init : Nat → Trap.Disp) : Prog → Shell → Prop
  | .seq a b, sh => EntriesHold init a sh ∧ EntriesHold init b (runProg implCopied a sh)
  | .sub k body _, sh =>
    sh.halted = none →
      EntryClaims init k (controlsJobs sh.env) sh.env
      ∧ EntriesHold init body
          { env := plumb k (controlsJobs sh.env) (entryEnv implCopied k (controlsJobs sh.env) sh.env) }
  | _, _ => True

/-- ★★ For EVERY program of the fragment run from any shell that satisfies C11's invariant: at every subshell
    construct the run reaches, at every depth, the child process starts with no inherited handler and with the
    starter's ignored signals ignored (`EntryClaims`).  By induction on the program, the invariant being carried
    along the execution by `trap_invariant_everywhere` and into each child by `kind_entry_dispositions`. -/
theorem entries_hold (init : Nat → Trap.Disp) (hinit : ∀ s, init s ≠ .catch) :
    ∀ (p : Prog) (sh : Shell), TrapOK init sh.env → EntriesHold init p sh := by
  intro p
  induction p with
  | ops _ => intro _ _; trivial
  | snap _ _ => intro _ _; trivial
  | ok => intro _ _; trivial
  | exitTrap => intro _ _; trivial
  | seq a b iha ihb =>
    intro sh h
    exact ⟨iha sh h, ihb _ (trap_invariant_everywhere init hinit a sh h)⟩
  | sub k body during ih =>
    intro sh h _
    have hc := kind_entry_dispositions init hinit k (controlsJobs sh.env) sh.env h
    refine ⟨hc, ih _ ?_⟩
    exact trapOK_congr init _ _ (plumb_trapState k _ _) hc.1

/-- ★ … in particular for every case of the sweep, from the shell the harness starts (inherited-ignored signal,
    internal dispositions of an interactive shell or not): the driver runs `runProg implCopied (caseProg c)` from
    `startEnv c`, and that very run satisfies the entry claims at all its levels and ends in a shell that still
    satisfies C11's invariant. -/
theorem case_entry_dispositions (c : Case) :
    EntriesHold (initOf c) (caseProg c) { env := startEnv c }
    ∧ TrapOK (initOf c) (runCase implCopied c).env :=
  ⟨entries_hold (initOf c) (initOf_ne_catch c) (caseProg c) _ (startEnv_trapOK c),
   trap_invariant_everywhere (initOf c) (initOf_ne_catch c) (caseProg c) _ (startEnv_trapOK c)⟩

/-- non-vacuity: an interactive shell (internal `Catch` for SIGINT) with `trap … USR1` and `trap '' QUIT`; in the
    `( )` child SIGINT and SIGUSR1 are back to the default disposition, SIGQUIT is ignored; in the `&` child
    SIGINT is ignored -/
example :
    let env := (applyOps { env := startEnv { pro := [], kinds := [], child := [], during := [], internal := true } }
      [.trap Trap.SIGUSR1 (.cmd 1), .trap Trap.SIGQUIT .ign]).env
    env.system.sys.disp Trap.SIGINT = .catch ∧ env.system.sys.disp Trap.SIGUSR1 = .catch
    ∧ (entryEnv implCopied .paren false env).system.sys.disp Trap.SIGINT = .default
    ∧ (entryEnv implCopied .paren false env).system.sys.disp Trap.SIGUSR1 = .default
    ∧ (entryEnv implCopied .paren false env).system.sys.disp Trap.SIGQUIT = .ignore
    ∧ (entryEnv implCopied .async false env).system.sys.disp Trap.SIGINT = .ignore := by
  decide


/-! ## Part 5 — the `=Spec` column as a theorem; the freshness hypothesis of `async_parent_side` discharged -/

/-- ★★ The model of the code IS the Spec on EVERY program of the fragment, from every shell: running with the copy
    list extracted from `Process::fork_from` gives the same shell — state, halting, output — as running with the
    fork POSIX describes.  (Breaks as soon as the extracted copy list loses one of fds / cwd / umask / dispositions /
    mask / limits: then `forkFrom_impl_eq_spec` fails.) -/
theorem impl_run_eq_spec_run : ∀ (p : Prog) (sh : Shell), runProg implCopied p sh = runProg specCopied p sh := by
  intro p
  induction p with
  | ops _ => intro sh; rfl
  | snap _ _ => intro sh; rfl
  | ok => intro sh; rfl
  | exitTrap => intro sh; rfl
  | seq a b iha ihb => intro sh; show runProg implCopied b (runProg implCopied a sh) = _; rw [iha, ihb]; rfl
  | sub k body during ih =>
    intro sh
    show runKind implCopied k sh (runProg implCopied body) during = runKind specCopied k sh (runProg specCopied body) during
    have : runProg implCopied body = runProg specCopied body := funext ih
    rw [this]
    exact runKind_congr implCopied specCopied forkFrom_impl_eq_spec k sh _ during

/-- … so for every case the driver's two columns agree: what the `=Spec` comparison checks per case is a theorem
    for all cases (the comparison that remains is the one against the real code). -/
theorem case_model_eq_spec (c : Case) : observation (runCase implCopied c) = specObservation c := by
  unfold specObservation runCase
  rw [impl_run_eq_spec_run]

/-- ★ The hypothesis of `async_parent_side` ("the identities in the job table are fresh") is an invariant of every
    run: it holds in the shell a case starts from and is kept by every program of the fragment (in the starter; the
    same argument applies inside every child, whose table is the starter's, disowned).  So for every `&` the sweep
    runs, the starter's job list afterwards is the list before and only `$!` changed. -/
theorem jobs_fresh_everywhere (copied : List (String × String)) :
    ∀ (p : Prog) (sh : Shell), JobsFresh sh.env.jobs → JobsFresh (runProg copied p sh).env.jobs := by
  intro p
  induction p with
  | ops l => intro sh h; exact applyOps_jobsFresh l sh h
  | snap w tag =>
    intro sh h
    show JobsFresh (snapshotT w sh tag).env.jobs
    unfold snapshotT
    split
    · exact h
    · split <;> exact h
  | ok =>
    intro sh h
    show JobsFresh (if sh.halted.isSome then sh else { sh with env := { sh.env with exitStatus := 0 } }).env.jobs
    split <;> exact h
  | exitTrap => intro sh h; show JobsFresh (runExitTrap sh).env.jobs; rw [runExitTrap_env]; exact h
  | seq a b iha ihb => intro sh h; exact ihb _ (iha sh h)
  | sub k body during _ =>
    intro sh h
    show JobsFresh (runKind copied k sh (runProg copied body) during).env.jobs
    unfold runKind
    split
    · exact h
    · simp only [startKind_parent, finishKind_env]
      show JobsFresh (parentSide k sh.env during).env.jobs
      by_cases hk : k = .async
      · subst hk
        exact jobsFresh_removeLast _ (applyOps_jobsFresh during { env := { sh.env with jobs := sh.env.jobs.add } }
          (jobsFresh_add _ h))
      · rw [parentSide_sync' k sh.env during hk]; exact h

theorem case_jobs_fresh (copied : List (String × String)) (c : Case) : JobsFresh (runCase copied c).env.jobs :=
  jobs_fresh_everywhere copied (caseProg c) _ (by intro e he; cases he)

/-- `async_parent_side` with its hypothesis in the decidable/invariant form -/
theorem async_parent_side_fresh (env : Env) (h : JobsFresh env.jobs) :
    (parentSide .async env []).env
      = { env with jobs := { env.jobs with last := some env.jobs.next, next := env.jobs.next + 1 } } :=
  async_parent_side env (fun e he => Nat.ne_of_lt (h e he))

/-! ### non-vacuity of the theorems with hypotheses -/

/-- `async_parent_side`: a table with two jobs (fresh identities 0 and 1) -/
example :
    let env := (applyOps { env := initialEnv } [.bg, .bg]).env
    JobsFresh env.jobs ∧ env.jobs.list.length = 2
    ∧ showJobs (parentSide .async env []).env.jobs = "j=1,2 !=?" := by
  refine ⟨?_, by decide, by decide⟩
  exact applyOps_jobsFresh [.bg, .bg] { env := initialEnv } (by intro e he; cases he)

/-- `parent_observes_only_status`: two different bodies that both end with status 3 -/
example :
    (childShell implCopied .paren { env := initialEnv } (fun c => applyOps c [.set "va" "1", .exit 3])).halted = some 3
    ∧ (childShell implCopied .paren { env := initialEnv } (fun c => applyOps c [.umask "077", .bg, .exit 3])).halted
        = some 3 := by
  decide

/-- `signaled_child_only_status` / `interactive_sigint_interrupts`: a child that kills itself with SIGINT — in a
    non-interactive starter (first theorem: `interactive` off) and at the top level of an interactive one with the
    default SIGINT action (second theorem) -/
example :
    (childShell implCopied .paren { env := initialEnv } (fun c => applyOps c [.raise Trap.SIGINT])).halted
        = some (384 + Trap.SIGINT)
    ∧ initialEnv.options.contains "interactive" = false
    ∧ initialEnv.options.contains "errexit" = false
    ∧ (let env := startEnv { pro := [], kinds := [], child := [], during := [], internal := true }
       isInteractive env = true ∧ sigintDefault env = true
       ∧ (childShell implCopied .subst { env := env } (fun c => applyOps c [.raise Trap.SIGINT])).halted
           = some (384 + Trap.SIGINT)) := by
  decide

/-- `subshell_never_interrupts`: the environment of a subshell of an interactive shell -/
example :
    ((entryEnv implCopied .paren false
      (startEnv { pro := [], kinds := [], child := [], during := [], internal := true })).stack.contains "Subshell")
      = true := by
  decide


/-! ## Part 6 — the process-level mutators are system calls of the shell's own process; the redirection engine

`umask`, `cd`, `ulimit -n` and the four `exec` redirections of the sweep are no longer typed into `applyOpCore` as
direct writes of `Env.system`: they ARE the calls of `Call.runT` (the functions the `X:` cases drive on the real
`SystemState`), composed as `yash-semantics/src/redir.rs` composes them (`performRedir`, `execRedir`).  This part
says what the composition guarantees and ties the by-value `Env.system` of Parts 2/4 to the shared table of Part 3. -/

/-- A call that answers an error has changed nothing (the doc comment of `Call.run`, now a theorem: `dup` onto a
    full table, `dup2` above the limit, `chdir` to a missing directory, … leave the process as it was). -/
theorem failing_call_changes_nothing (c : Call) (p : Proc) (h : (c.runT p).1.isErr = true) : (c.runT p).2 = p := by
  cases c <;> simp only [Call.runT] at h ⊢ <;> (repeat' split) <;> simp_all [CallRes.isErr]

/-- ★ What one redirection of `exec` does (`perform` → `open_and_overwrite` → `preserve_redirs`; Spec:
    `specRedirEntry`).  Success: the target descriptor designates what the redirection names (the file / the source's
    open file description without CLOEXEC / nothing) and EVERY other descriptor is as before — the saved copy at ≥ 10
    and the temporary descriptor of `open` are gone again.  Failure: the whole table is as before.  Either way
    nothing but the descriptor table is touched (cwd, umask, dispositions, mask, limit). -/
theorem exec_redirection_table (p : Proc) (n : Nat) (b : RedirBody) :
    ((execRedir p n b).1 = true →
        ∀ m, fdGet (execRedir p n b).2.fds m = if m = n then specRedirEntry p b else fdGet p.fds m)
    ∧ ((execRedir p n b).1 = false → ∀ m, fdGet (execRedir p n b).2.fds m = fdGet p.fds m)
    ∧ p.SameButFds (execRedir p n b).2 := by
  have h := execRedir_table_all p n b
  have e : specRedirEntry p b = redirEntry p b := by cases b <;> rfl
  rw [e]
  exact ⟨h.1, h.2, execRedir_same p n b⟩

/-- non-vacuity: fd 4 open, `exec 4>|f1` succeeds (saved copy at 10 and temporary fd 3 are gone), `exec 4>&5` fails
    (5 is closed) and leaves the table alone -/
example :
    let p : Proc := { baseEnv.system with fds := fdPut baseEnv.system.fds 4 { label := "f2" } }
    (execRedir p 4 (.file "f1")).1 = true
    ∧ (execRedir p 4 (.file "f1")).2.fds = [(0, { label := "in" }), (1, { label := "out" }), (2, { label := "err" }),
        (4, { label := "f1" })]
    ∧ (execRedir p 4 (.copy 5)).1 = false ∧ (execRedir p 4 (.copy 5)).2.fds = p.fds := by
  decide

/-- ★ No redirection creates a descriptor at or above the soft RLIMIT_NOFILE (`Process::set_fd`'s guard reached
    through `dup2`, or through `open` itself when the target is the lowest free descriptor): with the target not
    allowed, `N>|file`, `N<file` and `N>&M` (M ≠ N) fail — whatever else is open, whatever the saved copy did. -/
theorem redirection_respects_limit (p : Proc) (n : Nat) (b : RedirBody) (hb : b ≠ .close) (hself : b ≠ .copy n)
    (h : (execRedir p n b).1 = true) : fdAllowed p n = true := by
  by_cases hl : fdAllowed p n = true
  · exact hl
  · rw [execRedir_limit p n b hb hself hl] at h; cases h

/-- non-vacuity (closed since the limit is a numeral, `Proc.nofile : Option Nat`): under `ulimit -S -n 16`, with
    descriptor 20 open from before, `exec 20>|f1` and `exec 20>&1` fail, `exec 5>|f1` succeeds, and fd 20 is still
    what it was -/
example :
    let p : Proc := { baseEnv.system with nofile := some 16, fds := fdPut baseEnv.system.fds 20 { label := "f2" } }
    (execRedir p 20 (.file "f1")).1 = false ∧ (execRedir p 20 (.copy 1)).1 = false
    ∧ (execRedir p 5 (.file "f1")).1 = true
    ∧ fdGet (execRedir p 20 (.file "f1")).2.fds 20 = some { label := "f2" } := by
  decide

/-- ★ The by-value `Env.system` and the shared table agree on the mutators: for `umask`, `cd`, `ulimit -n` and the
    `exec` redirections the process state after the mutator is the state before with a list of the process's OWN
    system calls applied (`runCalls`, the function `interleaving_isolated` / `shared_table_is_spec` speak about) —
    successful or not. -/
theorem process_mutators_are_own_calls (sh : Shell) (op : Op) (hop : op.processLevel = true) :
    ∃ cs, (applyOpCore sh op).env.system = runCalls sh.env.system cs := by
  cases op with
  | umask m => exact ⟨[.umask m], by simp only [applyOpCore]; rfl⟩
  | nofile v => exact ⟨[.setrlimit v], by simp only [applyOpCore]; rfl⟩
  | cd d =>
    refine ⟨[.chdir (shorten d (((sh.env.variables.vars.find "PWD").map (·.value)).getD ""))], ?_⟩
    simp only [applyOpCore, runCalls, List.foldl, Call.run]
    split
    · simp only []
    · rename_i h
      exact (failing_call_changes_nothing _ _ (by simpa using h)).symm
  | fdw n f =>
    obtain ⟨cs, h⟩ := execRedir_calls sh.env.system n (.file f)
    exact ⟨cs, by simp only [applyOpCore]; rw [redirOp_env]; exact h⟩
  | fdr n =>
    obtain ⟨cs, h⟩ := execRedir_calls sh.env.system n (.file "oin")
    exact ⟨cs, by simp only [applyOpCore]; rw [redirOp_env]; exact h⟩
  | fdd n m =>
    obtain ⟨cs, h⟩ := execRedir_calls sh.env.system n (.copy m)
    exact ⟨cs, by simp only [applyOpCore]; rw [redirOp_env]; exact h⟩
  | fdc n =>
    obtain ⟨cs, h⟩ := execRedir_calls sh.env.system n .close
    exact ⟨cs, by simp only [applyOpCore]; rw [redirOp_env]; exact h⟩
  | _ => simp [Op.processLevel] at hop

/-- the calls of ONE process, run through its handle on the shared table: its entry gets `runCalls`, no other entry
    is touched -/
theorem own_calls_on_table (copied : List (String × String)) (pid : Nat) (cs : List Call) :
    ∀ (s : SysState) (p : Proc), s.processes.get pid = some p →
      (s.run copied (cs.map fun c => (pid, .call c))).processes.get pid = some (runCalls p cs)
      ∧ ∀ q, q ≠ pid → (s.run copied (cs.map fun c => (pid, .call c))).processes.get q = s.processes.get q := by
  induction cs with
  | nil => intro s p h; exact ⟨h, fun _ _ => rfl⟩
  | cons c rest ih =>
    intro s p h
    have h1 : (s.exec pid c).2.processes.get pid = some (c.run p).2 := by rw [exec_get]; simp [h]
    obtain ⟨r1, r2⟩ := ih (s.exec pid c).2 (c.run p).2 h1
    refine ⟨?_, ?_⟩
    · simpa [SysState.run, SysState.step, runCalls] using r1
    · intro q hq
      have := r2 q hq
      rw [exec_get] at this
      simpa [SysState.run, SysState.step, hq] using this

/-- ★★ A process-level mutator of the shell with process id `pid`, performed on the SHARED table (the shell's
    `Env.system` being the entry of `pid`): afterwards the entry of `pid` is exactly the `Env.system` the shell-level
    model computes, and the entry of every other process — the parent's, a sibling's — is untouched.  So what a
    subshell does with `umask`, `cd`, `ulimit -n`, `exec N>…` cannot reach its starter through the shared
    `SystemState`; with `interleaving_isolated` this holds for every interleaving with the starter's own mutators. -/
theorem mutator_on_shared_table (copied : List (String × String)) (s : SysState) (pid : Nat) (sh : Shell) (op : Op)
    (hop : op.processLevel = true) (hs : s.processes.get pid = some sh.env.system) :
    ∃ cs : List Call,
      (s.run copied (cs.map fun c => (pid, .call c))).processes.get pid = some (applyOpCore sh op).env.system
      ∧ ∀ q, q ≠ pid → (s.run copied (cs.map fun c => (pid, .call c))).processes.get q = s.processes.get q := by
  obtain ⟨cs, h⟩ := process_mutators_are_own_calls sh op hop
  obtain ⟨r1, r2⟩ := own_calls_on_table copied pid cs s sh.env.system hs
  exact ⟨cs, by rw [r1, h], r2⟩

/-- non-vacuity: a child (pid 3) forked from the initial process runs `exec 4>|f1` as calls on the table -/
example :
    let s := (initialSys.fork implCopied 2).2
    let sh : Shell := { env := { baseEnv with system := Proc.forkFrom implCopied 2 baseEnv.system } }
    (s.processes.get 3).isSome = true ∧ (Op.fdw 4 "f1").processLevel = true
    ∧ fdGet (applyOpCore sh (.fdw 4 "f1")).env.system.fds 4 = some { label := "f1" } := by
  decide

/-- ★ A failing special built-in inside a subshell shows in the starter as the exit status only: when the child's
    body ends in an `exec` redirection that cannot be performed (or any other `builtinError`), the child runs ITS OWN
    exit trap and exits with status 2; the starter's state is what `subshell_isolated` says, its `$?` is the kind's
    status of 2.  Stated for the shell that fails: it halts with 2, its environment is untouched by the failing
    redirection except (extensionally) nothing, and the only event is its own EXIT trap. -/
theorem failing_redirection_halts (sh : Shell) (n : Nat) (b : RedirBody) (h : (execRedir sh.env.system n b).1 = false) :
    (redirOp sh n b).halted = some 2
    ∧ (∀ m, fdGet (redirOp sh n b).env.system.fds m = fdGet sh.env.system.fds m)
    ∧ (redirOp sh n b).events = sh.events ++ (match trapCommandOf sh.env 0 with
        | some k => [s!"T{k}"]
        | none => []) := by
  have hf := (exec_redirection_table sh.env.system n b).2.1 h
  refine ⟨?_, ?_, ?_⟩
  · unfold redirOp builtinError exitShell; simp only [h]; rfl
  · intro m; rw [redirOp_env]; exact hf m
  · unfold redirOp builtinError exitShell trapCommandOf; simp only [h]; rfl

/-- The constants and the call order of the redirection engine are what the model assumes — re-extracted from /repo
    on every run (`tools/tables/forksys.py`): `MIN_INTERNAL_FD` (yash-env/src/io.rs) is the model's `minInternalFd`;
    a process created from nothing has the model's `defaultUmask` (`with_parent_and_group` → `Mode::default()`);
    `perform` checks the target's CLOEXEC flag, THEN saves it with `dup(target, MIN_INTERNAL_FD, CloseOnExec)` (EBADF =
    nothing to save), THEN runs `open_and_overwrite`, and closes the saved copy on error; `open_and_overwrite`
    closes the opened descriptor AFTER `dup2`; `preserve_redirs` only closes saved copies. -/
theorem redirection_engine_as_modelled :
    Generated.ForkSystem.minInternalFd = minInternalFd
    ∧ Generated.ForkSystem.freshUmask = defaultUmask
    ∧ Generated.ForkSystem.performOrder = ["is_cloexec_target", "dup_save", "open_and_overwrite", "close_save_on_error"]
    ∧ Generated.ForkSystem.saveEbadfIsNone = true
    ∧ Generated.ForkSystem.overwriteOrder = ["dup2", "close_spec", "close_target"]
    ∧ Generated.ForkSystem.preserveClosesSave = true := by decide


/-- ★★ `shared_table_is_spec` as an equality of LISTS (was open: "stated entry-wise; the list equality of the sorted table
    with `specTable` is what the per-case comparison checks, not a theorem"): after ANY schedule of calls and forks the
    whole process table of the model of the code — a `BTreeMap`, i.e. sorted by pid, which `ProcTable.put` keeps —
    IS the table the Spec builds process by process, hence prints the same text in the `X:` observation.  Holding for
    every schedule it holds for every prefix, i.e. for every intermediate table the observation shows. -/
theorem shared_table_eq_spec_table (sched : List (Nat × XOp)) :
    (initialSys.run implCopied sched).processes = specTable specCopied sched.reverse
    ∧ showTable (initialSys.run implCopied sched) = showTable { processes := specTable specCopied sched.reverse } := by
  have m := matches_run implCopied sched
  have hs : (initialSys.run implCopied sched).processes.Sorted :=
    run_sorted implCopied sched initialSys (by simp [initialSys, ProcTable.Sorted])
  have e : specTable implCopied sched.reverse = specTable specCopied sched.reverse := by
    unfold specTable
    simp only [specProc_impl_eq_spec]
  have h1 := (m.table_eq hs).trans e
  exact ⟨h1, by unfold showTable; rw [h1]⟩

/-- non-vacuity: a schedule with a fork, calls of both processes and a grandchild; the table has three entries -/
example :
    ((initialSys.run implCopied [(2, .fork), (3, .call (.umask "077")), (3, .fork), (2, .call (.close 1))]).processes.map
        (fun e => (e.1, e.2.umask, e.2.fds.length)))
      = [(2, "644", 2), (3, "077", 3), (4, "077", 3)] := by decide


/-- POSIX `open` / `dup` / `fcntl(F_DUPFD)`: "the lowest numbered available file descriptor (greater than or equal to
    the argument)".  `min_unused_fd` as transcribed (`minUnusedFd`, a bounded search with a fall-back value) meets that
    declaratively: the result is not open, is at least `min`, and every descriptor between `min` and the result is open
    (the fall-back is never taken: pigeonhole). -/
theorem lowest_unused_descriptor (l : List (Nat × FdEntry)) (min : Nat) :
    fdGet l (minUnusedFd l min) = none ∧ min ≤ minUnusedFd l min
    ∧ ∀ m, min ≤ m → m < minUnusedFd l min → (fdGet l m).isSome = true :=
  ⟨(minUnusedFd_free l min).1, (minUnusedFd_free l min).2, fun m h1 h2 => minUnusedFd_least l min m h1 h2⟩

/-- … and `Dup::dup` answers exactly that descriptor: when `dup(src, min, flags)` answers `fd k`, `k` is the lowest
    unused descriptor ≥ `min`, it is below the soft limit, it now designates `src`'s open file with the requested
    CLOEXEC flag, and no other descriptor changed. -/
theorem dup_answers_lowest (p : Proc) (src min k : Nat) (x : Bool)
    (h : ((Call.dup src min x).runT p).1 = .fd k) :
    k = minUnusedFd p.fds min ∧ fdAllowed p k = true
    ∧ ∀ m, fdGet ((Call.dup src min x).runT p).2.fds m
        = if m = k then (fdGet p.fds src).map (fun e => { e with cloexec := x }) else fdGet p.fds m := by
  cases hs : fdGet p.fds src with
  | none => rw [dup_closed p src min x hs] at h; cases h
  | some e =>
    by_cases ha : fdAllowed p (minUnusedFd p.fds min) = true
    · rw [dup_ok p src min x e hs ha] at h ⊢
      cases h
      exact ⟨rfl, ha, fun m => by simp only [fdGet_fdPut, Option.map_some]⟩
    · rw [dup_limit p src min x e hs ha] at h; cases h

/-- non-vacuity: descriptors 0–2 and 10 open, `dup(1, 10, CLOEXEC)` answers 11 -/
example :
    ((Call.dup 1 10 true).runT { baseEnv.system with fds := fdPut baseEnv.system.fds 10 { label := "tty", cloexec := true } }).1
      = .fd 11 := by decide


/-! ## Part 7 — the signal state: every write of the Trap model (C11) is a `sigaction` / `sigmask` call of the process itself

`trap`, and the trap reset of the child prologue (`TrapSet::enter_subshell`), change the process through C11's model,
whose one primitive is `Sys.setDisposition` (= `Concurrent::set_disposition`: block, `sigaction`, unblock).  `SysReach s s'`
(Fork/SigLemmas.lean) says: some list of `Call.sigaction` / `Call.sigmask` — the calls of Part 3 — takes any process whose
`dispositions` / `blocked_signals` are `s`'s to one whose are `s'`'s and changes nothing else of it (`Sys.selectMask` is
`Concurrent`'s shell-side select mask, not part of `Process`, hence "up to" it). -/

/-- ★ The `trap` built-in (`TrapSet::set_action`, any condition, any action, error paths included) changes the shell's
    process by `sigaction` / `sigmask` calls of that process only, and nothing but its signal state. -/
theorem trap_builtin_is_own_calls (sh : Shell) (c : Nat) (a : TrapAct) :
    SysReach sh.env.system.sys (applyOpCore sh (.trap c a)).env.system.sys
    ∧ sh.env.system.SameButSys (applyOpCore sh (.trap c a)).env.system := by
  refine ⟨?_, rfl, rfl, rfl, rfl, rfl, rfl⟩
  exact setAction_reach { sys := sh.env.system.sys, traps := sh.env.traps } c _ 0 _

/-- ★ The child prologue of `Config::start` (push the frame, disown, `enter_subshell` with any flags) changes the
    child's process by `sigaction` / `sigmask` calls of the child only, and nothing but its signal state. -/
theorem subshell_entry_is_own_calls (ii ks : Bool) (env : Env) :
    SysReach env.system.sys (subshellEntry ii ks env).system.sys
    ∧ env.system.SameButSys (subshellEntry ii ks env).system := by
  refine ⟨?_, rfl, rfl, rfl, rfl, rfl, rfl⟩
  exact enterSubshell_reach { sys := env.system.sys, traps := env.traps } ii ks

/-- ★★ … on the SHARED table: the trap reset of a subshell's entry, performed through the child's handle (its
    `Env.system` being the entry of `child`, i.e. AFTER the fork), leaves in the child's entry exactly the
    dispositions and the mask the shell-level model computes and touches no other entry — the starter keeps its
    handlers.  (Running the same prologue through the PARENT's handle, the round-1 seeded mistake, would by the same
    theorem change the parent's entry: the statement pins the side of the fork.) -/
theorem entry_reset_on_shared_table (copied : List (String × String)) (s : SysState) (child : Nat) (ii ks : Bool)
    (env : Env) (hs : s.processes.get child = some env.system) :
    ∃ cs : List Call,
      (∃ q', (s.run copied (cs.map fun c => (child, .call c))).processes.get child = some q'
        ∧ SysEq q'.sys (subshellEntry ii ks env).system.sys ∧ env.system.SameButSys q')
      ∧ ∀ q, q ≠ child → (s.run copied (cs.map fun c => (child, .call c))).processes.get q = s.processes.get q := by
  obtain ⟨cs, _, r⟩ := (subshell_entry_is_own_calls ii ks env).1
  obtain ⟨r1, r2⟩ := own_calls_on_table copied child cs s env.system hs
  obtain ⟨e, f⟩ := r env.system ⟨rfl, rfl⟩
  exact ⟨cs, ⟨_, r1, e, f⟩, r2⟩

/-- non-vacuity: the starter has `trap 'probe T1' INT` (handler installed); after the entry the child's disposition
    is the default, and `SysReach` is met by an actual call list (`sigaction INT default`, `sigmask unblock INT`) -/
example :
    let env := (applyOps { env := initialEnv } [.trap Trap.SIGINT (.cmd 1)]).env
    env.system.sys.disp Trap.SIGINT = .catch
    ∧ (subshellEntry false true env).system.sys.disp Trap.SIGINT = .default
    ∧ (runCalls env.system [.sigaction Trap.SIGINT .default, .sigmask false Trap.SIGINT]).sys.disp Trap.SIGINT
        = (subshellEntry false true env).system.sys.disp Trap.SIGINT := by
  decide


/-! ## Part 8 — EVERY write of the entry sequence of every kind is an own call of the child; `set -m` -/

/-- ★★ ONE statement for every kind of subshell, on the shared table.  The child's `Env` right after the fork is
    `env` (its `Env.system` is the entry of `child`, a copy of the starter's — `fork_frame` — that holds the pipe ends
    the starter opened for it).  Everything the entry sequence then does to the process — the trap reset of
    `Config::start`'s prologue and the kind's plumbing of fd 0 / fd 1 (`move_to_stdin_stdout`, `subshell_body`,
    `nullify_stdin`) — is a list of the CHILD's own system calls: run through the child's handle they leave every
    other entry of the table untouched (the starter's included), and the child's entry is the one the shell-level
    model starts the body from (`plumb k jc (subshellEntry …)`): its descriptor table except that the starter's pipe
    ends are closed, its dispositions and mask, and the starter's cwd / umask / limit. -/
theorem kind_entry_on_shared_table (copied : List (String × String)) (s : SysState) (child : Nat) (env : Env)
    (hs : s.processes.get child = some env.system) (k : Kind) (jc ii ks : Bool) (rp r w : Nat)
    (he : PipeEnds k jc env.system rp r w) :
    ∃ cs : List Call,
      (∀ q, q ≠ child → (s.run copied (cs.map fun c => (child, .call c))).processes.get q = s.processes.get q)
      ∧ ∃ q', (s.run copied (cs.map fun c => (child, .call c))).processes.get child = some q'
        ∧ (∀ m, fdGet q'.fds m = if m ∈ kindEnds k rp r w then none
            else fdGet (plumb k jc (subshellEntry ii ks env)).system.fds m)
        ∧ SysEq q'.sys (plumb k jc (subshellEntry ii ks env)).system.sys
        ∧ q'.cwd = env.system.cwd ∧ q'.umask = env.system.umask ∧ q'.nofile = env.system.nofile := by
  obtain ⟨cs1, _, r1⟩ := (subshell_entry_is_own_calls ii ks env).1
  obtain ⟨e1, f1⟩ := r1 env.system ⟨rfl, rfl⟩
  obtain ⟨g1, g2, g3, g4, g5, g6⟩ := f1
  -- the process after the reset still holds the ends
  let env1 : Env := { subshellEntry ii ks env with system := runCalls env.system cs1 }
  have hfa : ∀ n, fdAllowed (runCalls env.system cs1) n = fdAllowed env.system n := by
    intro n; unfold fdAllowed nofileLimit; rw [g6]
  have he1 : PipeEnds k jc env1.system rp r w := by
    obtain ⟨hn, hp, hb, hz⟩ := he
    refine ⟨fun h => ?_, fun h => ?_, hb, fun h1 h2 => ?_⟩
    · obtain ⟨a, b, c, d, e, f⟩ := hn h
      exact ⟨by show (fdGet (runCalls env.system cs1).fds r).isSome = true; rw [g1]; exact a,
        by show fdGet (runCalls env.system cs1).fds w = _; rw [g1]; exact b, c, d, e,
        by show fdAllowed (runCalls env.system cs1) 1 = true; rw [hfa]; exact f⟩
    · obtain ⟨a, b, c⟩ := hp h
      exact ⟨by show fdGet (runCalls env.system cs1).fds rp = _; rw [g1]; exact a, b,
        by show fdAllowed (runCalls env.system cs1) 0 = true; rw [hfa]; exact c⟩
    · show fdAllowed (runCalls env.system cs1) 0 = true
      rw [hfa]; exact hz h1 h2
  obtain ⟨p1, p2⟩ := plumb_is_own_calls' k jc env1 rp r w he1
  obtain ⟨t1, t2⟩ := own_calls_on_table copied child (cs1 ++ plumbCalls k jc rp r w) s env.system hs
  refine ⟨cs1 ++ plumbCalls k jc rp r w, t2, _, t1, ?_, ?_, ?_, ?_, ?_⟩
  · intro m
    rw [runCalls_app]
    have := p1 m
    rw [plumb_fds_congr k jc env1 (subshellEntry ii ks env) g1] at this
    exact this
  · rw [runCalls_app, plumb_sys]
    exact ⟨by rw [← e1.1]; exact congrArg _ p2.2.2.1, by rw [← e1.2]; exact congrArg _ p2.2.2.1⟩
  · rw [runCalls_app]; exact p2.1.trans g2
  · rw [runCalls_app]; exact p2.2.1.trans g3
  · rw [runCalls_app]; exact p2.2.2.2.2.2.trans g6


/-- non-vacuity of `PipeEnds`: a forked child holding the read end of the previous pipe at 3 and a new pipe at 4/5
    (the middle member of a pipeline); after its own calls fd 0 and fd 1 are the pipes and 3, 4, 5 are closed -/
example :
    let pe : FdEntry := { label := "pipe" }
    let q : Proc := { baseEnv.system with fds := fdPut (fdPut (fdPut baseEnv.system.fds 3 pe) 4 pe) 5 pe }
    (fdGet q.fds 4).isSome = true ∧ fdGet q.fds 5 = some pe ∧ fdGet q.fds 3 = some pe
    ∧ fdAllowed q 0 = true ∧ fdAllowed q 1 = true
    ∧ (runCalls q (plumbCalls .pipeM false 3 4 5)).fds
        = [(0, { label := "pipe" }), (1, { label := "pipe" }), (2, { label := "err" })] := by
  decide

theorem set_monitor_aux (env : Env) (st : Trap.State) (hst : SysReach env.system.sys st.sys) (b : Bool) :
    SysReach env.system.sys
        (if b then getTty { env with traps := st.traps, system := { env.system with sys := st.sys } }
          else { env with traps := st.traps, system := { env.system with sys := st.sys } }).system.sys
    ∧ ∃ cs, (if b then getTty { env with traps := st.traps, system := { env.system with sys := st.sys } }
          else { env with traps := st.traps, system := { env.system with sys := st.sys } }).system
        = runCalls { env.system with sys :=
            (if b then getTty { env with traps := st.traps, system := { env.system with sys := st.sys } }
              else { env with traps := st.traps, system := { env.system with sys := st.sys } }).system.sys } cs := by
  cases b with
  | false => exact ⟨hst, [], rfl⟩
  | true =>
    obtain ⟨⟨cs, hcs⟩, hsame⟩ :=
      getTty_is_own_calls' { env with traps := st.traps, system := { env.system with sys := st.sys } }
    simp only [if_true]
    refine ⟨?_, cs, ?_⟩
    · rw [hsame.2.2.1]; exact hst
    · rw [hsame.2.2.1]; exact hcs

/-- ★ `set -m` / `set +m` outside a subshell (`monitorChanged`: the internal dispositions for the stop signals, then
    `Env::get_tty` when `monitor` is now on): the signal state changes by `sigaction` / `sigmask` calls of the shell's
    own process, and the rest of the process by `open` / `dup` / `close` calls of it (`/dev/tty` at ≥ 10, CLOEXEC) —
    no other write.  With `trap_builtin_is_own_calls`, `process_mutators_are_own_calls` and `kind_entry_on_shared_table`
    every write to `Env.system` the shell-level model performs is now an own-entry call. -/
theorem set_monitor_is_own_calls (o : String) (env : Env) :
    SysReach env.system.sys (monitorChanged o env).system.sys
    ∧ ∃ cs, (monitorChanged o env).system
        = runCalls { env.system with sys := (monitorChanged o env).system.sys } cs := by
  unfold monitorChanged
  split
  · exact ⟨.refl _, [], rfl⟩
  · have hst : SysReach env.system.sys
        (if env.options.contains "interactive" && env.options.contains "monitor"
          then Trap.enableStoppers { sys := env.system.sys, traps := env.traps }
          else Trap.disableStoppers { sys := env.system.sys, traps := env.traps }).sys := by
      split
      · exact (stoppers_reach { sys := env.system.sys, traps := env.traps }).1
      · exact (stoppers_reach { sys := env.system.sys, traps := env.traps }).2
    exact set_monitor_aux env _ hst (env.options.contains "monitor")

/-! ## Part 9 — the static audit as a checked statement -/

/-- ★ Aliasing inside the cloned fields of `Env` (was: a printed audit, "not a theorem").  Over the table of EVERY
    `Rc` / `RefCell` / `Cell` / `Weak` / `OnceCell` / trait-object cell reachable from a non-`system` field of `Env`
    (re-extracted from yash-env and yash-syntax on every run, over-approximating by bare type name):
    every cell is classified (`cellClass`); the ONLY shared cell that can be written after the fork is
    `Code.value: RefCell<String>`, and the only code that takes a mutable borrow of it is the lexer's `push_str` of the
    line it has just read (append-only source text for error messages, not state the property names); the one opaque
    container (`DataSet`) is cloned entry by entry.  A new field holding an `Rc<RefCell<…>>`, a `Cell`, a new trait
    object, or a second writer of `Code.value` breaks this proof. -/
theorem env_cells_classified :
    (∀ e ∈ Generated.ForkMaps.interiorCells, cellClass e ≠ "UNCLASSIFIED")
    ∧ Generated.ForkMaps.interiorCells.filter (fun e => cellClass e = "sharedMutable")
        = [("RefCell", "Code.value", "RefCell<String>")]
    ∧ Generated.ForkMaps.codeValueWriters = [("yash-syntax/src/parser/lex/core.rs", "push_str")]
    ∧ (Generated.ForkMaps.interiorCells.filter (fun e => cellClass e = "clonedOnFork")).length = 1 := by
  decide

/-! ## Part 10 — schedules of whole shells -/

/-- A scheduling point of the starter between `&` and `wait` (`W:yield`: the starter blocks in `( : )`, the executor
    runs the asynchronous child — or the part of it up to its next wait — there) leaves no trace in the starter.
    Hence the model's and the Spec's answer for a program is the same under every placement of the yields:
    `applyOps` over a list with yields is `applyOps` over the list without them.  The differential run then shows that
    the real shell's snapshots agree with that ONE answer under each of the schedules driven (sweep 1h: 5 per program). -/
theorem yield_is_invisible (sh : Shell) (ops : List Op) :
    applyOp sh .yield = sh ∧ applyOps sh ops = applyOps sh (ops.filter (· ≠ .yield)) := by
  have h1 : ∀ s : Shell, applyOp s .yield = s := by
    intro s
    unfold applyOp
    by_cases h : s.halted.isSome = true
    · simp [h]
    · have hn : s.halted = none := by cases hh : s.halted <;> simp_all
      simp [opStatus, applyOpCore, hn]
  refine ⟨h1 sh, ?_⟩
  induction ops generalizing sh with
  | nil => rfl
  | cons op rest ih =>
    by_cases ho : op = .yield
    · subst ho
      simp only [applyOps, List.foldl_cons, h1] at ih ⊢
      simpa [List.filter] using ih sh
    · simp only [applyOps, List.foldl_cons] at ih ⊢
      simp only [List.filter, ho, ne_eq, not_false_eq_true, decide_true, List.foldl_cons]
      exact ih _

/-- the starter's side of `&` … `wait` under two schedules: same shell -/
example :
    (parentSide .async initialEnv [.yield, .umask "027", .yield]).env.system.umask
      = (parentSide .async initialEnv [.umask "027"]).env.system.umask
    ∧ (parentSide .async initialEnv [.yield, .umask "027", .yield]).events = [] := by decide

/-! ## Part 11 — `PipeEnds` discharged from C13's model of the starter's side of a pipeline -/

/-- which kind of subshell stage `k` of an `n`-stage pipeline is -/
def stageKind (n k : Nat) : Kind := if k = 0 then .pipeF else if k + 1 < n then .pipeM else .pipeL

/-- ★★ Composition with C13 (`Proc/ForkLoop.lean`: `PipeSet::shift` + the fork loop, any allocation policy `A`;
    `forkLoop_spec`).  A pipeline of `n ≥ 2` stages started from a table `T0` without pipe ends, stdin and stdout open:
    (1) after the loop the STARTER's table is `T0` again — every descriptor it opened for the pipeline is closed
    (C13's `forkLoop_spec`); (2) for EVERY stage `k`, any process `q` of this model that is a concrete version
    (`AbsTab`) of the table the stage inherited at its fork satisfies `PipeEnds` for that stage's kind, with the
    descriptors of the `PipeSet` it was handed — so `kind_entry_on_shared_table` applies to every stage of every
    pipeline with no hypothesis about pipe ends left; in particular `read_previous = 1` cannot occur here (that corner
    of `move_to_stdin_stdout` needs stdout closed in the starter; C13's `move_exact` covers it on the abstract table). -/
theorem pipeline_stage_pipeEnds {A : YashModel.Proc.Alloc} {n : Nat} {T0 Tf : YashModel.Proc.FdTab}
    {cs : List (YashModel.Proc.FdTab × YashModel.Proc.PipeSet)} {psf : YashModel.Proc.PipeSet}
    (h0 : YashModel.Proc.NoPipe T0) (hin : (T0 0).isSome = true) (hout : (T0 1).isSome = true) (hn : 2 ≤ n)
    (hrun : YashModel.Proc.forkLoop A 0 n T0 { readPrevious := none, next := none } = some (cs, Tf, psf))
    (k : Nat) (Tk : YashModel.Proc.FdTab) (psk : YashModel.Proc.PipeSet) (hk : cs[k]? = some (Tk, psk))
    (q : Proc) (habs : AbsTab q Tk) (a0 : fdAllowed q 0 = true) (a1 : fdAllowed q 1 = true) (jc : Bool) :
    (∀ fd, Tf fd = T0 fd)
    ∧ ∃ rp r w, PipeEnds (stageKind n k) jc q rp r w
        ∧ (needsNext (stageKind n k) = true → psk.next = some (r, w))
        ∧ (needsPrev (stageKind n k) = true → psk.readPrevious = some rp) := by
  obtain ⟨hlen, hTf, _, hall⟩ := YashModel.Proc.forkLoop_spec h0 n 0 T0 _ cs Tf psf
    (YashModel.Proc.loopInv_init h0 _ _) (by simp) hrun
  obtain ⟨hinv, hrp, hnx⟩ := hall k Tk psk hk
  have hklt : k < n := by
    have := (List.getElem?_eq_some_iff.mp hk).1
    omega
  have hnext : needsNext (stageKind n k) = true → psk.next = some ((psk.next.getD (0, 0)).1, (psk.next.getD (0, 0)).2) := by
    intro h
    have hlt : k + 1 < n := by
      unfold stageKind at h
      by_cases c0 : k = 0
      · omega
      · by_cases c1 : k + 1 < n
        · exact c1
        · simp [c0, c1, needsNext] at h
    have : psk.next.isSome = true := by rw [hnx]; simp [hlt]
    cases hh : psk.next with
    | none => rw [hh] at this; cases this
    | some v => rfl
  have hprev : needsPrev (stageKind n k) = true → psk.readPrevious = some (psk.readPrevious.getD 0) := by
    intro h
    have hpos : 0 < k := by
      unfold stageKind at h
      by_cases c0 : k = 0
      · simp [c0, needsPrev] at h
      · omega
    have : psk.readPrevious.isSome = true := by rw [hrp]; simp [hpos]
    cases hh : psk.readPrevious with
    | none => rw [hh] at this; cases this
    | some v => rfl
  exact ⟨hTf, _, _, _, pipeEnds_of_loopInv _ jc q T0 Tk psk _ _ _ _ _ habs hinv hin hout a0 a1 hnext hprev,
    hnext, hprev⟩

/-! ## Part 12 — writers of the shared records; two concurrently running children -/

/-- ★ "Never mutated through the `Rc`" for the records `env_cells_classified` calls `sharedImmutable` (`Rc<Code>`,
    `Rc<Source>`, `Rc<Alias>`, `Rc<Function<S>>`, `Rc<str>`, `Rc<dyn FunctionBodyObject<S>>`), checked against the
    writers: a value behind an `Rc` that has no interior cell (the cells are exactly the rows of `interiorCells`) can
    be written only through `Rc::get_mut` (answers `None` while another `Rc` points to it), `Rc::make_mut` (clones
    first while it is shared: the writer gets a copy of its own) or unsafe code.  Re-extracted on every run: the only
    such call is the `make_mut` of `typeset -fr` (set_functions.rs: copy-on-write of the `Function` — a subshell marking
    a function read-only gets its own copy), there is no `get_mut_unchecked`, and `unsafe` outside the FFI layer occurs
    in exactly three files, none of which writes a shared record (the executor helper's `spawn_pinned`, the
    `Rc::from_raw` transparent cast at function DEFINITION, `RealSystem::new`).  A new site breaks this proof. -/
theorem shared_records_writers :
    Generated.ForkMaps.rcMutSites = [("yash-builtin/src/typeset/set_functions.rs", "make_mut")]
    ∧ (∀ s ∈ Generated.ForkMaps.rcMutSites, s.2 ≠ "get_mut_unchecked")
    ∧ Generated.ForkMaps.unsafeFiles
        = ["yash-cli/src/lib.rs", "yash-env/src/executor_helper.rs",
           "yash-semantics/src/command/function_definition.rs"] := by decide

/-- ★★ Two concurrently running children (two members of a pipeline, an asynchronous list and a foreground subshell):
    under EVERY interleaving of their system calls on the shared table each child's entry is its own calls applied to
    what it had, and every other entry — the starter's — is untouched: the starter's process state after both have
    finished does not depend on the schedule.  (`interleaving_isolated` with the two children in the roles of "parent"
    and "child"; the executor schedules driven for it: sweep 1i.) -/
theorem two_children_isolated (copied : List (String × String)) (s : SysState) (c1 c2 : Nat) (hne : c1 ≠ c2)
    (p1 p2 : Proc) (h1 : s.processes.get c1 = some p1) (h2 : s.processes.get c2 = some p2)
    (sched : List (Bool × Call)) :
    (s.run copied (schedOf c1 c2 sched)).processes.get c1
        = some (runCalls p1 ((sched.filter (fun x => !x.1)).map (·.2)))
    ∧ (s.run copied (schedOf c1 c2 sched)).processes.get c2
        = some (runCalls p2 ((sched.filter (fun x => x.1)).map (·.2)))
    ∧ ∀ starter, starter ≠ c1 → starter ≠ c2 →
        (s.run copied (schedOf c1 c2 sched)).processes.get starter = s.processes.get starter :=
  run_two copied c1 c2 hne sched s p1 p2 h1 h2

/-- … for the pipeline kinds, with what the members do expressed in the shell-level model: whatever process-level
    mutators (`umask`, `cd`, `ulimit -n`, `exec` redirections) the two members perform, in whatever order their calls
    reach the table, the starter's entry is the one it had when it forked them. -/
theorem pipeline_members_leave_starter (copied : List (String × String)) (s : SysState) (starter c1 c2 : Nat)
    (hne : c1 ≠ c2) (hs1 : starter ≠ c1) (hs2 : starter ≠ c2) (sh1 sh2 : Shell)
    (h1 : s.processes.get c1 = some sh1.env.system) (h2 : s.processes.get c2 = some sh2.env.system)
    (op1 op2 : Op) (ho1 : op1.processLevel = true) (ho2 : op2.processLevel = true) :
    ∃ cs1 cs2 : List Call,
      (applyOpCore sh1 op1).env.system = runCalls sh1.env.system cs1
      ∧ (applyOpCore sh2 op2).env.system = runCalls sh2.env.system cs2
      ∧ ∀ sched : List (Bool × Call),
          (sched.filter (fun x => !x.1)).map (·.2) = cs1 → (sched.filter (fun x => x.1)).map (·.2) = cs2 →
          (s.run copied (schedOf c1 c2 sched)).processes.get c1 = some (applyOpCore sh1 op1).env.system
          ∧ (s.run copied (schedOf c1 c2 sched)).processes.get c2 = some (applyOpCore sh2 op2).env.system
          ∧ (s.run copied (schedOf c1 c2 sched)).processes.get starter = s.processes.get starter := by
  obtain ⟨cs1, e1⟩ := process_mutators_are_own_calls sh1 op1 ho1
  obtain ⟨cs2, e2⟩ := process_mutators_are_own_calls sh2 op2 ho2
  refine ⟨cs1, cs2, e1, e2, fun sched f1 f2 => ?_⟩
  obtain ⟨r1, r2, r3⟩ := two_children_isolated copied s c1 c2 hne _ _ h1 h2 sched
  exact ⟨by rw [r1, f1, e1], by rw [r2, f2, e2], r3 starter hs1 hs2⟩

/-- A pipeline, a command substitution or a here-document started by a subshell that has no descriptors to spare
    (`Pipe::pipe` / `open_tmpfile` / the saving `dup` answer EMFILE) fails IN that subshell: whether it can be set up
    or not, the subshell's own environment — every field, its process included — is what it was (the failure ends the
    subshell with 126 / 2, or, for the here-document of a regular built-in, leaves status 2), so a fortiori
    (`subshell_isolated_nested`) the starter's. -/
theorem descriptor_hungry_commands_change_nothing (sh : Shell) (op : Op) (h : op = .pl ∨ op = .cs ∨ op = .hd) :
    (applyOpCore sh op).env = sh.env
    ∧ ((applyOpCore sh op).halted.isSome = true →
        (op = .pl ∧ pipeOk sh.env.system = false ∧ (applyOpCore sh op).halted = some 126)
        ∨ (op = .cs ∧ pipeOk sh.env.system = false ∧ (applyOpCore sh op).halted = some 2)
        ∨ sh.halted.isSome = true) := by
  rcases h with rfl | rfl | rfl
  · simp only [applyOpCore]
    cases hp : pipeOk sh.env.system <;> simp [exitShell]
  · simp only [applyOpCore]
    cases hp : pipeOk sh.env.system <;> simp [exitShell]
  · simp only [applyOpCore]
    cases hp : hereDocOk sh.env.system <;> simp

/-- non-vacuity: with descriptors 0-3 in use and a soft limit of 4 neither a pipe nor a here-document can be set up;
    with the limit at 16 both can -/
example :
    let p4 : Proc := { baseEnv.system with nofile := some 4, fds := fdPut baseEnv.system.fds 3 { label := "f1" } }
    let p16 : Proc := { p4 with nofile := some 16 }
    pipeOk p4 = false ∧ hereDocOk p4 = false ∧ pipeOk p16 = true ∧ hereDocOk p16 = true := by decide

/-- The model's (and the Spec's) answer for a case does not mention what the FIRST member of the innermost pipeline does
    to its own state (`A:` ops, sweep 1i) nor under which schedule (`yield_is_invisible`): by `two_children_isolated`
    nothing a sibling process does can show in the starter or in the other member.  The differential run checks the
    real shell against this one answer under 5 executor schedules per program. -/
theorem sibling_member_invisible (copied : List (String × String)) (c : Case) (ops : List Op) :
    runCase copied { c with first := ops } = runCase copied c := rfl

/-- `shift` with no positional parameter left (an error of the special built-in; was a generator exclusion): the shell
    that runs it ends with status 1 after its OWN exit trap, its environment untouched — inside a subshell the starter
    sees the status only (`subshell_isolated_nested`). -/
theorem shift_without_parameters_halts (sh : Shell) (hl : sh.halted = none) (he : sh.env.variables.params = []) :
    (applyOp sh .shift).halted = some 1 ∧ (applyOp sh .shift).env = sh.env
    ∧ (applyOp sh .shift).events = sh.events ++ (match trapCommandOf sh.env 0 with
        | some k => [s!"T{k}"]
        | none => []) := by
  unfold applyOp
  simp [hl, applyOpCore, he, exitShell]
  cases trapCommandOf sh.env 0 <;> rfl

/-- non-vacuity, and the other branch: with a parameter left `shift` drops it and the shell lives on -/
example :
    (applyOp { env := initialEnv } .shift).halted = some 1
    ∧ (applyOp (applyOp { env := initialEnv } (.args ["1"])) .shift).halted = none
    ∧ (applyOp (applyOp { env := initialEnv } (.args ["1", "two"])) .shift).env.variables.params = ["two"] := by decide

end YashModel.Fork
