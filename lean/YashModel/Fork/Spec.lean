/-
  Spec for C08: what POSIX says about a subshell environment, stated in the simplest way.

  * The child of a subshell starts as a *duplicate* of the parent's shell environment: every field the
    property names, process-level ones (cwd, umask, fd table, dispositions) included, except that traps with
    command actions are reset to default (`specCopied` = everything `fork(2)` copies).
  * Whatever the child does, the parent keeps its state; it learns the exit status only.

  The Spec run of a case is the model run in which the process-level fork copies *all* the named fields
  (`specCopied`) instead of the fields `Process::fork_from` copies in the code (`implCopied`, generated).
  `parentUnchanged` is the second clause as an executable predicate.
-/
import YashModel.Fork.Model
import YashModel.Fork.Shared
namespace YashModel.Fork

/-- the Spec's prediction of the observation of a case -/
def specObservation (c : Case) : String := observation (runCase specCopied c)

/-- the tracked part of two snapshots texts `B{…}` and `A{…}` agree -/
def sameSnapshot (b a : String) : Bool := (b.drop 1).toString == (a.drop 1).toString

/-- clause 2 on an observed event list: when the parent does nothing itself between `B` and `A`, `A = B` -/
def parentUnchanged (events : List String) : Bool :=
  match events.find? (·.startsWith "B{"), events.find? (·.startsWith "A{") with
  | some b, some a => sameSnapshot b a
  | _, _ => false

/-! ## Spec of the process table: every process is a value of its own

POSIX: a process's working directory, file mode creation mask, descriptor table, signal dispositions, signal
mask and resource limits are attributes of THAT process: they are what the process inherited when it was
created by `fork` (a copy of the creator's, taken at that moment) changed by the calls the process made itself —
whatever any other process did in between, in whatever order.  `specProc` says exactly that, without any table:
the history is read latest step first; a step of another process is skipped.  Process ids are handed out in
order (3, 4, … — the initial process is 2), so a history determines them. -/

/-- how many processes the (reversed) history `h` has created -/
def specCount : List (Nat × XOp) → Nat
  | [] => 0
  | (p, .fork) :: h => if 2 ≤ p ∧ p ≤ 2 + specCount h then specCount h + 1 else specCount h
  | (_, .call _) :: h => specCount h

/-- the state of process `q` after the (reversed) history `h`: its own calls over what it inherited -/
def specProc (copied : List (String × String)) : List (Nat × XOp) → Nat → Option Proc
  | [], q => if q = 2 then some baseEnv.system else none
  | (p, .call c) :: h, q =>
    if p = q then (specProc copied h q).map (fun x => (c.run x).2) else specProc copied h q
  | (p, .fork) :: h, q =>
    if q = 3 + specCount h ∧ 2 ≤ p ∧ p ≤ 2 + specCount h
    then (specProc copied h p).map (Proc.forkFrom copied p)
    else specProc copied h q

/-- what the step `(p, op)` answers after the (reversed) history `h` -/
def specResult (copied : List (String × String)) (h : List (Nat × XOp)) (p : Nat) (op : XOp) : String :=
  match specProc copied h p with
  | none => "nopid"
  | some x =>
    match op with
    | .call c => (c.run x).1
    | .fork => s!"pid{3 + specCount h}"

/-- all processes after the (reversed) history `h`, by pid -/
def specTable (copied : List (String × String)) (h : List (Nat × XOp)) : ProcTable :=
  (List.range (specCount h + 1)).filterMap fun i => (specProc copied h (i + 2)).map fun x => (i + 2, x)

/-- the Spec's prediction of the observation of an `X:` case -/
def specXObservation (sched : List (Nat × XOp)) : String :=
  let steps := (List.range sched.length).map fun i =>
    let h := (sched.take i).reverse
    match sched[i]? with
    | some x => specResult specCopied h x.1 x.2 ++ " " ++ showTable { processes := specTable specCopied (x :: h) }
    | none => "?"
  " / ".intercalate (("start " ++ showTable { processes := specTable specCopied [] }) :: steps)

/-! ## Spec of a redirection of `exec`

POSIX (2.7 Redirection, `exec`): `exec N>file` / `exec N<file` make descriptor N refer to the named file, `exec N>&M`
makes N a copy of M (a new descriptor never has close-on-exec set), `exec N>&-` closes N; no other descriptor of the
shell changes, and a redirection that cannot be performed changes nothing. -/

/-- what descriptor `N` designates after a successful redirection of the given body, in terms of the process before -/
def specRedirEntry (p : Proc) : RedirBody → Option FdEntry
  | .file l => some { label := l }
  | .copy s => (fdGet p.fds s).map fun e => { e with cloexec := false }
  | .close => none

end YashModel.Fork
