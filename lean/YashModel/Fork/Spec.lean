/-
  Spec for C08: what POSIX says about a subshell environment, stated in the simplest way.

  * The child of a subshell starts as a *duplicate* of the parent's shell environment: every field the
    property names, process-level ones (cwd, umask, fd table, dispositions) included, except that traps with
    command actions are reset to default (`specCopied` = everything `fork(2)` copies).
  * Whatever the child does, the parent keeps its state; it learns the exit status only.

  The Spec run of a case is the model run in which the process-level fork copies *all* the named fields
  (`specCopied`) instead of the fields `Process::fork_from` copies in the code (`implCopied`, generated).
  `parentUnchanged` is the second clause as an executable predicate.
-/
import YashModel.Fork.Model
namespace YashModel.Fork

/-- the Spec's prediction of the observation of a case -/
def specObservation (c : Case) : String := observation (runCase specCopied c)

/-- the tracked part of two snapshots texts `B{…}` and `A{…}` agree -/
def sameSnapshot (b a : String) : Bool := (b.drop 1).toString == (a.drop 1).toString

/-- clause 2 on an observed event list: when the parent does nothing itself between `B` and `A`, `A = B` -/
def parentUnchanged (events : List String) : Bool :=
  match events.find? (·.startsWith "B{"), events.find? (·.startsWith "A{") with
  | some b, some a => sameSnapshot b a
  | _, _ => false

end YashModel.Fork
