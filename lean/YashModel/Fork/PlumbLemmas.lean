/-
  C08 — the plumbing of fd 0 / fd 1 of every kind of subshell (`PipeSet::move_to_stdin_stdout`, `subshell_body` of
  command_subst.rs, `nullify_stdin`) as lists of the child's own system calls (`plumbCalls` of Model.lean), and what
  they make of a table that holds the starter's pipe ends.  Helper lemmas; the property theorem is in Theorems.lean.
-/
import YashModel.Fork.RedirLemmas
namespace YashModel.Fork

/-! ### the plumbing of every kind as the child's own calls -/

theorem runCalls_cons (p : Proc) (c : Call) (cs : List Call) : runCalls p (c :: cs) = runCalls (c.runT p).2 cs := rfl
theorem runCalls_nil (p : Proc) : runCalls p [] = p := rfl

/-- `close(r)`, `dup2(w, 1)`, `close(w)` -/
theorem plumb_out (q : Proc) (r w : Nat) (ew : FdEntry) (hw : fdGet q.fds w = some ew) (hrw : r ≠ w) (hw1 : w ≠ 1)
    (hr1 : r ≠ 1) (h1 : fdAllowed q 1 = true) :
    (∀ m, fdGet (runCalls q [.close r, .dup2 w 1, .close w]).fds m
        = if m = w ∨ m = r then none else if m = 1 then some { ew with cloexec := false } else fdGet q.fds m)
    ∧ q.SameButFds (runCalls q [.close r, .dup2 w 1, .close w]) := by
  have hs : fdGet ((Call.close r).runT q).2.fds w = some ew := by
    have hwr : ¬ w = r := fun h => hrw h.symm
    simp only [close_eq, fdGet_fdDel, hwr, if_false, hw]
  have ha : fdAllowed ((Call.close r).runT q).2 1 = true := h1
  simp only [runCalls_cons, runCalls_nil]
  rw [dup2_ok _ w 1 ew hs hw1 ha]
  refine ⟨fun m => ?_, ⟨rfl, rfl, rfl, rfl, rfl, rfl⟩⟩
  simp only [close_eq, fdGet_fdDel, fdGet_fdPut]
  by_cases a : m = w <;> by_cases b : m = r <;> by_cases c : m = 1 <;> simp_all <;> omega

/-- `dup2(rp, 0)`, `close(rp)` -/
theorem plumb_in (q : Proc) (rp : Nat) (ep : FdEntry) (hp : fdGet q.fds rp = some ep) (hp0 : rp ≠ 0)
    (h0 : fdAllowed q 0 = true) :
    (∀ m, fdGet (runCalls q [.dup2 rp 0, .close rp]).fds m
        = if m = rp then none else if m = 0 then some { ep with cloexec := false } else fdGet q.fds m)
    ∧ q.SameButFds (runCalls q [.dup2 rp 0, .close rp]) := by
  simp only [runCalls_cons, runCalls_nil]
  rw [dup2_ok _ rp 0 ep hp hp0 h0]
  refine ⟨fun m => ?_, ⟨rfl, rfl, rfl, rfl, rfl, rfl⟩⟩
  simp only [close_eq, fdGet_fdDel, fdGet_fdPut]

/-- `nullify_stdin`: `close(0)`, `open("/dev/null")` answers 0 -/
theorem plumb_null (q : Proc) (h0 : fdAllowed q 0 = true) :
    (∀ m, fdGet (runCalls q nullifyStdin).fds m = if m = 0 then some { label := "null" } else fdGet q.fds m)
    ∧ q.SameButFds (runCalls q nullifyStdin) := by
  have hfree : fdGet (fdDel q.fds 0) 0 = none := by simp [fdGet_fdDel]
  have hz : minUnusedFd (fdDel q.fds 0) 0 = 0 := by
    by_cases h : minUnusedFd (fdDel q.fds 0) 0 = 0
    · exact h
    · have := minUnusedFd_least (fdDel q.fds 0) 0 0 (Nat.le_refl _) (by omega)
      rw [hfree] at this; cases this
  have ha : fdAllowed ((Call.close 0).runT q).2 (minUnusedFd ((Call.close 0).runT q).2.fds 0) = true := by
    show fdAllowed _ (minUnusedFd (fdDel q.fds 0) 0) = true
    rw [hz]; exact h0
  unfold nullifyStdin
  simp only [runCalls_cons, runCalls_nil]
  rw [open_ok _ "null" ha]
  refine ⟨fun m => ?_, ⟨rfl, rfl, rfl, rfl, rfl, rfl⟩⟩
  show fdGet (fdPut (fdDel q.fds 0) (minUnusedFd (fdDel q.fds 0) 0) _) m = _
  rw [hz, fdGet_fdPut, fdGet_fdDel]
  by_cases a : m = 0 <;> simp [a]


/-- the descriptors the starter opened for a subshell of kind `k` (closed again on both sides) -/
def kindEnds (k : Kind) (rp r w : Nat) : List Nat :=
  match k with
  | .subst | .pipeF => [r, w]
  | .pipeM => [rp, r, w]
  | .pipeL => [rp]
  | _ => []

/-- does a subshell of this kind get a pipe to the next command / the read end of the previous pipe? -/
def needsNext : Kind → Bool
  | .subst | .pipeF | .pipeM => true
  | _ => false
def needsPrev : Kind → Bool
  | .pipeM | .pipeL => true
  | _ => false

/-- What the child of kind `k` finds in its (forked) table: the pipe ends the starter opened FOR THIS KIND, at distinct
    descriptors other than 0 and 1; the descriptor it is going to overwrite (1 / 0) below the soft limit.  For a pipeline
    this is what C13's fork loop establishes (`pipeEnds_of_loopInv`, Fork/PipeBridge.lean). -/
structure PipeEnds (k : Kind) (jc : Bool) (q : Proc) (rp r w : Nat) : Prop where
  next : needsNext k = true → (fdGet q.fds r).isSome = true ∧ fdGet q.fds w = some { label := "pipe" } ∧ r ≠ w
    ∧ 2 ≤ r ∧ 2 ≤ w ∧ fdAllowed q 1 = true
  prev : needsPrev k = true → fdGet q.fds rp = some { label := "pipe" } ∧ 2 ≤ rp ∧ fdAllowed q 0 = true
  both : needsNext k = true → needsPrev k = true → rp ≠ r ∧ rp ≠ w
  null : k = .async → jc = false → fdAllowed q 0 = true

theorem plumb_is_own_calls' (k : Kind) (jc : Bool) (env : Env) (rp r w : Nat) (h : PipeEnds k jc env.system rp r w) :
    (∀ m, fdGet (runCalls env.system (plumbCalls k jc rp r w)).fds m
        = if m ∈ kindEnds k rp r w then none else fdGet (plumb k jc env).system.fds m)
    ∧ env.system.SameButFds (runCalls env.system (plumbCalls k jc rp r w)) := by
  obtain ⟨hnext, hprev, hboth, hnull⟩ := h
  cases k with
  | paren => exact ⟨fun m => by simp [plumbCalls, kindEnds, plumb, runCalls_nil], .refl _⟩
  | async =>
    cases jc with
    | true => exact ⟨fun m => by simp [plumbCalls, kindEnds, plumb, runCalls_nil], .refl _⟩
    | false =>
      have := plumb_null env.system (hnull rfl rfl)
      refine ⟨fun m => ?_, this.2⟩
      simp only [plumbCalls, Bool.false_eq_true, if_false, kindEnds, List.not_mem_nil, plumb, this.1 m, fdGet_fdPut]
  | subst =>
    obtain ⟨hr, hw, hrw, r2, w2, a1⟩ := hnext rfl
    have w1 : w ≠ 1 := by omega
    have r1 : r ≠ 1 := by omega
    have out := plumb_out env.system r w _ hw hrw w1 r1 a1
    have e : plumbCalls .subst jc rp r w = [.close r, .dup2 w 1, .close w] := by
      simp [plumbCalls, kindPipes, moveToStdinStdout, w1]
    rw [e]
    refine ⟨fun m => ?_, out.2⟩
    rw [out.1 m]
    simp only [kindEnds, List.mem_cons, List.not_mem_nil, or_false, plumb, fdGet_fdPut]
    by_cases a : m = w <;> by_cases b : m = r <;> simp_all
  | pipeF =>
    obtain ⟨hr, hw, hrw, r2, w2, a1⟩ := hnext rfl
    have w1 : w ≠ 1 := by omega
    have r1 : r ≠ 1 := by omega
    have out := plumb_out env.system r w _ hw hrw w1 r1 a1
    have e : plumbCalls .pipeF jc rp r w = [.close r, .dup2 w 1, .close w] := by
      simp [plumbCalls, kindPipes, moveToStdinStdout, w1]
    rw [e]
    refine ⟨fun m => ?_, out.2⟩
    rw [out.1 m]
    simp only [kindEnds, List.mem_cons, List.not_mem_nil, or_false, plumb, fdGet_fdPut]
    by_cases a : m = w <;> by_cases b : m = r <;> simp_all
  | pipeL =>
    obtain ⟨hp, p2, a0⟩ := hprev rfl
    have p0 : rp ≠ 0 := by omega
    have e : plumbCalls .pipeL jc rp r w = [.dup2 rp 0, .close rp] := by
      simp [plumbCalls, kindPipes, moveToStdinStdout, p0]
    rw [e]
    have inn := plumb_in env.system rp _ hp p0 a0
    refine ⟨fun m => ?_, inn.2⟩
    rw [inn.1 m]
    simp only [kindEnds, List.mem_cons, List.not_mem_nil, or_false, plumb, fdGet_fdPut]
  | pipeM =>
    obtain ⟨hr, hw, hrw, r2, w2, a1⟩ := hnext rfl
    obtain ⟨hp, p2, a0⟩ := hprev rfl
    obtain ⟨hpr, hpw⟩ := hboth rfl rfl
    have w1 : w ≠ 1 := by omega
    have r1 : r ≠ 1 := by omega
    have p0 : rp ≠ 0 := by omega
    have out := plumb_out env.system r w _ hw hrw w1 r1 a1
    have e : plumbCalls .pipeM jc rp r w = [.close r, .dup2 w 1, .close w] ++ [.dup2 rp 0, .close rp] := by
      simp [plumbCalls, kindPipes, moveToStdinStdout, w1, p0]
    rw [e, runCalls_app]
    have hp' : fdGet (runCalls env.system [.close r, .dup2 w 1, .close w]).fds rp = some { label := "pipe" } := by
      rw [out.1 rp]
      have : ¬ (rp = w ∨ rp = r) := by omega
      have p1 : ¬ rp = 1 := by omega
      simp only [this, p1, if_false, hp]
    have a0' : fdAllowed (runCalls env.system [.close r, .dup2 w 1, .close w]) 0 = true := by
      rw [fdAllowed_same out.2]; exact a0
    have inn := plumb_in _ rp _ hp' p0 a0'
    refine ⟨fun m => ?_, out.2.trans inn.2⟩
    rw [inn.1 m, out.1 m]
    simp only [kindEnds, List.mem_cons, List.not_mem_nil, or_false, plumb, fdGet_fdPut]
    by_cases a : m = w <;> by_cases b : m = r <;> by_cases c : m = rp <;> by_cases d : m = 0 <;> by_cases e1 : m = 1 <;>
      simp_all <;> omega

theorem plumb_fds_congr (k : Kind) (jc : Bool) (e1 e2 : Env) (h : e1.system.fds = e2.system.fds) :
    (plumb k jc e1).system.fds = (plumb k jc e2).system.fds := by
  cases k <;> cases jc <;> simp [plumb, h]

theorem plumb_sys (k : Kind) (jc : Bool) (e : Env) : (plumb k jc e).system.sys = e.system.sys := by
  cases k <;> cases jc <;> rfl

end YashModel.Fork
