/-
  C08 — helper lemmas about the system calls of one process (`Call.runT`) and the redirection engine built from
  them (`openAndOverwrite`, `performRedir`, `execRedir`): frames (which fields a call can change), failing calls
  change nothing, the descriptor-table algebra (`fdGet` of `fdPut` / `fdDel`, `minUnusedFd` really is unused).
-/
import YashModel.Fork.Model
namespace YashModel.Fork

/-! ### frames -/

/-- everything of a process except its descriptor table is the same -/
def Proc.SameButFds (p q : Proc) : Prop :=
  q.cwd = p.cwd ∧ q.umask = p.umask ∧ q.sys = p.sys ∧ q.ppid = p.ppid ∧ q.ttyAvail = p.ttyAvail ∧ q.nofile = p.nofile

theorem Proc.SameButFds.refl (p : Proc) : p.SameButFds p := ⟨rfl, rfl, rfl, rfl, rfl, rfl⟩

theorem Proc.SameButFds.trans {p q r : Proc} (h1 : p.SameButFds q) (h2 : q.SameButFds r) : p.SameButFds r := by
  obtain ⟨a1, a2, a3, a4, a5, a6⟩ := h1
  obtain ⟨b1, b2, b3, b4, b5, b6⟩ := h2
  exact ⟨b1.trans a1, b2.trans a2, b3.trans a3, b4.trans a4, b5.trans a5, b6.trans a6⟩

theorem setFd_same (p q : Proc) (fd : Nat) (e : FdEntry) (h : p.setFd fd e = some q) : p.SameButFds q := by
  unfold Proc.setFd at h
  split at h
  · cases h; exact ⟨rfl, rfl, rfl, rfl, rfl, rfl⟩
  · cases h

theorem openFdGe_same (p q : Proc) (min fd : Nat) (e : FdEntry) (h : p.openFdGe min e = some (fd, q)) :
    p.SameButFds q := by
  unfold Proc.openFdGe at h
  simp only [Option.map_eq_some_iff] at h
  obtain ⟨q', hq, hp⟩ := h
  cases hp
  exact setFd_same p q _ e hq

/-- the descriptor calls change nothing but the descriptor table -/
theorem fdCall_same (c : Call) (p : Proc)
    (hc : (∃ f x, c = .open f x) ∨ (∃ s m x, c = .dup s m x) ∨ (∃ s d, c = .dup2 s d) ∨ (∃ n, c = .close n)
      ∨ (∃ n x, c = .setfd n x)) :
    p.SameButFds (c.runT p).2 := by
  rcases hc with ⟨f, x0, rfl⟩ | ⟨s, m, x, rfl⟩ | ⟨s, d, rfl⟩ | ⟨n, rfl⟩ | ⟨n, x, rfl⟩
  · simp only [Call.runT]
    split
    · split
      · rename_i fd q h; exact openFdGe_same p q 0 fd _ h
      · exact .refl p
    · exact .refl p
  · simp only [Call.runT]
    split
    · exact .refl p
    · split
      · rename_i fd q h; exact openFdGe_same p q _ fd _ h
      · exact .refl p
  · simp only [Call.runT]
    split
    · exact .refl p
    · split
      · exact .refl p
      · split
        · rename_i q h; exact setFd_same p q _ _ h
        · exact .refl p
  · exact ⟨rfl, rfl, rfl, rfl, rfl, rfl⟩
  · simp only [Call.runT]
    split
    · exact .refl p
    · exact ⟨rfl, rfl, rfl, rfl, rfl, rfl⟩

theorem openAndOverwrite_same (p : Proc) (t : Nat) (b : RedirBody) : p.SameButFds (openAndOverwrite p t b).2 := by
  cases b with
  | file l =>
    simp only [openAndOverwrite]
    have h1 := fdCall_same (.open l) p (.inl ⟨l, false, rfl⟩)
    split
    · rename_i k hk
      split
      · exact h1.trans ((fdCall_same (.dup2 k t) _ (.inr (.inr (.inl ⟨k, t, rfl⟩)))).trans
          (fdCall_same (.close k) _ (.inr (.inr (.inr (.inl ⟨k, rfl⟩))))))
      · exact h1
    · exact h1
  | copy s =>
    simp only [openAndOverwrite]
    split
    · exact .refl p
    · split
      · exact .refl p
      · split
        · exact fdCall_same (.dup2 s t) _ (.inr (.inr (.inl ⟨s, t, rfl⟩)))
        · exact .refl p
  | close => exact fdCall_same (.close t) _ (.inr (.inr (.inr (.inl ⟨t, rfl⟩))))

theorem performRedir_same (p : Proc) (t : Nat) (b : RedirBody) : p.SameButFds (performRedir p t b).2.2 := by
  unfold performRedir
  have hs := fdCall_same (.dup t minInternalFd true) p (.inr (.inl ⟨t, minInternalFd, true, rfl⟩))
  split
  · exact .refl p
  · simp only []
    split
    · split
      · exact hs.trans (openAndOverwrite_same _ t b)
      · exact hs
    · rename_i save hsave
      split
      · exact hs.trans (openAndOverwrite_same _ t b)
      · exact (hs.trans (openAndOverwrite_same _ t b)).trans
          (fdCall_same (.close save) _ (.inr (.inr (.inr (.inl ⟨save, rfl⟩)))))
    · exact hs

/-- ★ a redirection of `exec`, successful or not, changes nothing of the process but its descriptor table -/
theorem execRedir_same (p : Proc) (t : Nat) (b : RedirBody) : p.SameButFds (execRedir p t b).2 := by
  unfold execRedir
  have h := performRedir_same p t b
  simp only []
  split
  · rename_i save _
    exact h.trans (fdCall_same (.close save) _ (.inr (.inr (.inr (.inl ⟨save, rfl⟩)))))
  · exact h

theorem chdir_same (p : Proc) (path : String) :
    ((Call.chdir path).runT p).2.fds = p.fds ∧ ((Call.chdir path).runT p).2.umask = p.umask
    ∧ ((Call.chdir path).runT p).2.sys = p.sys ∧ ((Call.chdir path).runT p).2.nofile = p.nofile := by
  simp only [Call.runT]
  split <;> exact ⟨rfl, rfl, rfl, rfl⟩

/-! ### `Env::get_tty` -/

/-- every step of `get_tty` is a call of the shell's own process, and nothing but the descriptor table changes -/
theorem getTty_is_own_calls' (env : Env) :
    (∃ cs, (getTty env).system = runCalls env.system cs) ∧ env.system.SameButFds (getTty env).system := by
  unfold getTty
  have ho := fdCall_same (.open "tty" true) env.system (.inl ⟨"tty", true, rfl⟩)
  split
  · exact ⟨⟨[], rfl⟩, .refl _⟩
  · simp only []
    split
    · rename_i k _
      have hd := fdCall_same (.dup k minInternalFd true) ((Call.open "tty" true).runT env.system).2
        (.inr (.inl ⟨k, minInternalFd, true, rfl⟩))
      have hc := fdCall_same (.close k) ((Call.dup k minInternalFd true).runT ((Call.open "tty" true).runT env.system).2).2
        (.inr (.inr (.inr (.inl ⟨k, rfl⟩))))
      split
      · exact ⟨⟨[.open "tty" true], rfl⟩, ho⟩
      · split
        · exact ⟨⟨[.open "tty" true, .dup k minInternalFd true, .close k], rfl⟩, (ho.trans hd).trans hc⟩
        · exact ⟨⟨[.open "tty" true, .dup k minInternalFd true, .close k], rfl⟩, (ho.trans hd).trans hc⟩
    · exact ⟨⟨[.open "tty" true], rfl⟩, ho⟩

theorem redirOp_env (sh : Shell) (n : Nat) (b : RedirBody) :
    (redirOp sh n b).env = { sh.env with system := (execRedir sh.env.system n b).2 } := by
  unfold redirOp builtinError
  simp only []
  split <;> rfl

/-! ### the descriptor table -/

theorem fdGet_fdPut (l : List (Nat × FdEntry)) (k m : Nat) (e : FdEntry) :
    fdGet (fdPut l k e) m = if m = k then some e else fdGet l m := by
  induction l with
  | nil => simp [fdPut, fdGet]
  | cons hd tl ih =>
    obtain ⟨k', v'⟩ := hd
    unfold fdPut
    by_cases h1 : k = k'
    · subst h1
      by_cases hm : m = k <;> simp [fdGet, hm]
    · by_cases h2 : k < k'
      · by_cases hm : m = k <;> simp [fdGet, h1, h2, hm]
      · simp only [h1, h2, if_false]
        by_cases hm' : m = k'
        · subst hm'
          have : ¬ m = k := fun h => h1 h.symm
          simp [fdGet, this]
        · simp [fdGet, hm', ih]

theorem fdGet_fdDel (l : List (Nat × FdEntry)) (k m : Nat) :
    fdGet (fdDel l k) m = if m = k then none else fdGet l m := by
  induction l with
  | nil => simp [fdDel, fdGet]
  | cons hd tl ih =>
    obtain ⟨k', v'⟩ := hd
    simp only [fdDel, List.filter_cons, ne_eq, decide_not] at ih ⊢
    by_cases h1 : k' = k
    · subst h1
      by_cases hm : m = k'
      · subst hm; simpa using ih
      · simp [fdGet, hm, ih]
    · by_cases hm : m = k'
      · subst hm; simp [fdGet, h1]
      · simp [fdGet, hm, h1, ih]

/-- pigeonhole: among more candidates than entries, one is not open -/
theorem exists_free (l : List (Nat × FdEntry)) :
    ∀ cs : List Nat, cs.Nodup → l.length < cs.length → ∃ c ∈ cs, fdGet l c = none := by
  induction l with
  | nil =>
    intro cs _ hlen
    cases cs with
    | nil => simp at hlen
    | cons c _ => exact ⟨c, by simp, rfl⟩
  | cons hd tl ih =>
    obtain ⟨k, v⟩ := hd
    intro cs hnd hlen
    have hnd' : (cs.erase k).Nodup := hnd.erase k
    have hlen' : tl.length < (cs.erase k).length := by
      have := List.length_erase (a := k) (l := cs)
      simp only [List.length_cons] at hlen
      split at this <;> omega
    obtain ⟨c, hc, hfree⟩ := ih (cs.erase k) hnd' hlen'
    have hck : c ≠ k := fun h => by
      subst h
      exact (List.Nodup.not_mem_erase hnd) hc
    exact ⟨c, List.mem_of_mem_erase hc, by simp [fdGet, hck, hfree]⟩

/-- `min_unused_fd` returns a descriptor that is not open, at or above `min` -/
theorem minUnusedFd_free (l : List (Nat × FdEntry)) (min : Nat) :
    fdGet l (minUnusedFd l min) = none ∧ min ≤ minUnusedFd l min := by
  unfold minUnusedFd
  have hnd : ((List.range (l.length + 1)).map (· + min)).Nodup := by
    rw [List.Nodup, List.pairwise_map]
    exact List.Pairwise.imp (fun h => by omega) List.nodup_range
  obtain ⟨c, hc, hfree⟩ := exists_free l _ hnd (by simp)
  cases hf : ((List.range (l.length + 1)).map (· + min)).find? (fun n => (fdGet l n).isNone) with
  | none =>
    rw [List.find?_eq_none] at hf
    have := hf c hc
    simp [hfree] at this
  | some x =>
    have h1 := List.find?_some hf
    have h2 := List.mem_of_find?_eq_some hf
    simp only [List.mem_map, List.mem_range] at h2
    obtain ⟨i, _, rfl⟩ := h2
    simp only [Option.getD_some]
    exact ⟨by simpa using h1, by omega⟩


/-- `min_unused_fd` returns the LOWEST unused descriptor at or above `min`: every descriptor in between is open -/
theorem minUnusedFd_least (l : List (Nat × FdEntry)) (min m : Nat) (h1 : min ≤ m) (h2 : m < minUnusedFd l min) :
    (fdGet l m).isSome = true := by
  have hfree := minUnusedFd_free l min
  unfold minUnusedFd at h2 hfree
  rw [List.find?_map] at h2 hfree
  cases hf : (List.range (l.length + 1)).find? ((fun n => (fdGet l n).isNone) ∘ (· + min)) with
  | none =>
    -- impossible: the pigeonhole lemma found a free candidate
    rw [hf] at hfree h2
    simp only [Option.map_none, Option.getD_none] at hfree h2
    rw [List.find?_eq_none] at hf
    by_cases hm : m - min < l.length + 1
    · have := hf (m - min) (List.mem_range.mpr hm)
      have e : m - min + min = m := by omega
      simp only [Function.comp, e] at this
      cases hg : fdGet l m <;> simp_all
    · omega
  | some i =>
    rw [hf] at h2
    simp only [Option.map_some, Option.getD_some] at h2
    rw [List.find?_range_eq_some] at hf
    have := hf.2.2 (m - min) (by omega)
    have e : m - min + min = m := by omega
    simp only [Function.comp, e] at this
    cases hg : fdGet l m <;> simp_all

/-! ### the answers of the descriptor calls, case by case -/

theorem open_ok' (q : Proc) (l : String) (x : Bool) (ha : fdAllowed q (minUnusedFd q.fds 0) = true) :
    (Call.open l x).runT q
      = (.fd (minUnusedFd q.fds 0),
         { q with fds := fdPut q.fds (minUnusedFd q.fds 0) { label := l, cloexec := x } }) := by
  simp [Call.runT, Proc.openFdGe, Proc.setFd, ha]

theorem open_ok (q : Proc) (l : String) (ha : fdAllowed q (minUnusedFd q.fds 0) = true) :
    (Call.open l).runT q
      = (.fd (minUnusedFd q.fds 0), { q with fds := fdPut q.fds (minUnusedFd q.fds 0) { label := l } }) := by
  simp [Call.runT, Proc.openFdGe, Proc.setFd, ha]

theorem open_limit (q : Proc) (l : String) (ha : ¬ fdAllowed q (minUnusedFd q.fds 0) = true) :
    (Call.open l).runT q = (.err "EMFILE", q) := by
  simp [Call.runT, ha]

theorem dup2_ok (q : Proc) (s d : Nat) (e : FdEntry) (hs : fdGet q.fds s = some e) (hne : s ≠ d)
    (ha : fdAllowed q d = true) :
    (Call.dup2 s d).runT q = (.fd d, { q with fds := fdPut q.fds d { e with cloexec := false } }) := by
  simp [Call.runT, Proc.setFd, hs, hne, ha]

theorem dup2_limit (q : Proc) (s d : Nat) (e : FdEntry) (hs : fdGet q.fds s = some e) (hne : s ≠ d)
    (ha : ¬ fdAllowed q d = true) :
    (Call.dup2 s d).runT q = (.err "EBADF", q) := by
  simp [Call.runT, Proc.setFd, hs, hne, ha]

theorem close_eq (q : Proc) (n : Nat) : (Call.close n).runT q = (.ok, { q with fds := fdDel q.fds n }) := rfl

theorem dup_closed (q : Proc) (s min : Nat) (x : Bool) (hs : fdGet q.fds s = none) :
    (Call.dup s min x).runT q = (.err "EBADF", q) := by
  simp [Call.runT, hs]

theorem dup_ok (q : Proc) (s min : Nat) (x : Bool) (e : FdEntry) (hs : fdGet q.fds s = some e)
    (ha : fdAllowed q (minUnusedFd q.fds min) = true) :
    (Call.dup s min x).runT q
      = (.fd (minUnusedFd q.fds min),
         { q with fds := fdPut q.fds (minUnusedFd q.fds min) { e with cloexec := x } }) := by
  simp [Call.runT, Proc.openFdGe, Proc.setFd, hs, ha]

theorem dup_limit (q : Proc) (s min : Nat) (x : Bool) (e : FdEntry) (hs : fdGet q.fds s = some e)
    (ha : ¬ fdAllowed q (minUnusedFd q.fds min) = true) :
    (Call.dup s min x).runT q = (.err "EMFILE", q) := by
  simp [Call.runT, Proc.openFdGe, Proc.setFd, hs, ha]

/-! ### what the redirection engine does to the descriptor table -/

theorem fdAllowed_same {p q : Proc} (h : p.SameButFds q) (n : Nat) : fdAllowed q n = fdAllowed p n := by
  unfold fdAllowed nofileLimit
  rw [h.2.2.2.2.2]

/-- the contract of `open_and_overwrite` on the process `q`: on success the target holds `v` and every other
    descriptor is as before; on failure the table is as before -/
def OAOSpec (q : Proc) (n : Nat) (b : RedirBody) (v : Option FdEntry) : Prop :=
  ((openAndOverwrite q n b).1 = true →
      ∀ m, fdGet (openAndOverwrite q n b).2.fds m = if m = n then v else fdGet q.fds m)
  ∧ ((openAndOverwrite q n b).1 = false → ∀ m, fdGet (openAndOverwrite q n b).2.fds m = fdGet q.fds m)

theorem oao_file (q : Proc) (n : Nat) (l : String) : OAOSpec q n (.file l) (some { label := l }) := by
  have hk := (minUnusedFd_free q.fds 0).1
  unfold OAOSpec
  simp only [openAndOverwrite]
  by_cases ha : fdAllowed q (minUnusedFd q.fds 0) = true
  · rw [open_ok q l ha]
    simp only []
    by_cases hkn : minUnusedFd q.fds 0 = n
    · simp only [hkn, ne_eq, not_true_eq_false, if_false]
      refine ⟨fun _ m => ?_, fun h => by simp at h⟩
      rw [← hkn, fdGet_fdPut]
    · simp only [ne_eq, hkn, not_false_eq_true, if_true]
      have hsrc : fdGet ({ q with fds := fdPut q.fds (minUnusedFd q.fds 0) { label := l } } : Proc).fds
          (minUnusedFd q.fds 0) = some { label := l } := by simp [fdGet_fdPut]
      by_cases hn : fdAllowed q n = true
      · rw [dup2_ok _ _ _ _ hsrc hkn hn, close_eq]
        refine ⟨fun _ m => ?_, fun h => by simp [CallRes.isErr] at h⟩
        simp only [fdGet_fdDel, fdGet_fdPut]
        by_cases h1 : m = minUnusedFd q.fds 0
        · subst h1; simp [hkn, hk]
        · simp [h1]
      · rw [dup2_limit _ _ _ _ hsrc hkn hn, close_eq]
        refine ⟨fun h => by simp [CallRes.isErr] at h, fun _ m => ?_⟩
        simp only [fdGet_fdDel, fdGet_fdPut]
        by_cases h1 : m = minUnusedFd q.fds 0
        · subst h1; simp [hk]
        · simp [h1]
  · rw [open_limit q l ha]
    exact ⟨fun h => by simp at h, fun _ _ => rfl⟩

theorem oao_close (q : Proc) (n : Nat) : OAOSpec q n .close none := by
  unfold OAOSpec
  simp only [openAndOverwrite, close_eq]
  exact ⟨fun _ m => fdGet_fdDel _ _ _, fun h => by simp at h⟩

theorem oao_copy (q : Proc) (n s : Nat) :
    OAOSpec q n (.copy s) ((fdGet q.fds s).map fun e => { e with cloexec := false }) := by
  unfold OAOSpec
  simp only [openAndOverwrite]
  cases hs : fdGet q.fds s with
  | none => exact ⟨fun h => by simp at h, fun _ _ => rfl⟩
  | some e =>
    simp only []
    by_cases hbad : (e.label = "oin" || e.cloexec) = true
    · simp only [hbad, if_true]
      exact ⟨fun h => by simp at h, fun _ _ => trivial⟩
    · simp only [hbad]
      by_cases hsn : s = n
      · subst hsn
        simp only [ne_eq, not_true_eq_false, if_false, Option.map_some]
        refine ⟨fun _ m => ?_, fun h => by simp at h⟩
        by_cases hm : m = s
        · subst hm
          have hc : e.cloexec = false := by
            cases hcl : e.cloexec with
            | false => rfl
            | true => simp [hcl] at hbad
          obtain ⟨lab, cl⟩ := e
          simp only at hc
          subst hc
          simp [hs]
        · simp [hm]
      · simp only [ne_eq, hsn, not_false_eq_true, if_true, Option.map_some]
        by_cases hn : fdAllowed q n = true
        · rw [dup2_ok _ _ _ _ hs hsn hn]
          exact ⟨fun _ m => fdGet_fdPut _ _ _ _, fun h => by simp [CallRes.isErr] at h⟩
        · rw [dup2_limit _ _ _ _ hs hsn hn]
          exact ⟨fun h => by simp [CallRes.isErr] at h, fun _ _ => rfl⟩


/-- the process after `perform` saved the open target `n` (entry `e`) at the lowest free descriptor ≥ 10 -/
def savedProc (p : Proc) (e : FdEntry) : Proc :=
  { p with fds := fdPut p.fds (minUnusedFd p.fds minInternalFd) { e with cloexec := true } }

/-- the contract of one redirection of `exec` (`perform` + `preserve_redirs`), given the contract of
    `open_and_overwrite` on the process before and after the target was saved -/
theorem execRedir_table (p : Proc) (n : Nat) (b : RedirBody) (v : Option FdEntry)
    (hp : OAOSpec p n b v)
    (hq : ∀ e, fdGet p.fds n = some e → OAOSpec (savedProc p e) n b v) :
    ((execRedir p n b).1 = true → ∀ m, fdGet (execRedir p n b).2.fds m = if m = n then v else fdGet p.fds m)
    ∧ ((execRedir p n b).1 = false → ∀ m, fdGet (execRedir p n b).2.fds m = fdGet p.fds m) := by
  have hsv := (minUnusedFd_free p.fds minInternalFd).1
  unfold execRedir performRedir
  by_cases hcl : isCloexec p n = true
  · simp only [hcl, if_true]
    exact ⟨fun h => by simp at h, fun _ _ => trivial⟩
  · simp only [hcl, Bool.false_eq_true, if_false]
    cases hn : fdGet p.fds n with
    | none =>
      rw [dup_closed p n _ _ hn]
      simp only [if_true]
      exact hp
    | some e =>
      by_cases ha : fdAllowed p (minUnusedFd p.fds minInternalFd) = true
      · have hd : (Call.dup n minInternalFd true).runT p
            = (.fd (minUnusedFd p.fds minInternalFd), savedProc p e) := dup_ok p n _ _ e hn ha
        rw [hd]
        simp only []
        obtain ⟨h1, h2⟩ := hq e hn
        have hne : minUnusedFd p.fds minInternalFd ≠ n := by
          intro hc; rw [hc] at hsv; rw [hsv] at hn; cases hn
        have hqf : (savedProc p e).fds = fdPut p.fds (minUnusedFd p.fds minInternalFd) { e with cloexec := true } := rfl
        by_cases hr : (openAndOverwrite (savedProc p e) n b).1 = true
        · simp only [hr, if_true, close_eq]
          refine ⟨fun _ m => ?_, fun h => by simp at h⟩
          rw [fdGet_fdDel, h1 hr m, hqf, fdGet_fdPut]
          by_cases hm : m = minUnusedFd p.fds minInternalFd
          · subst hm; simp [hne, hsv]
          · simp [hm]
        · have hr' : (openAndOverwrite (savedProc p e) n b).1 = false := by simpa using hr
          simp only [hr', close_eq, Bool.false_eq_true, if_false]
          refine ⟨fun h => by simp at h, fun _ m => ?_⟩
          rw [fdGet_fdDel, h2 hr' m, hqf, fdGet_fdPut]
          by_cases hm : m = minUnusedFd p.fds minInternalFd
          · subst hm; simp [hsv]
          · simp [hm]
      · rw [dup_limit p n _ _ e hn ha]
        simp only []
        exact ⟨fun h => by simp at h, fun _ _ => by simp⟩


theorem oao_copy_cloexec (q : Proc) (n s : Nat) (e : FdEntry) (v : Option FdEntry) (hs : fdGet q.fds s = some e)
    (hc : e.cloexec = true) : OAOSpec q n (.copy s) v := by
  unfold OAOSpec
  simp only [openAndOverwrite, hs, hc, Bool.or_true, if_true]
  exact ⟨fun h => by simp at h, fun _ _ => trivial⟩

/-- the entry a successful redirection leaves at its target (`specRedirEntry` of Spec.lean, restated here so that
    this file does not import the Spec) -/
def redirEntry (p : Proc) : RedirBody → Option FdEntry
  | .file l => some { label := l }
  | .copy s => (fdGet p.fds s).map fun e => { e with cloexec := false }
  | .close => none

theorem execRedir_table_all (p : Proc) (n : Nat) (b : RedirBody) :
    ((execRedir p n b).1 = true →
        ∀ m, fdGet (execRedir p n b).2.fds m = if m = n then redirEntry p b else fdGet p.fds m)
    ∧ ((execRedir p n b).1 = false → ∀ m, fdGet (execRedir p n b).2.fds m = fdGet p.fds m) := by
  cases b with
  | file l => exact execRedir_table p n _ _ (oao_file p n l) (fun e _ => oao_file _ n l)
  | close => exact execRedir_table p n _ _ (oao_close p n) (fun e _ => oao_close _ n)
  | copy s =>
    refine execRedir_table p n _ _ (oao_copy p n s) (fun e he => ?_)
    have hsv := (minUnusedFd_free p.fds minInternalFd).1
    by_cases hss : s = minUnusedFd p.fds minInternalFd
    · refine oao_copy_cloexec _ n s { e with cloexec := true } _ ?_ rfl
      simp [savedProc, fdGet_fdPut, hss]
    · have := oao_copy (savedProc p e) n s
      have hg : fdGet (savedProc p e).fds s = fdGet p.fds s := by simp [savedProc, fdGet_fdPut, hss]
      rw [hg] at this
      exact this

/-! ### the limit -/

theorem oao_limit (q : Proc) (n : Nat) (b : RedirBody) (hb : b ≠ .close) (hself : b ≠ .copy n)
    (hl : ¬ fdAllowed q n = true) : (openAndOverwrite q n b).1 = false := by
  cases b with
  | close => exact absurd rfl hb
  | file l =>
    simp only [openAndOverwrite]
    by_cases ha : fdAllowed q (minUnusedFd q.fds 0) = true
    · rw [open_ok q l ha]
      simp only []
      have hkn : minUnusedFd q.fds 0 ≠ n := fun h => hl (h ▸ ha)
      have hsrc : fdGet ({ q with fds := fdPut q.fds (minUnusedFd q.fds 0) { label := l } } : Proc).fds
          (minUnusedFd q.fds 0) = some { label := l } := by simp [fdGet_fdPut]
      simp only [ne_eq, hkn, not_false_eq_true, if_true]
      rw [dup2_limit _ _ _ _ hsrc hkn hl]
      rfl
    · rw [open_limit q l ha]
  | copy s =>
    have hsn : s ≠ n := fun h => hself (h ▸ rfl)
    simp only [openAndOverwrite]
    cases hs : fdGet q.fds s with
    | none => rfl
    | some e =>
      simp only []
      by_cases hbad : (e.label = "oin" || e.cloexec) = true
      · simp only [hbad, if_true]
      · simp only [hbad, ne_eq, hsn, not_false_eq_true, if_true]
        rw [dup2_limit _ _ _ _ hs hsn hl]
        rfl

theorem execRedir_limit (p : Proc) (n : Nat) (b : RedirBody) (hb : b ≠ .close) (hself : b ≠ .copy n)
    (hl : ¬ fdAllowed p n = true) : (execRedir p n b).1 = false := by
  unfold execRedir performRedir
  by_cases hcl : isCloexec p n = true
  · simp only [hcl, if_true]
  · simp only [hcl, Bool.false_eq_true, if_false]
    cases hn : fdGet p.fds n with
    | none =>
      rw [dup_closed p n _ _ hn]
      simp only [if_true]
      exact oao_limit p n b hb hself hl
    | some e =>
      by_cases ha : fdAllowed p (minUnusedFd p.fds minInternalFd) = true
      · have hd : (Call.dup n minInternalFd true).runT p
            = (.fd (minUnusedFd p.fds minInternalFd), savedProc p e) := dup_ok p n _ _ e hn ha
        rw [hd]
        have := oao_limit (savedProc p e) n b hb hself hl
        simp only [this, Bool.false_eq_true, if_false]
      · rw [dup_limit p n _ _ e hn ha]
        simp

/-! ### every step of the engine is a call of the process itself -/

theorem runCalls_app (p : Proc) (a b : List Call) : runCalls p (a ++ b) = runCalls (runCalls p a) b := by
  simp [runCalls, List.foldl_append]

theorem oao_calls (q : Proc) (n : Nat) (b : RedirBody) : ∃ cs, (openAndOverwrite q n b).2 = runCalls q cs := by
  cases b with
  | close => exact ⟨[.close n], rfl⟩
  | file l =>
    simp only [openAndOverwrite]
    split
    · rename_i k _
      split
      · exact ⟨[.open l, .dup2 k n, .close k], rfl⟩
      · exact ⟨[.open l], rfl⟩
    · exact ⟨[.open l], rfl⟩
  | copy s =>
    simp only [openAndOverwrite]
    split
    · exact ⟨[], rfl⟩
    · split
      · exact ⟨[], rfl⟩
      · split
        · exact ⟨[.dup2 s n], rfl⟩
        · exact ⟨[], rfl⟩

theorem performRedir_calls (p : Proc) (n : Nat) (b : RedirBody) :
    ∃ cs, (performRedir p n b).2.2 = runCalls p cs := by
  unfold performRedir
  split
  · exact ⟨[], rfl⟩
  · simp only []
    obtain ⟨cs, h⟩ := oao_calls ((Call.dup n minInternalFd true).runT p).2 n b
    split
    · split
      · exact ⟨[.dup n minInternalFd true] ++ cs, by rw [runCalls_app]; exact h⟩
      · exact ⟨[.dup n minInternalFd true], rfl⟩
    · rename_i save _
      split
      · exact ⟨[.dup n minInternalFd true] ++ cs, by rw [runCalls_app]; exact h⟩
      · exact ⟨[.dup n minInternalFd true] ++ cs ++ [.close save], by
          rw [runCalls_app, runCalls_app]; simp only []; rw [h]; rfl⟩
    · exact ⟨[.dup n minInternalFd true], rfl⟩

/-- every step of a redirection of `exec` is a system call of the process itself: the process afterwards is the
    process before with a list of its own calls applied -/
theorem execRedir_calls (p : Proc) (n : Nat) (b : RedirBody) : ∃ cs, (execRedir p n b).2 = runCalls p cs := by
  obtain ⟨cs, h⟩ := performRedir_calls p n b
  unfold execRedir
  simp only []
  split
  · rename_i save _
    exact ⟨cs ++ [.close save], by rw [runCalls_app, ← h]; rfl⟩
  · exact ⟨cs, h⟩


/-- the mutators whose whole effect on the process is system calls of the process itself -/
def Op.processLevel : Op → Bool
  | .umask _ | .cd _ | .nofile _ | .fdw _ _ | .fdr _ | .fdd _ _ | .fdc _ => true
  | _ => false


end YashModel.Fork
