/-
  Driver for C08.  stdin: one case per line, stdout: `<model observation>\t=<observation the Spec predicts>`.

  Case (`;`-separated items, see harness/src/bin/c08.rs):
    F:1                         render inside a function (no effect on the prediction)
    P:<op>  C:<op>  W:<op>      mutators of the parent before / of the child / of the parent during `&`
    K:<kind>                    paren | subst | pipeF | pipeM | pipeL | async   (one or two, outer first)
  or a schedule of raw system calls of several processes on one shared `SystemState` (see `parseXOp` below):
    X:<pid> fork | umask M | chdir D | open F | dup N MIN [x] | dup2 N M | close N | cloexec N 0|1 |
            sigaction SIG D|I|C | block SIG | unblock SIG | rlimit V      (model: Fork/Shared.lean, Spec: `specProc`)
  Ops: set N V | unset N | export N V | readonly N V | fn F B | unfn F | alias A V | unalias A | opt+ O |
       opt- O | shift | args X… | cd D | umask M | trap S d|i|cN | fdw N F | fdr N | fdd N M | fdc N |
       local N V | raise S
-/
import YashModel.Common.Proto
import YashModel.Fork.Model
import YashModel.Fork.Spec
open YashModel YashModel.Fork YashModel.Proto

def VARS := ["va", "vb", "vc"]
def VALS := ["1", "two", "x3", "w4"]
def FUNS := ["F1", "F2"]
def BODIES := ["b1", "b2"]
def ALIASES := ["A1", "A2"]
def OPTS := ["allexport", "clobber", "errexit", "glob", "hashondefinition", "ignoreeof", "log", "login", "monitor",
  "notify", "pipefail", "portable", "posixlycorrect", "unset", "verbose", "vi", "xtrace"]
def DIRS := ["/d1", "/d2", "/d1/s"]
def MASKS := ["022", "027", "077"]
def FILES := ["f1", "f2"]
/-- 10 = `MIN_INTERNAL_FD`; never the target of `fdd` (see the harness) -/
def FDS := ["3", "4", "5", "20", "10"]
def LIMITS := ["16", "18", "unlimited", "4"]

/-- conditions the `trap` / `raise` ops range over (TSTP/TTIN/TTOU are only watched) -/
def opConds : List String := ["EXIT", "INT", "QUIT", "TERM", "URG", "USR1"]
def parseCond (s : String) : Option Nat :=
  if opConds.contains s then (trackedConds.find? (·.1 == s)).map (·.2) else none

def parseTrapAct (s : String) : Option TrapAct :=
  match s.toList with
  | ['d'] => some .dflt
  | ['i'] => some .ign
  | ['c', d] => if '1' ≤ d ∧ d ≤ '6' then some (.cmd (d.toNat - 48)) else none
  | _ => none

def guardIn (x : String) (xs : List String) : Option Unit := if xs.contains x then some () else none

def parseOp (t : String) : Option Op :=
  match words t with
  | ["set", n, v] => do guardIn n VARS; guardIn v VALS; pure (.set n v)
  | ["unset", n] => do guardIn n VARS; pure (.unset n)
  | ["export", n, v] => do guardIn n VARS; guardIn v VALS; pure (.export n v)
  | ["readonly", n, v] => do guardIn n VARS; guardIn v VALS; pure (.readonly n v)
  | ["fn", f, b] => do guardIn f FUNS; guardIn b BODIES; pure (.fn f b)
  | ["unfn", f] => do guardIn f FUNS; pure (.unfn f)
  | ["alias", a, v] => do guardIn a ALIASES; guardIn v VALS; pure (.alias a v)
  | ["unalias", a] => do guardIn a ALIASES; pure (.unalias a)
  | ["opt+", o] => do guardIn o OPTS; pure (.optOn o)
  | ["opt-", o] => do guardIn o OPTS; pure (.optOff o)
  | ["shift"] => some .shift
  | "args" :: xs => if xs.length ≤ 3 ∧ xs.all (VALS.contains ·) then some (.args xs) else none
  | ["cd", d] => do guardIn d DIRS; pure (.cd d)
  | ["umask", m] => do guardIn m MASKS; pure (.umask m)
  | ["trap", s, a] => do pure (.trap (← parseCond s) (← parseTrapAct a))
  | ["fdw", n, f] => do guardIn n FDS; guardIn f FILES; pure (.fdw (← n.toNat?) f)
  | ["fdr", n] => do guardIn n FDS; pure (.fdr (← n.toNat?))
  | ["fdd", n, m] => do
    guardIn n FDS; guardIn m (FDS ++ ["1", "2"])
    if n == "10" then none else pure (.fdd (← n.toNat?) (← m.toNat?))
  | ["fdc", n] => do guardIn n FDS; pure (.fdc (← n.toNat?))
  | ["local", n, v] => do guardIn n VARS; guardIn v VALS; pure (.local n v)
  | ["raise", "KILL"] => some (.raise Fork.SIGKILL)
  | ["raise", s] => do
    let c ← parseCond s
    if c = 0 then none else pure (.raise c)
  | ["bg"] => some .bg
  | ["yield"] => some .yield
  | ["pl"] => some .pl
  | ["cs"] => some .cs
  | ["hd"] => some .hd
  | ["plc"] => some .plc
  | ["nofile", v] => do guardIn v LIMITS; pure (.nofile (if v == "unlimited" then none else v.toNat?))
  | ["exit", n] => do guardIn n ["0", "3", "7"]; pure (.exit (← n.toNat?))
  | _ => none

def parseKind : String → Option Kind
  | "paren" => some .paren
  | "subst" => some .subst
  | "pipeF" => some .pipeF
  | "pipeM" => some .pipeM
  | "pipeL" => some .pipeL
  | "async" => some .async
  | _ => none

def isSilent : Op → Bool
  | .raise _ => false
  | .local _ _ => false
  | .exit _ => false
  | _ => true

def isExit : Op → Bool
  | .exit _ => true
  | _ => false

def setMid (mid : List (List Op)) (i : Nat) (op : Op) : List (List Op) :=
  let m := mid ++ List.replicate (2 - mid.length) []
  m.mapIdx fun k ops => if k = i then ops ++ [op] else ops

def parseItems : List String → Case → Option Case
  | [], c => some c
  | item :: rest, c =>
    match item.splitOn ":" with
    | [tag, body] =>
      let body := body.trimAscii.toString
      match tag with
      | "F" => if body == "1" then parseItems rest c else none
      | "T" => if body == "1" then parseItems rest { c with tty := true } else none
      | "I" => if body == "1" then parseItems rest { c with internal := true } else none
      | "Q" => if body == "1" then parseItems rest { c with quiet := true } else none
      | "G" => do
        let s ← match words body with
          | [w] => parseCond w
          | _ => none
        if s = 0 then none else parseItems rest { c with ignored := some s }
      | "K" => do
        let k ← match words body with
          | [w] => parseKind w
          | _ => none
        parseItems rest { c with kinds := c.kinds ++ [k] }
      | "P" => do
        let op ← parseOp body
        if isExit op ∨ op = .yield ∨ op = .pl ∨ op = .cs ∨ op = .hd ∨ op = .plc then none else parseItems rest { c with pro := c.pro ++ [op] }
      | "M" => do
        let op ← parseOp body
        if isSilent op ∧ op ≠ .yield ∧ op ≠ .pl ∧ op ≠ .cs ∧ op ≠ .hd ∧ op ≠ .plc then parseItems rest { c with mid := setMid c.mid 0 op } else none
      | "N" => do
        let op ← parseOp body
        if isSilent op ∧ op ≠ .yield ∧ op ≠ .pl ∧ op ≠ .cs ∧ op ≠ .hd ∧ op ≠ .plc then parseItems rest { c with mid := setMid c.mid 1 op } else none
      | "C" => do parseItems rest { c with child := c.child ++ [← parseOp body] }
      | "A" => do
        -- mutators of the FIRST member of the innermost pipeline (kind `pipeL`): another process, living at the same
        -- time as the child; nothing it does is visible anywhere (its output goes to `:`), so the model only records
        -- that there is one
        let op ← parseOp body
        let ok := match op with
          | .set _ _ | .export _ _ | .fn _ _ | .alias _ _ | .umask _ | .cd _ | .yield => true
          | .trap c _ => c ≠ 0
          | .fdw n _ => n ≠ 20 ∧ n ≠ 10
          | _ => false
        if ok then parseItems rest { c with first := c.first ++ [op] } else none
      | "W" => do
        let op ← parseOp body
        if isSilent op ∧ op ≠ .bg ∧ op ≠ .pl ∧ op ≠ .cs ∧ op ≠ .hd ∧ op ≠ .plc then parseItems rest { c with during := c.during ++ [op] } else none
      | _ => none
    | _ => none

def parseCase (line : String) : Option Case := do
  let c ← parseItems ((splitTrim line ";").filter (· ≠ "")) { pro := [], kinds := [], child := [], during := [] }
  if c.kinds.isEmpty ∨ c.kinds.length > 3 then none
  else if ¬ c.during.isEmpty ∧ c.kinds.head? ≠ some .async then none
  else if ¬ c.first.isEmpty ∧ c.kinds.getLast? ≠ some .pipeL then none
  else if ¬ (c.mid.headD []).isEmpty ∧ c.kinds.length < 2 then none
  else if ¬ ((c.mid.drop 1).headD []).isEmpty ∧ c.kinds.length < 3 then none
  else some c

/-! ### `X:` cases — a schedule of raw system calls of several processes on one `SystemState`

    X:<pid> fork | umask M | chdir D | open F | dup N MIN [x] | dup2 N M | close N | cloexec N 0|1 |
            sigaction SIG D|I|C | block SIG | unblock SIG | rlimit 4|16|18|unlimited -/

def XDIRS := DIRS ++ ["s", ".", "/dx", "..", "/d1/s/..", "../d2", "/.."]
def XFDS := ["0", "1", "2", "3", "4", "5", "10", "17", "20"]
def XLIMITS := ["4", "16", "18", "unlimited"]

def parseDisp : String → Option Trap.Disp
  | "D" => some .default
  | "I" => some .ignore
  | "C" => some .catch
  | _ => none

def parseSig (s : String) : Option Nat := do
  let c ← parseCond s
  if c = 0 then none else pure c

def parseXOp (ws : List String) : Option XOp :=
  match ws with
  | ["fork"] => some .fork
  | ["umask", m] => do guardIn m MASKS; pure (.call (.umask m))
  | ["chdir", d] => do guardIn d XDIRS; pure (.call (.chdir d))
  | ["open", f] => do guardIn f FILES; pure (.call (.open f))
  | ["dup", n, m] => do guardIn n XFDS; guardIn m XFDS; pure (.call (.dup (← n.toNat?) (← m.toNat?) false))
  | ["dup", n, m, "x"] => do guardIn n XFDS; guardIn m XFDS; pure (.call (.dup (← n.toNat?) (← m.toNat?) true))
  | ["dup2", n, m] => do guardIn n XFDS; guardIn m XFDS; pure (.call (.dup2 (← n.toNat?) (← m.toNat?)))
  | ["close", n] => do guardIn n XFDS; pure (.call (.close (← n.toNat?)))
  | ["cloexec", n, b] => do guardIn n XFDS; guardIn b ["0", "1"]; pure (.call (.setfd (← n.toNat?) (b == "1")))
  | ["sigaction", s, d] => do pure (.call (.sigaction (← parseSig s) (← parseDisp d)))
  | ["block", s] => do pure (.call (.sigmask true (← parseSig s)))
  | ["unblock", s] => do pure (.call (.sigmask false (← parseSig s)))
  | ["rlimit", v] => do guardIn v XLIMITS; pure (.call (.setrlimit (if v == "unlimited" then none else v.toNat?)))
  | _ => none

def parseXItem (item : String) : Option (Nat × XOp) :=
  match item.splitOn ":" with
  | ["X", body] =>
    match words body with
    | pid :: ws => do
      let n ← pid.toNat?
      if n < 2 ∨ n > 40 then none else pure (n, ← parseXOp ws)
    | [] => none
  | _ => none

def parseXCase (line : String) : Option (List (Nat × XOp)) :=
  let items := (splitTrim line ";").filter (· ≠ "")
  if items.isEmpty ∨ items.length > 40 then none else items.mapM parseXItem

def runLine (line : String) : String :=
  if line.startsWith "X:" then
    match parseXCase line with
    | none => "bad-case\t-"
    | some sched => xObservation implCopied sched ++ "\t=" ++ specXObservation sched
  else
  match parseCase line with
  | none => "bad-case\t-"
  | some c => observation (runCase implCopied c) ++ "\t=" ++ specObservation c

def main : IO Unit := mainLoop runLine
