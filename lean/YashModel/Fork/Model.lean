/-
  Impl model for C08 (subshell isolation).

  * `Env` — `yash-env/src/lib.rs` `struct Env<S>`: the 14 state fields plus `system`. The fields the property
    names are modelled in detail (variables incl. positional parameters, functions, aliases, options, traps,
    exit status, jobs, stack); `arg0`, `builtins`, `main_pgid`, `main_pid`, `tty`, `any` are carried as plain data.
    `system` is the per-process state of the simulated OS (`system/virtual/process.rs` `struct Process`):
    fd table, cwd, umask, signal dispositions / blocked mask (the `Sys` of the Trap model).
  * `ForkEnvState`, `extractFromEnv`, `restoreIntoEnv`, `intoEnvWithSystem`, `ForkEnvState.clone` —
    `yash-env/src/fork.rs`, field by field (the generated `Generated/ForkMaps.lean` re-extracts the same maps
    from the Rust source on every run; `Fork/Fields.lean` proves the properties of the maps).
  * `Proc.forkFrom` — `Process::fork_from`: which fields the child process receives is read from the
    *generated* `processForkMap`, so the model follows the code.
  * `runInChild` — `Env::run_in_child_process` over `VirtualSystem::run_in_child_process`.
  * `subshellEntry` — the child prologue of `subshell::Config::start` (push `Frame::Subshell`, `disown_all`,
    `TrapSet::enter_subshell`), using the Trap model of C11.
  * `Call` / `Call.runT` / `Call.run` — ten system calls of `impl … for VirtualSystem` (system/virtual.rs) with the
    `Process` methods they use and their error branches, as functions of the caller's own `Process`; the `X:`
    cases drive them on the real shared `SystemState` (Fork/Shared.lean has the table).
  * `openAndOverwrite` / `performRedir` / `execRedir` — the redirection engine of `yash-semantics/src/redir.rs`
    (`open_and_overwrite`, `perform`, `RedirGuard::preserve_redirs`) composed from those calls.
  * the mutators of the sweep (`applyOp`; `umask`, `cd`, `ulimit -n` and the `exec` redirections are built from the
    calls above, a failing special built-in ends the shell through `builtinError`), the kinds of subshell of
    `yash-semantics`, and the snapshot the harness takes with real built-ins.

  Import-free apart from `YashModel.*`; executable.  A `&mut` is a returned value; the shared
  `Rc<RefCell<SystemState>>` is modelled *by value* (no aliasing) — that is exactly the part of the property
  the theorems cannot speak about and only the correspondence sweep exhibits.
-/
import YashModel.Trap.Model
import YashModel.Generated.ForkMaps
import YashModel.Common.Proto

namespace YashModel.Fork
open YashModel.Trap (Disp Action TrapState GrandState TrapMap Sys SIGINT SIGQUIT SIGTERM SIGUSR1)

/-! ## Small finite maps (sorted association lists, like `BTreeMap`/sorted listing of a `HashMap`) -/

abbrev Assoc (α : Type) := List (String × α)

def Assoc.find {α : Type} : Assoc α → String → Option α
  | [], _ => none
  | (k', v) :: t, k => if k = k' then some v else Assoc.find t k

def Assoc.put {α : Type} : Assoc α → String → α → Assoc α
  | [], k, v => [(k, v)]
  | (k', v') :: t, k, v =>
    if k = k' then (k, v) :: t
    else if k < k' then (k, v) :: (k', v') :: t
    else (k', v') :: Assoc.put t k v

def Assoc.del {α : Type} (m : Assoc α) (k : String) : Assoc α := m.filter (fun kv => kv.1 ≠ k)

/-! ## State -/

/-- `variable::Variable` (value, `is_exported`, `read_only_location.is_some()`) -/
structure Var where
  value : String
  exported : Bool := false
  readonly : Bool := false
  deriving DecidableEq, Repr

/-- an entry of `Process::fds`: which open file it designates and the CLOEXEC flag -/
structure FdEntry where
  label : String
  cloexec : Bool := false
  deriving DecidableEq, Repr

def SIGURG : Nat := 123

/-- `system::virtual::Process` — the fields the property names -/
structure Proc where
  fds : List (Nat × FdEntry)
  cwd : String
  umask : String
  /-- `dispositions`, `blocked_signals` (and the select mask of `Concurrent`) -/
  sys : Sys
  ppid : Nat := 1
  /-- `/dev/tty` exists in the file system (not per-process state; carried here for convenience) -/
  ttyAvail : Bool := false
  /-- `resource_limits[NOFILE].soft` (`none` = not set / `INFINITY`; `ulimit -S -n` then prints `unlimited`) -/
  nofile : Option Nat := none

/-- `JobList` as far as a subshell can see it: the listed jobs (job number, identity, `is_owned`), the job
    `$!` designates (`last_async_pid`), and a counter for fresh identities. All jobs of the sweep are running. -/
structure Jobs where
  list : List (Nat × Nat × Bool) := []
  last : Option Nat := none
  next : Nat := 0
  deriving DecidableEq, Repr

/-- the lowest free job number (slab index + 1) -/
def Jobs.freeNumber (j : Jobs) : Nat :=
  ((List.range (j.list.length + 1)).map (· + 1)).find? (fun n => !(j.list.any (·.1 == n))) |>.getD (j.list.length + 1)

/-- `jobs.insert(job)` + `set_last_async_pid`: a new owned job becomes `$!` -/
def Jobs.add (j : Jobs) : Jobs :=
  { list := j.list ++ [(j.freeNumber, j.next, true)], last := some j.next, next := j.next + 1 }

/-- `JobList::disown_all` -/
def Jobs.disownAll (j : Jobs) : Jobs := { j with list := j.list.map fun e => (e.1, e.2.1, false) }

/-- the `wait $!` of an asynchronous list that has finished removes its job -/
def Jobs.removeLast (j : Jobs) : Jobs :=
  match j.last with
  | some u => { j with list := j.list.filter (·.2.1 ≠ u) }
  | none => j

/-- `VariableSet`: visible variables plus the positional parameters of the current regular context -/
structure Variables where
  vars : Assoc Var
  params : List String
  deriving DecidableEq, Repr

/-- `struct Env<S>` -/
structure Env where
  aliases : Assoc String
  arg0 : String
  builtins : List String
  exitStatus : Nat
  functions : Assoc String
  jobs : Jobs
  mainPgid : Nat
  mainPid : Nat
  /-- `OptionSet`: the enabled options (sorted) -/
  options : List String
  /-- `Stack`: the frames, `"Subshell"` among them -/
  stack : List String
  traps : TrapMap
  tty : Option Nat
  variables : Variables
  any : List String
  system : Proc

/-- `struct ForkEnvState<S>` -/
structure ForkEnvState where
  aliases : Assoc String
  arg0 : String
  builtins : List String
  exitStatus : Nat
  functions : Assoc String
  jobs : Jobs
  mainPgid : Nat
  mainPid : Nat
  options : List String
  stack : List String
  traps : TrapMap
  tty : Option Nat
  variables : Variables
  any : List String

/-- `ForkEnvState::extract_from_env`: the state and what is left in `env` (`std::mem::take` leaves
    `Default::default()`, `Copy` fields stay). -/
def extractFromEnv (env : Env) : ForkEnvState × Env :=
  ({ aliases := env.aliases, arg0 := env.arg0, builtins := env.builtins, exitStatus := env.exitStatus,
     functions := env.functions, jobs := env.jobs, mainPgid := env.mainPgid, mainPid := env.mainPid,
     options := env.options, stack := env.stack, traps := env.traps, tty := env.tty,
     variables := env.variables, any := env.any },
   { env with aliases := [], arg0 := "", builtins := [], functions := [], jobs := {}, stack := [],
              traps := [], variables := { vars := [], params := [] }, any := [] })

/-- `ForkEnvState::restore_into_env` -/
def restoreIntoEnv (st : ForkEnvState) (env : Env) : Env :=
  { env with aliases := st.aliases, arg0 := st.arg0, builtins := st.builtins, exitStatus := st.exitStatus,
             functions := st.functions, jobs := st.jobs, mainPgid := st.mainPgid, mainPid := st.mainPid,
             options := st.options, stack := st.stack, traps := st.traps, tty := st.tty,
             variables := st.variables, any := st.any }

/-- `ForkEnvState::into_env_with_system` -/
def intoEnvWithSystem (st : ForkEnvState) (system : Proc) : Env :=
  { aliases := st.aliases, arg0 := st.arg0, builtins := st.builtins, exitStatus := st.exitStatus,
    functions := st.functions, jobs := st.jobs, mainPgid := st.mainPgid, mainPid := st.mainPid,
    options := st.options, stack := st.stack, traps := st.traps, tty := st.tty,
    variables := st.variables, any := st.any, system := system }

/-- `impl Clone for ForkEnvState` (a deep copy: in a value model the identity) -/
def ForkEnvState.clone (st : ForkEnvState) : ForkEnvState :=
  { aliases := st.aliases, arg0 := st.arg0, builtins := st.builtins, exitStatus := st.exitStatus,
    functions := st.functions, jobs := st.jobs, mainPgid := st.mainPgid, mainPid := st.mainPid,
    options := st.options, stack := st.stack, traps := st.traps, tty := st.tty,
    variables := st.variables, any := st.any }

/-- the umask of `Process::with_parent_and_group` (`Mode::default()` = 0o644) -/
def defaultUmask : String := "644"

/-- Is `field` of the child process copied from the parent by `Process::fork_from`?  `copied` is the list of
    child fields the function writes from the parent (the generated `processForkMap`). -/
def isCopied (copied : List (String × String)) (field : String) : Bool :=
  copied.any (fun p => p.1 == field && p.2 == field)

/-- `Process::fork_from(ppid, parent)`: starts from `with_parent_and_group` and copies the listed fields. -/
def Proc.forkFrom (copied : List (String × String)) (ppid : Nat) (parent : Proc) : Proc :=
  { fds := if isCopied copied "fds" then parent.fds else [],
    cwd := if isCopied copied "cwd" then parent.cwd else "",
    umask := if isCopied copied "umask" then parent.umask else defaultUmask,
    sys := { disp := if isCopied copied "dispositions" then parent.sys.disp else fun _ => .default,
             blocked := if isCopied copied "blocked_signals" then parent.sys.blocked else fun _ => false,
             selectMask := parent.sys.selectMask },
    ppid := ppid, ttyAvail := parent.ttyAvail,
    -- the limits are copied or start unset; they never filter the descriptor table (`fds` above is the
    -- parent's table whatever `nofile` is — POSIX: a fork duplicates every open descriptor)
    nofile := if isCopied copied "resource_limits" then parent.nofile else none }

/-- the code as it is -/
def implCopied : List (String × String) := Generated.ForkMaps.processForkMap

/-- what POSIX `fork` copies of the fields the property names -/
def specCopied : List (String × String) :=
  [("fds", "fds"), ("cwd", "cwd"), ("umask", "umask"), ("dispositions", "dispositions"),
   ("blocked_signals", "blocked_signals"), ("resource_limits", "resource_limits")]

/-- `Env::run_in_child_process` (over `VirtualSystem::run_in_child_process`): extract, clone for the child,
    fork the process, build the child's `Env`, restore the parent. Returns (parent after the call, what the
    child task made of its copy). The child task is *any* function of the child's environment (its result
    type `β` stands for everything the child does: final state, output, exit status). -/
def runInChild {β : Type} (copied : List (String × String)) (env : Env) (childTask : Env → β) : Env × β :=
  let ex := extractFromEnv env
  let childSystem := Proc.forkFrom copied env.mainPid ex.2.system
  let childEnv := intoEnvWithSystem ex.1.clone childSystem
  (restoreIntoEnv ex.1 ex.2, childTask childEnv)

/-! ## Subshell entry (`subshell::Config::start`, the part that runs in the child before the task) -/

/-- `env.traps.enter_subshell(&env.system, ignore_sigint_sigquit, keep_internal_dispositions_for_stoppers)` -/
def enterTraps (env : Env) (ignoreSigintSigquit keepStoppers : Bool) : Env :=
  let st := Trap.enterSubshell { sys := env.system.sys, traps := env.traps } ignoreSigintSigquit keepStoppers
  { env with traps := st.traps, system := { env.system with sys := st.sys } }

/-- push `Frame::Subshell`; (`setpgid`/`tcsetpgrp` of a job-controlled subshell touch nothing the property names;)
    `jobs.disown_all()`; `enter_subshell(ignore_sigint_sigquit, keep_internal_dispositions_for_stoppers)`.
    Note that the options are NOT touched: the child keeps the parent's option set, `monitor` included. -/
def subshellEntry (ignoreSigintSigquit keepStoppers : Bool) (env : Env) : Env :=
  let e1 := { env with stack := "Subshell" :: env.stack }
  let e2 := { e1 with jobs := e1.jobs.disownAll }
  enterTraps e2 ignoreSigintSigquit keepStoppers

/-- `Env::controls_jobs`: `monitor` is on and the shell is not itself a subshell -/
def controlsJobs (env : Env) : Bool := env.options.contains "monitor" && !env.stack.contains "Subshell"

/-- `Config::start(env, task)` with `job_control` already reduced by `controls_jobs` (`jc`) and the
    `ignores_sigint_sigquit` flag of the configuration: the parent's environment after the call and the
    child's result. `ignore_sigint_sigquit = flag && !jc`, `keep_stoppers = !jc`. -/
def startSubshell {β : Type} (copied : List (String × String)) (ignoresFlag jc : Bool) (env : Env)
    (task : Env → β) : Env × β :=
  runInChild copied env (fun c => task (subshellEntry (ignoresFlag && !jc) (!jc) c))

/-! ## Mutators of the sweep -/

inductive TrapAct where
  | dflt | ign | cmd (n : Nat)
  deriving DecidableEq, Repr

inductive Op where
  | set (n v : String) | unset (n : String) | export (n v : String) | readonly (n v : String)
  | fn (f b : String) | unfn (f : String) | alias (a v : String) | unalias (a : String)
  | optOn (o : String) | optOff (o : String) | shift | args (xs : List String)
  | cd (d : String) | umask (m : String) | trap (cond : Nat) (a : TrapAct)
  | fdw (n : Nat) (file : String) | fdr (n : Nat) | fdd (n m : Nat) | fdc (n : Nat)
  | local (n v : String) | raise (sig : Nat) | bg | exit (n : Nat) | nofile (v : Option Nat)
  /-- a scheduling point of the starter between `&` and `wait` (`( : )`): changes WHEN the asynchronous child
      runs, and nothing else -/
  | yield
  /-- commands of the innermost child that need NEW descriptors: a pipeline `: | :` (`Pipe::pipe`: two free descriptors
      below the limit), a command substitution `: "$(:)"` (the same), a here-document on a regular built-in
      (`probe THD <<E`: the redirection engine saves fd 0 at ≥ 10 and opens a temporary file) -/
  | pl | cs | hd
  /-- a three-member pipeline started while fd 1 is CLOSED (`exec 9>&1 1>&-; probe TPC | cat | cat >&9; exec 1>&9 9>&-`): the
      first pipe's read end then IS descriptor 1, so the middle member runs the corner of `move_to_stdin_stdout` that first
      moves the previous end away with `dup(1, 0)`; the marker travels through both pipes -/
  | plc
  deriving DecidableEq, Repr

/-- sorted insertion into the list of enabled options -/
def insertSorted (x : String) : List String → List String
  | [] => [x]
  | y :: t => if x = y then y :: t else if x < y then x :: y :: t else y :: insertSorted x t

def fdGet : List (Nat × FdEntry) → Nat → Option FdEntry
  | [], _ => none
  | (k', v) :: t, k => if k = k' then some v else fdGet t k

def fdPut : List (Nat × FdEntry) → Nat → FdEntry → List (Nat × FdEntry)
  | [], k, v => [(k, v)]
  | (k', v') :: t, k, v =>
    if k = k' then (k, v) :: t
    else if k < k' then (k, v) :: (k', v') :: t
    else (k', v') :: fdPut t k v

def fdDel (m : List (Nat × FdEntry)) (k : Nat) : List (Nat × FdEntry) := m.filter (fun kv => kv.1 ≠ k)

/-- the shell process is alive, or was terminated (value = the exit status the parent sees) -/
structure Shell where
  env : Env
  halted : Option Nat := none
  /-- what the process printed besides snapshots -/
  events : List String := []

def setVar (env : Env) (n : String) (f : Option Var → Var) : Env :=
  { env with variables := { env.variables with vars := env.variables.vars.put n (f (env.variables.vars.find n)) } }

/-- the trap built-in setting one action (non-interactive: `override_ignore = false`) -/
def trapSet (env : Env) (cond : Nat) (a : TrapAct) : Env :=
  let act : Action := match a with
    | .dflt => .default
    | .ign => .ignore
    | .cmd n => .command n
  -- `override_ignore = env.options.get(Interactive) == On` (the option, also inside subshells)
  let r := Trap.setAction { sys := env.system.sys, traps := env.traps } cond act 0 (env.options.contains "interactive")
  { env with traps := r.1.traps, system := { env.system with sys := r.1.sys } }

/-- the signal effect of the virtual system for the signals of the sweep (`SignalEffect::of`): SIGURG is
    discarded by default, the others terminate -/
def fatalByDefault (sig : Nat) : Bool := sig != SIGURG

/-- SIGKILL can be neither caught nor ignored -/
def SIGKILL : Nat := Trap.SIGKILL

/-- the command id of the trap that runs when `sig` is caught -/
def trapCommandOf (env : Env) (sig : Nat) : Option Nat :=
  match Trap.get env.traps sig with
  | some g => match g.current.action with
    | .command n => some n
    | _ => none
  | none => none

/-! ### `cd` on the virtual file system

`yash-builtin/src/cd.rs`: the target is shortened relative to `$PWD` (`cd/shorten.rs`, `Path::strip_prefix`, empty
result = `.`), then `VirtualSystem::chdir` checks that the path — relative paths are joined to the process's cwd and
walked *from the root*, `.` components skipped — is an existing directory and stores `cwd.join(path)` with `.`
components dropped and `..` resolved (`normalizePath`). -/

/-- components of a path, the root directory being the component `/` -/
def pathComps (p : String) : List String :=
  (if p.startsWith "/" then ["/"] else []) ++ (p.splitOn "/").filter (· ≠ "")

def stripPrefix? : List String → List String → Option (List String)
  | [], t => some t
  | _ :: _, [] => none
  | a :: p, b :: t => if a = b then stripPrefix? p t else none

def renderComps : List String → String
  | "/" :: t => "/" ++ "/".intercalate t
  | t => "/".intercalate t

/-- `shorten(target, pwd, Mode::Logical)` -/
def shorten (target pwd : String) : String :=
  match stripPrefix? (pathComps pwd) (pathComps target) with
  | some [] => "."
  | some rest => renderComps rest
  | none => target

/-- `PathBuf::join` -/
def joinPath (cwd p : String) : String :=
  if p.startsWith "/" then p
  else if cwd = "" then p
  else if cwd.endsWith "/" then cwd ++ p
  else cwd ++ "/" ++ p

/-- the loop of `VirtualSystem::chdir` that keeps the working directory canonical: `.` components are dropped,
    `..` pops the last component (`PathBuf::pop` never removes the root), everything else is pushed -/
def normalizeComps : List String → List String → List String
  | acc, [] => acc.reverse
  | acc, "." :: t => normalizeComps acc t
  | acc, ".." :: t =>
    match acc with
    | [] => normalizeComps [] t
    | "/" :: r => normalizeComps ("/" :: r) t
    | _ :: r => normalizeComps r t
  | acc, c :: t => normalizeComps (c :: acc) t

/-- the path `VirtualSystem::chdir` stores for `cwd.join(path)` -/
def normalizePath (p : String) : String := renderComps (normalizeComps [] (pathComps p))

/-- the directories of the file system the harness sets up: `/`, `/d1`, `/d1/s`, `/d2` -/
def dirExists (p : String) : Bool :=
  -- `resolve_existing_file` walks the components from the root: `.` stays, `..` goes to the parent (the root is its own)
  let cs := (normalizeComps [] (pathComps p)).filter (fun c => c ≠ "/")
  cs == [] || cs == ["d1"] || cs == ["d2"] || cs == ["d1", "s"]

/-! ## `Process` methods (`yash-env/src/system/virtual/process.rs`) -/

/-- `resource_limits.get(&Resource::NOFILE).map(|l| l.soft)` (`none` = `INFINITY`) -/
def nofileLimit (p : Proc) : Option Nat := p.nofile

/-- the limit as `ulimit -S -n` prints it -/
def showLimit : Option Nat → String
  | none => "unlimited"
  | some n => toString n

/-- the guard of `Process::set_fd` / `Process::has_unused_fd`: `limit == INFINITY || fd < limit` -/
def fdAllowed (p : Proc) (fd : Nat) : Bool :=
  match nofileLimit p with
  | none => true
  | some l => fd < l

/-- `min_unused_fd(min, fds.keys())`: the lowest descriptor `>= min` that is not open -/
def minUnusedFd (fds : List (Nat × FdEntry)) (min : Nat) : Nat :=
  (((List.range (fds.length + 1)).map (· + min)).find? (fun n => (fdGet fds n).isNone)).getD (min + fds.length)

/-- `Process::set_fd(fd, body)`: `Ok` (entry written) or `Err` (nothing changes) -/
def Proc.setFd (p : Proc) (fd : Nat) (e : FdEntry) : Option Proc :=
  if fdAllowed p fd then some { p with fds := fdPut p.fds fd e } else none

/-- `Process::open_fd_ge(min_fd, body)` -/
def Proc.openFdGe (p : Proc) (min : Nat) (e : FdEntry) : Option (Nat × Proc) :=
  let fd := minUnusedFd p.fds min
  (p.setFd fd e).map fun q => (fd, q)

/-! ## System calls (`impl … for VirtualSystem`), as functions of the calling process's own `Process` -/

inductive Call where
  /-- `Umask::umask` -/
  | umask (m : String)
  /-- `Chdir::chdir` -/
  | chdir (path : String)
  /-- `Open::open` of an existing file (→ `create_fd` → `open_fd`); `cloexec` = `OpenFlag::CloseOnExec` among the flags -/
  | open (file : String) (cloexec : Bool := false)
  /-- `Dup::dup(from, to_min, flags)` -/
  | dup (src min : Nat) (cloexec : Bool)
  /-- `Dup::dup2(from, to)` -/
  | dup2 (src dst : Nat)
  /-- `Close::close` -/
  | close (fd : Nat)
  /-- `Fcntl::fcntl_setfd` -/
  | setfd (fd : Nat) (cloexec : Bool)
  /-- `Sigaction::sigaction` -/
  | sigaction (sig : Nat) (d : Disp)
  /-- `Sigmask::sigmask(Some((Add | Remove, {sig})), None)` -/
  | sigmask (block : Bool) (sig : Nat)
  /-- `SetRlimit::setrlimit(Resource::NOFILE, LimitPair { soft, hard: INFINITY })` -/
  | setrlimit (soft : Option Nat)
  deriving DecidableEq, Repr

/-- what a call answers: `Ok(())`, `Ok(fd)`, or `Err(errno)` -/
inductive CallRes where
  | ok
  | fd (n : Nat)
  | err (errno : String)
  deriving DecidableEq, Repr

/-- the text of an answer in the observation of the `X:` cases -/
def CallRes.show : CallRes → String
  | .ok => "ok"
  | .fd n => s!"fd{n}"
  | .err e => e

def CallRes.isErr : CallRes → Bool
  | .err _ => true
  | _ => false

/-- The effect of one call on the `Process` of the caller (`self.current_process_mut()`), and its typed answer.
    A failing call changes nothing (`failing_call_changes_nothing`). -/
def Call.runT : Call → Proc → CallRes × Proc
  | .umask m, p => (.ok, { p with umask := m })
  | .chdir path, p =>
    -- `resolve_existing_file` (relative paths joined to `cwd`), must be a directory; the stored path is
    -- `cwd.join(path)` with `.` dropped and `..` resolved
    if dirExists (joinPath p.cwd path) then (.ok, { p with cwd := normalizePath (joinPath p.cwd path) })
    else (.err "ENOENT", p)
  | .open file x, p =>
    -- `has_unused_fd()` is checked before the file is resolved; then `create_fd` → `open_fd`
    if fdAllowed p (minUnusedFd p.fds 0) then
      match p.openFdGe 0 { label := file, cloexec := x } with
      | some (fd, q) => (.fd fd, q)
      | none => (.err "EMFILE", p)
    else (.err "EMFILE", p)
  | .dup src min cloexec, p =>
    match fdGet p.fds src with
    | none => (.err "EBADF", p)
    | some e =>
      match p.openFdGe min { e with cloexec := cloexec } with
      | some (fd, q) => (.fd fd, q)
      | none => (.err "EMFILE", p)
  | .dup2 src dst, p =>
    match fdGet p.fds src with
    | none => (.err "EBADF", p)
    | some e =>
      if src = dst then (.fd dst, p)
      else match p.setFd dst { e with cloexec := false } with
        | some q => (.fd dst, q)
        | none => (.err "EBADF", p)
  | .close fd, p => (.ok, { p with fds := fdDel p.fds fd })
  | .setfd fd cloexec, p =>
    match fdGet p.fds fd with
    | none => (.err "EBADF", p)
    | some e => (.ok, { p with fds := fdPut p.fds fd { e with cloexec := cloexec } })
  | .sigaction sig d, p => (.ok, { p with sys := { p.sys with disp := Trap.upd p.sys.disp sig d } })
  | .sigmask block sig, p => (.ok, { p with sys := { p.sys with blocked := Trap.upd p.sys.blocked sig block } })
  | .setrlimit soft, p => (.ok, { p with nofile := soft })

/-- the same with the answer as the `X:` cases print it (`ok`, `fd<n>`, or the `Errno`) -/
def Call.run (c : Call) (p : Proc) : String × Proc := ((c.runT p).1.show, (c.runT p).2)

/-- the calls of a process one after the other, on its own `Process` -/
def runCalls (p : Proc) (cs : List Call) : Proc := cs.foldl (fun q c => (c.run q).2) p

/-! ## The redirection engine (`yash-semantics/src/redir.rs`), as the `exec` built-in uses it

`exec N>|file`, `exec N<file`, `exec N>&M`, `exec N>&-` are what the fd mutators of the sweep render to.  Each is one
`RedirGuard::perform_redir` (→ `perform` → `open_and_overwrite`) followed by `RedirGuard::preserve_redirs` (the `exec`
built-in makes the redirection permanent).  Every step is a system call of the process itself (`Call.runT`). -/

/-- `yash_env::io::MIN_INTERNAL_FD` (checked against the source by the generated `minInternalFd`) -/
def minInternalFd : Nat := 10

/-- the body of a redirection after `open_normal` has classified it -/
inductive RedirBody where
  /-- `N>|file` / `N<file`: `open_file` → `FdSpec::Owned(fd)`; `label` names the open file description -/
  | file (label : String)
  /-- `N>&M`: `copy_fd(…, OfdAccess::WriteOnly)` → `FdSpec::Borrowed(M)` -/
  | copy (src : Nat)
  /-- `N>&-`: `copy_fd` → `FdSpec::Closed` -/
  | close
  deriving DecidableEq, Repr

/-- `is_cloexec(env, fd)` -/
def isCloexec (p : Proc) (fd : Nat) : Bool :=
  match fdGet p.fds fd with
  | some e => e.cloexec
  | none => false

/-- `open_and_overwrite(env, redir, target_fd)`: success?, and the process afterwards.
    `file`: `open` → `k`; when `k ≠ target`: `dup2(k, target)`, then `close(k)` whatever `dup2` answered.
    `copy`: `copy_fd` checks that the source is open for writing (`is_fd_valid`; the read-only file of the sweep is the
    one labelled `oin`) and has no CLOEXEC flag; when `src ≠ target`: `dup2(src, target)`; the source stays open.
    `close`: `close(target)`. -/
def openAndOverwrite (p : Proc) (target : Nat) : RedirBody → Bool × Proc
  | .file label =>
    let r := (Call.open label).runT p
    match r.1 with
    | .fd k =>
      if k ≠ target then
        let d := (Call.dup2 k target).runT r.2
        (!d.1.isErr, ((Call.close k).runT d.2).2)
      else (true, r.2)
    | _ => (false, r.2)
  | .copy src =>
    match fdGet p.fds src with
    | none => (false, p)
    | some e =>
      if e.label = "oin" || e.cloexec then (false, p)
      else if src ≠ target then
        let d := (Call.dup2 src target).runT p
        (!d.1.isErr, d.2)
      else (true, p)
  | .close => (true, ((Call.close target).runT p).2)

/-- `perform(env, redir)`: refuse a CLOEXEC target (`ErrorCause::ReservedFd`); save the target with
    `dup(target, MIN_INTERNAL_FD, CLOEXEC)` (`EBADF` = nothing to save, any other error = `FdNotOverwritten`);
    `open_and_overwrite`; on failure close the saved copy.  Result: success?, the saved descriptor, the process. -/
def performRedir (p : Proc) (target : Nat) (body : RedirBody) : Bool × Option Nat × Proc :=
  if isCloexec p target then (false, none, p) else
  let s := (Call.dup target minInternalFd true).runT p
  match s.1 with
  | .err e =>
    if e = "EBADF" then
      let r := openAndOverwrite s.2 target body
      (r.1, none, r.2)
    else (false, none, s.2)
  | .fd save =>
    let r := openAndOverwrite s.2 target body
    if r.1 then (true, some save, r.2)
    else (false, none, ((Call.close save).runT r.2).2)
  | .ok => (false, none, s.2)

/-- one redirection of the `exec` built-in: `perform_redir`, then `preserve_redirs` closes the saved copy -/
def execRedir (p : Proc) (target : Nat) (body : RedirBody) : Bool × Proc :=
  let r := performRedir p target body
  match r.2.1 with
  | some save => (r.1, ((Call.close save).runT r.2.2).2)
  | none => (r.1, r.2.2)

/-- option names the `set` built-in refuses while `portable` is on (no POSIX spelling) -/
def nonPortableOpts : List String := ["hashondefinition", "login", "posixlycorrect"]

/-- `Pipe::pipe` succeeds: two descriptors below the soft limit are free (reader = the lowest, then the writer) -/
def pipeOk (p : Proc) : Bool :=
  let o := (Call.open "pipe").runT p
  !o.1.isErr && !((Call.open "pipe").runT o.2).1.isErr

/-- the here-document of `probe THD <<E` can be set up: `perform` with the temporary file as an owned descriptor
    (save fd 0 at ≥ `MIN_INTERNAL_FD`, `open_tmpfile`, `dup2`, `close`); afterwards `undo_redirs` puts fd 0 back -/
def hereDocOk (p : Proc) : Bool := (performRedir p 0 (.file "tmp")).1

/-- the exit status of a mutator in `env` (all succeed except `unalias` of an undefined alias and a `cd`
    whose target does not resolve) -/
def opStatus (env : Env) : Op → Nat
  | .unalias a => if (env.aliases.find a).isNone then 1 else 0
  | .cd d =>
    let old := ((env.variables.vars.find "PWD").map (·.value)).getD ""
    if ((Call.chdir (shorten d old)).runT env.system).1.isErr then 2 else 0
  -- a redirection error of a regular built-in: status 2, the shell goes on (unless errexit)
  | .hd => if hereDocOk env.system then 0 else 2
  | _ => 0

/-- the shell exits by itself with `status` (errexit): the EXIT trap runs first -/
def exitShell (sh : Shell) (status : Nat) : Shell :=
  let evs := match trapCommandOf sh.env 0 with
    | some n => [s!"T{n}"]
    | none => []
  { sh with events := sh.events ++ evs, halted := some status }

/-- An error of a special built-in (`exec` with a failing redirection, `set` with an option it refuses): the
    non-interactive-loop shell of the sweep exits with status 2 — through `exitShell`, so its EXIT trap runs. -/
def builtinError (sh : Shell) : Shell := exitShell sh 2

/-- `exec` with one redirection: the process state is whatever the redirection engine left (`execRedir`); a failure
    is an error of the special built-in. -/
def redirOp (sh : Shell) (n : Nat) (b : RedirBody) : Shell :=
  let r := execRedir sh.env.system n b
  let sh1 : Shell := { sh with env := { sh.env with system := r.2 } }
  if r.1 then sh1 else builtinError sh1

/-- `Env::get_tty`: once (`env.tty` caches the answer) `/dev/tty` is opened with `CloseOnExec | NoCtty`, then
    `io::move_fd_internal`: a descriptor already at or above `MIN_INTERNAL_FD` stays; otherwise
    `dup(fd, MIN_INTERNAL_FD, CloseOnExec)` and `close(fd)` whatever `dup` answered; `env.tty = dup's answer .ok()`.
    Every step is a system call of the shell's own process (`getTty_is_own_calls`). -/
def getTty (env : Env) : Env :=
  if env.tty.isSome || !env.system.ttyAvail then env else
  let o := (Call.open "tty" true).runT env.system
  match o.1 with
  | .fd k =>
    if minInternalFd ≤ k then { env with tty := some k, system := o.2 }
    else
      let d := (Call.dup k minInternalFd true).runT o.2
      let q := ((Call.close k).runT d.2).2
      match d.1 with
      | .fd n => { env with tty := some n, system := q }
      | _ => { env with system := q }
  | _ => { env with system := o.2 }

/-- the `set` built-in after changing `monitor` outside a subshell ("reinitialize job control"): the shell is
    internal dispositions for the stop signals are enabled iff the `interactive` and `monitor` options are both
    on, disabled otherwise (`update_internal_dispositions_for_stoppers`), and with `monitor` now on `ensure_foreground` opens the
    terminal (`tcsetpgrp` itself changes nothing the property names) -/
def monitorChanged (o : String) (env : Env) : Env :=
  if o ≠ "monitor" || env.stack.contains "Subshell" then env else
  let st0 : Trap.State := { sys := env.system.sys, traps := env.traps }
  let st := if env.options.contains "interactive" && env.options.contains "monitor"
    then Trap.enableStoppers st0 else Trap.disableStoppers st0
  let e1 := { env with traps := st.traps, system := { env.system with sys := st.sys } }
  if e1.options.contains "monitor" then getTty e1 else e1

/-- the effect of one mutator on a live shell process -/
def applyOpCore (sh : Shell) (op : Op) : Shell :=
  let env := sh.env
  let allexport := env.options.contains "allexport"
  match op with
  | .set n v => { sh with env := setVar env n fun o => match o with
      | some x => { x with value := v, exported := x.exported || allexport }
      | none => { value := v, exported := allexport } }
  | .unset n => { sh with env := { env with variables := { env.variables with vars := env.variables.vars.del n } } }
  | .export n v => { sh with env := setVar env n fun o => match o with
      | some x => { x with value := v, exported := true }
      | none => { value := v, exported := true } }
  | .readonly n v => { sh with env := setVar env n fun o => match o with
      | some x => { x with value := v, readonly := true, exported := x.exported || allexport }
      | none => { value := v, readonly := true, exported := allexport } }
  | .fn f b => { sh with env := { env with functions := env.functions.put f b } }
  | .unfn f => { sh with env := { env with functions := env.functions.del f } }
  | .alias a v => { sh with env := { env with aliases := env.aliases.put a v } }
  | .unalias a => { sh with env := { env with aliases := env.aliases.del a } }
  | .optOn o =>
    -- a non-portable option name while `portable` is on is an error of the special built-in `set`: the shell
    -- exits with status 2 after its EXIT trap
    if env.options.contains "portable" && nonPortableOpts.contains o then builtinError sh
    else { sh with env := monitorChanged o { env with options := insertSorted o env.options } }
  | .optOff o =>
    if env.options.contains "portable" && nonPortableOpts.contains o then builtinError sh
    else { sh with env := monitorChanged o { env with options := env.options.filter (· ≠ o) } }
  | .bg => { sh with env := { env with jobs := env.jobs.add } }
  | .nofile v => { sh with env := { env with system := ((Call.setrlimit v).runT env.system).2 } }
  | .exit _ => sh
  | .yield => sh
  -- "cannot connect pipes in the pipeline": `Divert::Interrupt(Some(NOEXEC))` — the script ends with 126 after the EXIT trap
  | .pl => if pipeOk env.system then sh else exitShell sh 126
  -- the expansion error of a command substitution that cannot open its pipe ends the shell with 2
  | .cs => if pipeOk env.system then sh else exitShell sh 2
  | .hd => if hereDocOk env.system then { sh with events := sh.events ++ ["THD"] } else sh
  | .plc => { sh with events := sh.events ++ ["TPC"] }
  -- `shift` with no positional parameter left is an error of the special built-in: the shell exits with status 1
  -- after its EXIT trap
  | .shift =>
    if env.variables.params.isEmpty then exitShell sh 1
    else { sh with env := { env with variables := { env.variables with params := env.variables.params.drop 1 } } }
  | .args xs => { sh with env := { env with variables := { env.variables with params := xs } } }
  | .cd d =>
    let old := ((env.variables.vars.find "PWD").map (·.value)).getD ""
    -- the built-in hands the shortened path to `chdir`
    let r := (Call.chdir (shorten d old)).runT env.system
    if !r.1.isErr then
      let e1 := setVar env "OLDPWD" fun _ => { value := old, exported := true }
      let e2 := setVar e1 "PWD" fun o => match o with
        | some x => { x with value := d }
        | none => { value := d, exported := true }
      { sh with env := { e2 with system := r.2 } }
    else sh
  | .umask m => { sh with env := { env with system := ((Call.umask m).runT env.system).2 } }
  | .trap c a => { sh with env := trapSet env c a }
  -- `exec N>|file`, `exec N</o/in`, `exec N>&M`, `exec N>&-`: the redirection engine; a target at or above the soft
  -- RLIMIT_NOFILE, a source that is closed / read-only / CLOEXEC, a CLOEXEC target are redirection errors
  | .fdw n file => redirOp sh n (.file file)
  | .fdr n => redirOp sh n (.file "oin")
  | .fdd n m => redirOp sh n (.copy m)
  | .fdc n => redirOp sh n .close
  | .local n v =>
    { sh with env := { env with functions := env.functions.put "lf" (n ++ "." ++ v) },
              events := sh.events ++ ["L:" ++ v] }
  | .raise sig =>
    if sig = SIGKILL then { sh with halted := some (384 + sig) } else
    match env.system.sys.disp sig with
    | .catch => match trapCommandOf env sig with
      | some n => { sh with events := sh.events ++ [s!"T{n}"] }
      | none => sh
    | .ignore => sh
    | .default => if fatalByDefault sig then { sh with halted := some (384 + sig) } else sh

/-- one mutator in a shell process: nothing if the process is gone; with `errexit` a failing mutator makes the
    shell exit with its status -/
def applyOp (sh : Shell) (op : Op) : Shell :=
  if sh.halted.isSome then sh else
  let st := opStatus sh.env op
  let r := applyOpCore sh op
  if r.halted.isSome then r
  else match op with
    | .exit n => exitShell r n            -- the `exit` built-in: EXIT trap, then the process ends
    | _ => if st ≠ 0 ∧ r.env.options.contains "errexit" then exitShell r st else r

def applyOps (sh : Shell) (ops : List Op) : Shell := ops.foldl applyOp sh

/-! ## Snapshots (what the harness prints with real built-ins) -/

def trackedConds : List (String × Nat) :=
  [("EXIT", 0), ("INT", SIGINT), ("QUIT", SIGQUIT), ("TERM", SIGTERM), ("TSTP", Trap.SIGTSTP),
   ("TTIN", Trap.SIGTTIN), ("TTOU", Trap.SIGTTOU), ("URG", SIGURG), ("USR1", SIGUSR1)]

/-- the `trap` built-in without operands calls `TrapSet::peek_state` for every condition, which fills vacant
    entries from the system -/
def peekAll (env : Env) : Env :=
  let st := trackedConds.foldl (fun (st : Trap.State) c => (Trap.peekState st c.2).1)
    { sys := env.system.sys, traps := env.traps }
  { env with traps := st.traps, system := { env.system with sys := st.sys } }

def showVar (kv : String × Var) : String :=
  kv.1 ++ "=" ++ Proto.encStr kv.2.value ++ "/" ++ (if kv.2.readonly then "r" else "") ++ (if kv.2.exported then "x" else "")

def showDisp : Disp → String
  | .default => "D"
  | .ignore => "I"
  | .catch => "C"

def showTrapLine (env : Env) (c : String × Nat) : Option String :=
  match Trap.get env.traps c.2 with
  | none => none
  | some g => match (g.parent.getD g.current).action with
    | .default => none
    | .ignore => some (c.1 ++ ":i")
    | .command n => some (c.1 ++ s!":c{n}")

def showSys (p : Proc) : String :=
  let fds := p.fds.map fun kv => s!"{kv.1}:{kv.2.label}{if kv.2.cloexec then "x" else ""}"
  let ds := (trackedConds.filter (·.2 ≠ 0)).map fun c => c.1 ++ ":" ++ showDisp (p.sys.disp c.2)
  s!"cwd={Proto.encStr p.cwd} um={p.umask} fd={",".intercalate fds} d={",".intercalate ds}"

/-- `jobs -l` (numbers of the listed jobs) and which of them `$!` designates -/
def showJobs (j : Jobs) : String :=
  let nums := j.list.map fun (e : Nat × Nat × Bool) => toString e.1
  let last := match j.last with
    | none => "-"
    | some u => match j.list.find? (fun (e : Nat × Nat × Bool) => e.2.1 == u) with
      | some e => s!"j{e.1}"
      | none => "?"
  s!"j={",".intercalate nums} !={last}"

/-- the text of a snapshot taken in `env` (after the `trap` built-in has peeked) -/
def showSnapshot (env : Env) : String :=
  let v := env.variables.vars.map showVar
  let f := env.functions.map fun kv => kv.1 ++ "=" ++ kv.2
  let a := env.aliases.map fun kv => kv.1 ++ "=" ++ kv.2
  let t := trackedConds.filterMap (showTrapLine env)
  s!"v={",".intercalate v} f={",".intercalate f} a={",".intercalate a} o={",".intercalate env.options} u={env.system.umask} l={showLimit env.system.nofile} t={",".intercalate t} p={",".intercalate env.variables.params} {showSys env.system} {showJobs env.jobs}"

/-- take snapshot `tag` in a live process; `withTrap = false`: the snapshot does not run the `trap` built-in
    (no peeking, empty `t=`) -/
def snapshotT (withTrap : Bool) (sh : Shell) (tag : String) : Shell :=
  if sh.halted.isSome then sh else
  if withTrap then
    let env := peekAll sh.env
    { sh with env := env, events := sh.events ++ [tag ++ "{" ++ showSnapshot env ++ "}"] }
  else
    { sh with events := sh.events ++ [tag ++ "{" ++ showSnapshot { sh.env with traps := [] } ++ "}"] }

def snapshot (sh : Shell) (tag : String) : Shell := snapshotT true sh tag

/-! ## The kinds of subshell (`yash-semantics`) -/

inductive Kind where
  | paren | subst | pipeF | pipeM | pipeL | async
  deriving DecidableEq, Repr

/-- the plumbing the child performs on its own fd table before the body runs, as the snapshot shows it: the pipe
    ends / `/dev/null` at fd 0 / fd 1 (the descriptors the starter opened for the pipe are closed again on both sides;
    `plumbCalls` + `plumb_is_own_calls` give the system calls behind it) -/
def plumb (k : Kind) (jc : Bool) (env : Env) : Env :=
  let setFd (e : Env) (n : Nat) (l : String) : Env :=
    { e with system := { e.system with fds := fdPut e.system.fds n { label := l } } }
  match k with
  | .paren => env
  | .subst => setFd env 1 "pipe"
  | .pipeF => setFd env 1 "pipe"
  | .pipeM => setFd (setFd env 0 "pipe") 1 "pipe"
  | .pipeL => setFd env 0 "pipe"
  | .async => if jc then env else setFd env 0 "null"   -- `nullify_stdin` only without job control

/-- `yash-semantics/src/command/pipeline.rs` `struct PipeSet`: the read end left over from the previous command and
    the pipe to the next one — descriptors the STARTER opened with `Pipe::pipe` before the fork -/
structure PipeSet where
  readPrevious : Option Nat := none
  next : Option (Nat × Nat) := none
  deriving DecidableEq, Repr

/-- `PipeSet::move_to_stdin_stdout`, the calls of the child (also `subshell_body` of command_subst.rs, which is the
    same with `next = (reader, writer)` and no previous end): `close(reader)`; `dup2(writer, 1)`, `close(writer)` unless
    the writer is fd 1; `dup2(previous, 0)`, `close(previous)` unless it is fd 0.  (The corner `read_previous == 1`,
    where the code first moves the end away with `dup`, needs stdout closed in the starter and is left out.) -/
def moveToStdinStdout (ps : PipeSet) : List Call :=
  (match ps.next with
   | some (r, w) => [Call.close r] ++ (if w ≠ 1 then [Call.dup2 w 1, Call.close w] else [])
   | none => [])
  ++ (match ps.readPrevious with
   | some rp => if rp ≠ 0 then [Call.dup2 rp 0, Call.close rp] else []
   | none => [])

/-- `nullify_stdin` of command/item.rs: `close(0)`, `open("/dev/null")` (which then answers fd 0) -/
def nullifyStdin : List Call := [.close 0, .open "null"]

/-- the `PipeSet` a subshell of kind `k` is started with, given the ends the starter holds -/
def kindPipes (k : Kind) (rp r w : Nat) : PipeSet :=
  match k with
  | .subst | .pipeF => { next := some (r, w) }
  | .pipeM => { readPrevious := some rp, next := some (r, w) }
  | .pipeL => { readPrevious := some rp }
  | _ => {}

/-- the child's own system calls between the fork and its body, for every kind -/
def plumbCalls (k : Kind) (jc : Bool) (rp r w : Nat) : List Call :=
  match k with
  | .paren => []
  | .async => if jc then [] else nullifyStdin
  | _ => moveToStdinStdout (kindPipes k rp r w)

/-- the starter's own calls after the fork: it closes the ends it opened for this child (`PipeSet::shift`,
    `expand_common`) -/
def starterCloses (k : Kind) (rp r w : Nat) : List Call :=
  match k with
  | .subst | .pipeF => [.close w, .close r]
  | .pipeM => [.close rp, .close w, .close r]
  | .pipeL => [.close rp]
  | _ => []

/-- `run_exit_trap` at the end of a subshell / of the shell -/
def runExitTrap (sh : Shell) : Shell :=
  if sh.halted.isSome then sh else
  match trapCommandOf sh.env 0 with
  | some n => { sh with events := sh.events ++ [s!"T{n}"] }
  | none => sh

/-- the status the parent reads for a subshell of kind `k` whose process ended with `childStatus` -/
def kindStatus (k : Kind) (pipefail : Bool) (childStatus : Nat) : Nat :=
  match k with
  | .paren => childStatus
  | .subst => 0            -- `probe SUBST "$(…)"`: the probe built-in keeps the previous `$?`
  | .pipeF => if pipefail then childStatus else 0
  | .pipeM => if pipefail then childStatus else 0
  | .pipeL => childStatus
  | .async => childStatus  -- `wait $!`

/-- How `yash-semantics` starts the subshell of each kind (`jc` = `env.controls_jobs()`). -/
def startKind {β : Type} (copied : List (String × String)) (k : Kind) (jc : Bool) (env : Env) (task : Env → β)
    : Env × β :=
  match k with
  | .paren => startSubshell copied false jc env task           -- `Config::foreground()`
  | .subst => startSubshell copied false false env task        -- `Config::new()`
  | .async => startSubshell copied true jc env task            -- background, `ignores_sigint_sigquit`
  | _ =>
    -- a job-controlled pipeline runs inside one foreground subshell (`execute_job_controlled_pipeline`);
    -- each member is then a `Config::new()` subshell of that one
    if jc then startSubshell copied false true env fun w => (startSubshell copied false false w task).2
    else startSubshell copied false false env task

/-- what follows the subshell command in the parent: with `errexit` a non-zero status ends the shell before
    `probe ST` runs; otherwise the status is printed -/
def finishKind (k : Kind) (out : Shell) (st : Nat) (intr : Option Nat) : Shell :=
  if out.halted.isSome then out
  else match intr with
    | some s => exitShell out s       -- `Divert::Interrupt(Some(status))`: the command line is abandoned
    | none =>
      if st ≠ 0 ∧ out.env.options.contains "errexit" then exitShell out st
      else { out with events := out.events ++ (if k == .subst then [s!"sub:0", s!"st:{st}"] else [s!"st:{st}"]) }

/-- `Env::is_interactive`: the `interactive` option is on and the shell is not itself a subshell -/
def isInteractive (env : Env) : Bool := env.options.contains "interactive" && !env.stack.contains "Subshell"

/-- `Env::sigint_has_default_action`: no trap entry for SIGINT, or its current action is `Default` -/
def sigintDefault (env : Env) : Bool :=
  match Trap.get env.traps SIGINT with
  | none => true
  | some g => g.current.action == .default

/-- the constructs whose wait ends in the SIGINT rule: `( )` and a job-controlled pipeline
    (`job::handle_job_status`), and a command substitution (`expand_common`); not a plain pipeline, not `&` -/
def interruptsOnSigint (k : Kind) (jc : Bool) : Bool :=
  match k with
  | .paren => true
  | .subst => true
  | .async => false
  | _ => jc

/-- The documented exception to "the parent observes only the exit status": in an *interactive* shell
    (`is_interactive`: option on AND not in a subshell) whose SIGINT action is the default, a subshell that was
    killed by SIGINT interrupts the command line (`Divert::Interrupt(Some(384 + SIGINT))`).  `status` is the
    status of the awaited process; a status of `384 + sig` always means "killed by `sig`" here because a shell
    whose `$?` is such a status ends by re-raising the signal (`exit_or_raise`). -/
def interruptedBy (k : Kind) (jc : Bool) (env : Env) (status : Nat) : Option Nat :=
  if status == 384 + SIGINT && interruptsOnSigint k jc && isInteractive env && sigintDefault env
  then some status else none

/-- What the starting shell does *by itself* around a subshell of kind `k`, from its environment `env` as
    restored after the fork: nothing for the synchronous kinds; an asynchronous list is remembered as a job and
    becomes `$!`, the shell's own mutators between `&` and `wait` run, and `wait $!` removes the finished job. -/
def parentSide (k : Kind) (env : Env) (during : List Op) : Shell :=
  let e0 : Env := if k == .async then { env with jobs := env.jobs.add } else env
  let p0 := applyOps { env := e0 } (if k == .async then during else [])
  if k == .async then { p0 with env := { p0.env with jobs := p0.env.jobs.removeLast } } else p0

/-- a process forked from the shell `w` (all state fields copied, the system handle = the forked process) -/
def forkedCopy (copied : List (String × String)) (w : Env) : Env :=
  { w with system := Proc.forkFrom copied w.mainPid w.system }

/-- the environment the task of a subshell of kind `k` starts from, given the starter `env`: fork, then one
    `subshellEntry` — for a job-controlled pipeline: fork + entry of the wrapper, fork + entry of the member -/
def entryEnv (copied : List (String × String)) (k : Kind) (jc : Bool) (env : Env) : Env :=
  match k with
  | .paren => subshellEntry false (!jc) (forkedCopy copied env)
  | .subst => subshellEntry false true (forkedCopy copied env)
  | .async => subshellEntry (!jc) (!jc) (forkedCopy copied env)
  | _ =>
    if jc then subshellEntry false true (forkedCopy copied (subshellEntry false false (forkedCopy copied env)))
    else subshellEntry false true (forkedCopy copied env)

/-- what the child process of a subshell of kind `k` started from `sh` makes of `body` (its final state, its
    output, whether it was killed) -/
def childShell (copied : List (String × String)) (k : Kind) (sh : Shell) (body : Shell → Shell) : Shell :=
  (startKind copied k (controlsJobs sh.env) sh.env
    fun c => runExitTrap (body { env := plumb k (controlsJobs sh.env) c })).2

/-- Runs `body` in a subshell of kind `k` started from the live shell `sh`; `during` are the parent's own
    mutators between `&` and `wait` (asynchronous lists only).  The child's output comes first in the
    event list of the result because the parent prints nothing until it has waited. -/
def runKind (copied : List (String × String)) (k : Kind) (sh : Shell) (body : Shell → Shell)
    (during : List Op) : Shell :=
  if sh.halted.isSome then sh else
  let jc := controlsJobs sh.env
  let r : Env × Shell := startKind copied k jc sh.env fun c => runExitTrap (body { env := plumb k jc c })
  let childSh : Shell := childShell copied k sh body
  -- the child exits with its `$?` (`exit_or_raise`), or was killed
  let childStatus := childSh.halted.getD childSh.env.exitStatus
  let p : Shell := parentSide k r.1 during
  let st := kindStatus k (p.env.options.contains "pipefail") childStatus
  -- the status of the process the shell actually waited for (the job-control wrapper of a pipeline exits with
  -- the pipeline's status; `$( )` reports the child's even though the `probe` built-in then keeps `$?`)
  let waited := if k == .subst then childStatus else st
  let intr := interruptedBy k jc p.env waited
  -- an interrupted command substitution never delivers its output: the `probe` that would print it does not run
  let childEvents := if k == .subst && intr.isSome then [] else childSh.events
  let out : Shell := { env := { p.env with exitStatus := st }, halted := p.halted,
                       events := sh.events ++ childEvents ++ p.events }
  finishKind k out st intr

/-! ## A whole case -/

structure Case where
  pro : List Op
  kinds : List Kind
  /-- mutators of the intermediate levels (level 1, level 2) before they start the next subshell -/
  mid : List (List Op) := []
  child : List Op
  during : List Op
  /-- `T:1` `/dev/tty` exists -/
  tty : Bool := false
  /-- `I:1` the internal dispositions of an interactive job-control shell are installed -/
  internal : Bool := false
  /-- `G:SIG` a signal inherited as ignored -/
  ignored : Option Nat := none
  /-- `Q:1` snapshot `B0` does not run `trap` -/
  quiet : Bool := false
  /-- `A:` mutators of the first member of the innermost pipeline (`pipeL`): a sibling process of the child; what it
      does to ITS state shows nowhere — the prediction does not depend on them (`two_children_isolated`) -/
  first : List Op := []

def baseEnv : Env :=
  { aliases := [], arg0 := "yash", builtins := [], exitStatus := 0, functions := [], jobs := {},
    mainPgid := 2, mainPid := 2, options := ["clobber", "exec", "glob", "log", "unset"], stack := [], traps := [], tty := none,
    variables := { vars := [("PWD", { value := "", exported := true })], params := [] }, any := [],
    system := { fds := [(0, { label := "in" }), (1, { label := "out" }), (2, { label := "err" })],
                cwd := "", umask := defaultUmask,
                sys := { disp := fun _ => .default, blocked := fun _ => false } } }

def initialEnv : Env := baseEnv

/-- the environment the shell of a case starts with -/
def startEnv (c : Case) : Env :=
  let e0 := baseEnv
  let sys0 : Sys := match c.ignored with
    | some s => { e0.system.sys with disp := Trap.upd e0.system.sys.disp s .ignore }
    | none => e0.system.sys
  let st0 : Trap.State := { sys := sys0, traps := [] }
  let st := if c.internal then Trap.enableStoppers (Trap.enableTerminators st0) else st0
  { e0 with traps := st.traps, options := if c.internal then insertSorted "interactive" e0.options else e0.options,
            system := { e0.system with sys := st.sys, ttyAvail := c.tty } }

/-! ### Programs of the modelled fragment

Mutators, snapshots and subshell constructs of every kind, sequenced and nested to any depth. The programs of
the sweep (`levelProg`, `caseProg`) are instances; the isolation theorems are stated for every `Prog`. -/

inductive Prog where
  /-- mutators run one after the other -/
  | ops (l : List Op)
  /-- a snapshot (`withTrap = false`: without the `trap` listing) -/
  | snap (withTrap : Bool) (tag : String)
  /-- "the last command succeeded": `$? := 0` in a live shell -/
  | ok
  /-- the EXIT trap at the end of the shell -/
  | exitTrap
  | seq (a b : Prog)
  /-- a subshell of kind `k` running `body`; `during` = the starter's own mutators between `&` and `wait` -/
  | sub (k : Kind) (body : Prog) (during : List Op)

def runProg (copied : List (String × String)) : Prog → Shell → Shell
  | .ops l, sh => applyOps sh l
  | .snap w tag, sh => snapshotT w sh tag
  | .ok, sh => if sh.halted.isSome then sh else { sh with env := { sh.env with exitStatus := 0 } }
  | .exitTrap, sh => runExitTrap sh
  | .seq a b, sh => runProg copied b (runProg copied a sh)
  | .sub k body during, sh => runKind copied k sh (runProg copied body) during

/-- the body of the subshell of level `j` given the kinds still to be entered and the mutators of the
    intermediate levels: `C<j>`, the level's mutators, `B<j>`, the next subshell, `A<j>` — or, innermost,
    `C<d>`, the child's mutators, `D<d>` -/
def levelProg (child : List Op) : Nat → List Kind → List (List Op) → Prog
  | j, [], _ => .seq (.snap true s!"C{j}") (.seq (.ops child) (.seq (.snap true s!"D{j}") .ok))
  | j, k :: ks, mids =>
    .seq (.snap true s!"C{j}") (.seq (.ops (mids.headD [])) (.seq (.snap true s!"B{j}")
      (.seq (.sub k (levelProg child (j + 1) ks mids.tail) []) (.seq (.snap true s!"A{j}") .ok))))

/-- the whole program of a case: prologue, `B0`, the subshell(s), `A0`, EXIT trap of the shell itself -/
def caseProg (c : Case) : Prog :=
  .seq (.ops c.pro) (.seq (.snap (!c.quiet) "B0")
    (.seq (match c.kinds with
        | [] => .ops []
        | k :: ks => .sub k (levelProg c.child 1 ks c.mid) c.during)
      (.seq (.snap true "A0") .exitTrap)))

def runCase (copied : List (String × String)) (c : Case) : Shell :=
  runProg copied (caseProg c) { env := startEnv c }

/-- the observation line -/
def observation (sh : Shell) : String :=
  let isSnap (e : String) : Bool := e.endsWith "}"
  let nsnap := (sh.events.filter isSnap).length
  -- the EXIT trap of the shell runs after `A`; the final process state is read after it
  let rest := String.ofList (List.replicate (nsnap - 1) '=')
  " ".intercalate sh.events ++ " fin{" ++ showSys sh.env.system ++ "} exit=" ++ toString (sh.halted.getD 0) ++ " rest=" ++ (if rest.isEmpty then "-" else rest)

end YashModel.Fork
