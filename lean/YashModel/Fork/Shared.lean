/-
  C08 — the SHARED state of the virtual system (`yash-env/src/system/virtual.rs`).

  In the code every virtual process is a handle `VirtualSystem { state: Rc<RefCell<SystemState>>, process_id }` on
  ONE `SystemState`; `SystemState::processes : BTreeMap<Pid, Process>` holds the per-process state of all of
  them.  `Fork/Model.lean` models the process state of a shell *by value* (`Env.system : Proc`).  This file
  models the shared table itself and the system calls the property's mutators reach — each one a transcription
  of the `impl … for VirtualSystem` method and of the `Process` methods it calls, error branches included —
  so that "a process can only change its own entry" (`exec_frame`, `interleaving_isolated` in Theorems.lean)
  is a statement about the table, for every schedule of calls of any number of processes.

  Which entry of the table a method writes is not typed here: the translator re-extracts it from virtual.rs
  on every run (`Generated/ForkSystem.lean`, `systemWrites`); `syscalls_address_own_process` (Theorems.lean)
  checks that every method modelled below writes `processes[self.process_id]` only.

  Import-free apart from `YashModel.*`; executable (driven by the `X:` cases of harness/src/bin/c08.rs, which
  issue the REAL calls through several handles on one real `SystemState` in an arbitrary interleaving and
  print the whole process table after every call).
-/
import YashModel.Fork.Model

namespace YashModel.Fork
open YashModel.Trap (Disp Sys)

/-! ## `Process` methods -/

/-- `resource_limits.get(&Resource::NOFILE).map(|l| l.soft)` (`none` = `INFINITY`), from the text `ulimit -S -n`
    prints (the representation of `Proc.nofile`) -/
def nofileLimit (p : Proc) : Option Nat := if p.nofile = "unlimited" then none else p.nofile.toNat?

/-- the guard of `Process::set_fd` / `Process::has_unused_fd`: `limit == INFINITY || fd < limit` -/
def fdAllowed (p : Proc) (fd : Nat) : Bool :=
  match nofileLimit p with
  | none => true
  | some l => fd < l

/-- `min_unused_fd(min, fds.keys())`: the lowest descriptor `>= min` that is not open -/
def minUnusedFd (fds : List (Nat × FdEntry)) (min : Nat) : Nat :=
  (((List.range (fds.length + 1)).map (· + min)).find? (fun n => (fdGet fds n).isNone)).getD (min + fds.length)

/-- `Process::set_fd(fd, body)`: `Ok` (entry written) or `Err` (nothing changes) -/
def Proc.setFd (p : Proc) (fd : Nat) (e : FdEntry) : Option Proc :=
  if fdAllowed p fd then some { p with fds := fdPut p.fds fd e } else none

/-- `Process::open_fd_ge(min_fd, body)` -/
def Proc.openFdGe (p : Proc) (min : Nat) (e : FdEntry) : Option (Nat × Proc) :=
  let fd := minUnusedFd p.fds min
  (p.setFd fd e).map fun q => (fd, q)

/-! ## System calls (`impl … for VirtualSystem`), as functions of the calling process's own `Process` -/

inductive Call where
  /-- `Umask::umask` -/
  | umask (m : String)
  /-- `Chdir::chdir` -/
  | chdir (path : String)
  /-- `Open::open` of an existing regular file, write-only, no flags (→ `create_fd` → `open_fd`) -/
  | open (file : String)
  /-- `Dup::dup(from, to_min, flags)` -/
  | dup (src min : Nat) (cloexec : Bool)
  /-- `Dup::dup2(from, to)` -/
  | dup2 (src dst : Nat)
  /-- `Close::close` -/
  | close (fd : Nat)
  /-- `Fcntl::fcntl_setfd` -/
  | setfd (fd : Nat) (cloexec : Bool)
  /-- `Sigaction::sigaction` -/
  | sigaction (sig : Nat) (d : Disp)
  /-- `Sigmask::sigmask(Some((Add | Remove, {sig})), None)` -/
  | sigmask (block : Bool) (sig : Nat)
  /-- `SetRlimit::setrlimit(Resource::NOFILE, LimitPair { soft, hard: INFINITY })` -/
  | setrlimit (soft : String)
  deriving DecidableEq, Repr

/-- The effect of one call on the `Process` of the caller (`self.current_process_mut()`), and its result
    (`ok`, `fd<n>`, or the `Errno`).  A failing call changes nothing. -/
def Call.run : Call → Proc → String × Proc
  | .umask m, p => ("ok", { p with umask := m })
  | .chdir path, p =>
    -- `resolve_existing_file` (relative paths joined to `cwd`), must be a directory; the stored path is
    -- `cwd.join(path)` with `.` dropped and `..` resolved
    if dirExists (joinPath p.cwd path) then ("ok", { p with cwd := normalizePath (joinPath p.cwd path) })
    else ("ENOENT", p)
  | .open file, p =>
    -- `has_unused_fd()` is checked before the file is resolved; then `create_fd` → `open_fd`
    if fdAllowed p (minUnusedFd p.fds 0) then
      match p.openFdGe 0 { label := file } with
      | some (fd, q) => (s!"fd{fd}", q)
      | none => ("EMFILE", p)
    else ("EMFILE", p)
  | .dup src min cloexec, p =>
    match fdGet p.fds src with
    | none => ("EBADF", p)
    | some e =>
      match p.openFdGe min { e with cloexec := cloexec } with
      | some (fd, q) => (s!"fd{fd}", q)
      | none => ("EMFILE", p)
  | .dup2 src dst, p =>
    match fdGet p.fds src with
    | none => ("EBADF", p)
    | some e =>
      if src = dst then (s!"fd{dst}", p)
      else match p.setFd dst { e with cloexec := false } with
        | some q => (s!"fd{dst}", q)
        | none => ("EBADF", p)
  | .close fd, p => ("ok", { p with fds := fdDel p.fds fd })
  | .setfd fd cloexec, p =>
    match fdGet p.fds fd with
    | none => ("EBADF", p)
    | some e => ("ok", { p with fds := fdPut p.fds fd { e with cloexec := cloexec } })
  | .sigaction sig d, p => ("ok", { p with sys := { p.sys with disp := Trap.upd p.sys.disp sig d } })
  | .sigmask block sig, p => ("ok", { p with sys := { p.sys with blocked := Trap.upd p.sys.blocked sig block } })
  | .setrlimit soft, p => ("ok", { p with nofile := soft })

/-- the calls of a process one after the other, on its own `Process` -/
def runCalls (p : Proc) (cs : List Call) : Proc := cs.foldl (fun q c => (c.run q).2) p

/-! ## `SystemState` -/

/-- `BTreeMap<Pid, Process>`: association list sorted by pid -/
abbrev ProcTable := List (Nat × Proc)

def ProcTable.get : ProcTable → Nat → Option Proc
  | [], _ => none
  | (k', v) :: t, k => if k = k' then some v else ProcTable.get t k

/-- `BTreeMap::insert` -/
def ProcTable.put : ProcTable → Nat → Proc → ProcTable
  | [], k, v => [(k, v)]
  | (k', v') :: t, k, v =>
    if k = k' then (k, v) :: t
    else if k < k' then (k, v) :: (k', v') :: t
    else (k', v') :: ProcTable.put t k v

/-- `processes.keys().max()` -/
def ProcTable.maxPid : ProcTable → Option Nat
  | [] => none
  | (k, _) :: t => some (match ProcTable.maxPid t with
    | none => k
    | some m => if k ≤ m then m else k)

/-- `SystemState` as far as the property goes (the file system is fixed, see `dirExists`) -/
structure SysState where
  processes : ProcTable

/-- One step of a schedule: process `pid` (the `process_id` of the handle used) performs a call, or forks. -/
inductive XOp where
  | call (c : Call)
  | fork
  deriving DecidableEq, Repr

/-- A call made through the handle of `pid`: `self.current_process_mut()` =
    `state.processes.get_mut(&self.process_id).unwrap()` — the entry of `pid` is replaced, nothing else is
    touched.  (A handle whose process does not exist would panic; the driver reports `nopid`.) -/
def SysState.exec (s : SysState) (pid : Nat) (c : Call) : String × SysState :=
  match s.processes.get pid with
  | none => ("nopid", s)
  | some p => ((c.run p).1, { s with processes := s.processes.put pid (c.run p).2 })

/-- `VirtualSystem::run_in_child_process`: the child's pid is the largest pid + 1 (2 in an empty table), its
    entry is `Process::fork_from(self.process_id, parent)`, inserted into the table. -/
def SysState.fork (copied : List (String × String)) (s : SysState) (pid : Nat) : String × SysState :=
  match s.processes.get pid with
  | none => ("nopid", s)
  | some p =>
    let child := match s.processes.maxPid with
      | none => 2
      | some m => m + 1
    (s!"pid{child}", { s with processes := s.processes.put child (Proc.forkFrom copied pid p) })

def SysState.step (copied : List (String × String)) (s : SysState) (pid : Nat) : XOp → String × SysState
  | .call c => s.exec pid c
  | .fork => s.fork copied pid

/-- a whole schedule: any interleaving of the calls of any number of processes -/
def SysState.run (copied : List (String × String)) (s : SysState) (sched : List (Nat × XOp)) : SysState :=
  sched.foldl (fun st x => (st.step copied x.1 x.2).2) s

/-- the system the harness starts from (`VirtualSystem::new`): one process, pid 2, child of pid 1 -/
def initialSys : SysState := { processes := [(2, baseEnv.system)] }

/-! ## Observation of an `X:` case: the result of every call and the WHOLE table after it -/

def showBlocked (p : Proc) : String :=
  ",".intercalate (((trackedConds.filter (·.2 ≠ 0)).filter (fun c => p.sys.blocked c.2)).map (·.1))

def showProcEntry (kv : Nat × Proc) : String :=
  s!"{kv.1}({kv.2.ppid})" ++ "{" ++ s!"{showSys kv.2} l={kv.2.nofile} b={showBlocked kv.2}" ++ "}"

def showTable (s : SysState) : String := " ".intercalate (s.processes.map showProcEntry)

/-- results and tables after every step, in order -/
def xTrace (copied : List (String × String)) : SysState → List (Nat × XOp) → List String
  | _, [] => []
  | s, x :: rest =>
    let r := s.step copied x.1 x.2
    (r.1 ++ " " ++ showTable r.2) :: xTrace copied r.2 rest

def xObservation (copied : List (String × String)) (sched : List (Nat × XOp)) : String :=
  " / ".intercalate (("start " ++ showTable initialSys) :: xTrace copied initialSys sched)

end YashModel.Fork
