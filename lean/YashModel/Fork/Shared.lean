/-
  C08 — the SHARED state of the virtual system (`yash-env/src/system/virtual.rs`).

  In the code every virtual process is a handle `VirtualSystem { state: Rc<RefCell<SystemState>>, process_id }` on
  ONE `SystemState`; `SystemState::processes : BTreeMap<Pid, Process>` holds the per-process state of all of
  them.  `Fork/Model.lean` models the process state of a shell *by value* (`Env.system : Proc`).  This file
  models the shared table itself; the system calls the property's mutators reach (`Call`, `Call.runT`: each one a
  transcription of the `impl … for VirtualSystem` method and of the `Process` methods it calls, error branches
  included) live in `Fork/Model.lean` since wave 3, because the shell-level mutators are built from them —
  so that "a process can only change its own entry" (`exec_frame`, `interleaving_isolated` in Theorems.lean)
  is a statement about the table, for every schedule of calls of any number of processes.

  Which entry of the table a method writes is not typed here: the translator re-extracts it from virtual.rs
  on every run (`Generated/ForkSystem.lean`, `systemWrites`); `syscalls_address_own_process` (Theorems.lean)
  checks that every method modelled below writes `processes[self.process_id]` only.

  Import-free apart from `YashModel.*`; executable (driven by the `X:` cases of harness/src/bin/c08.rs, which
  issue the REAL calls through several handles on one real `SystemState` in an arbitrary interleaving and
  print the whole process table after every call).
-/
import YashModel.Fork.Model

namespace YashModel.Fork
open YashModel.Trap (Disp Sys)

/-! The `Process` methods, the system calls (`Call`, `Call.runT`, `Call.run`) and `runCalls` live in `Fork/Model.lean`
    (the mutators of the shell-level model are built from them). -/

/-! ## `SystemState` -/

/-- `BTreeMap<Pid, Process>`: association list sorted by pid -/
abbrev ProcTable := List (Nat × Proc)

def ProcTable.get : ProcTable → Nat → Option Proc
  | [], _ => none
  | (k', v) :: t, k => if k = k' then some v else ProcTable.get t k

/-- `BTreeMap::insert` -/
def ProcTable.put : ProcTable → Nat → Proc → ProcTable
  | [], k, v => [(k, v)]
  | (k', v') :: t, k, v =>
    if k = k' then (k, v) :: t
    else if k < k' then (k, v) :: (k', v') :: t
    else (k', v') :: ProcTable.put t k v

/-- `processes.keys().max()` -/
def ProcTable.maxPid : ProcTable → Option Nat
  | [] => none
  | (k, _) :: t => some (match ProcTable.maxPid t with
    | none => k
    | some m => if k ≤ m then m else k)

/-- `SystemState` as far as the property goes (the file system is fixed, see `dirExists`) -/
structure SysState where
  processes : ProcTable

/-- One step of a schedule: process `pid` (the `process_id` of the handle used) performs a call, or forks. -/
inductive XOp where
  | call (c : Call)
  | fork
  deriving DecidableEq, Repr

/-- A call made through the handle of `pid`: `self.current_process_mut()` =
    `state.processes.get_mut(&self.process_id).unwrap()` — the entry of `pid` is replaced, nothing else is
    touched.  (A handle whose process does not exist would panic; the driver reports `nopid`.) -/
def SysState.exec (s : SysState) (pid : Nat) (c : Call) : String × SysState :=
  match s.processes.get pid with
  | none => ("nopid", s)
  | some p => ((c.run p).1, { s with processes := s.processes.put pid (c.run p).2 })

/-- `VirtualSystem::run_in_child_process`: the child's pid is the largest pid + 1 (2 in an empty table), its
    entry is `Process::fork_from(self.process_id, parent)`, inserted into the table. -/
def SysState.fork (copied : List (String × String)) (s : SysState) (pid : Nat) : String × SysState :=
  match s.processes.get pid with
  | none => ("nopid", s)
  | some p =>
    let child := match s.processes.maxPid with
      | none => 2
      | some m => m + 1
    (s!"pid{child}", { s with processes := s.processes.put child (Proc.forkFrom copied pid p) })

def SysState.step (copied : List (String × String)) (s : SysState) (pid : Nat) : XOp → String × SysState
  | .call c => s.exec pid c
  | .fork => s.fork copied pid

/-- a whole schedule: any interleaving of the calls of any number of processes -/
def SysState.run (copied : List (String × String)) (s : SysState) (sched : List (Nat × XOp)) : SysState :=
  sched.foldl (fun st x => (st.step copied x.1 x.2).2) s

/-- the system the harness starts from (`VirtualSystem::new`): one process, pid 2, child of pid 1 -/
def initialSys : SysState := { processes := [(2, baseEnv.system)] }

/-! ## Observation of an `X:` case: the result of every call and the WHOLE table after it -/

def showBlocked (p : Proc) : String :=
  ",".intercalate (((trackedConds.filter (·.2 ≠ 0)).filter (fun c => p.sys.blocked c.2)).map (·.1))

def showProcEntry (kv : Nat × Proc) : String :=
  s!"{kv.1}({kv.2.ppid})" ++ "{" ++ s!"{showSys kv.2} l={showLimit kv.2.nofile} b={showBlocked kv.2}" ++ "}"

def showTable (s : SysState) : String := " ".intercalate (s.processes.map showProcEntry)

/-- results and tables after every step, in order -/
def xTrace (copied : List (String × String)) : SysState → List (Nat × XOp) → List String
  | _, [] => []
  | s, x :: rest =>
    let r := s.step copied x.1 x.2
    (r.1 ++ " " ++ showTable r.2) :: xTrace copied r.2 rest

def xObservation (copied : List (String × String)) (sched : List (Nat × XOp)) : String :=
  " / ".intercalate (("start " ++ showTable initialSys) :: xTrace copied initialSys sched)

end YashModel.Fork
