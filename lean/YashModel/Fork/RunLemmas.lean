/-
  C08 — helper lemmas about whole runs: the run depends on the copy list only through `Proc.forkFrom`; the
  freshness of job identities is kept by every mutator.
-/
import YashModel.Fork.Lemmas
import YashModel.Fork.RedirLemmas
namespace YashModel.Fork

theorem entryEnv_congr (c1 c2 : List (String × String)) (h : Proc.forkFrom c1 = Proc.forkFrom c2) (k : Kind)
    (jc : Bool) (env : Env) : entryEnv c1 k jc env = entryEnv c2 k jc env := by
  unfold entryEnv forkedCopy
  simp only [h]

theorem runKind_congr (c1 c2 : List (String × String)) (h : Proc.forkFrom c1 = Proc.forkFrom c2) (k : Kind)
    (sh : Shell) (body : Shell → Shell) (during : List Op) :
    runKind c1 k sh body during = runKind c2 k sh body during := by
  unfold runKind
  simp only [startKind_parent, childShell, startKind_child, entryEnv_congr c1 c2 h]


/-- the identities in a job table are fresh: every listed job was numbered before the counter -/
def JobsFresh (j : Jobs) : Prop := ∀ e ∈ j.list, e.2.1 < j.next

theorem jobsFresh_add (j : Jobs) (h : JobsFresh j) : JobsFresh j.add := by
  intro e he
  simp only [Jobs.add, List.mem_append, List.mem_singleton] at he
  rcases he with he | he
  · have := h e he; show e.2.1 < j.next + 1; omega
  · subst he; show j.next < j.next + 1; omega

theorem jobsFresh_disownAll (j : Jobs) (h : JobsFresh j) : JobsFresh j.disownAll := by
  intro e he
  simp only [Jobs.disownAll, List.mem_map] at he
  obtain ⟨x, hx, rfl⟩ := he
  exact h x hx

theorem jobsFresh_removeLast (j : Jobs) (h : JobsFresh j) : JobsFresh j.removeLast := by
  unfold Jobs.removeLast
  cases j.last with
  | none => exact h
  | some u =>
    intro e he
    simp only [List.mem_filter] at he
    exact h e he.1

theorem applyOpCore_jobsFresh (sh : Shell) (op : Op) (h : JobsFresh sh.env.jobs) :
    JobsFresh (applyOpCore sh op).env.jobs := by
  cases op with
  | bg => exact jobsFresh_add _ h
  | optOn o =>
    unfold applyOpCore; simp only []
    split
    · exact h
    · show JobsFresh (monitorChanged o _).jobs
      rw [monitorChanged_jobs]; exact h
  | optOff o =>
    unfold applyOpCore; simp only []
    split
    · exact h
    · show JobsFresh (monitorChanged o _).jobs
      rw [monitorChanged_jobs]; exact h
  | cd d =>
    unfold applyOpCore; simp only []
    split <;> exact h
  | fdw n f => show JobsFresh (redirOp sh n (.file f)).env.jobs; rw [redirOp_env]; exact h
  | fdr n => show JobsFresh (redirOp sh n (.file "oin")).env.jobs; rw [redirOp_env]; exact h
  | fdd n m => show JobsFresh (redirOp sh n (.copy m)).env.jobs; rw [redirOp_env]; exact h
  | fdc n => show JobsFresh (redirOp sh n .close).env.jobs; rw [redirOp_env]; exact h
  | shift => unfold applyOpCore; simp only []; split <;> exact h
  | pl => unfold applyOpCore; simp only []; split <;> exact h
  | cs => unfold applyOpCore; simp only []; split <;> exact h
  | hd => unfold applyOpCore; simp only []; split <;> exact h
  | raise sig =>
    unfold applyOpCore; simp only []
    split
    · exact h
    · split
      · split <;> exact h
      · exact h
      · split <;> exact h
  | _ => exact h

theorem applyOp_jobsFresh (sh : Shell) (op : Op) (h : JobsFresh sh.env.jobs) : JobsFresh (applyOp sh op).env.jobs := by
  have hc := applyOpCore_jobsFresh sh op h
  unfold applyOp
  split
  · exact h
  · simp only []
    split
    · exact hc
    · split
      · exact hc
      · split <;> exact hc

theorem applyOps_jobsFresh (ops : List Op) : ∀ sh : Shell, JobsFresh sh.env.jobs → JobsFresh (applyOps sh ops).env.jobs := by
  induction ops with
  | nil => intro sh h; exact h
  | cons op rest ih => intro sh h; exact ih _ (applyOp_jobsFresh sh op h)


end YashModel.Fork
