/-
  C08 — the fork machinery at the level of field *names*, over the maps the translator regenerates from
  `yash-env/src/fork.rs`, `yash-env/src/lib.rs` and `yash-env/src/system/virtual/process.rs` on every run
  (`Generated/ForkMaps.lean`).  Definitions and the generic semantics of a map; the property theorems about
  the generated tables are in `Theorems.lean`.
-/
import YashModel.Generated.ForkMaps
namespace YashModel.Fork
open YashModel.Generated.ForkMaps

/-- the source recorded for destination `d` (first entry) -/
def srcOf (m : List (String × String)) (d : String) : Option String := (m.find? (·.1 == d)).map (·.2)

/-- `extract_from_env` as (state field, env field) pairs -/
def extractPairs : List (String × String) := extractMap.map fun t => (t.1, t.2.1)

/-- is env field `f` moved out (`std::mem::take`) by `extract_from_env`? -/
def isTaken (f : String) : Bool := extractMap.any fun t => t.2.1 == f && t.2.2

/-- env field `f` after `restore_into_env ∘ extract_from_env` holds the old value of which env field? -/
def roundTrip (f : String) : Option String := (srcOf restoreMap f).bind (srcOf extractPairs)

/-- field `f` of the child's `Env` (`into_env_with_system ∘ clone ∘ extract_from_env`) holds the value of which
    field of the parent's `Env` (`@system` = the child's own system handle)? -/
def childSource (f : String) : Option String :=
  (srcOf intoEnvMap f).bind fun s =>
    if s = "@system" then some "@system" else (srcOf stateCloneMap s).bind (srcOf extractPairs)

/-- the state fields of `Env` (everything but the system handle) -/
def envStateFields : List String := envFields.filter (· ≠ "system")

/-- one field is handled correctly by extract/restore: restored from the state field it was taken into, or
    (not mentioned by `restore_into_env`) never moved out -/
def roundTripOK (f : String) : Bool :=
  match srcOf restoreMap f with
  | some s => srcOf extractPairs s == some f
  | none => !isTaken f

/-! ### Generic semantics: an environment is any assignment of values to field names -/

/-- `extract_from_env` on an arbitrary assignment: the extracted state and what is left in `env`
    (`dflt` = `Default::default()` of the moved-out fields) -/
def extractF {V : Type} (env dflt : String → V) : (String → V) × (String → V) :=
  (fun s => match srcOf extractPairs s with
     | some f => env f
     | none => dflt s,
   fun f => if isTaken f then dflt f else env f)

/-- `restore_into_env` -/
def restoreF {V : Type} (state residue : String → V) : String → V :=
  fun f => match srcOf restoreMap f with
    | some s => state s
    | none => residue f

end YashModel.Fork
