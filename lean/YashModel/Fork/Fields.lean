/-
  C08 — the fork machinery at the level of field *names*, over the maps the translator regenerates from
  `yash-env/src/fork.rs`, `yash-env/src/lib.rs` and `yash-env/src/system/virtual/process.rs` on every run
  (`Generated/ForkMaps.lean`).  Definitions and the generic semantics of a map; the property theorems about
  the generated tables are in `Theorems.lean`.
-/
import YashModel.Generated.ForkMaps
namespace YashModel.Fork
open YashModel.Generated.ForkMaps

/-- the source recorded for destination `d` (first entry) -/
def srcOf (m : List (String × String)) (d : String) : Option String := (m.find? (·.1 == d)).map (·.2)

/-- `extract_from_env` as (state field, env field) pairs -/
def extractPairs : List (String × String) := extractMap.map fun t => (t.1, t.2.1)

/-- is env field `f` moved out (`std::mem::take`) by `extract_from_env`? -/
def isTaken (f : String) : Bool := extractMap.any fun t => t.2.1 == f && t.2.2

/-- env field `f` after `restore_into_env ∘ extract_from_env` holds the old value of which env field? -/
def roundTrip (f : String) : Option String := (srcOf restoreMap f).bind (srcOf extractPairs)

/-- field `f` of the child's `Env` (`into_env_with_system ∘ clone ∘ extract_from_env`) holds the value of which
    field of the parent's `Env` (`@system` = the child's own system handle)? -/
def childSource (f : String) : Option String :=
  (srcOf intoEnvMap f).bind fun s =>
    if s = "@system" then some "@system" else (srcOf stateCloneMap s).bind (srcOf extractPairs)

/-- the state fields of `Env` (everything but the system handle) -/
def envStateFields : List String := envFields.filter (· ≠ "system")

/-- one field is handled correctly by extract/restore: restored from the state field it was taken into, or
    (not mentioned by `restore_into_env`) never moved out -/
def roundTripOK (f : String) : Bool :=
  match srcOf restoreMap f with
  | some s => srcOf extractPairs s == some f
  | none => !isTaken f

/-! ### Generic semantics: an environment is any assignment of values to field names -/

/-- `extract_from_env` on an arbitrary assignment: the extracted state and what is left in `env`
    (`dflt` = `Default::default()` of the moved-out fields) -/
def extractF {V : Type} (env dflt : String → V) : (String → V) × (String → V) :=
  (fun s => match srcOf extractPairs s with
     | some f => env f
     | none => dflt s,
   fun f => if isTaken f then dflt f else env f)

/-- `restore_into_env` -/
def restoreF {V : Type} (state residue : String → V) : String → V :=
  fun f => match srcOf restoreMap f with
    | some s => state s
    | none => residue f

/-! ## classification of the shared-ownership / interior-mutability cells reachable from a cloned field of `Env` -/

/-- What a cell (kind, `Owner.member`, cell type — a row of the generated `interiorCells`) means for a fork that
    clones the field:
    * `immutable`        — `Rc<str>`: shared, no way to write through it;
    * `sharedImmutable`  — `Rc<T>` of a record that is never mutated through the `Rc` (no `Rc::get_mut` / `make_mut`);
                           the cells INSIDE `T` are rows of their own (`Code.value`, `Code.source`, `Function.body`, …);
    * `opaqueImmutable`  — `Rc<dyn FunctionBodyObject<S>>`: the trait offers `execute(&self, …)` only;
    * `clonedOnFork`     — `Box<dyn Data>`: `Data: DynClone`, `Entry` derives `Clone`, so the clone of `DataSet` clones
                           every entry with the stored type's own `Clone`;
    * `sharedMutable`    — `Code.value: RefCell<String>`: really shared between starter and child and really written
                           (by the lexer that reads the input the `Code` belongs to, append-only: `codeValueWriters`);
                           it is the source text kept for error messages, none of the state the property names;
    * `UNCLASSIFIED`     — anything else. -/
def cellClass (e : String × String × String) : String :=
  if e.1 = "Rc" ∧ e.2.2 = "Rc<str>" then "immutable"
  else if e.1 = "Rc" ∧ (e.2.2 = "Rc<Source>" ∨ e.2.2 = "Rc<Alias>" ∨ e.2.2 = "Rc<Function<S>>" ∨ e.2.2 = "Rc<Code>")
    then "sharedImmutable"
  else if (e.1 = "Rc" ∨ e.1 = "dyn") ∧ e.2.1 = "Function.body" ∧ e.2.2 = "Rc<dyn FunctionBodyObject<S>>"
    then "opaqueImmutable"
  else if e.1 = "dyn" ∧ e.2.1 = "Entry.0" ∧ e.2.2 = "Box<dyn Data>" then "clonedOnFork"
  else if e.1 = "RefCell" ∧ e.2.1 = "Code.value" ∧ e.2.2 = "RefCell<String>" then "sharedMutable"
  else "UNCLASSIFIED"

end YashModel.Fork
