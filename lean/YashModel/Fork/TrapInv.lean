/-
  C08 — composition with C11 (Trap): the invariant of the trap area (`Trap.Inv`: the disposition installed in
  the process for every signal is the reference merge of the trap set's entry, the mask is consistent, the map is
  sorted) holds in every shell the modelled programs reach, in every subshell they start, at every depth — so
  that the theorems C11 proves under that invariant about `TrapSet::enter_subshell` (`Trap.subshell_dispositions`,
  `Trap.subshell_vacant`) apply to the child process of every subshell of the C08 model.  Helper lemmas; the
  property theorems are in `Theorems.lean`.
-/
import YashModel.Fork.Lemmas
import YashModel.Fork.RedirLemmas
import YashModel.Trap.Theorems
namespace YashModel.Fork
open YashModel.Trap (Disp Action GrandState)

/-- the trap set and the signal state of the shell's process, as the state of the Trap model -/
def Env.trapState (env : Env) : Trap.State := { sys := env.system.sys, traps := env.traps }

/-- C11's invariant for a shell, `init` being the dispositions the shell inherited at start-up -/
def TrapOK (init : Nat → Disp) (env : Env) : Prop := Trap.Inv init env.trapState

/-- the dispositions the shell of a case inherits -/
def initOf (c : Case) : Nat → Disp :=
  match c.ignored with
  | some s => Trap.upd (fun _ => .default) s .ignore
  | none => fun _ => .default

theorem initOf_ne_catch (c : Case) : ∀ s, initOf c s ≠ .catch := by
  intro s
  unfold initOf
  cases c.ignored with
  | none => simp
  | some k => by_cases h : s = k <;> simp [Trap.upd, h]

theorem trapOK_congr (init : Nat → Disp) (e1 e2 : Env) (h : e2.trapState = e1.trapState)
    (h1 : TrapOK init e1) : TrapOK init e2 := by
  unfold TrapOK; rw [h]; exact h1

/-! ### start -/

theorem startEnv_trapOK (c : Case) : TrapOK (initOf c) (startEnv c) := by
  have hinit := initOf_ne_catch c
  have hI := fun st k d h => Trap.inv_setInternal (initOf c) hinit st k d h
  have h0 : Trap.Inv (initOf c) (Trap.State.init (initOf c)) := Trap.inv_init_state _ hinit
  obtain ⟨pro, kinds, mid, child, during, tty, internal, ignored, quiet, first⟩ := c
  cases ignored with
  | none =>
    cases internal with
    | false => exact h0
    | true => exact hI _ _ _ (hI _ _ _ (hI _ _ _ (hI _ _ _ (hI _ _ _ (hI _ _ _ h0)))))
  | some s =>
    cases internal with
    | false => exact h0
    | true => exact hI _ _ _ (hI _ _ _ (hI _ _ _ (hI _ _ _ (hI _ _ _ (hI _ _ _ h0)))))

/-! ### every step of a program keeps it -/

theorem getTty_trapState (env : Env) : (getTty env).trapState = env.trapState := by
  unfold Env.trapState
  rw [getTty_traps, (getTty_is_own_calls' env).2.2.2.1]

theorem monitorChanged_trapOK (init : Nat → Disp) (hinit : ∀ s, init s ≠ .catch) (o : String) (env : Env)
    (h : TrapOK init env) : TrapOK init (monitorChanged o env) := by
  have hI := fun st k d h => Trap.inv_setInternal init hinit st k d h
  unfold monitorChanged
  split
  · exact h
  · simp only []
    have h2 : Trap.Inv init (if env.options.contains "interactive" && env.options.contains "monitor"
        then Trap.enableStoppers env.trapState else Trap.disableStoppers env.trapState) := by
      split
      · exact hI _ _ _ (hI _ _ _ (hI _ _ _ h))
      · exact hI _ _ _ (hI _ _ _ (hI _ _ _ h))
    split
    · exact trapOK_congr init _ _ (getTty_trapState _) h2
    · exact h2

theorem trapSet_trapOK (init : Nat → Disp) (hinit : ∀ s, init s ≠ .catch) (env : Env) (c : Nat) (a : TrapAct)
    (h : TrapOK init env) : TrapOK init (trapSet env c a) := by
  unfold trapSet
  exact Trap.inv_setAction init hinit env.trapState c _ 0 _ h

theorem setVar_trapState (env : Env) (n : String) (f : Option Var → Var) :
    (setVar env n f).trapState = env.trapState := rfl

theorem applyOpCore_trapOK (init : Nat → Disp) (hinit : ∀ s, init s ≠ .catch) (sh : Shell) (op : Op)
    (h : TrapOK init sh.env) : TrapOK init (applyOpCore sh op).env := by
  cases op with
  | optOn o =>
    unfold applyOpCore; simp only []
    split
    · exact h
    · exact monitorChanged_trapOK init hinit o _ h
  | optOff o =>
    unfold applyOpCore; simp only []
    split
    · exact h
    · exact monitorChanged_trapOK init hinit o _ h
  | trap c a => exact trapSet_trapOK init hinit sh.env c a h
  | cd d =>
    unfold applyOpCore; simp only []
    split
    · refine trapOK_congr init sh.env _ ?_ h
      simp only [Env.trapState, setVar, (chdir_same _ _).2.2.1]
    · exact h
  | fdw n f =>
    show TrapOK init (redirOp sh n (.file f)).env
    rw [redirOp_env]
    refine trapOK_congr init sh.env _ ?_ h
    simp only [Env.trapState, (execRedir_same _ _ _).2.2.1]
  | fdr n =>
    show TrapOK init (redirOp sh n (.file "oin")).env
    rw [redirOp_env]
    refine trapOK_congr init sh.env _ ?_ h
    simp only [Env.trapState, (execRedir_same _ _ _).2.2.1]
  | fdd n m =>
    show TrapOK init (redirOp sh n (.copy m)).env
    rw [redirOp_env]
    refine trapOK_congr init sh.env _ ?_ h
    simp only [Env.trapState, (execRedir_same _ _ _).2.2.1]
  | fdc n =>
    show TrapOK init (redirOp sh n .close).env
    rw [redirOp_env]
    refine trapOK_congr init sh.env _ ?_ h
    simp only [Env.trapState, (execRedir_same _ _ _).2.2.1]
  | shift => unfold applyOpCore; simp only []; split <;> exact h
  | pl => unfold applyOpCore; simp only []; split <;> exact h
  | cs => unfold applyOpCore; simp only []; split <;> exact h
  | hd => unfold applyOpCore; simp only []; split <;> exact h
  | raise sig =>
    unfold applyOpCore; simp only []
    split
    · exact h
    · split
      · split <;> exact h
      · exact h
      · split <;> exact h
  | _ => exact h

theorem exitShell_env (sh : Shell) (st : Nat) : (exitShell sh st).env = sh.env := rfl

theorem applyOp_trapOK (init : Nat → Disp) (hinit : ∀ s, init s ≠ .catch) (sh : Shell) (op : Op)
    (h : TrapOK init sh.env) : TrapOK init (applyOp sh op).env := by
  have hc := applyOpCore_trapOK init hinit sh op h
  unfold applyOp
  split
  · exact h
  · simp only []
    split
    · exact hc
    · split
      · rw [exitShell_env]; exact hc
      · split
        · rw [exitShell_env]; exact hc
        · exact hc

theorem applyOps_trapOK (init : Nat → Disp) (hinit : ∀ s, init s ≠ .catch) (ops : List Op) :
    ∀ sh : Shell, TrapOK init sh.env → TrapOK init (applyOps sh ops).env := by
  induction ops with
  | nil => intro sh h; exact h
  | cons op rest ih =>
    intro sh h
    exact ih _ (applyOp_trapOK init hinit sh op h)

theorem peekFold_inv (init : Nat → Disp) (hinit : ∀ s, init s ≠ .catch) (cs : List (String × Nat)) :
    ∀ st : Trap.State, Trap.Inv init st →
      Trap.Inv init (cs.foldl (fun (st : Trap.State) c => (Trap.peekState st c.2).1) st) := by
  induction cs with
  | nil => intro st h; exact h
  | cons c rest ih => intro st h; exact ih _ (Trap.inv_peek init hinit st c.2 h)

theorem peekAll_trapOK (init : Nat → Disp) (hinit : ∀ s, init s ≠ .catch) (env : Env) (h : TrapOK init env) :
    TrapOK init (peekAll env) := by
  unfold peekAll
  exact peekFold_inv init hinit trackedConds env.trapState h

theorem snapshotT_trapOK (init : Nat → Disp) (hinit : ∀ s, init s ≠ .catch) (w : Bool) (sh : Shell) (tag : String)
    (h : TrapOK init sh.env) : TrapOK init (snapshotT w sh tag).env := by
  unfold snapshotT
  split
  · exact h
  · split
    · exact peekAll_trapOK init hinit _ h
    · exact h

theorem runExitTrap_env (sh : Shell) : (runExitTrap sh).env = sh.env := by
  unfold runExitTrap
  split
  · rfl
  · split <;> rfl

/-! ### fork and entry -/

theorem forkFrom_impl_sys (ppid : Nat) (p : Proc) : (Proc.forkFrom implCopied ppid p).sys = p.sys := by
  have h2 : isCopied implCopied "dispositions" = true := by decide
  have h3 : isCopied implCopied "blocked_signals" = true := by decide
  simp [Proc.forkFrom, h2, h3]

theorem forkedCopy_trapState (env : Env) : (forkedCopy implCopied env).trapState = env.trapState := by
  unfold forkedCopy Env.trapState
  simp [forkFrom_impl_sys]

theorem subshellEntry_trapState (ii ks : Bool) (env : Env) :
    (subshellEntry ii ks env).trapState = Trap.enterSubshell env.trapState ii ks := rfl

theorem subshellEntry_trapOK (init : Nat → Disp) (ii ks : Bool) (env : Env) (h : TrapOK init env) :
    TrapOK init (subshellEntry ii ks env) := by
  unfold TrapOK
  rw [subshellEntry_trapState]
  exact Trap.inv_enterSubshell init _ ii ks h

theorem forkedCopy_trapOK (init : Nat → Disp) (env : Env) (h : TrapOK init env) :
    TrapOK init (forkedCopy implCopied env) :=
  trapOK_congr init env _ (forkedCopy_trapState env) h

theorem entryEnv_trapOK (init : Nat → Disp) (k : Kind) (jc : Bool) (env : Env) (h : TrapOK init env) :
    TrapOK init (entryEnv implCopied k jc env) := by
  have one := fun ii ks e (he : TrapOK init e) =>
    subshellEntry_trapOK init ii ks _ (forkedCopy_trapOK init e he)
  cases k <;> cases jc <;>
    simp only [entryEnv, Bool.not_true, Bool.not_false, if_true, Bool.false_eq_true, if_false] <;>
    first | exact one _ _ _ (one _ _ _ h) | exact one _ _ _ h

theorem plumb_trapState (k : Kind) (jc : Bool) (env : Env) : (plumb k jc env).trapState = env.trapState := by
  cases k <;> cases jc <;> rfl

theorem parentSide_trapOK (init : Nat → Disp) (hinit : ∀ s, init s ≠ .catch) (k : Kind) (env : Env)
    (during : List Op) (h : TrapOK init env) : TrapOK init (parentSide k env during).env := by
  by_cases hk : k = .async
  · subst hk
    have h1 : TrapOK init ({ env with jobs := env.jobs.add } : Env) := h
    have h2 := applyOps_trapOK init hinit during { env := { env with jobs := env.jobs.add } } h1
    exact h2
  · have e : parentSide k env during = { env := env } := by
      cases k <;> first | exact absurd rfl hk | rfl
    rw [e]; exact h

/-! ### what `enter_subshell` leaves in the PROCESS, from C11's theorems -/

/-- no handler survives: after the child prologue no signal except SIGCHLD has the `Catch` disposition -/
theorem entry_no_handler (init : Nat → Disp) (hinit : ∀ s, init s ≠ .catch) (ii ks : Bool) (env : Env)
    (h : TrapOK init env) (s : Nat) (hs0 : s ≠ 0) (hchld : s ≠ Trap.SIGCHLD) :
    (subshellEntry ii ks env).system.sys.disp s ≠ .catch := by
  have hsys : (subshellEntry ii ks env).system.sys = (Trap.enterSubshell env.trapState ii ks).sys := rfl
  rw [hsys]
  cases hg : Trap.get env.trapState.traps s with
  | some g =>
    obtain ⟨g', _, _, _, _, hd⟩ := Trap.subshell_dispositions init env.trapState h ii ks s hs0 g hg
    rw [hd]
    have hopt : Trap.subshellOption s g ii ks ≠ .keep := by
      unfold Trap.subshellOption
      simp only [hs0, hchld, if_false]
      split
      · simp
      · split <;> simp
    cases ho : Trap.subshellOption s g ii ks with
    | keep => exact absurd ho hopt
    | ignore => simp
    | clear => cases ha : g.current.action <;> simp [Trap.resetAction, Action.toDisp]
  | none =>
    have hv := Trap.subshell_vacant init env.trapState h ii ks s hs0 hg
    by_cases hc : ii = true ∧ (s = Trap.SIGINT ∨ s = Trap.SIGQUIT)
    · rw [hv.1 hc]; simp
    · rw [(hv.2 hc).2]
      have := h.disp s hs0
      rw [hg, Trap.expected_none] at this
      rw [this]; exact hinit s

/-- ignored stays ignored, in the process too -/
theorem entry_ignored_stays (init : Nat → Disp) (ii ks : Bool) (env : Env)
    (h : TrapOK init env) (s : Nat) (hs0 : s ≠ 0) (hchld : s ≠ Trap.SIGCHLD) (g : GrandState)
    (hg : Trap.get env.traps s = some g) (ha : g.current.action = .ignore) :
    (subshellEntry ii ks env).system.sys.disp s = .ignore := by
  have hsys : (subshellEntry ii ks env).system.sys = (Trap.enterSubshell env.trapState ii ks).sys := rfl
  rw [hsys]
  obtain ⟨g', _, _, _, _, hd⟩ := Trap.subshell_dispositions init env.trapState h ii ks s hs0 g hg
  rw [hd]
  have hopt : Trap.subshellOption s g ii ks ≠ .keep := by
    unfold Trap.subshellOption
    simp only [hs0, hchld, if_false]
    split
    · simp
    · split <;> simp
  cases ho : Trap.subshellOption s g ii ks with
  | keep => exact absurd ho hopt
  | ignore => rfl
  | clear => simp [ha, Trap.resetAction, Action.toDisp]

/-- a command trap is reset to the default disposition (unless the entry ignores the signal: INT/QUIT of an
    asynchronous list, the stop signals of a job-control shell) -/
theorem entry_command_default (init : Nat → Disp) (ii ks : Bool) (env : Env)
    (h : TrapOK init env) (s : Nat) (hs0 : s ≠ 0) (g : GrandState) (n : Nat)
    (hg : Trap.get env.traps s = some g) (ha : g.current.action = .command n)
    (hopt : Trap.subshellOption s g ii ks = .clear) :
    (subshellEntry ii ks env).system.sys.disp s = .default := by
  have hsys : (subshellEntry ii ks env).system.sys = (Trap.enterSubshell env.trapState ii ks).sys := rfl
  rw [hsys]
  obtain ⟨g', _, _, _, _, hd⟩ := Trap.subshell_dispositions init env.trapState h ii ks s hs0 g hg
  rw [hd, hopt]
  simp [ha, Trap.resetAction, Action.toDisp]

end YashModel.Fork
