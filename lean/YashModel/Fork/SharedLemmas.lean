/-
  C08 — helper lemmas about the shared process table (`Fork/Shared.lean`) and its Spec (`Fork/Spec.lean`).
-/
import YashModel.Fork.Shared
import YashModel.Fork.Spec
namespace YashModel.Fork

/-! ### the table -/

theorem ProcTable.get_put (t : ProcTable) (k q : Nat) (v : Proc) :
    (t.put k v).get q = if q = k then some v else t.get q := by
  induction t with
  | nil => simp [ProcTable.put, ProcTable.get]
  | cons hd tl ih =>
    obtain ⟨k', v'⟩ := hd
    unfold ProcTable.put
    by_cases h1 : k = k'
    · subst h1
      by_cases hq : q = k <;> simp [ProcTable.get, hq]
    · by_cases h2 : k < k'
      · by_cases hq : q = k
        · simp [ProcTable.get, h1, h2, hq]
        · simp [ProcTable.get, h1, h2, hq]
      · simp only [h1, h2, if_false]
        by_cases hq' : q = k'
        · subst hq'
          have : ¬ q = k := fun h => h1 h.symm
          simp [ProcTable.get, this]
        · simp [ProcTable.get, hq', ih]

/-- every pid of the table is at most `maxPid` -/
theorem ProcTable.le_maxPid (t : ProcTable) (k : Nat) (v : Proc) (h : t.get k = some v) :
    ∃ m, t.maxPid = some m ∧ k ≤ m := by
  induction t with
  | nil => simp [ProcTable.get] at h
  | cons hd tl ih =>
    obtain ⟨k', v'⟩ := hd
    unfold ProcTable.maxPid
    by_cases hk : k = k'
    · subst hk
      cases hm : ProcTable.maxPid tl with
      | none => exact ⟨k, rfl, Nat.le_refl _⟩
      | some m =>
        by_cases hle : k ≤ m
        · exact ⟨m, by simp [hle], hle⟩
        · exact ⟨k, by simp [hle], Nat.le_refl _⟩
    · simp only [ProcTable.get, hk, if_false] at h
      obtain ⟨m, hm, hkm⟩ := ih h
      rw [hm]
      by_cases hle : k' ≤ m
      · exact ⟨m, by simp [hle], hkm⟩
      · exact ⟨k', by simp [hle], by omega⟩

/-- `maxPid` is itself a pid of the table -/
theorem ProcTable.maxPid_mem (t : ProcTable) (m : Nat) (h : t.maxPid = some m) : (t.get m).isSome = true := by
  induction t generalizing m with
  | nil => simp [ProcTable.maxPid] at h
  | cons hd tl ih =>
    obtain ⟨k', v'⟩ := hd
    unfold ProcTable.maxPid at h
    cases hm : ProcTable.maxPid tl with
    | none =>
      simp only [hm, Option.some.injEq] at h
      subst h; simp [ProcTable.get]
    | some m' =>
      simp only [hm, Option.some.injEq] at h
      by_cases hle : k' ≤ m'
      · simp only [hle, if_true] at h
        subst h
        by_cases hk : m' = k'
        · simp [ProcTable.get, hk]
        · simp only [ProcTable.get, hk, if_false]; exact ih m' hm
      · simp only [hle, if_false] at h
        subst h; simp [ProcTable.get]

/-- the pid `run_in_child_process` hands out is not in the table -/
theorem ProcTable.get_succ_maxPid (t : ProcTable) (m : Nat) (h : t.maxPid = some m) : t.get (m + 1) = none := by
  cases hg : t.get (m + 1) with
  | none => rfl
  | some v =>
    obtain ⟨m', hm', hle⟩ := ProcTable.le_maxPid t (m + 1) v hg
    rw [h] at hm'; cases hm'; omega

/-! ### calls and forks on the shared state -/

theorem exec_get (s : SysState) (pid q : Nat) (c : Call) :
    (s.exec pid c).2.processes.get q
      = if q = pid then (s.processes.get pid).map (fun p => (c.run p).2) else s.processes.get q := by
  unfold SysState.exec
  cases h : s.processes.get pid with
  | none => by_cases hq : q = pid <;> simp [hq, h]
  | some p => simp [ProcTable.get_put]

/-- the pid the next fork hands out -/
def SysState.nextPid (s : SysState) : Nat :=
  match s.processes.maxPid with
  | none => 2
  | some m => m + 1

theorem nextPid_fresh (s : SysState) : s.processes.get s.nextPid = none := by
  unfold SysState.nextPid
  cases h : s.processes.maxPid with
  | none =>
    cases hg : s.processes.get 2 with
    | none => rfl
    | some v =>
      obtain ⟨m, hm, _⟩ := ProcTable.le_maxPid _ _ _ hg
      rw [h] at hm; cases hm
  | some m => exact ProcTable.get_succ_maxPid _ _ h

theorem fork_get (copied : List (String × String)) (s : SysState) (pid q : Nat) :
    (s.fork copied pid).2.processes.get q
      = match s.processes.get pid with
        | none => s.processes.get q
        | some p => if q = s.nextPid then some (Proc.forkFrom copied pid p) else s.processes.get q := by
  unfold SysState.fork SysState.nextPid
  cases h : s.processes.get pid with
  | none => rfl
  | some p => exact ProcTable.get_put _ _ _ _

theorem fork_result (copied : List (String × String)) (s : SysState) (pid : Nat) :
    (s.fork copied pid).1
      = match s.processes.get pid with
        | none => "nopid"
        | some _ => s!"pid{s.nextPid}" := by
  unfold SysState.fork SysState.nextPid
  cases h : s.processes.get pid <;> rfl

/-! ### the run of a schedule against the Spec -/

theorem run_append (copied : List (String × String)) (s : SysState) (a b : List (Nat × XOp)) :
    s.run copied (a ++ b) = (s.run copied a).run copied b := by
  simp [SysState.run, List.foldl_append]

theorem run_snoc (copied : List (String × String)) (s : SysState) (a : List (Nat × XOp)) (x : Nat × XOp) :
    s.run copied (a ++ [x]) = ((s.run copied a).step copied x.1 x.2).2 := by
  rw [run_append]; rfl

/-- What the run from `initialSys` keeps true, for the history `h` (latest step first):
    the pids are exactly `2 … 2 + specCount h` and every entry is the Spec's. -/
structure Matches (copied : List (String × String)) (s : SysState) (h : List (Nat × XOp)) : Prop where
  entries : ∀ q, s.processes.get q = specProc copied h q
  pids : ∀ q, (s.processes.get q).isSome = true ↔ (2 ≤ q ∧ q ≤ 2 + specCount h)

theorem Matches.nextPid {copied : List (String × String)} {s : SysState} {h : List (Nat × XOp)}
    (m : Matches copied s h) : s.nextPid = 3 + specCount h := by
  have hfresh := nextPid_fresh s
  unfold SysState.nextPid at hfresh ⊢
  cases hm : s.processes.maxPid with
  | none =>
    -- impossible: pid 2 exists
    have h2 : (s.processes.get 2).isSome = true := (m.pids 2).mpr ⟨Nat.le_refl _, by omega⟩
    cases hg : s.processes.get 2 with
    | none => rw [hg] at h2; cases h2
    | some v =>
      obtain ⟨m', hm', _⟩ := ProcTable.le_maxPid _ _ _ hg
      rw [hm] at hm'; cases hm'
  | some mx =>
    simp only []
    have hmem := ProcTable.maxPid_mem _ _ hm
    have hle := ((m.pids mx).mp hmem).2
    have htop : (s.processes.get (2 + specCount h)).isSome = true :=
      (m.pids _).mpr ⟨by omega, Nat.le_refl _⟩
    cases hg : s.processes.get (2 + specCount h) with
    | none => rw [hg] at htop; cases htop
    | some v =>
      obtain ⟨m', hm', hge⟩ := ProcTable.le_maxPid _ _ _ hg
      rw [hm] at hm'; cases hm'
      omega

theorem matches_initial (copied : List (String × String)) : Matches copied initialSys [] := by
  constructor
  · intro q
    by_cases hq : q = 2
    · subst hq; rfl
    · simp [initialSys, ProcTable.get, specProc, hq]
  · intro q
    by_cases hq : q = 2
    · subst hq; simp [initialSys, ProcTable.get, specCount]
    · simp only [initialSys, ProcTable.get, hq, if_false, specCount]
      constructor
      · intro h; cases h
      · intro h; omega

theorem matches_step (copied : List (String × String)) (s : SysState) (h : List (Nat × XOp))
    (m : Matches copied s h) (x : Nat × XOp) : Matches copied (s.step copied x.1 x.2).2 (x :: h) := by
  obtain ⟨p, op⟩ := x
  cases op with
  | call c =>
    constructor
    · intro q
      show (s.exec p c).2.processes.get q = _
      rw [exec_get]
      simp only [specProc]
      by_cases hq : q = p
      · subst hq; simp [m.entries]
      · have : ¬ p = q := fun e => hq e.symm
        simp [hq, this, m.entries]
    · intro q
      show ((s.exec p c).2.processes.get q).isSome = true ↔ _
      rw [exec_get]
      simp only [specCount]
      by_cases hq : q = p
      · subst hq
        rw [← m.pids q]
        simp
      · simp only [hq, if_false]; exact m.pids q
  | fork =>
    have hnext := m.nextPid
    have hex : (s.processes.get p).isSome = true ↔ (2 ≤ p ∧ p ≤ 2 + specCount h) := m.pids p
    constructor
    · intro q
      show (s.fork copied p).2.processes.get q = _
      rw [fork_get]
      simp only [specProc]
      cases hp : s.processes.get p with
      | none =>
        have hno : ¬ (2 ≤ p ∧ p ≤ 2 + specCount h) := by
          intro hc; have := hex.mpr hc; rw [hp] at this; cases this
        simp only []
        rw [if_neg (fun hc => hno hc.2), m.entries]
      | some v =>
        have hyes : 2 ≤ p ∧ p ≤ 2 + specCount h := hex.mp (by rw [hp]; rfl)
        simp only [hnext]
        by_cases hq : q = 3 + specCount h
        · rw [if_pos hq, if_pos ⟨hq, hyes⟩, ← m.entries, hp]; rfl
        · rw [if_neg hq, if_neg (fun hc => hq hc.1), m.entries]
    · intro q
      show ((s.fork copied p).2.processes.get q).isSome = true ↔ _
      rw [fork_get]
      simp only [specCount]
      cases hp : s.processes.get p with
      | none =>
        have hno : ¬ (2 ≤ p ∧ p ≤ 2 + specCount h) := by
          intro hc; have := hex.mpr hc; rw [hp] at this; cases this
        simp only [if_neg hno]
        exact m.pids q
      | some v =>
        have hyes : 2 ≤ p ∧ p ≤ 2 + specCount h := hex.mp (by rw [hp]; rfl)
        simp only [hnext, if_pos hyes]
        by_cases hq : q = 3 + specCount h
        · simp only [hq, if_true, Option.isSome_some, true_iff]; omega
        · simp only [hq, if_false]
          rw [m.pids q]; omega

theorem matches_run_from (copied : List (String × String)) (sched : List (Nat × XOp)) :
    ∀ (s : SysState) (h : List (Nat × XOp)), Matches copied s h →
      Matches copied (s.run copied sched) (sched.reverse ++ h) := by
  induction sched with
  | nil => intro s h m; exact m
  | cons x rest ih =>
    intro s h m
    have m1 := matches_step copied s h m x
    have m2 := ih _ _ m1
    have e : (x :: rest).reverse ++ h = rest.reverse ++ (x :: h) := by simp
    rw [e]
    exact m2

theorem matches_run (copied : List (String × String)) (sched : List (Nat × XOp)) :
    Matches copied (initialSys.run copied sched) sched.reverse := by
  have := matches_run_from copied sched initialSys [] (matches_initial copied)
  simpa using this

/-! ### own calls only -/

theorem runCalls_append (p : Proc) (a b : List Call) : runCalls p (a ++ b) = runCalls (runCalls p a) b := by
  simp [runCalls, List.foldl_append]

/-! ### two processes -/

/-- a schedule of two processes: `true` = a call of the child, `false` = a call of the parent -/
def schedOf (parent child : Nat) (sched : List (Bool × Call)) : List (Nat × XOp) :=
  sched.map fun x => (if x.1 then child else parent, .call x.2)

theorem run_two (copied : List (String × String)) (parent child : Nat) (hne : parent ≠ child)
    (sched : List (Bool × Call)) :
    ∀ (s : SysState) (a b : Proc), s.processes.get parent = some a → s.processes.get child = some b →
      (s.run copied (schedOf parent child sched)).processes.get parent
          = some (runCalls a ((sched.filter (fun x => !x.1)).map (·.2)))
      ∧ (s.run copied (schedOf parent child sched)).processes.get child
          = some (runCalls b ((sched.filter (fun x => x.1)).map (·.2)))
      ∧ ∀ q, q ≠ parent → q ≠ child →
          (s.run copied (schedOf parent child sched)).processes.get q = s.processes.get q := by
  induction sched with
  | nil => intro s a b ha hb; exact ⟨ha, hb, fun _ _ _ => rfl⟩
  | cons x rest ih =>
    intro s a b ha hb
    obtain ⟨who, c⟩ := x
    cases who with
    | true =>
      have hp : (s.exec child c).2.processes.get parent = some a := by rw [exec_get]; simp [hne, ha]
      have hc : (s.exec child c).2.processes.get child = some (c.run b).2 := by rw [exec_get]; simp [hb]
      obtain ⟨r1, r2, r3⟩ := ih (s.exec child c).2 a (c.run b).2 hp hc
      refine ⟨r1, ?_, ?_⟩
      · simpa [schedOf, SysState.run, SysState.step, runCalls] using r2
      · intro q hq1 hq2
        have := r3 q hq1 hq2
        rw [exec_get] at this
        simpa [schedOf, SysState.run, SysState.step, hq2] using this
    | false =>
      have hne' : child ≠ parent := fun e => hne e.symm
      have hp : (s.exec parent c).2.processes.get parent = some (c.run a).2 := by rw [exec_get]; simp [ha]
      have hc : (s.exec parent c).2.processes.get child = some b := by rw [exec_get]; simp [hne', hb]
      obtain ⟨r1, r2, r3⟩ := ih (s.exec parent c).2 (c.run a).2 b hp hc
      refine ⟨?_, r2, ?_⟩
      · simpa [schedOf, SysState.run, SysState.step, runCalls] using r1
      · intro q hq1 hq2
        have := r3 q hq1 hq2
        rw [exec_get] at this
        simpa [schedOf, SysState.run, SysState.step, hq1] using this


/-! ### the code's fork and the Spec's -/

/-- the process-level fork of the code (generated copy list) IS the Spec's fork, as functions -/
theorem forkFrom_impl_eq_spec' : Proc.forkFrom implCopied = Proc.forkFrom specCopied := by
  funext ppid p
  have a1 : isCopied implCopied "fds" = true := by decide
  have a2 : isCopied implCopied "dispositions" = true := by decide
  have a3 : isCopied implCopied "blocked_signals" = true := by decide
  have a4 : isCopied implCopied "cwd" = true := by decide
  have a5 : isCopied implCopied "umask" = true := by decide
  have a6 : isCopied implCopied "resource_limits" = true := by decide
  have b1 : isCopied specCopied "fds" = true := by decide
  have b2 : isCopied specCopied "dispositions" = true := by decide
  have b3 : isCopied specCopied "blocked_signals" = true := by decide
  have b4 : isCopied specCopied "cwd" = true := by decide
  have b5 : isCopied specCopied "umask" = true := by decide
  have b6 : isCopied specCopied "resource_limits" = true := by decide
  simp [Proc.forkFrom, a1, a2, a3, a4, a5, a6, b1, b2, b3, b4, b5, b6]


theorem specProc_impl_eq_spec (h : List (Nat × XOp)) (q : Nat) : specProc implCopied h q = specProc specCopied h q := by
  induction h generalizing q with
  | nil => rfl
  | cons x rest ih =>
    obtain ⟨p, op⟩ := x
    cases op with
    | call c => simp only [specProc, ih]
    | fork => simp only [specProc, ih, forkFrom_impl_eq_spec']


/-! ### the table as a LIST: sorted by pid, hence determined by its entries -/

/-- `BTreeMap` order: strictly increasing pids -/
def ProcTable.Sorted (t : ProcTable) : Prop := t.Pairwise (fun a b => a.1 < b.1)

theorem ProcTable.get_none_of_lt (t : ProcTable) (q : Nat) (h : ∀ e ∈ t, q < e.1) : t.get q = none := by
  induction t with
  | nil => rfl
  | cons hd tl ih =>
    obtain ⟨k, v⟩ := hd
    have hk : q < k := h (k, v) (by simp)
    have : ¬ q = k := by omega
    simp only [ProcTable.get, this, if_false]
    exact ih (fun e he => h e (by simp [he]))

theorem ProcTable.put_mem (t : ProcTable) (k : Nat) (v : Proc) (e : Nat × Proc) (he : e ∈ t.put k v) :
    e = (k, v) ∨ e ∈ t := by
  induction t with
  | nil => simp [ProcTable.put] at he; exact .inl he
  | cons hd tl ih =>
    obtain ⟨k', v'⟩ := hd
    unfold ProcTable.put at he
    by_cases h1 : k = k'
    · simp only [h1, if_true, List.mem_cons] at he
      rcases he with he | he
      · exact .inl (by rw [he, h1])
      · exact .inr (by simp [he])
    · by_cases h2 : k < k'
      · simp only [h1, h2, if_false, if_true, List.mem_cons] at he
        rcases he with he | he | he
        · exact .inl he
        · exact .inr (by simp [he])
        · exact .inr (by simp [he])
      · simp only [h1, h2, if_false, List.mem_cons] at he
        rcases he with he | he
        · exact .inr (by simp [he])
        · rcases ih he with h | h
          · exact .inl h
          · exact .inr (by simp [h])

theorem ProcTable.put_sorted (t : ProcTable) (k : Nat) (v : Proc) (h : t.Sorted) : (t.put k v).Sorted := by
  induction t with
  | nil => simp [ProcTable.put, ProcTable.Sorted]
  | cons hd tl ih =>
    obtain ⟨k', v'⟩ := hd
    unfold ProcTable.Sorted at h ih ⊢
    rw [List.pairwise_cons] at h
    unfold ProcTable.put
    by_cases h1 : k = k'
    · subst h1
      simp only [if_true]
      exact List.pairwise_cons.mpr ⟨h.1, h.2⟩
    · by_cases h2 : k < k'
      · simp only [h1, h2, if_false, if_true]
        refine List.pairwise_cons.mpr ⟨?_, List.pairwise_cons.mpr h⟩
        intro e he
        simp only [List.mem_cons] at he
        rcases he with he | he
        · rw [he]; exact h2
        · have := h.1 e he; simp only at this ⊢; omega
      · simp only [h1, h2, if_false]
        refine List.pairwise_cons.mpr ⟨?_, ih h.2⟩
        intro e he
        rcases ProcTable.put_mem tl k v e he with he | he
        · rw [he]; simp only; omega
        · exact h.1 e he

theorem run_sorted (copied : List (String × String)) (sched : List (Nat × XOp)) :
    ∀ s : SysState, s.processes.Sorted → (s.run copied sched).processes.Sorted := by
  induction sched with
  | nil => intro s h; exact h
  | cons x rest ih =>
    intro s h
    refine ih _ ?_
    obtain ⟨p, op⟩ := x
    cases op with
    | call c =>
      show (s.exec p c).2.processes.Sorted
      unfold SysState.exec
      cases s.processes.get p with
      | none => exact h
      | some v => exact ProcTable.put_sorted _ _ _ h
    | fork =>
      show (s.fork copied p).2.processes.Sorted
      unfold SysState.fork
      cases s.processes.get p with
      | none => exact h
      | some v => exact ProcTable.put_sorted _ _ _ h

/-- two tables sorted by pid with the same entries are the same list -/
theorem ProcTable.ext_sorted : ∀ (a b : ProcTable), a.Sorted → b.Sorted → (∀ q, a.get q = b.get q) → a = b := by
  intro a
  induction a with
  | nil =>
    intro b _ _ h
    cases b with
    | nil => rfl
    | cons hd tl =>
      obtain ⟨k, v⟩ := hd
      have := h k
      simp [ProcTable.get] at this
  | cons hd tl ih =>
    obtain ⟨k1, v1⟩ := hd
    intro b ha hb h
    cases b with
    | nil =>
      have := h k1
      simp [ProcTable.get] at this
    | cons hd2 tl2 =>
      obtain ⟨k2, v2⟩ := hd2
      unfold ProcTable.Sorted at ha hb
      rw [List.pairwise_cons] at ha hb
      have n1 : ProcTable.get tl k1 = none := ProcTable.get_none_of_lt tl k1 (fun e he => ha.1 e he)
      have n2 : ProcTable.get tl2 k2 = none := ProcTable.get_none_of_lt tl2 k2 (fun e he => hb.1 e he)
      have hk : k1 = k2 := by
        by_cases hlt : k1 < k2
        · have := h k1
          have hne : ¬ k1 = k2 := by omega
          have n3 : ProcTable.get tl2 k1 = none :=
            ProcTable.get_none_of_lt tl2 k1 (fun e he => by have := hb.1 e he; simp only at this; omega)
          simp [ProcTable.get, hne, n3] at this
        · by_cases hgt : k2 < k1
          · have := h k2
            have hne : ¬ k2 = k1 := by omega
            have n3 : ProcTable.get tl k2 = none :=
              ProcTable.get_none_of_lt tl k2 (fun e he => by have := ha.1 e he; simp only at this; omega)
            simp [ProcTable.get, hne, n3] at this
          · omega
      subst hk
      have hv : v1 = v2 := by
        have := h k1
        simpa [ProcTable.get] using this
      subst hv
      have htl : tl = tl2 := by
        refine ih tl2 ha.2 hb.2 (fun q => ?_)
        by_cases hq : q = k1
        · subst hq; rw [n1, n2]
        · have := h q
          simpa [ProcTable.get, hq] using this
      rw [htl]


theorem ProcTable.get_append_single (a : ProcTable) (k q : Nat) (v : Proc) :
    ProcTable.get (a ++ [(k, v)]) q
      = match ProcTable.get a q with
        | some x => some x
        | none => if q = k then some v else none := by
  induction a with
  | nil => simp [ProcTable.get]
  | cons hd tl ih =>
    obtain ⟨k', v'⟩ := hd
    by_cases h : q = k'
    · simp [ProcTable.get, h]
    · simp only [List.cons_append, ProcTable.get, h, if_false]
      exact ih

/-- the table listing `f q` for `q = lo, lo+1, …, lo+n-1` (those that exist) -/
def tabulate (f : Nat → Option Proc) (lo n : Nat) : ProcTable :=
  (List.range n).filterMap fun i => (f (i + lo)).map fun x => (i + lo, x)

theorem tabulate_succ (f : Nat → Option Proc) (lo n : Nat) :
    tabulate f lo (n + 1) = tabulate f lo n ++ (match f (n + lo) with
      | some x => [(n + lo, x)]
      | none => []) := by
  unfold tabulate
  rw [List.range_succ, List.filterMap_append]
  congr 1
  cases hf : f (n + lo) <;> simp [List.filterMap, hf]

theorem tabulate_get (f : Nat → Option Proc) (lo n q : Nat) :
    ProcTable.get (tabulate f lo n) q = if lo ≤ q ∧ q < lo + n then f q else none := by
  induction n with
  | zero =>
    have : ¬ (lo ≤ q ∧ q < lo + 0) := by omega
    rw [if_neg this]
    simp [tabulate, ProcTable.get]
  | succ n ih =>
    rw [tabulate_succ]
    cases hf : f (n + lo) with
    | none =>
      simp only [List.append_nil, ih]
      by_cases hq : q = n + lo
      · subst hq
        have h1 : ¬ (lo ≤ n + lo ∧ n + lo < lo + n) := by omega
        have h2 : lo ≤ n + lo ∧ n + lo < lo + (n + 1) := by omega
        rw [if_neg h1, if_pos h2, hf]
      · have : (lo ≤ q ∧ q < lo + (n + 1)) ↔ (lo ≤ q ∧ q < lo + n) := by omega
        simp only [this]
    | some x =>
      simp only [ProcTable.get_append_single, ih]
      by_cases hq : q = n + lo
      · subst hq
        have h1 : ¬ (lo ≤ n + lo ∧ n + lo < lo + n) := by omega
        have h2 : lo ≤ n + lo ∧ n + lo < lo + (n + 1) := by omega
        rw [if_neg h1, if_pos h2, hf]
        simp
      · have : (lo ≤ q ∧ q < lo + (n + 1)) ↔ (lo ≤ q ∧ q < lo + n) := by omega
        simp only [this, hq, if_false]
        by_cases hr : lo ≤ q ∧ q < lo + n
        · simp only [hr, and_self, if_true]
          cases f q <;> rfl
        · simp [hr]

theorem tabulate_sorted (f : Nat → Option Proc) (lo n : Nat) : (tabulate f lo n).Sorted := by
  unfold tabulate ProcTable.Sorted
  refine List.Pairwise.filterMap _ ?_ (List.pairwise_lt_range (n := n))
  intro a a' haa b hb b' hb'
  simp only [Option.map_eq_some_iff] at hb hb'
  obtain ⟨x, _, rfl⟩ := hb
  obtain ⟨x', _, rfl⟩ := hb'
  simp only
  omega

theorem specTable_eq_tabulate (copied : List (String × String)) (h : List (Nat × XOp)) :
    specTable copied h = tabulate (specProc copied h) 2 (specCount h + 1) := rfl

/-- a state that matches the history IS the Spec's table, as a list -/
theorem Matches.table_eq {copied : List (String × String)} {s : SysState} {h : List (Nat × XOp)}
    (m : Matches copied s h) (hs : s.processes.Sorted) : s.processes = specTable copied h := by
  rw [specTable_eq_tabulate]
  refine ProcTable.ext_sorted _ _ hs (tabulate_sorted _ _ _) (fun q => ?_)
  rw [tabulate_get, m.entries q]
  by_cases hq : 2 ≤ q ∧ q < 2 + (specCount h + 1)
  · simp [hq]
  · simp only [hq, if_false]
    have hno : ¬ (2 ≤ q ∧ q ≤ 2 + specCount h) := by omega
    cases hsp : specProc copied h q with
    | none => rfl
    | some v =>
      have := (m.pids q).mp (by rw [m.entries q, hsp]; rfl)
      exact absurd this hno


end YashModel.Fork
