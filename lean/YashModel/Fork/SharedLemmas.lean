/-
  C08 — helper lemmas about the shared process table (`Fork/Shared.lean`) and its Spec (`Fork/Spec.lean`).
-/
import YashModel.Fork.Shared
import YashModel.Fork.Spec
namespace YashModel.Fork

/-! ### the table -/

theorem ProcTable.get_put (t : ProcTable) (k q : Nat) (v : Proc) :
    (t.put k v).get q = if q = k then some v else t.get q := by
  induction t with
  | nil => simp [ProcTable.put, ProcTable.get]
  | cons hd tl ih =>
    obtain ⟨k', v'⟩ := hd
    unfold ProcTable.put
    by_cases h1 : k = k'
    · subst h1
      by_cases hq : q = k <;> simp [ProcTable.get, hq]
    · by_cases h2 : k < k'
      · by_cases hq : q = k
        · simp [ProcTable.get, h1, h2, hq]
        · simp [ProcTable.get, h1, h2, hq]
      · simp only [h1, h2, if_false]
        by_cases hq' : q = k'
        · subst hq'
          have : ¬ q = k := fun h => h1 h.symm
          simp [ProcTable.get, this]
        · simp [ProcTable.get, hq', ih]

/-- every pid of the table is at most `maxPid` -/
theorem ProcTable.le_maxPid (t : ProcTable) (k : Nat) (v : Proc) (h : t.get k = some v) :
    ∃ m, t.maxPid = some m ∧ k ≤ m := by
  induction t with
  | nil => simp [ProcTable.get] at h
  | cons hd tl ih =>
    obtain ⟨k', v'⟩ := hd
    unfold ProcTable.maxPid
    by_cases hk : k = k'
    · subst hk
      cases hm : ProcTable.maxPid tl with
      | none => exact ⟨k, rfl, Nat.le_refl _⟩
      | some m =>
        by_cases hle : k ≤ m
        · exact ⟨m, by simp [hle], hle⟩
        · exact ⟨k, by simp [hle], Nat.le_refl _⟩
    · simp only [ProcTable.get, hk, if_false] at h
      obtain ⟨m, hm, hkm⟩ := ih h
      rw [hm]
      by_cases hle : k' ≤ m
      · exact ⟨m, by simp [hle], hkm⟩
      · exact ⟨k', by simp [hle], by omega⟩

/-- `maxPid` is itself a pid of the table -/
theorem ProcTable.maxPid_mem (t : ProcTable) (m : Nat) (h : t.maxPid = some m) : (t.get m).isSome = true := by
  induction t generalizing m with
  | nil => simp [ProcTable.maxPid] at h
  | cons hd tl ih =>
    obtain ⟨k', v'⟩ := hd
    unfold ProcTable.maxPid at h
    cases hm : ProcTable.maxPid tl with
    | none =>
      simp only [hm, Option.some.injEq] at h
      subst h; simp [ProcTable.get]
    | some m' =>
      simp only [hm, Option.some.injEq] at h
      by_cases hle : k' ≤ m'
      · simp only [hle, if_true] at h
        subst h
        by_cases hk : m' = k'
        · simp [ProcTable.get, hk]
        · simp only [ProcTable.get, hk, if_false]; exact ih m' hm
      · simp only [hle, if_false] at h
        subst h; simp [ProcTable.get]

/-- the pid `run_in_child_process` hands out is not in the table -/
theorem ProcTable.get_succ_maxPid (t : ProcTable) (m : Nat) (h : t.maxPid = some m) : t.get (m + 1) = none := by
  cases hg : t.get (m + 1) with
  | none => rfl
  | some v =>
    obtain ⟨m', hm', hle⟩ := ProcTable.le_maxPid t (m + 1) v hg
    rw [h] at hm'; cases hm'; omega

/-! ### calls and forks on the shared state -/

theorem exec_get (s : SysState) (pid q : Nat) (c : Call) :
    (s.exec pid c).2.processes.get q
      = if q = pid then (s.processes.get pid).map (fun p => (c.run p).2) else s.processes.get q := by
  unfold SysState.exec
  cases h : s.processes.get pid with
  | none => by_cases hq : q = pid <;> simp [hq, h]
  | some p => simp [ProcTable.get_put]

/-- the pid the next fork hands out -/
def SysState.nextPid (s : SysState) : Nat :=
  match s.processes.maxPid with
  | none => 2
  | some m => m + 1

theorem nextPid_fresh (s : SysState) : s.processes.get s.nextPid = none := by
  unfold SysState.nextPid
  cases h : s.processes.maxPid with
  | none =>
    cases hg : s.processes.get 2 with
    | none => rfl
    | some v =>
      obtain ⟨m, hm, _⟩ := ProcTable.le_maxPid _ _ _ hg
      rw [h] at hm; cases hm
  | some m => exact ProcTable.get_succ_maxPid _ _ h

theorem fork_get (copied : List (String × String)) (s : SysState) (pid q : Nat) :
    (s.fork copied pid).2.processes.get q
      = match s.processes.get pid with
        | none => s.processes.get q
        | some p => if q = s.nextPid then some (Proc.forkFrom copied pid p) else s.processes.get q := by
  unfold SysState.fork SysState.nextPid
  cases h : s.processes.get pid with
  | none => rfl
  | some p => exact ProcTable.get_put _ _ _ _

theorem fork_result (copied : List (String × String)) (s : SysState) (pid : Nat) :
    (s.fork copied pid).1
      = match s.processes.get pid with
        | none => "nopid"
        | some _ => s!"pid{s.nextPid}" := by
  unfold SysState.fork SysState.nextPid
  cases h : s.processes.get pid <;> rfl

/-! ### the run of a schedule against the Spec -/

theorem run_append (copied : List (String × String)) (s : SysState) (a b : List (Nat × XOp)) :
    s.run copied (a ++ b) = (s.run copied a).run copied b := by
  simp [SysState.run, List.foldl_append]

theorem run_snoc (copied : List (String × String)) (s : SysState) (a : List (Nat × XOp)) (x : Nat × XOp) :
    s.run copied (a ++ [x]) = ((s.run copied a).step copied x.1 x.2).2 := by
  rw [run_append]; rfl

/-- What the run from `initialSys` keeps true, for the history `h` (latest step first):
    the pids are exactly `2 … 2 + specCount h` and every entry is the Spec's. -/
structure Matches (copied : List (String × String)) (s : SysState) (h : List (Nat × XOp)) : Prop where
  entries : ∀ q, s.processes.get q = specProc copied h q
  pids : ∀ q, (s.processes.get q).isSome = true ↔ (2 ≤ q ∧ q ≤ 2 + specCount h)

theorem Matches.nextPid {copied : List (String × String)} {s : SysState} {h : List (Nat × XOp)}
    (m : Matches copied s h) : s.nextPid = 3 + specCount h := by
  have hfresh := nextPid_fresh s
  unfold SysState.nextPid at hfresh ⊢
  cases hm : s.processes.maxPid with
  | none =>
    -- impossible: pid 2 exists
    have h2 : (s.processes.get 2).isSome = true := (m.pids 2).mpr ⟨Nat.le_refl _, by omega⟩
    cases hg : s.processes.get 2 with
    | none => rw [hg] at h2; cases h2
    | some v =>
      obtain ⟨m', hm', _⟩ := ProcTable.le_maxPid _ _ _ hg
      rw [hm] at hm'; cases hm'
  | some mx =>
    simp only []
    have hmem := ProcTable.maxPid_mem _ _ hm
    have hle := ((m.pids mx).mp hmem).2
    have htop : (s.processes.get (2 + specCount h)).isSome = true :=
      (m.pids _).mpr ⟨by omega, Nat.le_refl _⟩
    cases hg : s.processes.get (2 + specCount h) with
    | none => rw [hg] at htop; cases htop
    | some v =>
      obtain ⟨m', hm', hge⟩ := ProcTable.le_maxPid _ _ _ hg
      rw [hm] at hm'; cases hm'
      omega

theorem matches_initial (copied : List (String × String)) : Matches copied initialSys [] := by
  constructor
  · intro q
    by_cases hq : q = 2
    · subst hq; rfl
    · simp [initialSys, ProcTable.get, specProc, hq]
  · intro q
    by_cases hq : q = 2
    · subst hq; simp [initialSys, ProcTable.get, specCount]
    · simp only [initialSys, ProcTable.get, hq, if_false, specCount]
      constructor
      · intro h; cases h
      · intro h; omega

theorem matches_step (copied : List (String × String)) (s : SysState) (h : List (Nat × XOp))
    (m : Matches copied s h) (x : Nat × XOp) : Matches copied (s.step copied x.1 x.2).2 (x :: h) := by
  obtain ⟨p, op⟩ := x
  cases op with
  | call c =>
    constructor
    · intro q
      show (s.exec p c).2.processes.get q = _
      rw [exec_get]
      simp only [specProc]
      by_cases hq : q = p
      · subst hq; simp [m.entries]
      · have : ¬ p = q := fun e => hq e.symm
        simp [hq, this, m.entries]
    · intro q
      show ((s.exec p c).2.processes.get q).isSome = true ↔ _
      rw [exec_get]
      simp only [specCount]
      by_cases hq : q = p
      · subst hq
        rw [← m.pids q]
        simp
      · simp only [hq, if_false]; exact m.pids q
  | fork =>
    have hnext := m.nextPid
    have hex : (s.processes.get p).isSome = true ↔ (2 ≤ p ∧ p ≤ 2 + specCount h) := m.pids p
    constructor
    · intro q
      show (s.fork copied p).2.processes.get q = _
      rw [fork_get]
      simp only [specProc]
      cases hp : s.processes.get p with
      | none =>
        have hno : ¬ (2 ≤ p ∧ p ≤ 2 + specCount h) := by
          intro hc; have := hex.mpr hc; rw [hp] at this; cases this
        simp only []
        rw [if_neg (fun hc => hno hc.2), m.entries]
      | some v =>
        have hyes : 2 ≤ p ∧ p ≤ 2 + specCount h := hex.mp (by rw [hp]; rfl)
        simp only [hnext]
        by_cases hq : q = 3 + specCount h
        · rw [if_pos hq, if_pos ⟨hq, hyes⟩, ← m.entries, hp]; rfl
        · rw [if_neg hq, if_neg (fun hc => hq hc.1), m.entries]
    · intro q
      show ((s.fork copied p).2.processes.get q).isSome = true ↔ _
      rw [fork_get]
      simp only [specCount]
      cases hp : s.processes.get p with
      | none =>
        have hno : ¬ (2 ≤ p ∧ p ≤ 2 + specCount h) := by
          intro hc; have := hex.mpr hc; rw [hp] at this; cases this
        simp only [if_neg hno]
        exact m.pids q
      | some v =>
        have hyes : 2 ≤ p ∧ p ≤ 2 + specCount h := hex.mp (by rw [hp]; rfl)
        simp only [hnext, if_pos hyes]
        by_cases hq : q = 3 + specCount h
        · simp only [hq, if_true, Option.isSome_some, true_iff]; omega
        · simp only [hq, if_false]
          rw [m.pids q]; omega

theorem matches_run_from (copied : List (String × String)) (sched : List (Nat × XOp)) :
    ∀ (s : SysState) (h : List (Nat × XOp)), Matches copied s h →
      Matches copied (s.run copied sched) (sched.reverse ++ h) := by
  induction sched with
  | nil => intro s h m; exact m
  | cons x rest ih =>
    intro s h m
    have m1 := matches_step copied s h m x
    have m2 := ih _ _ m1
    have e : (x :: rest).reverse ++ h = rest.reverse ++ (x :: h) := by simp
    rw [e]
    exact m2

theorem matches_run (copied : List (String × String)) (sched : List (Nat × XOp)) :
    Matches copied (initialSys.run copied sched) sched.reverse := by
  have := matches_run_from copied sched initialSys [] (matches_initial copied)
  simpa using this

/-! ### own calls only -/

theorem runCalls_append (p : Proc) (a b : List Call) : runCalls p (a ++ b) = runCalls (runCalls p a) b := by
  simp [runCalls, List.foldl_append]

/-! ### two processes -/

/-- a schedule of two processes: `true` = a call of the child, `false` = a call of the parent -/
def schedOf (parent child : Nat) (sched : List (Bool × Call)) : List (Nat × XOp) :=
  sched.map fun x => (if x.1 then child else parent, .call x.2)

theorem run_two (copied : List (String × String)) (parent child : Nat) (hne : parent ≠ child)
    (sched : List (Bool × Call)) :
    ∀ (s : SysState) (a b : Proc), s.processes.get parent = some a → s.processes.get child = some b →
      (s.run copied (schedOf parent child sched)).processes.get parent
          = some (runCalls a ((sched.filter (fun x => !x.1)).map (·.2)))
      ∧ (s.run copied (schedOf parent child sched)).processes.get child
          = some (runCalls b ((sched.filter (fun x => x.1)).map (·.2)))
      ∧ ∀ q, q ≠ parent → q ≠ child →
          (s.run copied (schedOf parent child sched)).processes.get q = s.processes.get q := by
  induction sched with
  | nil => intro s a b ha hb; exact ⟨ha, hb, fun _ _ _ => rfl⟩
  | cons x rest ih =>
    intro s a b ha hb
    obtain ⟨who, c⟩ := x
    cases who with
    | true =>
      have hp : (s.exec child c).2.processes.get parent = some a := by rw [exec_get]; simp [hne, ha]
      have hc : (s.exec child c).2.processes.get child = some (c.run b).2 := by rw [exec_get]; simp [hb]
      obtain ⟨r1, r2, r3⟩ := ih (s.exec child c).2 a (c.run b).2 hp hc
      refine ⟨r1, ?_, ?_⟩
      · simpa [schedOf, SysState.run, SysState.step, runCalls] using r2
      · intro q hq1 hq2
        have := r3 q hq1 hq2
        rw [exec_get] at this
        simpa [schedOf, SysState.run, SysState.step, hq2] using this
    | false =>
      have hne' : child ≠ parent := fun e => hne e.symm
      have hp : (s.exec parent c).2.processes.get parent = some (c.run a).2 := by rw [exec_get]; simp [ha]
      have hc : (s.exec parent c).2.processes.get child = some b := by rw [exec_get]; simp [hne', hb]
      obtain ⟨r1, r2, r3⟩ := ih (s.exec parent c).2 (c.run a).2 b hp hc
      refine ⟨?_, r2, ?_⟩
      · simpa [schedOf, SysState.run, SysState.step, runCalls] using r1
      · intro q hq1 hq2
        have := r3 q hq1 hq2
        rw [exec_get] at this
        simpa [schedOf, SysState.run, SysState.step, hq1] using this


/-! ### the code's fork and the Spec's -/

/-- the process-level fork of the code (generated copy list) IS the Spec's fork, as functions -/
theorem forkFrom_impl_eq_spec' : Proc.forkFrom implCopied = Proc.forkFrom specCopied := by
  funext ppid p
  have a1 : isCopied implCopied "fds" = true := by decide
  have a2 : isCopied implCopied "dispositions" = true := by decide
  have a3 : isCopied implCopied "blocked_signals" = true := by decide
  have a4 : isCopied implCopied "cwd" = true := by decide
  have a5 : isCopied implCopied "umask" = true := by decide
  have a6 : isCopied implCopied "resource_limits" = true := by decide
  have b1 : isCopied specCopied "fds" = true := by decide
  have b2 : isCopied specCopied "dispositions" = true := by decide
  have b3 : isCopied specCopied "blocked_signals" = true := by decide
  have b4 : isCopied specCopied "cwd" = true := by decide
  have b5 : isCopied specCopied "umask" = true := by decide
  have b6 : isCopied specCopied "resource_limits" = true := by decide
  simp [Proc.forkFrom, a1, a2, a3, a4, a5, a6, b1, b2, b3, b4, b5, b6]


theorem specProc_impl_eq_spec (h : List (Nat × XOp)) (q : Nat) : specProc implCopied h q = specProc specCopied h q := by
  induction h generalizing q with
  | nil => rfl
  | cons x rest ih =>
    obtain ⟨p, op⟩ := x
    cases op with
    | call c => simp only [specProc, ih]
    | fork => simp only [specProc, ih, forkFrom_impl_eq_spec']


end YashModel.Fork
