/-
  C08 — helper lemmas: what `TrapSet::enter_subshell` (Trap model of C11) does to one entry.
-/
import YashModel.Fork.Model
import YashModel.Trap.Steps
namespace YashModel.Fork
open YashModel.Trap

theorem enterState_not_command (g : GrandState) (opt : SubOpt) :
    (g.enterState opt).current.action.isCommand = false := by
  unfold GrandState.enterState
  cases opt <;> cases h : g.current.action <;> simp [h, Action.isCommand]

theorem enterState_ignore (g : GrandState) (opt : SubOpt) (h : g.current.action = .ignore) :
    (g.enterState opt).current.action = .ignore := by
  unfold GrandState.enterState
  cases opt <;> simp [h, Action.isCommand]

theorem enterState_parent (g : GrandState) (opt : SubOpt) (n : Nat) (h : g.current.action = .command n) :
    (g.enterState opt).parent = some g.current := by
  unfold GrandState.enterState
  cases opt <;> simp [h, Action.isCommand]

theorem clearParent_current (g : GrandState) : g.clearParent.current = g.current := rfl

theorem get_ignoreIfVacant (st : State) (s c : Nat) :
    get (ignoreIfVacant st s).traps c
      = if c = s ∧ get st.traps s = none then some (GrandState.ignore st.sys s).2 else get st.traps c := by
  unfold ignoreIfVacant
  cases h : get st.traps s with
  | none => simp [get_set]
  | some g => simp

theorem ignore_action (sys : Sys) (s : Nat) : (GrandState.ignore sys s).2.current.action = .ignore := by
  unfold GrandState.ignore; rfl

theorem get_ignoreBoth_some (st1 : State) (c : Nat) (x : GrandState) (h1 : get st1.traps c = some x) :
    get (ignoreIfVacant (ignoreIfVacant st1 SIGINT) SIGQUIT).traps c = some x := by
  have h2 : get (ignoreIfVacant st1 SIGINT).traps c = some x := by
    rw [get_ignoreIfVacant]
    by_cases hc : c = SIGINT
    · subst hc; simp [h1]
    · simp [hc, h1]
  rw [get_ignoreIfVacant]
  by_cases hc : c = SIGQUIT
  · subst hc; simp [h2]
  · simp [hc, h2]

theorem get_ignoreBoth_none (st1 : State) (c : Nat) (h1 : get st1.traps c = none) :
    get (ignoreIfVacant (ignoreIfVacant st1 SIGINT) SIGQUIT).traps c = none
      ∨ ∃ sys, get (ignoreIfVacant (ignoreIfVacant st1 SIGINT) SIGQUIT).traps c
          = some (GrandState.ignore sys c).2 := by
  rw [get_ignoreIfVacant]
  by_cases hq : c = SIGQUIT ∧ get (ignoreIfVacant st1 SIGINT).traps SIGQUIT = none
  · right; rw [if_pos hq]; obtain ⟨hc, _⟩ := hq; subst hc; exact ⟨_, rfl⟩
  · rw [if_neg hq, get_ignoreIfVacant]
    by_cases hi : c = SIGINT ∧ get st1.traps SIGINT = none
    · right; rw [if_pos hi]; obtain ⟨hc, _⟩ := hi; subst hc; exact ⟨_, rfl⟩
    · left; rw [if_neg hi]; exact h1

/-- an entry that exists before `enter_subshell` -/
theorem get_enterSubshell_some (st : State) (ii ks : Bool) (c : Nat) (g : GrandState)
    (h : get st.traps c = some g) :
    get (enterSubshell st ii ks).traps c
      = some (g.clearParent.enterState (subshellOption c g.clearParent ii ks)) := by
  have h1 : get (enterAll st.sys ii ks (clearParents st.traps)).2 c
      = some (g.clearParent.enterState (subshellOption c g.clearParent ii ks)) := by
    rw [get_enterAll, get_clearParents, h]; rfl
  unfold enterSubshell
  cases ii with
  | false => simpa using h1
  | true =>
    simp only [if_true]
    exact get_ignoreBoth_some _ c _ h1

/-- an entry that does not exist before: afterwards absent, or the `Ignore` entry made for SIGINT/SIGQUIT -/
theorem get_enterSubshell_none (st : State) (ii ks : Bool) (c : Nat) (h : get st.traps c = none) :
    get (enterSubshell st ii ks).traps c = none
      ∨ ∃ sys, get (enterSubshell st ii ks).traps c = some (GrandState.ignore sys c).2 := by
  have h1 : get (enterAll st.sys ii ks (clearParents st.traps)).2 c = none := by
    rw [get_enterAll, get_clearParents, h]; rfl
  unfold enterSubshell
  cases ii with
  | false => left; simpa using h1
  | true =>
    simp only [if_true]
    exact get_ignoreBoth_none _ c h1

/-! ### the parent side of a subshell -/

theorem runInChild_fst {β : Type} (copied : List (String × String)) (env : Env) (childTask : Env → β) :
    (runInChild copied env childTask).1 = env := by
  cases env; rfl

theorem startKind_parent {β : Type} (copied : List (String × String)) (k : Kind) (jc : Bool) (env : Env)
    (task : Env → β) : (startKind copied k jc env task).1 = env := by
  unfold startKind
  cases k <;> cases jc <;> simp only [startSubshell, runInChild_fst, if_true, Bool.false_eq_true, if_false]

theorem finishKind_env (k : Kind) (out : Shell) (st : Nat) (intr : Option Nat) :
    (finishKind k out st intr).env = out.env := by
  unfold finishKind
  split
  · rfl
  · cases intr with
    | some s => rfl
    | none => simp only []; split <;> rfl

theorem parentSide_sync (k : Kind) (env : Env) (hk : k ≠ .async) : parentSide k env [] = { env := env } := by
  cases k <;> first | exact absurd rfl hk | rfl

theorem getTty_jobs (env : Env) : (getTty env).jobs = env.jobs := by
  unfold getTty
  split
  · rfl
  · simp only []
    split
    · split
      · rfl
      · split <;> rfl
    · rfl

/-- `get_tty` touches `env.tty` and the process only -/
theorem getTty_traps (env : Env) : (getTty env).traps = env.traps := by
  unfold getTty
  split
  · rfl
  · simp only []
    split
    · split
      · rfl
      · split <;> rfl
    · rfl

theorem monitorChanged_jobs (o : String) (env : Env) : (monitorChanged o env).jobs = env.jobs := by
  unfold monitorChanged
  split
  · rfl
  · simp only []
    split
    · rw [getTty_jobs]
    · rfl

theorem parentSide_sync' (k : Kind) (env : Env) (during : List Op) (hk : k ≠ .async) :
    parentSide k env during = { env := env } := by
  cases k <;> first | exact absurd rfl hk | rfl

theorem interruptedBy_eq_none (k : Kind) (jc : Bool) (env : Env) (status : Nat)
    (h : env.stack.contains "Subshell" = true ∨ env.options.contains "interactive" = false
      ∨ sigintDefault env = false ∨ status ≠ 384 + SIGINT) :
    interruptedBy k jc env status = none := by
  unfold interruptedBy isInteractive
  split
  · rename_i hcond
    simp only [Bool.and_eq_true, Bool.not_eq_true', beq_iff_eq] at hcond
    obtain ⟨⟨⟨h1, _⟩, h3, h4⟩, h5⟩ := hcond
    rcases h with h | h | h | h
    · rw [h] at h4; cases h4
    · rw [h] at h3; cases h3
    · rw [h] at h5; cases h5
    · exact absurd h1 h
  · rfl

theorem finishKind_halted (k : Kind) (out : Shell) (st : Nat) (intr : Option Nat) :
    (finishKind k out st intr).halted
      = if out.halted.isSome then out.halted
        else match intr with
          | some s => some s
          | none => if st ≠ 0 ∧ out.env.options.contains "errexit" then some st else none := by
  unfold finishKind
  split
  · rfl
  · cases intr with
    | some s => rfl
    | none => simp only []; split <;> simp_all [exitShell]

/-- what the task of a subshell of kind `k` is applied to -/
theorem startKind_child {β : Type} (copied : List (String × String)) (k : Kind) (jc : Bool) (env : Env)
    (task : Env → β) :
    (startKind copied k jc env task).2 = task (entryEnv copied k jc env) := by
  cases env
  cases k <;> cases jc <;> rfl

end YashModel.Fork
