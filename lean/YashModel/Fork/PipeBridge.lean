/-
  C08 ↔ C13 — the `PipeEnds` hypothesis of `kind_entry_on_shared_table` discharged from C13's model of the STARTER's
  side of a pipeline (`YashModel.Proc.ForkLoop`: `PipeSet::shift` and the fork loop of
  `execute_multi_command_pipeline`; `YashModel.Proc.ForkLemmas`: `LoopInv`, `forkLoop_spec`).  C13 works on abstract
  tables (`Nat → Option Res`, a descriptor is the read / write end of pipe `j` or something else); `AbsTab` relates a
  process of the C08 model to such a table.  Helper lemmas; the property theorem is in Theorems.lean.
-/
import YashModel.Fork.PlumbLemmas
import YashModel.Proc.ForkLemmas
namespace YashModel.Fork

/-- the process `q` of the C08 model is a concrete version of C13's abstract table `T`: the same descriptors are
    open, and a descriptor C13 types as an end of a pipe of this pipeline is the snapshot's `pipe` entry -/
def AbsTab (q : Proc) (T : YashModel.Proc.FdTab) : Prop :=
  (∀ k, (T k).isSome = (fdGet q.fds k).isSome)
  ∧ (∀ k res, T k = some res → res.isPipeEnd = true → fdGet q.fds k = some { label := "pipe" })

/-- C13's loop invariant at the moment a stage is forked (`LoopInv`: the starter's table is the table the pipeline
    started with plus exactly the descriptors of the `PipeSet`, typed and pairwise distinct, all of them FREE in the
    starting table) gives C08's `PipeEnds` for the child's copy — provided stdin and stdout were open in the starter
    when the pipeline began (then no pipe end can sit at 0 or 1, in particular `read_previous ≠ 1`: the corner in which
    `move_to_stdin_stdout` first moves the previous end away with `dup` needs stdout CLOSED in the starter). -/
theorem pipeEnds_of_loopInv (k : Kind) (jc : Bool) (q : Proc) (T0 T : YashModel.Proc.FdTab)
    (ps : YashModel.Proc.PipeSet) (jin jout rp r w : Nat)
    (habs : AbsTab q T) (hinv : YashModel.Proc.LoopInv T0 T ps jin jout)
    (h0 : (T0 0).isSome = true) (h1 : (T0 1).isSome = true)
    (a0 : fdAllowed q 0 = true) (a1 : fdAllowed q 1 = true)
    (hnext : needsNext k = true → ps.next = some (r, w))
    (hprev : needsPrev k = true → ps.readPrevious = some rp) :
    PipeEnds k jc q rp r w := by
  obtain ⟨⟨cprev, cnR, cnW, cdRW, cdP, _⟩, _, hfresh⟩ := hinv
  obtain ⟨hopen, hpipe⟩ := habs
  have ge2 : ∀ fd, T0 fd = none → 2 ≤ fd := by
    intro fd hfd
    by_cases c0 : fd = 0
    · subst c0; rw [hfd] at h0; cases h0
    · by_cases c1 : fd = 1
      · subst c1; rw [hfd] at h1; cases h1
      · omega
  refine ⟨fun hn => ?_, fun hp => ?_, fun hn hp => ?_, fun _ _ => a0⟩
  · have e := hnext hn
    have tr := cnR r w e
    have tw := cnW r w e
    refine ⟨?_, hpipe w _ tw rfl, cdRW r w e, ge2 r (hfresh r (.inr ⟨r, w, e, .inl rfl⟩)),
      ge2 w (hfresh w (.inr ⟨r, w, e, .inr rfl⟩)), a1⟩
    rw [← hopen r, tr]; rfl
  · have e := hprev hp
    exact ⟨hpipe rp _ (cprev rp e) rfl, ge2 rp (hfresh rp (.inl e)), a0⟩
  · exact cdP rp r w (hprev hp) (hnext hn)

end YashModel.Fork
