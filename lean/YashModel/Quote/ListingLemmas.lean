/-
  C07 — lemmas for the listing theorems: a quoted string followed by ANY text lexes as its units
  (`lex_quote_append`), so quoted pieces compose (`name=value`, blank-separated argument lists).
-/
import YashModel.Quote.Lemmas
import YashModel.Quote.Listing

namespace YashModel.Quote
open YashModel.Generated.QuoteTables

/-- the word units the lexer produces for `quote s` -/
def unitsOf (s : List Char) : List WUnit :=
  if !strNeedsQuoting s then s.map WUnit.lit
  else if !s.contains singleQuoteBlocker then [.sq s]
  else [.dq s]

theorem shapes (s : List Char) :
    (strNeedsQuoting s = false ∧ quote s = s ∧ unitsOf s = s.map WUnit.lit)
    ∨ (strNeedsQuoting s = true ∧ '\'' ∉ s ∧ quote s = '\'' :: (s ++ ['\'']) ∧ unitsOf s = [.sq s])
    ∨ (strNeedsQuoting s = true ∧ quote s = '"' :: (escapeDq s ++ ['"']) ∧ unitsOf s = [.dq s]) := by
  by_cases hn : strNeedsQuoting s = true
  · by_cases hq : s.contains singleQuoteBlocker = true
    · right; right
      have hm : singleQuoteBlocker ∈ s := List.contains_iff_mem.mp hq
      exact ⟨hn, by simp [quote, hn, hm], by simp [unitsOf, hn, hm]⟩
    · right; left
      have hq' : s.contains singleQuoteBlocker = false := by simpa using hq
      have hb : '\'' ∉ s := by
        rw [blocker_eq] at hq'
        simpa [List.contains_iff_mem] using hq'
      have hm : singleQuoteBlocker ∉ s := by rw [blocker_eq]; exact hb
      exact ⟨hn, hb, by simp [quote, hn, hm], by simp [unitsOf, hn, hm]⟩
  · left
    have hn' : strNeedsQuoting s = false := by simpa using hn
    exact ⟨hn', by simp [quote, hn'], by simp [unitsOf, hn']⟩

/-- facts that `strNeedsQuoting s = false` gives about `s` -/
structure Bare (s : List Char) : Prop where
  nonempty : s ≠ []
  first : firstCharNeeds s = false
  special : ∀ c ∈ s, ¬ lexerSpecial c
  star : ∀ c ∈ s, c ≠ '*' ∧ c ≠ '?'
  noColonTilde : hasInfix [':', '~'] s = false
  noBracket : openThenClose '[' ']' s = false

theorem bare_of_not_needs {s : List Char} (hn : strNeedsQuoting s = false) : Bare s := by
  simp only [strNeedsQuoting, Bool.or_eq_false_iff] at hn
  obtain ⟨⟨⟨⟨hne, hfirst⟩, hany⟩, hinf⟩, hbr⟩ := hn
  have hchars : ∀ c ∈ s, charNeedsQuoting c = false := by
    intro c hc
    have := List.any_eq_false.mp hany c hc
    simpa using this
  refine ⟨?_, hfirst, ?_, ?_, ?_, ?_⟩
  · intro h; simp [h] at hne
  · intro c hc hsp
    have h1 := lexerSpecial_needs hsp
    rw [hchars c hc] at h1
    exact Bool.false_ne_true h1
  · intro c hc
    constructor
    · intro h
      have := charNeedsQuoting_of_mem (arms_special c (by simp [h]))
      rw [hchars c hc] at this; exact Bool.false_ne_true this
    · intro h
      have := charNeedsQuoting_of_mem (arms_special c (by simp [h]))
      rw [hchars c hc] at this; exact Bool.false_ne_true this
  · have := List.any_eq_false.mp hinf _ infix_colon_tilde
    simpa using this
  · have := List.any_eq_false.mp hbr _ pair_bracket
    simpa using this

/-- a run of ordinary characters followed by anything -/
theorem lex_bare_append (s : List Char) :
    ∀ (us : List WUnit) (r : List Char), (∀ c ∈ s, ¬ lexerSpecial c) →
      (us ≠ [] ∨ firstCharNeeds s = false) →
      lex (.word us) (s ++ r) = lex (.word ((s.map WUnit.lit).reverse ++ us)) r := by
  induction s with
  | nil => intro us r _ _; simp
  | cons c cs ih =>
    intro us r hs hf
    have hc : c ≠ '#' ∨ us ≠ [] := by
      rcases hf with h | h
      · exact Or.inr h
      · left
        intro hc
        have hm : c ∈ firstCharArms := first_arms c (by simp [hc])
        simp [firstCharNeeds] at h
        exact h hm
    simp only [List.cons_append]
    rw [lex_word_plain us c (cs ++ r) (hs c (by simp)) hc]
    rw [ih (.lit c :: us) r (fun d hd => hs d (by simp [hd])) (Or.inl (by simp))]
    simp

/-- ★ composition lemma: `quote s` followed by ANY text `r` is read as the units of `s`, and the lexer
    continues with `r` inside the same word -/
theorem lex_quote_append (s : List Char) (us : List WUnit) (r : List Char) :
    lex (.word us) (quote s ++ r) = lex (.word ((unitsOf s).reverse ++ us)) r := by
  rcases shapes s with ⟨hn, hq, hu⟩ | ⟨_, hb, hq, hu⟩ | ⟨_, hq, hu⟩
  · rw [hq, hu]
    have hb := bare_of_not_needs hn
    exact lex_bare_append s us r hb.special (Or.inr hb.first)
  · rw [hq, hu]
    simp only [List.cons_append, List.append_assoc, List.nil_append]
    rw [lex_word_quote, lex_sq_body s hb us [] r]
    simp
  · rw [hq, hu]
    simp only [List.cons_append, List.append_assoc, List.nil_append]
    rw [lex_word_dquote, lex_dq_body s us [] r]
    simp

theorem unitsOf_ne_nil (s : List Char) : unitsOf s ≠ [] := by
  rcases shapes s with ⟨hn, _, hu⟩ | ⟨_, _, _, hu⟩ | ⟨_, _, hu⟩
  · have hb := bare_of_not_needs hn
    rw [hu]
    intro h
    exact hb.nonempty (by simpa using h)
  · rw [hu]; simp
  · rw [hu]; simp

/-- the units of a quoted string denote the string, with no tilde or pattern trigger -/
theorem fieldOf_unitsOf (s : List Char) : fieldOf (unitsOf s) = some s := by
  rcases shapes s with ⟨hn, _, hu⟩ | ⟨_, _, _, hu⟩ | ⟨_, _, hu⟩
  · have hb := bare_of_not_needs hn
    rw [hu]
    have htilde : tildeAt (s.map WUnit.lit) = false := by
      cases s with
      | nil => exact absurd rfl hb.nonempty
      | cons c cs =>
        have hc : c ≠ '~' := by
          intro h
          have hm : c ∈ firstCharArms := first_arms c (by simp [h])
          have := hb.first
          simp [firstCharNeeds] at this
          exact this hm
        simp [tildeAt, hc]
    have hglob : globTriggered (s.map WUnit.lit) = false := by
      simp only [globTriggered, Bool.or_eq_false_iff]
      exact ⟨star_lits s hb.star, bracket_lits s hb.noBracket⟩
    simp [fieldOf, tildeTriggered, htilde, tildeAfterColon_lits s hb.noColonTilde, hglob, removeQuotes_lits]
  · rw [hu]
    simp [fieldOf, tildeTriggered, tildeAt, tildeAfterColon, globTriggered, bracketTriggered,
      hasLitClose, removeQuotes, WUnit.chars]
  · rw [hu]
    simp [fieldOf, tildeTriggered, tildeAt, tildeAfterColon, globTriggered, bracketTriggered,
      hasLitClose, removeQuotes, WUnit.chars]

/-- a blank ends the current word -/
theorem lex_word_space (us : List WUnit) (r : List Char) (h : us ≠ []) :
    lex (.word us) (' ' :: r) = (lex (.word []) r).map fun ws => us.reverse :: ws := by
  conv => lhs; rw [lex.eq_def]
  have hb : isBlank ' ' = true := by decide
  have ho : isOperatorChar ' ' = false := by decide
  cases us with
  | nil => exact absurd rfl h
  | cons u t => simp [hb, ho]

/-- blank-separated quoted arguments lex as the list of their units -/
theorem lex_args (args : List (List Char)) :
    lex (.word []) (joinSp (args.map quote)) = some (args.map unitsOf) := by
  induction args with
  | nil => simp [joinSp, lex_word_nil]
  | cons a rest ih =>
    cases rest with
    | nil =>
      have := lex_quote_append a [] []
      simp only [List.append_nil] at this
      simp only [List.map_cons, List.map_nil, joinSp]
      rw [this, lex_word_nil]
      have hne := unitsOf_ne_nil a
      cases h : unitsOf a with
      | nil => exact absurd h hne
      | cons u t => simp
    | cons b rest' =>
      simp only [List.map_cons, joinSp] at ih ⊢
      rw [lex_quote_append a [] _]
      have hne : (unitsOf a).reverse ++ [] ≠ [] := by simpa using unitsOf_ne_nil a
      rw [lex_word_space _ _ hne, ih]
      simp

theorem mapM_fieldOf_units (args : List (List Char)) :
    (args.map unitsOf).mapM fieldOf = some args := by
  induction args with
  | nil => rfl
  | cons a rest ih => simp [List.mapM_cons, fieldOf_unitsOf, ih]

end YashModel.Quote

namespace YashModel.Quote

theorem removeQuotes_unitsOf (s : List Char) : removeQuotes (unitsOf s) = s := by
  rcases shapes s with ⟨_, _, hu⟩ | ⟨_, _, _, hu⟩ | ⟨_, _, hu⟩
  · rw [hu]; exact removeQuotes_lits s
  · rw [hu]; simp [removeQuotes, WUnit.chars]
  · rw [hu]; simp [removeQuotes, WUnit.chars]

theorem removeQuotes_append (a b : List WUnit) : removeQuotes (a ++ b) = removeQuotes a ++ removeQuotes b := by
  simp [removeQuotes]

theorem not_special_eq : ¬ lexerSpecial '=' := by
  simp only [lexerSpecial, not_or]
  refine ⟨by decide, by decide, by decide, by decide, by decide, by decide, by decide⟩

theorem dropNl_append_nl (l : List Char) : Listing.dropNl (l ++ ['\n']) = l := by
  simp [Listing.dropNl]

end YashModel.Quote
