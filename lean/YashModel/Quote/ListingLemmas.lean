/-
  C07 — lemmas for the listing theorems: a quoted string followed by ANY text lexes as its units
  (`lex_quote_append`), so quoted pieces compose (`name=value`, blank-separated argument lists).
-/
import YashModel.Quote.Lemmas
import YashModel.Quote.Listing

namespace YashModel.Quote
open YashModel.Generated.QuoteTables

/-- the word units the lexer produces for `quote s` -/
def unitsOf (s : List Char) : List WUnit :=
  if !strNeedsQuoting s then s.map WUnit.lit
  else if !s.contains singleQuoteBlocker then [.sq s]
  else [.dq s]

theorem shapes (s : List Char) :
    (strNeedsQuoting s = false ∧ quote s = s ∧ unitsOf s = s.map WUnit.lit)
    ∨ (strNeedsQuoting s = true ∧ '\'' ∉ s ∧ quote s = '\'' :: (s ++ ['\'']) ∧ unitsOf s = [.sq s])
    ∨ (strNeedsQuoting s = true ∧ quote s = '"' :: (escapeDq s ++ ['"']) ∧ unitsOf s = [.dq s]) := by
  by_cases hn : strNeedsQuoting s = true
  · by_cases hq : s.contains singleQuoteBlocker = true
    · right; right
      have hm : singleQuoteBlocker ∈ s := List.contains_iff_mem.mp hq
      exact ⟨hn, by simp [quote, hn, hm], by simp [unitsOf, hn, hm]⟩
    · right; left
      have hq' : s.contains singleQuoteBlocker = false := by simpa using hq
      have hb : '\'' ∉ s := by
        rw [blocker_eq] at hq'
        simpa [List.contains_iff_mem] using hq'
      have hm : singleQuoteBlocker ∉ s := by rw [blocker_eq]; exact hb
      exact ⟨hn, hb, by simp [quote, hn, hm], by simp [unitsOf, hn, hm]⟩
  · left
    have hn' : strNeedsQuoting s = false := by simpa using hn
    exact ⟨hn', by simp [quote, hn'], by simp [unitsOf, hn']⟩

/-- facts that `strNeedsQuoting s = false` gives about `s` -/
structure Bare (s : List Char) : Prop where
  nonempty : s ≠ []
  first : firstCharNeeds s = false
  special : ∀ c ∈ s, ¬ lexerSpecial c
  star : ∀ c ∈ s, c ≠ '*' ∧ c ≠ '?'
  noColonTilde : hasInfix [':', '~'] s = false
  noBracket : openThenClose '[' ']' s = false

theorem bare_of_not_needs {s : List Char} (hn : strNeedsQuoting s = false) : Bare s := by
  simp only [strNeedsQuoting, Bool.or_eq_false_iff] at hn
  obtain ⟨⟨⟨⟨hne, hfirst⟩, hany⟩, hinf⟩, hbr⟩ := hn
  have hchars : ∀ c ∈ s, charNeedsQuoting c = false := by
    intro c hc
    have := List.any_eq_false.mp hany c hc
    simpa using this
  refine ⟨?_, hfirst, ?_, ?_, ?_, ?_⟩
  · intro h; simp [h] at hne
  · intro c hc hsp
    have h1 := lexerSpecial_needs hsp
    rw [hchars c hc] at h1
    exact Bool.false_ne_true h1
  · intro c hc
    constructor
    · intro h
      have := charNeedsQuoting_of_mem (arms_special c (by simp [h]))
      rw [hchars c hc] at this; exact Bool.false_ne_true this
    · intro h
      have := charNeedsQuoting_of_mem (arms_special c (by simp [h]))
      rw [hchars c hc] at this; exact Bool.false_ne_true this
  · have := List.any_eq_false.mp hinf _ infix_colon_tilde
    simpa using this
  · have := List.any_eq_false.mp hbr _ pair_bracket
    simpa using this

/-- a run of ordinary characters followed by anything -/
theorem lex_bare_append (s : List Char) :
    ∀ (us : List WUnit) (r : List Char), (∀ c ∈ s, ¬ lexerSpecial c) →
      (us ≠ [] ∨ firstCharNeeds s = false) →
      lex (.word us) (s ++ r) = lex (.word ((s.map WUnit.lit).reverse ++ us)) r := by
  induction s with
  | nil => intro us r _ _; simp
  | cons c cs ih =>
    intro us r hs hf
    have hc : c ≠ '#' ∨ us ≠ [] := by
      rcases hf with h | h
      · exact Or.inr h
      · left
        intro hc
        have hm : c ∈ firstCharArms := first_arms c (by simp [hc])
        simp [firstCharNeeds] at h
        exact h hm
    simp only [List.cons_append]
    rw [lex_word_plain us c (cs ++ r) (hs c (by simp)) hc]
    rw [ih (.lit c :: us) r (fun d hd => hs d (by simp [hd])) (Or.inl (by simp))]
    simp

/-- ★ composition lemma: `quote s` followed by ANY text `r` is read as the units of `s`, and the lexer
    continues with `r` inside the same word -/
theorem lex_quote_append (s : List Char) (us : List WUnit) (r : List Char) :
    lex (.word us) (quote s ++ r) = lex (.word ((unitsOf s).reverse ++ us)) r := by
  rcases shapes s with ⟨hn, hq, hu⟩ | ⟨_, hb, hq, hu⟩ | ⟨_, hq, hu⟩
  · rw [hq, hu]
    have hb := bare_of_not_needs hn
    exact lex_bare_append s us r hb.special (Or.inr hb.first)
  · rw [hq, hu]
    simp only [List.cons_append, List.append_assoc, List.nil_append]
    rw [lex_word_quote, lex_sq_body s hb us [] r]
    simp
  · rw [hq, hu]
    simp only [List.cons_append, List.append_assoc, List.nil_append]
    rw [lex_word_dquote, lex_dq_body s us [] r]
    simp

theorem unitsOf_ne_nil (s : List Char) : unitsOf s ≠ [] := by
  rcases shapes s with ⟨hn, _, hu⟩ | ⟨_, _, _, hu⟩ | ⟨_, _, hu⟩
  · have hb := bare_of_not_needs hn
    rw [hu]
    intro h
    exact hb.nonempty (by simpa using h)
  · rw [hu]; simp
  · rw [hu]; simp

/-- the units of a quoted string denote the string, with no tilde or pattern trigger -/
theorem fieldOf_unitsOf (s : List Char) : fieldOf (unitsOf s) = some s := by
  rcases shapes s with ⟨hn, _, hu⟩ | ⟨_, _, _, hu⟩ | ⟨_, _, hu⟩
  · have hb := bare_of_not_needs hn
    rw [hu]
    have htilde : tildeAt (s.map WUnit.lit) = false := by
      cases s with
      | nil => exact absurd rfl hb.nonempty
      | cons c cs =>
        have hc : c ≠ '~' := by
          intro h
          have hm : c ∈ firstCharArms := first_arms c (by simp [h])
          have := hb.first
          simp [firstCharNeeds] at this
          exact this hm
        simp [tildeAt, hc]
    have hglob : globTriggered (s.map WUnit.lit) = false := by
      simp only [globTriggered, Bool.or_eq_false_iff]
      exact ⟨star_lits s hb.star, bracket_lits s hb.noBracket⟩
    simp [fieldOf, tildeTriggered, htilde, tildeAfterColon_lits s hb.noColonTilde, hglob, removeQuotes_lits]
  · rw [hu]
    simp [fieldOf, tildeTriggered, tildeAt, tildeAfterColon, globTriggered, bracketTriggered,
      hasLitClose, removeQuotes, WUnit.chars]
  · rw [hu]
    simp [fieldOf, tildeTriggered, tildeAt, tildeAfterColon, globTriggered, bracketTriggered,
      hasLitClose, removeQuotes, WUnit.chars]

/-- a blank ends the current word -/
theorem lex_word_space (us : List WUnit) (r : List Char) (h : us ≠ []) :
    lex (.word us) (' ' :: r) = (lex (.word []) r).map fun ws => us.reverse :: ws := by
  conv => lhs; rw [lex.eq_def]
  have hb : isBlank ' ' = true := by decide
  have ho : isOperatorChar ' ' = false := by decide
  cases us with
  | nil => exact absurd rfl h
  | cons u t => simp [hb, ho]

/-- blank-separated quoted arguments lex as the list of their units -/
theorem lex_args (args : List (List Char)) :
    lex (.word []) (joinSp (args.map quote)) = some (args.map unitsOf) := by
  induction args with
  | nil => simp [joinSp, lex_word_nil]
  | cons a rest ih =>
    cases rest with
    | nil =>
      have := lex_quote_append a [] []
      simp only [List.append_nil] at this
      simp only [List.map_cons, List.map_nil, joinSp]
      rw [this, lex_word_nil]
      have hne := unitsOf_ne_nil a
      cases h : unitsOf a with
      | nil => exact absurd h hne
      | cons u t => simp
    | cons b rest' =>
      simp only [List.map_cons, joinSp] at ih ⊢
      rw [lex_quote_append a [] _]
      have hne : (unitsOf a).reverse ++ [] ≠ [] := by simpa using unitsOf_ne_nil a
      rw [lex_word_space _ _ hne, ih]
      simp

theorem mapM_fieldOf_units (args : List (List Char)) :
    (args.map unitsOf).mapM fieldOf = some args := by
  induction args with
  | nil => rfl
  | cons a rest ih => simp [List.mapM_cons, fieldOf_unitsOf, ih]

end YashModel.Quote

namespace YashModel.Quote

theorem removeQuotes_unitsOf (s : List Char) : removeQuotes (unitsOf s) = s := by
  rcases shapes s with ⟨_, _, hu⟩ | ⟨_, _, _, hu⟩ | ⟨_, _, hu⟩
  · rw [hu]; exact removeQuotes_lits s
  · rw [hu]; simp [removeQuotes, WUnit.chars]
  · rw [hu]; simp [removeQuotes, WUnit.chars]

theorem removeQuotes_append (a b : List WUnit) : removeQuotes (a ++ b) = removeQuotes a ++ removeQuotes b := by
  simp [removeQuotes]

theorem not_special_eq : ¬ lexerSpecial '=' := by
  simp only [lexerSpecial, not_or]
  refine ⟨by decide, by decide, by decide, by decide, by decide, by decide, by decide⟩

theorem dropNl_append_nl (l : List Char) : Listing.dropNl (l ++ ['\n']) = l := by
  simp [Listing.dropNl]

end YashModel.Quote

/-! ## `name=value` words: triggers across the two separately quoted halves -/
namespace YashModel.Quote
open YashModel.Generated.QuoteTables

/-- the word has an unquoted `[` -/
def hasLitOpen (w : List WUnit) : Bool := w.any fun u => u = .lit '['

/-- name and value are both printed bare, the name has a `[` and the value a `]`: the printed word
    `name=value` is then a bracket pattern (the one case in which gluing the two quoted halves goes wrong) -/
def crossBracket (n v : List Char) : Bool :=
  (!strNeedsQuoting n && n.contains '[') && (!strNeedsQuoting v && v.contains ']')

theorem triggers_unitsOf (s : List Char) :
    tildeTriggered (unitsOf s) = false ∧ globTriggered (unitsOf s) = false := by
  have h := fieldOf_unitsOf s
  unfold fieldOf at h
  by_cases hc : (tildeTriggered (unitsOf s) || globTriggered (unitsOf s)) = true
  · simp [hc] at h
  · have : (tildeTriggered (unitsOf s) || globTriggered (unitsOf s)) = false := by simpa using hc
    simpa [Bool.or_eq_false_iff] using this

theorem hasLitOpen_lits (s : List Char) : hasLitOpen (s.map WUnit.lit) = s.contains '[' := by
  induction s with
  | nil => rfl
  | cons c cs ih =>
    simp only [hasLitOpen, List.map_cons, List.any_cons] at ih ⊢
    rw [ih]
    by_cases h : c = '[' <;> simp [h, eq_comm]

theorem hasLitOpen_unitsOf (s : List Char) :
    hasLitOpen (unitsOf s) = (!strNeedsQuoting s && s.contains '[') := by
  rcases shapes s with ⟨hn, _, hu⟩ | ⟨hn, _, _, hu⟩ | ⟨hn, _, hu⟩
  · rw [hu, hasLitOpen_lits, hn]; simp
  · rw [hu, hn]; simp [hasLitOpen]
  · rw [hu, hn]; simp [hasLitOpen]

theorem hasLitClose_unitsOf (s : List Char) :
    hasLitClose (unitsOf s) = (!strNeedsQuoting s && s.contains ']') := by
  rcases shapes s with ⟨hn, _, hu⟩ | ⟨hn, _, _, hu⟩ | ⟨hn, _, hu⟩
  · rw [hu, hasLitClose_lits, hn]; simp
  · rw [hu, hn]; simp [hasLitClose]
  · rw [hu, hn]; simp [hasLitClose]

theorem hasLitClose_append (a b : List WUnit) : hasLitClose (a ++ b) = (hasLitClose a || hasLitClose b) := by
  simp [hasLitClose]

/-- no bracket pattern arises in `a ++ b` unless one half already has one or `[` is in `a` and `]` in `b` -/
theorem bracketTriggered_append_false (a b : List WUnit)
    (ha : bracketTriggered a = false) (hb : bracketTriggered b = false)
    (hx : hasLitOpen a = false ∨ hasLitClose b = false) : bracketTriggered (a ++ b) = false := by
  induction a with
  | nil => simpa using hb
  | cons u t ih =>
    simp only [bracketTriggered, Bool.or_eq_false_iff] at ha
    simp only [List.cons_append, bracketTriggered, hasLitClose_append, Bool.or_eq_false_iff]
    rcases hx with hx | hx
    · simp only [hasLitOpen, List.any_cons, Bool.or_eq_false_iff] at hx
      have hu : decide (u = WUnit.lit '[') = false := hx.1
      exact ⟨by simp [hu], ih ha.2 (Or.inl (by simpa [hasLitOpen] using hx.2))⟩
    · refine ⟨?_, ih ha.2 (Or.inr hx)⟩
      rw [hx, Bool.or_false]
      exact ha.1

/-- and conversely `[` in `a`, `]` in `b` always makes one -/
theorem bracketTriggered_append_true (a b : List WUnit)
    (ho : hasLitOpen a = true) (hc : hasLitClose b = true) : bracketTriggered (a ++ b) = true := by
  induction a with
  | nil => simp [hasLitOpen] at ho
  | cons u t ih =>
    simp only [hasLitOpen, List.any_cons, Bool.or_eq_true] at ho
    simp only [List.cons_append, bracketTriggered, hasLitClose_append, Bool.or_eq_true]
    rcases ho with ho | ho
    · left; simp [ho, hc]
    · right; exact ih (by simpa [hasLitOpen] using ho)

theorem tildeAt_unitsOf_append (n : List Char) (b : List WUnit) : tildeAt (unitsOf n ++ b) = false := by
  rcases shapes n with ⟨hn, _, hu⟩ | ⟨_, _, _, hu⟩ | ⟨_, _, hu⟩
  · have hb := bare_of_not_needs hn
    rw [hu]
    cases n with
    | nil => exact absurd rfl hb.nonempty
    | cons c cs =>
      have hc : c ≠ '~' := by
        intro h
        have hm : c ∈ firstCharArms := first_arms c (by simp [h])
        have := hb.first
        simp [firstCharNeeds] at this
        exact this hm
      simp [tildeAt, hc]
  · rw [hu]; simp [tildeAt]
  · rw [hu]; simp [tildeAt]

/-- colons inside a bare run never start a tilde expansion, whatever follows the run, as long as what
    follows does not itself begin with one -/
theorem tildeAfterColon_lits_append (s : List Char) (b : List WUnit)
    (h : hasInfix [':', '~'] s = false) (hb : tildeAt b = false) :
    tildeAfterColon (s.map WUnit.lit ++ b) = tildeAfterColon b := by
  induction s with
  | nil => rfl
  | cons c cs ih =>
    simp only [hasInfix, Bool.or_eq_false_iff] at h
    simp only [List.map_cons, List.cons_append, tildeAfterColon]
    rw [ih h.2]
    have : (decide (WUnit.lit c = WUnit.lit ':') && tildeAt (cs.map WUnit.lit ++ b)) = false := by
      cases cs with
      | nil => simp [hb]
      | cons d ds =>
        by_cases h1 : c = ':'
        · by_cases h2 : d = '~'
          · have := h.1
            simp [h1, h2, List.isPrefixOf] at this
          · simp [tildeAt, h2]
        · simp [h1]
    rw [this, Bool.false_or]

theorem tildeAfterColon_unitsOf_append (n : List Char) (b : List WUnit) (hb : tildeAt b = false) :
    tildeAfterColon (unitsOf n ++ b) = tildeAfterColon b := by
  rcases shapes n with ⟨hn, _, hu⟩ | ⟨_, _, _, hu⟩ | ⟨_, _, hu⟩
  · rw [hu]; exact tildeAfterColon_lits_append n b (bare_of_not_needs hn).noColonTilde hb
  · rw [hu]; simp [tildeAfterColon]
  · rw [hu]; simp [tildeAfterColon]

/-- the units of `=value` -/
theorem eq_value_facts (v : List Char) :
    tildeAt (WUnit.lit '=' :: unitsOf v) = false
    ∧ tildeAfterColon (WUnit.lit '=' :: unitsOf v) = false
    ∧ bracketTriggered (WUnit.lit '=' :: unitsOf v) = false
    ∧ hasLitClose (WUnit.lit '=' :: unitsOf v) = hasLitClose (unitsOf v) := by
  have ht := triggers_unitsOf v
  simp only [tildeTriggered, globTriggered, Bool.or_eq_false_iff] at ht
  refine ⟨by simp [tildeAt], ?_, ?_, by simp [hasLitClose]⟩
  · simp [tildeAfterColon, ht.1.2]
  · simp [bracketTriggered, ht.2.2]

theorem star_append (a b : List WUnit) :
    (a ++ b).any (fun u => decide (u = WUnit.lit '*') || decide (u = WUnit.lit '?'))
      = (a.any (fun u => decide (u = WUnit.lit '*') || decide (u = WUnit.lit '?'))
         || b.any (fun u => decide (u = WUnit.lit '*') || decide (u = WUnit.lit '?'))) := by
  simp

/-- ★ the field of the printed word `name=value`, unless it is a cross-bracket pattern -/
theorem fieldOf_assign (n v : List Char) (h : crossBracket n v = false) :
    fieldOf (unitsOf n ++ WUnit.lit '=' :: unitsOf v) = some (n ++ '=' :: v) := by
  have hn := triggers_unitsOf n
  have hv := triggers_unitsOf v
  have he := eq_value_facts v
  simp only [tildeTriggered, globTriggered, Bool.or_eq_false_iff] at hn hv
  have h1 : tildeAt (unitsOf n ++ WUnit.lit '=' :: unitsOf v) = false := tildeAt_unitsOf_append n _
  have h2 : tildeAfterColon (unitsOf n ++ WUnit.lit '=' :: unitsOf v) = false := by
    rw [tildeAfterColon_unitsOf_append n _ he.1]; exact he.2.1
  have h3 : (unitsOf n ++ WUnit.lit '=' :: unitsOf v).any
      (fun u => decide (u = WUnit.lit '*') || decide (u = WUnit.lit '?')) = false := by
    rw [star_append, hn.2.1]
    simp only [List.any_cons, hv.2.1]
    simp
  have h4 : bracketTriggered (unitsOf n ++ WUnit.lit '=' :: unitsOf v) = false := by
    apply bracketTriggered_append_false _ _ hn.2.2 he.2.2.1
    rw [he.2.2.2, hasLitOpen_unitsOf, hasLitClose_unitsOf]
    unfold crossBracket at h
    exact Bool.and_eq_false_iff.mp h
  have h5 : removeQuotes (unitsOf n ++ WUnit.lit '=' :: unitsOf v) = n ++ '=' :: v := by
    rw [removeQuotes_append]
    have : removeQuotes (WUnit.lit '=' :: unitsOf v) = '=' :: removeQuotes (unitsOf v) := by
      simp [removeQuotes, WUnit.chars]
    rw [this, removeQuotes_unitsOf, removeQuotes_unitsOf]
  simp [fieldOf, tildeTriggered, globTriggered, h1, h2, h3, h4, h5]

theorem lex_assign (n v : List Char) :
    lex (.word []) (quote n ++ '=' :: quote v) = some [unitsOf n ++ WUnit.lit '=' :: unitsOf v] := by
  rw [lex_quote_append n [] _]
  rw [lex_word_plain _ '=' _ not_special_eq (Or.inl (by decide))]
  have := lex_quote_append v (WUnit.lit '=' :: ((unitsOf n).reverse ++ [])) []
  simp only [List.append_nil] at this ⊢
  rw [this, lex_word_nil]
  simp

theorem assignValue_lits (s : List Char) (r : List WUnit) :
    ∀ seen : Bool, (seen = true ∨ s ≠ []) → '=' ∉ s →
      assignValue (s.map WUnit.lit ++ WUnit.lit '=' :: r) seen = some r := by
  induction s with
  | nil =>
    intro seen hs _
    have : seen = true := by rcases hs with h | h; exact h; exact absurd rfl h
    simp [assignValue, this]
  | cons c cs ih =>
    intro seen _ hne
    have hc : c ≠ '=' := fun h => hne (by simp [h])
    have hcs : '=' ∉ cs := fun h => hne (by simp [h])
    simp only [List.map_cons, List.cons_append, assignValue]
    rw [if_neg (by simp [hc])]
    exact ih true (Or.inl rfl) hcs

end YashModel.Quote

/-! ## leading self-contained words -/
namespace YashModel.Quote

theorem assignValue_lits_none (s : List Char) (hne : '=' ∉ s) :
    ∀ seen : Bool, assignValue (s.map WUnit.lit) seen = none := by
  induction s with
  | nil => intro seen; rfl
  | cons c cs ih =>
    intro seen
    have hc : c ≠ '=' := fun h => hne (by simp [h])
    simp only [List.map_cons, assignValue]
    rw [if_neg (by simp [hc])]
    exact ih (fun h => hne (by simp [h])) true

theorem eq_needs_quoting : charNeedsQuoting '=' = true := by decide

/-- a quoted string alone is never of the form `name=value` for a declaration utility -/
theorem fieldOfDecl_unitsOf (s : List Char) : fieldOfDecl (unitsOf s) = some s := by
  have hf := fieldOf_unitsOf s
  rcases shapes s with ⟨hn, _, hu⟩ | ⟨_, _, _, hu⟩ | ⟨_, _, hu⟩
  · have hne : '=' ∉ s := by
      intro h
      simp only [strNeedsQuoting, Bool.or_eq_false_iff] at hn
      have := List.any_eq_false.mp hn.1.1.2 '=' h
      simp [eq_needs_quoting] at this
    rw [hu] at hf ⊢
    simp only [fieldOfDecl, assignValue_lits_none s hne false]
    exact hf
  · rw [hu] at hf ⊢
    simpa [fieldOfDecl, assignValue] using hf
  · rw [hu] at hf ⊢
    simpa [fieldOfDecl, assignValue] using hf

theorem lex_cons_word (a t : List Char) :
    lex (.word []) (quote a ++ ' ' :: t) = (lex (.word []) t).map fun ws => unitsOf a :: ws := by
  rw [lex_quote_append a [] _]
  have hne : (unitsOf a).reverse ++ [] ≠ [] := by simpa using unitsOf_ne_nil a
  rw [lex_word_space _ _ hne]
  simp

/-- a quoted word and a blank in front of argument text add exactly that one field -/
theorem readBack_cons_word (a t : List Char) :
    readBack (quote a ++ ' ' :: t) = (readBack t).map fun fs => a :: fs := by
  simp only [readBack, lex_cons_word]
  cases lex (.word []) t with
  | none => rfl
  | some ws =>
    simp only [Option.map_some, Option.bind_some, List.mapM_cons, fieldOf_unitsOf]
    cases List.mapM fieldOf ws <;> rfl

theorem readBackDecl_cons_word (a t : List Char) :
    readBackDecl (quote a ++ ' ' :: t) = (readBackDecl t).map fun fs => a :: fs := by
  simp only [readBackDecl, lex_cons_word]
  cases lex (.word []) t with
  | none => rfl
  | some ws =>
    simp only [Option.map_some, Option.bind_some, List.mapM_cons, fieldOfDecl_unitsOf]
    cases List.mapM fieldOfDecl ws <;> rfl

/-- words followed by a blank each -/
def prefixSp : List (List Char) → List Char
  | [] => []
  | w :: ws => w ++ ' ' :: prefixSp ws

theorem readBack_prefix (ws : List (List Char)) (hq : ∀ w ∈ ws, quote w = w) (t : List Char) :
    readBack (prefixSp ws ++ t) = (readBack t).map fun fs => ws ++ fs := by
  induction ws with
  | nil => simp [prefixSp]
  | cons w r ih =>
    have h1 : quote w = w := hq w (by simp)
    simp only [prefixSp, List.append_assoc, List.cons_append]
    rw [← h1, readBack_cons_word, h1, ih (fun x hx => hq x (by simp [hx]))]
    cases readBack t <;> simp

theorem readBackDecl_prefix (ws : List (List Char)) (hq : ∀ w ∈ ws, quote w = w) (t : List Char) :
    readBackDecl (prefixSp ws ++ t) = (readBackDecl t).map fun fs => ws ++ fs := by
  induction ws with
  | nil => simp [prefixSp]
  | cons w r ih =>
    have h1 : quote w = w := hq w (by simp)
    simp only [prefixSp, List.append_assoc, List.cons_append]
    rw [← h1, readBackDecl_cons_word, h1, ih (fun x hx => hq x (by simp [hx]))]
    cases readBackDecl t <;> simp

end YashModel.Quote
