/-
  C07 — end-to-end listing theorems (property theorems + non-vacuity examples only): what EVALUATING a
  printed line defines is exactly the entry it was printed for.  `eval…` (Listing.lean) = strip the utility
  name, read the words back with the model lexer, parse options / `--` / operands, split `name=value`.
-/
import YashModel.Quote.Theorems

namespace YashModel.Quote
open YashModel.Generated.QuoteTables
open Listing

/-! ### small facts about the evaluation helpers -/

theorem splitEq_append (n v : List Char) (h : '=' ∉ n) : splitEq (n ++ '=' :: v) = some (n, v) := by
  induction n with
  | nil => simp [splitEq]
  | cons c cs ih =>
    have hc : c ≠ '=' := fun e => h (by simp [e])
    have := ih (fun e => h (by simp [e]))
    simp [splitEq, hc, this]

theorem splitEq_none (w : List Char) (h : '=' ∉ w) : splitEq w = none := by
  induction w with
  | nil => rfl
  | cons c cs ih =>
    have hc : c ≠ '=' := fun e => h (by simp [e])
    simp [splitEq, hc, ih (fun e => h (by simp [e]))]

theorem stripPrefix_append (p l : List Char) : stripPrefix p (p ++ l) = some l := by
  induction p with
  | nil => cases l <;> rfl
  | cons c cs ih => simp [stripPrefix, ih]

/-- a word that the option parser takes for the first operand -/
def headOk (w : List Char) : Prop := ∀ c r, w = c :: r → c ≠ '-' ∧ c ≠ '+'

theorem parseDeclArgs_operand (w : List Char) (ws : List (List Char)) (o : List Char) (h : headOk w) :
    parseDeclArgs (w :: ws) o = some (o, w :: ws) := by
  cases w with
  | nil => simp [parseDeclArgs]
  | cons c r =>
    have hc := h c r rfl
    have h1 : (c :: r) ≠ ['-', '-'] := by
      intro e; injection e with e1 _; exact hc.1 e1
    unfold parseDeclArgs
    rw [if_neg h1]
    split
    · next heq => injection heq with e1 _; exact absurd e1 hc.1
    · next heq => injection heq with e1 _; exact absurd e1 hc.2
    · rfl

theorem parse_r (ws : List (List Char)) (o : List Char) :
    parseDeclArgs (['-', 'r'] :: ws) o = parseDeclArgs ws (o ++ ['r']) := by
  simp [parseDeclArgs]

theorem parse_x (ws : List (List Char)) (o : List Char) :
    parseDeclArgs (['-', 'x'] :: ws) o = parseDeclArgs ws (o ++ ['x']) := by
  simp [parseDeclArgs]

theorem parse_dd (ws : List (List Char)) (o : List Char) :
    parseDeclArgs (['-', '-'] :: ws) o = some (o, ws) := by
  simp [parseDeclArgs]

/-- the option letters `typeset -p` prints for a variable -/
def attrLetters (v : Var) : List Char :=
  (if v.readonly then ['r'] else []) ++ (if v.exported then ['x'] else [])

/-- an operand `name…` printed without `--` is not option-like -/
theorem headOk_of_sep (name rest : List Char) (hs : sepOf name = []) (hr : headOk rest) :
    headOk (name ++ rest) := by
  have ht : ∀ c ∈ ['-', '+'], c ∈ separatorPrefixes := by decide
  cases name with
  | nil => simpa using hr
  | cons c cs =>
    intro d r e
    simp only [List.cons_append] at e
    injection e with e1 _
    subst e1
    unfold sepOf at hs
    by_cases hc : separatorPrefixes.contains c = true
    · have h3 : "-- ".toList ≠ [] := by decide
      simp only [hc, if_true] at hs
      exact absurd hs h3
    · constructor
      · intro e2; exact hc (List.contains_iff_mem.mpr (ht c (by simp [e2])))
      · intro e2; exact hc (List.contains_iff_mem.mpr (ht c (by simp [e2])))

theorem parse_typesetOptWords (v : Var) (w : List Char) (hw : sepOf v.name = [] → headOk w) :
    parseDeclArgs (typesetOptWords v ++ [w]) [] = some (attrLetters v, [w]) := by
  unfold typesetOptWords attrLetters
  rcases sepOf_cases v.name with hs | hs
  · have hok := hw hs
    cases v.readonly <;> cases v.exported <;>
      simp [hs, parse_r, parse_x, parseDeclArgs_operand _ _ _ hok]
  · have hne : sepOf v.name ≠ [] := by rw [hs]; decide
    cases v.readonly <;> cases v.exported <;> simp [hne, parse_r, parse_x, parse_dd]

theorem headOk_eq (s : List Char) : headOk ('=' :: s) := by
  intro c r e; injection e with e1 _; subst e1; exact ⟨by decide, by decide⟩

theorem headOk_nil : headOk [] := by intro c r e; cases e

theorem attrLetters_ok (v : Var) : (attrLetters v).all (fun c => c = 'r' || c = 'x') = true := by
  unfold attrLetters; cases v.readonly <;> cases v.exported <;> decide

theorem attrLetters_x (v : Var) : (attrLetters v).contains 'x' = v.exported := by
  unfold attrLetters; cases v.readonly <;> cases v.exported <;> decide

theorem attrLetters_r (v : Var) : (attrLetters v).contains 'r' = v.readonly := by
  unfold attrLetters; cases v.readonly <;> cases v.exported <;> decide

/-- valueless variables: the line is `typeset ` + arguments + newline, the arguments read back as the
    option words and the name -/
theorem typeset_valueless_listing_reparse (v : Var) (hv : v.value = .none) (hn : v.name.contains '=' = false) :
    ∃ args, printVar "typeset" typesetOpts false v = "typeset ".toList ++ args ++ ['\n']
      ∧ readBackDecl args = some (typesetOptWords v ++ [v.name]) := by
  refine ⟨prefixSp (typesetOptWords v) ++ quote v.name, ?_, ?_⟩
  · have hpre : typesetOpts v ++ sepOf v.name = prefixSp (typesetOptWords v) := by
      have h1 : "-r ".toList = "-r".toList ++ [' '] := by decide
      have h2 : "-x ".toList = "-x".toList ++ [' '] := by decide
      have h3 : "-- ".toList = "--".toList ++ [' '] := by decide
      unfold typesetOpts typesetOptWords
      rw [h1, h2]
      rcases sepOf_cases v.name with hs | hs
      · rw [hs]
        cases v.readonly <;> cases v.exported <;> simp [prefixSp]
      · rw [hs, h3]
        cases v.readonly <;> cases v.exported <;> simp [prefixSp]
    have h4 : "typeset ".toList = "typeset".toList ++ [' '] := by decide
    unfold printVar
    simp only [hn, Bool.false_eq_true, if_false, hv]
    rw [h4, ← hpre]
    simp only [List.append_assoc, List.cons_append, List.nil_append]
  · have hq : ∀ w ∈ typesetOptWords v, quote w = w := by
      have h1 : quote "-r".toList = "-r".toList := by decide
      have h2 : quote "-x".toList = "-x".toList := by decide
      have h3 : quote "--".toList = "--".toList := by decide
      unfold typesetOptWords
      intro w hw
      simp only [List.mem_append] at hw
      rcases hw with (hw | hw) | hw
      · split at hw <;> simp at hw; rw [hw]; exact h1
      · split at hw <;> simp at hw; rw [hw]; exact h2
      · split at hw <;> simp at hw; rw [hw]; exact h3
    have hname : readBackDecl (quote v.name) = some [v.name] := by
      have := lex_quote_append v.name [] []
      simp only [List.append_nil] at this
      have hne := unitsOf_ne_nil v.name
      simp [readBackDecl, this, lex_word_nil, hne, fieldOfDecl_unitsOf]
    rw [readBackDecl_prefix _ hq, hname]
    rfl

/-! ### ★ end-to-end: evaluating a printed line recreates the entry -/

/-- ★ `typeset -p`, scalar and valueless variables: for EVERY variable (any name without `=`, whatever
    characters it contains — blanks, quotes, a leading `-` or `+`, option-like names such as `-x` —, any
    value, any combination of the export / read-only attributes), evaluating the line that `typeset -p`
    prints for it (utility name stripped, words read back by the lexer model in declaration-utility mode,
    options / `--` / operand parsed, operand split at the first `=`) defines exactly that variable: same
    name, same value (or no value), same attributes. -/
theorem typeset_line_recreates (v : Var) (hn : v.name.contains '=' = false)
    (hv : (∃ s, v.value = .scalar s) ∨ v.value = .none) :
    evalDeclLine "typeset" (printVar "typeset" typesetOpts false v) = some v := by
  have hne : '=' ∉ v.name := by simpa [List.contains_iff_mem] using hn
  have hpfx : "typeset".toList ++ [' '] = "typeset ".toList := by decide
  have hb1 : ("typeset" = "export") = False := by decide
  have hb2 : ("typeset" = "readonly") = False := by decide
  rcases hv with ⟨s, hs⟩ | hs
  · obtain ⟨args, hp, hr⟩ := typeset_scalar_listing_reparse v s hs hn
    have hparse := parse_typesetOptWords v (v.name ++ '=' :: s)
      (fun h => headOk_of_sep v.name ('=' :: s) h (headOk_eq s))
    unfold evalDeclLine
    rw [hp, dropNl_append_nl, hpfx, stripPrefix_append]
    simp only [Option.bind_some, hr, hparse, attrLetters_ok, Bool.not_true, Bool.false_eq_true, if_false,
      splitEq_append v.name s hne, attrLetters_x, attrLetters_r, hb1, hb2, decide_false, Bool.or_false]
    cases v; simp_all
  · obtain ⟨args, hp, hr⟩ := typeset_valueless_listing_reparse v hs hn
    have hparse := parse_typesetOptWords v v.name
      (fun h => by have := headOk_of_sep v.name [] h headOk_nil; simpa using this)
    unfold evalDeclLine
    rw [hp, dropNl_append_nl, hpfx, stripPrefix_append]
    simp only [Option.bind_some, hr, hparse, attrLetters_ok, Bool.not_true, Bool.false_eq_true, if_false,
      splitEq_none v.name hne, attrLetters_x, attrLetters_r, hb1, hb2, decide_false, Bool.or_false]
    cases v; simp_all

/-- ★ the same for a whole listing taken line by line: evaluating, in order, the lines `typeset -p` prints
    for any list of scalar / valueless variables yields exactly those variables.  (Open: that the printed
    TEXT splits into these lines at its unquoted newlines — shown by the differential run with the real
    lexer, `logical_lines` in the harness.) -/
theorem typeset_listing_lines_recreate (vars : List Var)
    (h : ∀ v ∈ vars, v.name.contains '=' = false ∧ ((∃ s, v.value = .scalar s) ∨ v.value = .none)) :
    vars.mapM (fun v => evalDeclLine "typeset" (printVar "typeset" typesetOpts false v)) = some vars := by
  induction vars with
  | nil => rfl
  | cons v t ih =>
    have hv := h v (by simp)
    simp [List.mapM_cons, typeset_line_recreates v hv.1 hv.2, ih (fun w hw => h w (by simp [hw]))]

/-- ★ `alias`: for every name without `=` and every value, unless the printed word is a cross-bracket
    pattern (the known finding, `alias_entry_cross_bracket`), evaluating `alias -- <printed entry>` defines
    exactly the alias `name` ↦ `value`. -/
theorem alias_line_recreates (n v : List Char) (hn : '=' ∉ n) (h : crossBracket n v = false) :
    evalAliasEntry (printAlias (n, v)) = some (n, v) := by
  unfold evalAliasEntry
  rw [alias_listing_reparse n v h]
  simp [splitEq_append n v hn]

/-- ★ `trap`: evaluating a printed line sets exactly the listed action for the listed condition, whatever
    the action contains. -/
theorem trap_line_recreates (cond : String) (hc : cond ∈ condOrder) (action : List Char) :
    evalTrapLine (printTrap (cond, action)) = some (cond, action) := by
  unfold evalTrapLine
  rw [trap_listing_reparse cond hc action]
  simp

/-- ★ array values: for EVERY list of strings — including elements that spell reserved words (`if`, `}`,
    `!`, …), which `array_values` must accept — the text `(v1 v2 …)` printed for an array value is read
    back by `array_values` as exactly that list. -/
theorem array_values_reparse (vs : List (List Char)) : readArrayValues (quoteArray vs) = some vs := by
  have hk : arrayAcceptsKeywords = true := by decide
  unfold readArrayValues quoteArray
  simp only [List.getLast?_append, List.getLast?_singleton, Option.or_some, if_true,
    List.dropLast_concat, lex_args, Option.bind_some, hk, Bool.not_true, Bool.and_false,
    Bool.false_eq_true, if_false]
  have := mapM_fieldOf_units vs
  simpa using this

/-! ### `trap` in a subshell (`saved=$(trap)`, `trap | …`, `(trap)`) -/

/-- trap table with at most one entry per condition (true of every state the definition commands build:
    `trapKeys_nodup_empty`, `setTrap_nodup`) -/
def TrapKeysNodup (s : State) : Prop := (s.traps.map (·.1)).Nodup

theorem trapKeys_nodup_empty : TrapKeysNodup ({} : State) := by
  simp [TrapKeysNodup]

theorem setTrap_nodup (s : State) (cond : String) (action : List Char) (h : TrapKeysNodup s) :
    TrapKeysNodup (s.setTrap cond action) := by
  unfold TrapKeysNodup at *
  have hf : ((s.traps.filter (·.1 ≠ cond)).map (·.1)).Nodup := by
    have : (s.traps.filter (·.1 ≠ cond)).map (·.1) = (s.traps.map (·.1)).filter (· ≠ cond) := by
      simp [List.filter_map, Function.comp_def]
    rw [this]; exact h.filter _
  unfold State.setTrap
  by_cases ha : action = ['-']
  · simpa [ha] using hf
  · simp only [ha, if_false, List.map_append, List.map_cons, List.map_nil]
    rw [List.nodup_append]
    refine ⟨hf, by simp, ?_⟩
    intro a ha' b hb
    simp at hb; subst hb
    simp [List.mem_filter] at ha'
    intro e
    exact ha'.2 e

theorem find_split_cmd_ignore (l : List (String × List Char)) (key : String)
    (hnd : (l.map (·.1)).Nodup) :
    (match (l.filter (fun t => !t.2.isEmpty)).find? (·.1 = key) with
      | some t => some t
      | none => (l.filter (fun t => t.2.isEmpty)).find? (·.1 = key)) = l.find? (·.1 = key) := by
  induction l with
  | nil => rfl
  | cons t r ih =>
    simp only [List.map_cons, List.nodup_cons] at hnd
    have ih' := ih hnd.2
    by_cases hk : t.1 = key
    · -- by uniqueness the key does not occur in the rest
      have hnot : ∀ q : String × List Char → Bool, (r.filter q).find? (·.1 = key) = none := by
        intro q
        rw [List.find?_eq_none]
        intro x hx hxe
        have hx' : x ∈ r := (List.mem_filter.mp hx).1
        apply hnd.1
        rw [hk]
        have : x.1 = key := by simpa using hxe
        rw [← this]
        exact List.mem_map_of_mem hx'
      by_cases he : t.2.isEmpty = true
      · simp [List.filter_cons, he, hk, hnot]
      · simp [List.filter_cons, he, hk]
    · by_cases he : t.2.isEmpty = true
      · simpa [List.filter_cons, he, hk] using ih'
      · simpa [List.filter_cons, he, hk] using ih'

/-- what `trap` shows for a condition in a freshly entered subshell is what the parent shell has -/
theorem trap_subshell_shows_parent (s : State) (hn : TrapKeysNodup s) (hp : s.parentCmds = []) (c : String) :
    s.enterSubshell.trapShown c = s.trapShown c := by
  unfold State.trapShown State.enterSubshell
  simp only [hp, List.find?_nil]
  exact find_split_cmd_ignore s.traps c hn

/-- ★ `trap` listing taken in a subshell (`saved=$(trap)`, `trap | filter`, `(trap)`): for every state of the
    parent shell it is, character for character, the parent's listing — every condition, EXIT included. -/
theorem trap_subshell_listing_eq (s : State) (hn : TrapKeysNodup s) (hp : s.parentCmds = []) :
    listTrap s.enterSubshell = listTrap s := by
  unfold listTrap
  simp only [trap_subshell_shows_parent s hn hp]

/-- ★ end to end: for EVERY trap of the parent shell (any condition of `condOrder`, EXIT included, any
    action) the listing printed in a subshell has a line for it, and evaluating that line in a fresh shell
    sets exactly that action for that condition. -/
theorem trap_subshell_listing_recreates (s : State) (hn : TrapKeysNodup s) (hp : s.parentCmds = [])
    (cond : String) (hc : cond ∈ condOrder) (action : List Char)
    (h : s.traps.find? (·.1 = cond) = some (cond, action)) :
    s.enterSubshell.trapShown cond = some (cond, action)
      ∧ evalTrapLine (printTrap (cond, action)) = some (cond, action) := by
  refine ⟨?_, trap_line_recreates cond hc action⟩
  rw [trap_subshell_shows_parent s hn hp]
  simp [State.trapShown, hp, h]

/-! ### the Spec column's independent reading is characterised -/

theorem quoteEscaped_four : ∀ c ∈ quoteEscaped, c = '$' ∨ c = '`' ∨ c = '"' ∨ c = '\\' := by decide

theorem specDqBody_escape (s : List Char) : specDqBody (escapeDq s ++ ['"']) = some s := by
  induction s with
  | nil => simp [escapeDq, specDqBody]
  | cons c cs ih =>
    by_cases he : c ∈ quoteEscaped
    · rw [escapeDq_cons_esc cs he]
      have h4 := quoteEscaped_four c he
      simp only [List.cons_append]
      rw [specDqBody]
      · have hc : (c = '$' || c = '`' || c = '"' || c = '\\') = true := by
          rcases h4 with h | h | h | h <;> simp [h]
        simp only [hc, if_true, ih, Option.map_some]
    · rw [escapeDq_cons_plain cs he]
      have h1 : c ≠ '\\' := fun h => he (dq_special_escaped c (by simp [h]))
      have h2 : c ≠ '"' := fun h => he (dq_special_escaped c (by simp [h]))
      have h3 : c ≠ '$' := fun h => he (dq_special_escaped c (by simp [h]))
      have h4 : c ≠ '`' := fun h => he (dq_special_escaped c (by simp [h]))
      simp only [List.cons_append]
      unfold specDqBody
      split
      · next heq => cases heq
      · next heq => injection heq with e1 _; exact absurd e1 h2
      · next heq => injection heq with e1 _; exact absurd e1 h2
      · next heq => injection heq with e1 _; exact absurd e1 h1
      · next c' r' _ _ _ heq =>
        injection heq with e1 e2
        subst e1; subst e2
        simp [h3, h4, ih]

/-- ★ (Spec characterised) For EVERY string the independent, naive POSIX reading (XCU 2.2.2 / 2.2.3) used
    in the Spec column accepts the quoter's output and denotes the original string — or, for a bare word
    with conditionally special characters, leaves it to `quote_roundtrip`. -/
theorem spec_posix_reading_agrees (s : List Char) : specAgrees s = true := by
  unfold specAgrees
  rcases shapes s with ⟨hn, hq, _⟩ | ⟨_, hb, hq, _⟩ | ⟨_, hq, _⟩
  · rw [hq]
    have hb := bare_of_not_needs hn
    cases s with
    | nil => exact absurd rfl hb.nonempty
    | cons c cs =>
      have hs := hb.special c (by simp)
      have h1 : c ≠ '\'' := fun h => hs (Or.inr (Or.inl h))
      have h2 : c ≠ '"' := fun h => hs (Or.inr (Or.inr (Or.inl h)))
      have hd : specDenotes (c :: cs)
          = if ((c :: cs).isEmpty || (c :: cs).any posixSpecial) = true then none else some (c :: cs) := by
        unfold specDenotes
        split
        · next heq => injection heq with e1 _; exact absurd e1 h1
        · next heq => injection heq with e1 _; exact absurd e1 h2
        · rfl
      rw [hd]
      by_cases hp : ((c :: cs).isEmpty || (c :: cs).any posixSpecial) = true
      · rw [if_pos hp]; simp
      · rw [if_neg hp]; simp
  · rw [hq]
    have : specDenotes ('\'' :: (s ++ ['\''])) = some s := by
      simp [specDenotes, hb]
    simp [this]
  · rw [hq]
    have : specDenotes ('"' :: (escapeDq s ++ ['"'])) = some s := by
      simp [specDenotes, specDqBody_escape]
    simp [this]

/-! Non-vacuity -/
/-- an EXIT trap with a command action is still listed in a subshell (seeded change round 4: the EXIT
    condition must be remembered in `parent_state` like the signals) -/
example : listTrap (({} : State).setTrap "EXIT" "echo bye".toList |>.setTrap "INT" []).enterSubshell
    = "trap -- 'echo bye' EXIT\ntrap -- '' INT\n".toList := by decide
example : TrapKeysNodup (({} : State).setTrap "EXIT" "echo bye".toList) :=
  setTrap_nodup _ _ _ trapKeys_nodup_empty
example : evalDeclLine "typeset" "typeset -r -x -- '-a b'='c d'\n".toList
    = some { name := "-a b".toList, value := .scalar "c d".toList, exported := true, readonly := true } :=
  typeset_line_recreates
    { name := "-a b".toList, value := .scalar "c d".toList, exported := true, readonly := true }
    (by decide) (Or.inl ⟨_, rfl⟩)
/-- without the `--` the same operand is taken for options: the statement excludes printing the separator
    from the quoted spelling of the name (seeded change `typeset-separator-from-quoted-name`) -/
example : parseDeclArgs ["-x".toList, "-a b=c d".toList] [] ≠ some (['x'], ["-a b=c d".toList]) := by decide
example : isKeywordToken ("if".toList.map WUnit.lit) = true := by decide
example : readArrayValues (quoteArray ["if".toList, "}".toList, "a b".toList])
    = some ["if".toList, "}".toList, "a b".toList] := array_values_reparse _
example : crossBracket "a".toList "x y".toList = false := by decide
/-- a `:~` after a SECOND colon must be quoted too (seeded change `colon-tilde-first-colon-only`): the
    quoter model quotes it, and `quote_roundtrip` / `decl_entry_reparse` could not be proved otherwise,
    because the reader looks for a tilde after EVERY unquoted colon -/
example : quote "a:b:~c".toList = "'a:b:~c'".toList := by decide
example : tildeAfterColon ("a:b:~c".toList.map WUnit.lit) = true := by decide
example : readBackDecl (quote "x".toList ++ '=' :: quote "a:b:~c".toList) = some ["x=a:b:~c".toList] :=
  decl_entry_reparse _ _

end YashModel.Quote
