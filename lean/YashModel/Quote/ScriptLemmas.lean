/-
  C07 — lemmas about the text reader of `Script.lean`: the token reader agrees with the word lexer `lex` on
  everything `lex` accepts, and a line that `lex` reads followed by a newline (or `)`) is read as the same
  words followed by that token — so every read-back result about a LINE lifts to a whole multi-line TEXT.
-/
import YashModel.Quote.Script
import YashModel.Quote.ListingLemmas
import YashModel.Quote.ListingTheorems
namespace YashModel.Quote
open YashModel.Generated.QuoteTables

theorem opchar_nl : isOperatorChar '\n' = true := by decide
theorem opchar_open : isOperatorChar '(' = true := by decide
theorem opchar_close : isOperatorChar ')' = true := by decide

theorem skipLC_append (d : Char) (hd : d ≠ '\\') (rest r : List Char) (h : r.getLast? ≠ some '\\') :
    skipLC (r ++ d :: rest) = skipLC r ++ d :: rest := by
  fun_induction skipLC r
  · rename_i r ih
    simp only [List.cons_append]
    rw [skipLC]
    apply ih
    cases r with
    | nil => simp
    | cons a t => simpa using h
  · rename_i cs hcs
    cases cs with
    | nil => simp [skipLC, hd]
    | cons a t =>
      cases t with
      | nil =>
        have : a ≠ '\\' := by simpa using h
        simp only [List.cons_append, List.nil_append]
        rw [skipLC.eq_def]
        simp [this]
      | cons b t2 =>
        simp only [List.cons_append]
        rw [skipLC.eq_def]
        split
        · next heq =>
          injection heq with e1 e2
          injection e2 with e2 e3
          exact (hcs _ (by rw [e1, e2])).elim
        · rfl

theorem dollarStarts_append (b : Bool) (d : Char) (hd : d = '\n' ∨ d = ')') (rest r : List Char)
    (h : r.getLast? ≠ some '\\') : dollarStarts b (r ++ d :: rest) = dollarStarts b r := by
  have hd' : d ≠ '\\' := by rcases hd with h | h <;> simp [h]
  unfold dollarStarts
  rw [skipLC_append d hd' rest r h]
  cases skipLC r with
  | nil => rcases hd with h | h <;> subst h <;> simp <;> decide
  | cons a t => simp

theorem getLast_cons_ne {c : Char} {r : List Char} (h : (c :: r).getLast? ≠ some '\\') :
    r.getLast? ≠ some '\\' := by
  cases r with
  | nil => simp
  | cons a t => simpa using h

/-- a terminator ends the word under construction -/
theorem lexToks_term (d : Char) (hd : d = '\n' ∨ d = ')') (us : List WUnit) (rest : List Char) :
    lexToks (.word us) (d :: rest) = (lexToks (.word []) (d :: rest)).map (endTok us ++ ·) := by
  rcases hd with h | h <;> subst h
  · conv => lhs; rw [lexToks.eq_def]
    conv => rhs; rw [lexToks.eq_def]
    simp [endTok, Option.map_map, Function.comp_def]
  · conv => lhs; rw [lexToks.eq_def]
    conv => rhs; rw [lexToks.eq_def]
    simp [endTok, Option.map_map, Function.comp_def]

theorem lexToks_of_lex_term (d : Char) (hd : d = '\n' ∨ d = ')') (rest : List Char) (m : Mode) (t : List Char) :
    ∀ ws, lex m t = some ws → t.getLast? ≠ some '\\' →
      lexToks (SMode.ofMode m) (t ++ d :: rest) = (lexToks (.word []) (d :: rest)).map (ws.map Tok.w ++ ·) := by
  have hd' : d ≠ '\\' := by rcases hd with h | h <;> simp [h]
  fun_induction lex m t
  all_goals (intro ws h hl; simp only [SMode.ofMode, List.cons_append, List.nil_append] at *)
  all_goals try (cases h; done)
  all_goals try (have hl' := getLast_cons_ne hl)
  case case1 =>
    cases h
    rw [lexToks_term d hd]
    congr 1
    funext x
    simp only [endTok]
    split <;> simp
  case case2 => simp at hl
  case case11 =>
    rename_i us c r h1 h2 h3 h4 h5 h6 h7 ih
    have hop : ∀ x, isOperatorChar x = true → c ≠ x := fun x hx e => h6 (e ▸ hx)
    have n1 := hop _ opchar_nl
    have n2 := hop _ opchar_open
    have n3 := hop _ opchar_close
    conv => lhs; rw [lexToks.eq_def]
    simp only [h1, h2, h3, h4, h5, h6, h7, n1, n2, n3, if_false, if_true, Bool.false_eq_true]
    cases hlex : lex (Mode.word []) r with
    | none => simp [hlex] at h
    | some ws' =>
      rw [hlex] at h
      simp only [Option.map_some, Option.some.injEq] at h
      rw [ih ws' hlex hl', Option.map_map]
      congr 1
      funext x
      subst h
      simp only [Function.comp, endTok]
      split <;> simp
  case case13 =>
    rename_i us c r h1 h2 h3 h4 h5 h6 h7 h8 ih
    have hop : ∀ x, isOperatorChar x = true → c ≠ x := fun x hx e => h6 (e ▸ hx)
    have n1 := hop _ opchar_nl
    have n2 := hop _ opchar_open
    have n3 := hop _ opchar_close
    have hc : Generated.ScriptTables.commentChar = '#' := by decide
    conv => lhs; rw [lexToks.eq_def]
    simp only [h1, h2, h3, h4, h5, h6, h7, h8, n1, n2, n3, hc, if_false, Bool.false_eq_true]
    exact ih ws h hl'
  case case20 =>
    rename_i us acc c cs h1 h2 ih
    conv => lhs; rw [lexToks.eq_def]
    simp only [h1, h2, if_true, if_false]
    exact ih ws h (getLast_cons_ne hl')
  case case21 =>
    rename_i us acc c cs h1 h2 ih
    conv => lhs; rw [lexToks.eq_def]
    simp only [h1, h2, if_true, if_false]
    exact ih ws h hl'
  all_goals (
    rename_i ih
    try simp only [List.unattach_reverse, List.unattach_attach] at ih
    conv => lhs; rw [lexToks.eq_def]
    simp [*, dollarStarts_append _ d hd rest _ hl'])
  all_goals exact ih ws h (getLast_cons_ne hl')

/-- on text that `lex` accepts (no unquoted newline, parenthesis or comment) the token reader yields the
    same words -/
theorem lexToks_of_lex (m : Mode) (t : List Char) :
    ∀ ws, lex m t = some ws → lexToks (SMode.ofMode m) t = some (ws.map Tok.w) := by
  fun_induction lex m t
  all_goals (intro ws h; simp only [SMode.ofMode] at *)
  all_goals try (cases h; done)
  case case1 =>
    cases h
    rw [lexToks.eq_def]
    simp only [endTok]
    split <;> simp
  case case2 => cases h; rw [lexToks.eq_def]; simp
  case case11 =>
    rename_i us c r h1 h2 h3 h4 h5 h6 h7 ih
    have hop : ∀ x, isOperatorChar x = true → c ≠ x := fun x hx e => h6 (e ▸ hx)
    have n1 := hop _ opchar_nl
    have n2 := hop _ opchar_open
    have n3 := hop _ opchar_close
    conv => lhs; rw [lexToks.eq_def]
    simp only [h1, h2, h3, h4, h5, h6, h7, n1, n2, n3, if_false, if_true, Bool.false_eq_true]
    cases hlex : lex (Mode.word []) r with
    | none => simp [hlex] at h
    | some ws' =>
      rw [hlex] at h
      simp only [Option.map_some, Option.some.injEq] at h
      rw [ih ws' hlex]
      subst h
      simp only [Option.map_some, endTok]
      split <;> simp
  case case13 =>
    rename_i us c r h1 h2 h3 h4 h5 h6 h7 h8 ih
    have hop : ∀ x, isOperatorChar x = true → c ≠ x := fun x hx e => h6 (e ▸ hx)
    have n1 := hop _ opchar_nl
    have n2 := hop _ opchar_open
    have n3 := hop _ opchar_close
    have hc : Generated.ScriptTables.commentChar = '#' := by decide
    conv => lhs; rw [lexToks.eq_def]
    simp only [h1, h2, h3, h4, h5, h6, h7, h8, n1, n2, n3, hc, if_false, Bool.false_eq_true]
    exact ih ws h
  case case20 =>
    rename_i us acc c cs h1 h2 ih
    conv => lhs; rw [lexToks.eq_def]
    simp only [h1, h2, if_true, if_false]
    exact ih ws h
  case case21 =>
    rename_i us acc c cs h1 h2 ih
    conv => lhs; rw [lexToks.eq_def]
    simp only [h1, h2, if_true, if_false]
    exact ih ws h
  all_goals (
    rename_i ih
    try simp only [List.unattach_reverse, List.unattach_attach] at ih
    conv => lhs; rw [lexToks.eq_def]
    simp [*])

open Listing

/-! ### parser steps -/

theorem parseToks_first_word (w0 : List WUnit) (ts : List Tok)
    (hk : isKeywordWord w0 = false) (ha : assignSplit w0 = none) :
    parseToks (.w w0 :: ts) {} = parseToks ts { words := [(w0, false)], decl := declLookup w0 } := by
  simp [parseToks, hk, ha]

theorem parseToks_words (d : Bool) (ws : List (List WUnit)) (ts : List Tok) :
    ∀ st : PState, st.arr = none → st.decl = some d → st.words ≠ [] → st.emptyAssign = false →
      parseToks (ws.map Tok.w ++ ts) st = parseToks ts { st with words := st.words ++ ws.map (·, d) } := by
  induction ws with
  | nil => intro st _ _ _ _; simp
  | cons w r ih =>
    intro st ha hd hw he
    have hwe : st.words.isEmpty = false := by cases h : st.words with | nil => exact absurd h hw | cons _ _ => rfl
    simp only [List.map_cons, List.cons_append, parseToks, ha, hd, hwe, Bool.and_false, Bool.false_eq_true, if_false]
    refine (ih _ rfl rfl (by simp) rfl).trans ?_
    simp [he]

theorem parseToks_nl (st : PState) (ts : List Tok) (ha : st.arr = none) :
    parseToks (.nl :: ts) st = (parseToks ts {}).map fun cs => st.cmds ++ cs := by
  simp [parseToks, ha]

/-- a command line `w0 w1 … wn` followed by a newline, when `w0` names a utility (declaration utility or not) -/
theorem parseToks_cmd_line (w0 : List WUnit) (ws : List (List WUnit)) (d : Bool) (ts : List Tok)
    (hk : isKeywordWord w0 = false) (ha : assignSplit w0 = none) (hd : declLookup w0 = some d) :
    parseToks (Tok.w w0 :: (ws.map Tok.w ++ Tok.nl :: ts)) {}
      = (parseToks ts {}).map fun cs => ⟨[], (w0, false) :: ws.map (·, d)⟩ :: cs := by
  rw [parseToks_first_word w0 _ hk ha, parseToks_words d ws _ _ rfl hd (by simp) rfl, parseToks_nl _ _ rfl]
  simp [PState.cmds]

theorem lexToks_nl (rest : List Char) :
    lexToks (.word []) ('\n' :: rest) = (lexToks (.word []) rest).map (Tok.nl :: ·) := by
  conv => lhs; rw [lexToks.eq_def]
  simp [endTok]

/-! ### the engine: one more line in front of a text -/

/-- a line the word lexer reads, followed by a newline, in front of any text -/
theorem lexToks_line (l rest : List Char) (ws : List (List WUnit))
    (hlex : lex (.word []) l = some ws) (hl : l.getLast? ≠ some '\\') :
    lexToks (.word []) (l ++ '\n' :: rest) = (lexToks (.word []) rest).map fun ts => ws.map Tok.w ++ Tok.nl :: ts := by
  have := lexToks_of_lex_term '\n' (Or.inl rfl) rest (.word []) l ws hlex hl
  simp only [SMode.ofMode] at this
  rw [this, lexToks_nl, Option.map_map]
  rfl

theorem scriptCmds_cmd_line (l rest : List Char) (w0 : List WUnit) (ws : List (List WUnit)) (d : Bool)
    (f0 : List Char) (fs : List (List Char))
    (hlex : lex (.word []) l = some (w0 :: ws)) (hl : l.getLast? ≠ some '\\')
    (hk : isKeywordWord w0 = false) (ha : assignSplit w0 = none) (hd : declLookup w0 = some d)
    (hf0 : fieldOf w0 = some f0) (hfs : ws.mapM (fun w => if d then fieldOfDecl w else fieldOf w) = some fs) :
    scriptCmds (l ++ '\n' :: rest) = (scriptCmds rest).map fun cs => ⟨[], f0 :: fs⟩ :: cs := by
  unfold scriptCmds
  rw [lexToks_line l rest _ hlex hl]
  cases lexToks (.word []) rest with
  | none => rfl
  | some ts =>
    simp only [Option.map_some, Option.bind_some, List.map_cons, List.cons_append]
    rw [parseToks_cmd_line w0 ws d ts hk ha hd]
    cases parseToks ts {} with
    | none => rfl
    | some cs =>
      have hw : ((w0, false) :: ws.map (·, d)).mapM expandWord = some (f0 :: fs) := by
        have h2 : (ws.map (·, d)).mapM expandWord = some fs := by
          rw [← hfs]
          clear hfs hlex
          induction ws with
          | nil => rfl
          | cons a t ih => simp [List.mapM_cons, expandWord, ih]
        simp [List.mapM_cons, expandWord, hf0, h2]
      have he : expandCmd ⟨[], (w0, false) :: ws.map (·, d)⟩ = some ⟨[], f0 :: fs⟩ := by
        simp [expandCmd, hw]
      simp only [Option.map_some, Option.bind_some, List.mapM_cons, he]
      cases cs.mapM expandCmd <;> rfl

theorem evalScript_nil : evalScript [] = some [] := by
  simp [evalScript, scriptCmds, lexToks, parseToks, PState.cmds, endTok]

theorem evalScript_of_cmds (text rest : List Char) (c : Cmd) (es : List Effect)
    (h : scriptCmds text = (scriptCmds rest).map fun cs => c :: cs) (hev : evalCmd c = some es) :
    evalScript text = (evalScript rest).map (es ++ ·) := by
  unfold evalScript
  rw [h]
  cases scriptCmds rest with
  | none => rfl
  | some cs =>
    simp only [Option.map_some, Option.bind_some, List.mapM_cons, hev]
    cases cs.mapM evalCmd <;> simp


/-! ### facts about the printed pieces -/

theorem unitsOf_bare {b : List Char} (hb : strNeedsQuoting b = false) : unitsOf b = b.map WUnit.lit := by
  simp [unitsOf, hb]

theorem quote_bare {b : List Char} (hb : strNeedsQuoting b = false) : quote b = b := by
  simp [quote, hb]

/-- a quoted string never ends in a backslash, and is never empty -/
theorem quote_last (s : List Char) : quote s ≠ [] ∧ (quote s).getLast? ≠ some '\\' := by
  rcases shapes s with ⟨hn, hq, _⟩ | ⟨_, _, hq, _⟩ | ⟨_, hq, _⟩
  · have hb := bare_of_not_needs hn
    rw [hq]
    refine ⟨hb.nonempty, ?_⟩
    intro h
    have hm : '\\' ∈ s := List.mem_of_getLast? h
    exact hb.special _ hm (Or.inl rfl)
  · rw [hq]
    refine ⟨by simp, ?_⟩
    rw [show '\'' :: (s ++ ['\'']) = ('\'' :: s) ++ ['\''] by simp, List.getLast?_concat]
    simp
  · rw [hq]
    refine ⟨by simp, ?_⟩
    rw [show '"' :: (escapeDq s ++ ['"']) = ('"' :: escapeDq s) ++ ['"'] by simp, List.getLast?_concat]
    simp

theorem getLast_append_ne_nil (pre l : List Char) (h : l ≠ []) : (pre ++ l).getLast? = l.getLast? := by
  rw [List.getLast?_append]
  cases hl : l.getLast? with
  | none => exact absurd (List.getLast?_eq_none_iff.mp hl) h
  | some x => rfl

theorem getLast_append_quote (pre s : List Char) : (pre ++ quote s).getLast? ≠ some '\\' := by
  rw [getLast_append_ne_nil _ _ (quote_last s).1]
  exact (quote_last s).2

theorem assignSplit_lits_none (b : List Char) (he : '=' ∉ b) : assignSplit (b.map WUnit.lit) = none := by
  unfold assignSplit
  split
  · rfl
  · simp [assignValue_lits_none b he false]

/-- ★ engine: a line `<utility> <args>` in front of any text.  If the arguments read back as the fields `fs`
    (as arguments of a declaration utility when the built-in table says so) and the command `utility fs` has
    the effects `es`, then evaluating the line followed by the rest of the text has the effects `es`
    followed by the effects of the rest. -/
theorem evalScript_util_line (b : List Char) (hb : strNeedsQuoting b = false)
    (hk : isKeywordWord (b.map WUnit.lit) = false) (he : '=' ∉ b) (d : Bool)
    (hd : declLookup (b.map WUnit.lit) = some d) (args : List Char) (fs : List (List Char))
    (hargs : (if d then readBackDecl args else readBack args) = some fs)
    (hl : args.getLast? ≠ some '\\') (es : List Effect) (hev : evalCmd ⟨[], b :: fs⟩ = some es)
    (rest : List Char) :
    evalScript (b ++ ' ' :: (args ++ '\n' :: rest)) = (evalScript rest).map (es ++ ·) := by
  have hlexw : ∃ ws, lex (.word []) args = some ws
      ∧ ws.mapM (fun w => if d then fieldOfDecl w else fieldOf w) = some fs := by
    cases d with
    | true =>
      simp only [if_true, readBackDecl] at hargs
      cases hx : lex (.word []) args with
      | none => simp [hx] at hargs
      | some ws => exact ⟨ws, rfl, by simpa [hx] using hargs⟩
    | false =>
      simp only [Bool.false_eq_true, if_false, readBack] at hargs
      cases hx : lex (.word []) args with
      | none => simp [hx] at hargs
      | some ws => exact ⟨ws, rfl, by simpa [hx] using hargs⟩
  obtain ⟨ws, hlex, hfs⟩ := hlexw
  have hline : lex (.word []) (b ++ ' ' :: args) = some (b.map WUnit.lit :: ws) := by
    have := lex_cons_word b args
    rw [quote_bare hb, unitsOf_bare hb, hlex] at this
    simpa using this
  have hlast : (b ++ ' ' :: args).getLast? ≠ some '\\' := by
    cases args with
    | nil => simp
    | cons a t =>
      rw [show b ++ ' ' :: a :: t = (b ++ [' ']) ++ (a :: t) by simp,
        getLast_append_ne_nil _ _ (by simp)]
      exact hl
  have hf0 : fieldOf (b.map WUnit.lit) = some b := by
    have := fieldOf_unitsOf b
    rwa [unitsOf_bare hb] at this
  have hs := scriptCmds_cmd_line (b ++ ' ' :: args) rest (b.map WUnit.lit) ws d b fs hline hlast hk
    (assignSplit_lits_none b he) hd hf0 hfs
  have e : b ++ ' ' :: (args ++ '\n' :: rest) = (b ++ ' ' :: args) ++ '\n' :: rest := by simp
  rw [e]
  exact evalScript_of_cmds _ rest _ es hs hev

/-! ### per-line effects of the listing built-ins' lines -/

theorem evalCmd_trap (a c : List Char) :
    evalCmd ⟨[], "trap".toList :: ["--".toList, a, c]⟩ = some [Effect.trap (String.ofList c) a] := by
  rfl

theorem trap_util : strNeedsQuoting "trap".toList = false ∧ isKeywordWord ("trap".toList.map WUnit.lit) = false
    ∧ '=' ∉ "trap".toList ∧ declLookup ("trap".toList.map WUnit.lit) = some false := by
  refine ⟨by decide, by decide, by decide, by decide⟩

theorem trap_line_effects (t : String × List Char) (hc : t.1 ∈ condOrder) (rest : List Char) :
    evalScript (printTrap t ++ rest) = (evalScript rest).map ([Effect.trap t.1 t.2] ++ ·) := by
  obtain ⟨cond, action⟩ := t
  have hq : quote cond.toList = cond.toList ∧ cond.toList.getLast? ≠ some '\\'
      ∧ String.ofList cond.toList = cond := by
    simp only [condOrder, List.mem_cons, List.not_mem_nil, or_false] at hc
    rcases hc with rfl | rfl | rfl | rfl | rfl | rfl | rfl <;> decide
  have hargs : readBack (joinSp (["--".toList, action, cond.toList].map quote))
      = some ["--".toList, action, cond.toList] := quote_args_roundtrip _
  have h2 : quote "--".toList = "--".toList := by decide
  simp only [List.map_cons, List.map_nil, joinSp, h2, hq.1] at hargs
  have hl : ("--".toList ++ ' ' :: (quote action ++ ' ' :: cond.toList)).getLast? ≠ some '\\' := by
    rw [show "--".toList ++ ' ' :: (quote action ++ ' ' :: cond.toList)
        = ("--".toList ++ ' ' :: (quote action ++ [' '])) ++ cond.toList by simp]
    rw [getLast_append_ne_nil _ _ (by
      simp only [condOrder, List.mem_cons, List.not_mem_nil, or_false] at hc
      rcases hc with rfl | rfl | rfl | rfl | rfl | rfl | rfl <;> decide)]
    exact hq.2.1
  have hev : evalCmd ⟨[], "trap".toList :: ["--".toList, action, cond.toList]⟩ = some [Effect.trap cond action] := by
    rw [evalCmd_trap, hq.2.2]
  have hargs' : (if false = true then readBackDecl ("--".toList ++ ' ' :: (quote action ++ ' ' :: cond.toList))
      else readBack ("--".toList ++ ' ' :: (quote action ++ ' ' :: cond.toList)))
        = some ["--".toList, action, cond.toList] := by
    rw [if_neg (by decide)]; exact hargs
  have := evalScript_util_line "trap".toList trap_util.1 trap_util.2.1 trap_util.2.2.1 false trap_util.2.2.2
    ("--".toList ++ ' ' :: (quote action ++ ' ' :: cond.toList)) ["--".toList, action, cond.toList] hargs' hl
    [Effect.trap cond action] hev rest
  have e : printTrap (cond, action) ++ rest
      = "trap".toList ++ ' ' :: (("--".toList ++ ' ' :: (quote action ++ ' ' :: cond.toList)) ++ '\n' :: rest) := by
    have h3 : "trap -- ".toList = "trap".toList ++ ' ' :: ("--".toList ++ [' ']) := by decide
    show "trap -- ".toList ++ quote action ++ [' '] ++ cond.toList ++ ['\n'] ++ rest = _
    rw [h3]
    simp only [List.append_assoc, List.cons_append, List.nil_append]
  rw [e]
  exact this

theorem typesetOpts_prefix (m : Var) : typesetOpts m ++ sepOf m.name = prefixSp (typesetOptWords m) := by
  have h1 : "-r ".toList = "-r".toList ++ [' '] := by decide
  have h2 : "-x ".toList = "-x".toList ++ [' '] := by decide
  have h3 : "-- ".toList = "--".toList ++ [' '] := by decide
  unfold typesetOpts typesetOptWords
  rw [h1, h2]
  rcases sepOf_cases m.name with hs | hs
  · rw [hs]
    cases m.readonly <;> cases m.exported <;> simp [prefixSp]
  · rw [hs, h3]
    cases m.readonly <;> cases m.exported <;> simp [prefixSp]

theorem typesetOptWords_bare (m : Var) : ∀ w ∈ typesetOptWords m, quote w = w := by
  have h1 : quote "-r".toList = "-r".toList := by decide
  have h2 : quote "-x".toList = "-x".toList := by decide
  have h3 : quote "--".toList = "--".toList := by decide
  unfold typesetOptWords
  intro w hw
  simp only [List.mem_append] at hw
  rcases hw with (hw | hw) | hw
  · split at hw <;> simp at hw; rw [hw]; exact h1
  · split at hw <;> simp at hw; rw [hw]; exact h2
  · split at hw <;> simp at hw; rw [hw]; exact h3

/-- facts about the three declaration built-ins (tables: keywords, `declUtils`) -/
theorem decl_util (b : String) (hb : b ∈ declBuiltins) :
    strNeedsQuoting b.toList = false ∧ isKeywordWord (b.toList.map WUnit.lit) = false
    ∧ '=' ∉ b.toList ∧ declLookup (b.toList.map WUnit.lit) = some true
    ∧ declBuiltins.find? (fun x => decide (x.toList = b.toList)) = some b := by
  simp only [declBuiltins, List.mem_cons, List.not_mem_nil, or_false] at hb
  rcases hb with rfl | rfl | rfl <;> refine ⟨by decide, by decide, by decide, by decide, by decide⟩

theorem attrLetters_ne_fr (m : Var) : (attrLetters m = ['f', 'r']) = False := by
  unfold attrLetters; cases m.readonly <;> cases m.exported <;> simp

/-- the variable that evaluating `b [-r] [-x] [--] operand` declares -/
def declared (b : String) (m : Var) (value : VarVal) : Var :=
  { name := m.name, value := value, exported := m.exported || b = "export", readonly := m.readonly || b = "readonly" }

theorem evalCmd_decl_scalar (b : String) (hb : b ∈ declBuiltins) (m : Var) (s : List Char) (hne : '=' ∉ m.name) :
    evalCmd ⟨[], b.toList :: (typesetOptWords m ++ [m.name ++ '=' :: s])⟩
      = some [Effect.declare b (declared b m (.scalar s))] := by
  have hparse := parse_typesetOptWords m (m.name ++ '=' :: s)
    (fun h => headOk_of_sep m.name ('=' :: s) h (headOk_eq s))
  have hf := (decl_util b hb).2.2.2.2
  unfold evalCmd
  simp only [List.isEmpty_nil, Bool.not_true, Bool.false_eq_true, if_false, hf, hparse, attrLetters_ne_fr,
    Bool.false_and, decide_false, evalDeclArgs, Option.bind_some, attrLetters_ok,
    splitEq_append m.name s hne, attrLetters_x, attrLetters_r, Option.map_some, declared]

theorem evalCmd_decl_none (b : String) (hb : b ∈ declBuiltins) (m : Var) (hne : '=' ∉ m.name) :
    evalCmd ⟨[], b.toList :: (typesetOptWords m ++ [m.name])⟩
      = some [Effect.declare b (declared b m .none)] := by
  have hparse := parse_typesetOptWords m m.name
    (fun h => by have := headOk_of_sep m.name [] h headOk_nil; simpa using this)
  have hf := (decl_util b hb).2.2.2.2
  unfold evalCmd
  simp only [List.isEmpty_nil, Bool.not_true, Bool.false_eq_true, if_false, hf, hparse, attrLetters_ne_fr,
    Bool.false_and, decide_false, evalDeclArgs, Option.bind_some, attrLetters_ok,
    splitEq_none m.name hne, attrLetters_x, attrLetters_r, Option.map_some, declared]

/-- line of a variable with a scalar value: `b [-r ][-x ][-- ]name=value` -/
theorem decl_scalar_line_effects (b : String) (hb : b ∈ declBuiltins) (m : Var) (s rest : List Char)
    (hne : '=' ∉ m.name) :
    evalScript (b.toList ++ [' '] ++ typesetOpts m ++ sepOf m.name ++ quote m.name ++ ['='] ++ quote s ++ ['\n'] ++ rest)
      = (evalScript rest).map ([Effect.declare b (declared b m (.scalar s))] ++ ·) := by
  have hu := decl_util b hb
  have hargs : (if true = true then readBackDecl (prefixSp (typesetOptWords m) ++ (quote m.name ++ '=' :: quote s))
      else readBack (prefixSp (typesetOptWords m) ++ (quote m.name ++ '=' :: quote s)))
        = some (typesetOptWords m ++ [m.name ++ '=' :: s]) := by
    rw [if_pos rfl, readBackDecl_prefix _ (typesetOptWords_bare m), decl_entry_reparse]
    rfl
  have hl : (prefixSp (typesetOptWords m) ++ (quote m.name ++ '=' :: quote s)).getLast? ≠ some '\\' := by
    rw [show prefixSp (typesetOptWords m) ++ (quote m.name ++ '=' :: quote s)
        = (prefixSp (typesetOptWords m) ++ (quote m.name ++ ['='])) ++ quote s by simp]
    exact getLast_append_quote _ _
  have := evalScript_util_line b.toList hu.1 hu.2.1 hu.2.2.1 true hu.2.2.2.1 _ _ hargs hl _
    (evalCmd_decl_scalar b hb m s hne) rest
  have e : b.toList ++ [' '] ++ typesetOpts m ++ sepOf m.name ++ quote m.name ++ ['='] ++ quote s ++ ['\n'] ++ rest
      = b.toList ++ ' ' :: ((prefixSp (typesetOptWords m) ++ (quote m.name ++ '=' :: quote s)) ++ '\n' :: rest) := by
    rw [← typesetOpts_prefix]
    simp only [List.append_assoc, List.cons_append, List.nil_append]
  rw [e]
  exact this

/-- line of a variable without a value (or the attribute line of an array): `b [-r ][-x ][-- ]name` -/
theorem decl_none_line_effects (b : String) (hb : b ∈ declBuiltins) (m : Var) (rest : List Char)
    (hne : '=' ∉ m.name) :
    evalScript (b.toList ++ [' '] ++ typesetOpts m ++ sepOf m.name ++ quote m.name ++ ['\n'] ++ rest)
      = (evalScript rest).map ([Effect.declare b (declared b m .none)] ++ ·) := by
  have hu := decl_util b hb
  have hname : readBackDecl (quote m.name) = some [m.name] := by
    have := lex_quote_append m.name [] []
    simp only [List.append_nil] at this
    have hne := unitsOf_ne_nil m.name
    simp [readBackDecl, this, lex_word_nil, hne, fieldOfDecl_unitsOf]
  have hargs : (if true = true then readBackDecl (prefixSp (typesetOptWords m) ++ quote m.name)
      else readBack (prefixSp (typesetOptWords m) ++ quote m.name))
        = some (typesetOptWords m ++ [m.name]) := by
    rw [if_pos rfl, readBackDecl_prefix _ (typesetOptWords_bare m), hname]
    rfl
  have hl : (prefixSp (typesetOptWords m) ++ quote m.name).getLast? ≠ some '\\' := getLast_append_quote _ _
  have := evalScript_util_line b.toList hu.1 hu.2.1 hu.2.2.1 true hu.2.2.2.1 _ _ hargs hl _
    (evalCmd_decl_none b hb m hne) rest
  have e : b.toList ++ [' '] ++ typesetOpts m ++ sepOf m.name ++ quote m.name ++ ['\n'] ++ rest
      = b.toList ++ ' ' :: ((prefixSp (typesetOptWords m) ++ quote m.name) ++ '\n' :: rest) := by
    rw [← typesetOpts_prefix]
    simp only [List.append_assoc, List.cons_append, List.nil_append]
  rw [e]
  exact this

/-- one scalar / valueless variable printed by `print_one` for any of the three built-ins; `m` carries the
    attributes that are shown as option letters (`typeset -p`: the variable's own; `export -p`, `readonly -p`: none) -/
theorem printVar_effects (b : String) (hb : b ∈ declBuiltins) (opts : Var → List Char) (sig : Bool) (v m : Var)
    (hopts : opts v = typesetOpts m) (hm : m.name = v.name) (hn : v.name.contains '=' = false)
    (hv : (∃ s, v.value = .scalar s) ∨ v.value = .none) (rest : List Char) :
    evalScript (printVar b opts sig v ++ rest)
      = (evalScript rest).map ([Effect.declare b (declared b m v.value)] ++ ·) := by
  have hne : '=' ∉ m.name := by rw [hm]; simpa [List.contains_iff_mem] using hn
  have hn' : m.name.contains '=' = false := by rw [hm]; exact hn
  rcases hv with ⟨s, hs⟩ | hs
  · have := decl_scalar_line_effects b hb m s rest hne
    rw [hs]
    unfold printVar
    simp only [← hm, hn', Bool.false_eq_true, if_false, hs, hopts]
    simpa only [List.append_assoc] using this
  · have := decl_none_line_effects b hb m rest hne
    rw [hs]
    unfold printVar
    simp only [← hm, hn', Bool.false_eq_true, if_false, hs, hopts]
    simpa only [List.append_assoc] using this

/-- the variable `export -p` / `readonly -p` recreates: name, value and the one attribute -/
def exportedAs (v : Var) : Var := { v with exported := true, readonly := false }

def readonlyAs (v : Var) : Var := { v with exported := false, readonly := true }

theorem escapeDq_length (s : List Char) : s.length ≤ (escapeDq s).length := by
  induction s with
  | nil => simp [escapeDq]
  | cons c cs ih =>
    simp only [escapeDq]
    split <;> simp only [List.length_cons] <;> omega

/-- a string that is printed as itself does not need quoting -/
theorem needs_of_quote_eq {s : List Char} (hq : quote s = s) : strNeedsQuoting s = false := by
  rcases shapes s with ⟨h1, _, _⟩ | ⟨_, _, h2, _⟩ | ⟨_, h2, _⟩
  · exact h1
  · rw [h2] at hq
    have := congrArg List.length hq
    simp only [List.length_cons, List.length_append, List.length_nil] at this
    omega
  · rw [h2] at hq
    have := congrArg List.length hq
    have h3 := escapeDq_length s
    simp only [List.length_cons, List.length_append, List.length_nil] at this
    omega

theorem lexToks_comment_body (body rest : List Char) (h : '\n' ∉ body) :
    lexToks .comment (body ++ '\n' :: rest) = (lexToks (.word []) rest).map (Tok.nl :: ·) := by
  induction body with
  | nil => rw [List.nil_append, lexToks.eq_def]; simp
  | cons c cs ih =>
    have hc : c ≠ '\n' := fun e => h (by simp [e])
    rw [List.cons_append, lexToks.eq_def]
    simp only [hc, if_false]
    exact ih (fun e => h (by simp [e]))

/-- a comment line contributes nothing -/
theorem evalScript_comment_line (body rest : List Char) (h : '\n' ∉ body) :
    evalScript ('#' :: (body ++ '\n' :: rest)) = evalScript rest := by
  have hl : lexToks (.word []) ('#' :: (body ++ '\n' :: rest)) = (lexToks (.word []) rest).map (Tok.nl :: ·) := by
    have hc : Generated.ScriptTables.commentChar = '#' := by decide
    have hb : isBlank '#' = false := by decide
    have ho : isOperatorChar '#' = false := by decide
    conv => lhs; rw [lexToks.eq_def]
    simp [hc, hb, ho, lexToks_comment_body body rest h]
  unfold evalScript scriptCmds
  rw [hl]
  cases lexToks (.word []) rest with
  | none => rfl
  | some ts =>
    have hp : parseToks (Tok.nl :: ts) {} = parseToks ts {} := by
      rw [parseToks_nl ({} : PState) ts rfl]
      cases parseToks ts {} <;> simp [PState.cmds]
    simp only [Option.map_some, Option.bind_some, hp]

theorem evalCmd_set (name : List Char) (on : Bool) :
    evalCmd ⟨[], "set".toList :: [[if on then '-' else '+', 'o'], name]⟩ = some [Effect.setopt name on] := by
  cases on <;> rfl

theorem set_util : strNeedsQuoting "set".toList = false ∧ isKeywordWord ("set".toList.map WUnit.lit) = false
    ∧ '=' ∉ "set".toList ∧ declLookup ("set".toList.map WUnit.lit) = some false := by
  refine ⟨by decide, by decide, by decide, by decide⟩

/-- one line of `set +o` in front of any text: a modifiable option's line sets the option, the line of a
    non-modifiable option is a comment -/
theorem seto_line_effects (name : List Char) (hq : quote name = name) (modifiable on : Bool) (rest : List Char) :
    evalScript (printOpt name modifiable on ++ rest)
      = (evalScript rest).map ((if modifiable then [Effect.setopt name on] else []) ++ ·) := by
  cases modifiable with
  | false =>
    have hnl : '\n' ∉ "set ".toList ++ [if on then '-' else '+'] ++ "o ".toList ++ name := by
      have hn : '\n' ∉ name := by
        intro hm
        have hneeds := needs_of_quote_eq hq
        have hb := bare_of_not_needs hneeds
        exact hb.special _ hm (Or.inr (Or.inr (Or.inr (Or.inr (Or.inr (Or.inl (by decide)))))))
      cases on <;> simp [hn]
    have e : printOpt name false on ++ rest
        = '#' :: (("set ".toList ++ [if on then '-' else '+'] ++ "o ".toList ++ name) ++ '\n' :: rest) := by
      simp [printOpt]
    rw [e, evalScript_comment_line _ _ hnl]
    cases evalScript rest <;> simp
  | true =>
    have h2 : quote [if on then '-' else '+', 'o'] = [if on then '-' else '+', 'o'] := by cases on <;> decide
    have hargs := quote_args_roundtrip [[if on then '-' else '+', 'o'], name]
    simp only [List.map_cons, List.map_nil, joinSp, h2, hq] at hargs
    have hargs' : (if false = true then readBackDecl ([if on then '-' else '+', 'o'] ++ ' ' :: name)
        else readBack ([if on then '-' else '+', 'o'] ++ ' ' :: name)) = some [[if on then '-' else '+', 'o'], name] := by
      rw [if_neg (by decide)]; exact hargs
    have hl : ([if on then '-' else '+', 'o'] ++ ' ' :: name).getLast? ≠ some '\\' := by
      have := getLast_append_quote ([if on then '-' else '+', 'o'] ++ [' ']) name
      rw [hq] at this
      simpa using this
    have := evalScript_util_line "set".toList set_util.1 set_util.2.1 set_util.2.2.1 false set_util.2.2.2
      _ _ hargs' hl _ (evalCmd_set name on) rest
    have e : printOpt name true on ++ rest
        = "set".toList ++ ' ' :: (([if on then '-' else '+', 'o'] ++ ' ' :: name) ++ '\n' :: rest) := by
      have h3 : "set ".toList = "set".toList ++ [' '] := by decide
      have h4 : "o ".toList = ['o', ' '] := by decide
      show ([] ++ "set ".toList ++ [if on then '-' else '+'] ++ "o ".toList ++ name ++ ['\n']) ++ rest = _
      rw [h3, h4]
      simp only [List.append_assoc, List.cons_append, List.nil_append]
    rw [e]
    simpa using this

theorem seto_lines_effects (f : List Char × Bool × Bool → Bool) (rows : List (List Char × Bool × Bool))
    (hq : ∀ o ∈ rows, quote o.1 = o.1) (rest : List Char) :
    evalScript ((rows.map fun o => printOpt o.1 o.2.1 (f o)).flatten ++ rest)
      = (evalScript rest).map (((rows.filter (·.2.1)).map fun o => Effect.setopt o.1 (f o)) ++ ·) := by
  induction rows with
  | nil =>
    simp only [List.map_nil, List.flatten_nil, List.nil_append, List.filter_nil]
    cases evalScript rest <;> rfl
  | cons o r ih =>
    simp only [List.map_cons, List.flatten_cons, List.append_assoc]
    rw [seto_line_effects o.1 (hq o (by simp)) o.2.1 (f o), ih (fun x hx => hq x (by simp [hx]))]
    cases evalScript rest with
    | none => rfl
    | some es =>
      cases hm : o.2.1 <;> simp [List.filter_cons, hm]

theorem trapShown_key (s : State) (c : String) (t : String × List Char) (h : s.trapShown c = some t) : t.1 = c := by
  unfold State.trapShown at h
  split at h
  · next t' hf =>
    cases h
    simpa using List.find?_some hf
  · simpa using List.find?_some h

theorem evalCmd_fnattr (name : List Char) :
    evalCmd ⟨[], "typeset".toList :: (["-fr".toList] ++ (if (fsepOf name).isEmpty then [] else ["--".toList]) ++ [name])⟩
      = some [Effect.fnattr name] := by
  have ht : ∀ c ∈ ['-', '+'], c ∈ functionSeparatorPrefixes := by decide
  rcases fsepOf_cases name with hs | hs
  · have hok : headOk name := by
      intro c r e
      subst e
      unfold fsepOf at hs
      by_cases hc : functionSeparatorPrefixes.contains c = true
      · simp only [hc, if_true] at hs
        exact absurd hs (by decide)
      · exact ⟨fun e2 => hc (List.contains_iff_mem.mpr (ht c (by simp [e2]))),
          fun e2 => hc (List.contains_iff_mem.mpr (ht c (by simp [e2])))⟩
    have hp : parseDeclArgs ["-fr".toList, name] [] = some (['f', 'r'], [name]) := by
      have : parseDeclArgs ("-fr".toList :: [name]) [] = parseDeclArgs [name] ([] ++ ['f', 'r']) := by
        simp [parseDeclArgs]
      rw [this, parseDeclArgs_operand name [] _ hok]
      rfl
    have hf : declBuiltins.find? (fun x => decide (x.toList = "typeset".toList)) = some "typeset" := by decide
    unfold evalCmd
    simp only [hs, List.isEmpty_nil, if_true, List.append_nil, List.singleton_append, Bool.not_true,
      Bool.false_eq_true, if_false, hf, hp, decide_true, Bool.and_self]
  · have hne : (fsepOf name).isEmpty = false := by rw [hs]; decide
    have hp : parseDeclArgs ["-fr".toList, "--".toList, name] [] = some (['f', 'r'], [name]) := by
      simp [parseDeclArgs]
    have hf : declBuiltins.find? (fun x => decide (x.toList = "typeset".toList)) = some "typeset" := by decide
    unfold evalCmd
    simp only [hne, Bool.false_eq_true, if_false, List.singleton_append, List.cons_append, List.nil_append,
      List.isEmpty_nil, Bool.not_true, hf, hp, decide_true, Bool.and_self, if_true]

theorem fnattr_line_effects (name rest : List Char) :
    evalScript (printFnAttr name ++ rest) = (evalScript rest).map ([Effect.fnattr name] ++ ·) := by
  have hu := decl_util "typeset" (by decide)
  have hrb := function_attr_line_reparse name
  -- the arguments after `typeset `
  have h0 : "typeset -fr ".toList = "typeset".toList ++ ' ' :: ("-fr".toList ++ [' ']) := by decide
  have hq1 : quote "-fr".toList = "-fr".toList := by decide
  have hq2 : quote "--".toList = "--".toList := by decide
  have h3 : "-- ".toList = "--".toList ++ [' '] := by decide
  have hargs : readBackDecl ("-fr".toList ++ ' ' :: (fsepOf name ++ quote name))
      = some (["-fr".toList] ++ (if (fsepOf name).isEmpty then [] else ["--".toList]) ++ [name]) := by
    have hname : readBackDecl (quote name) = some [name] := by
      have := lex_quote_append name [] []
      simp only [List.append_nil] at this
      have hne := unitsOf_ne_nil name
      simp [readBackDecl, this, lex_word_nil, hne, fieldOfDecl_unitsOf]
    rcases fsepOf_cases name with hs | hs
    · rw [hs]
      have := readBackDecl_cons_word "-fr".toList (quote name)
      rw [hq1] at this
      simp only [List.nil_append, List.isEmpty_nil, if_true, List.append_nil]
      rw [this, hname]; rfl
    · rw [hs, h3]
      have hne : ("--".toList ++ [' ']).isEmpty = false := by decide
      have a := readBackDecl_cons_word "-fr".toList ("--".toList ++ [' '] ++ quote name)
      have b := readBackDecl_cons_word "--".toList (quote name)
      rw [hq1] at a; rw [hq2] at b
      simp only [hne, Bool.false_eq_true, if_false, List.append_assoc, List.cons_append, List.nil_append] at a b ⊢
      rw [a, b, hname]; rfl
  have hl : ("-fr".toList ++ ' ' :: (fsepOf name ++ quote name)).getLast? ≠ some '\\' := by
    rw [show "-fr".toList ++ ' ' :: (fsepOf name ++ quote name) = ("-fr".toList ++ ' ' :: fsepOf name) ++ quote name by simp]
    exact getLast_append_quote _ _
  have := evalScript_util_line "typeset".toList hu.1 hu.2.1 hu.2.2.1 true hu.2.2.2.1 _ _
    (by rw [if_pos rfl]; exact hargs) hl _ (evalCmd_fnattr name) rest
  have e : printFnAttr name ++ rest
      = "typeset".toList ++ ' ' :: (("-fr".toList ++ ' ' :: (fsepOf name ++ quote name)) ++ '\n' :: rest) := by
    unfold printFnAttr
    rw [h0]
    simp only [List.append_assoc, List.cons_append, List.nil_append]
  rw [e]
  exact this

theorem keywords_no_eq : ∀ k ∈ keywords, '=' ∉ k := by decide

theorem takeWhile_lits_eq (n : List Char) (r : List WUnit) (hne : '=' ∉ n) :
    (n.map WUnit.lit ++ WUnit.lit '=' :: r).takeWhile (· ≠ WUnit.lit '=') = n.map WUnit.lit := by
  induction n with
  | nil => simp
  | cons c cs ih =>
    have hc : c ≠ '=' := fun e => hne (by simp [e])
    have := ih (fun e => hne (by simp [e]))
    simp only [ne_eq, decide_not] at this
    simp [List.takeWhile_cons, hc, this]

/-- the word `name=<quoted value>` with a bare name is an assignment of the value's units -/
theorem assignSplit_assign (n v : List Char) (hn : strNeedsQuoting n = false) :
    assignSplit (n.map WUnit.lit ++ WUnit.lit '=' :: unitsOf v) = some (n, unitsOf v)
    ∧ isKeywordWord (n.map WUnit.lit ++ WUnit.lit '=' :: unitsOf v) = false := by
  have hb := bare_of_not_needs hn
  have hne : '=' ∉ n := by
    intro h
    exact hb.special '=' h |> fun hs => by
      have : charNeedsQuoting '=' = true := eq_needs_quoting
      simp only [strNeedsQuoting, Bool.or_eq_false_iff] at hn
      have := List.any_eq_false.mp hn.1.1.2 '=' h
      simp [eq_needs_quoting] at this
  constructor
  · have htf : tildeFront (n.map WUnit.lit ++ WUnit.lit '=' :: unitsOf v) = false := by
      cases n with
      | nil => exact absurd rfl hb.nonempty
      | cons c cs =>
        have hc : c ≠ '~' := by
          intro h
          have hm : c ∈ firstCharArms := first_arms c (by simp [h])
          have := hb.first
          simp [firstCharNeeds] at this
          exact this hm
        simp [tildeFront, hc]
    unfold assignSplit
    rw [htf, assignValue_lits n _ false (Or.inr hb.nonempty) hne, takeWhile_lits_eq n _ hne, removeQuotes_lits]
    simp
  · unfold isKeywordWord
    have : keywords.contains (removeQuotes (n.map WUnit.lit ++ WUnit.lit '=' :: unitsOf v)) = false := by
      rw [Bool.eq_false_iff]
      intro hc
      have hm := List.contains_iff_mem.mp hc
      have := keywords_no_eq _ hm
      apply this
      rw [removeQuotes_append]
      simp [removeQuotes, WUnit.chars]
    rw [this, Bool.and_false]

theorem assign_line_effects (n v rest : List Char) (hn : strNeedsQuoting n = false) :
    evalScript (n ++ '=' :: (quote v ++ '\n' :: rest))
      = (evalScript rest).map ([Effect.assign n (.scalar v)] ++ ·) := by
  have hlex : lex (.word []) (n ++ '=' :: quote v) = some [n.map WUnit.lit ++ WUnit.lit '=' :: unitsOf v] := by
    have := lex_assign n v
    rwa [quote_bare hn, unitsOf_bare hn] at this
  have hl : (n ++ '=' :: quote v).getLast? ≠ some '\\' := by
    rw [show n ++ '=' :: quote v = (n ++ ['=']) ++ quote v by simp]
    exact getLast_append_quote _ _
  obtain ⟨hsplit, hkw⟩ := assignSplit_assign n v hn
  have hcmds : scriptCmds ((n ++ '=' :: quote v) ++ '\n' :: rest)
      = (scriptCmds rest).map fun cs => (⟨[(n, .scalar v)], []⟩ : Cmd) :: cs := by
    unfold scriptCmds
    rw [lexToks_line _ rest _ hlex hl]
    cases lexToks (.word []) rest with
    | none => rfl
    | some ts =>
      have hp : parseToks (List.map Tok.w [n.map WUnit.lit ++ WUnit.lit '=' :: unitsOf v] ++ Tok.nl :: ts) {}
          = (parseToks ts {}).map fun cs => (⟨[(n, .scalar (unitsOf v))], []⟩ : SimpleCmd) :: cs := by
        simp only [List.map_cons, List.map_nil, List.cons_append, List.nil_append]
        simp only [parseToks, hkw, hsplit, Bool.false_and, Bool.false_eq_true, if_false, List.isEmpty_nil,
          Option.isSome_none, List.nil_append]
        cases parseToks ts {} <;> simp [PState.cmds]
      simp only [Option.map_some, Option.bind_some, hp]
      cases parseToks ts {} with
      | none => rfl
      | some cs =>
        have he : expandCmd ⟨[(n, .scalar (unitsOf v))], []⟩ = some ⟨[(n, .scalar v)], []⟩ := by
          simp [expandCmd, expandAssign, (triggers_unitsOf v).1, removeQuotes_unitsOf]
        simp only [Option.map_some, Option.bind_some, List.mapM_cons, he]
        cases cs.mapM expandCmd <;> rfl
  have e : n ++ '=' :: (quote v ++ '\n' :: rest) = (n ++ '=' :: quote v) ++ '\n' :: rest := by simp
  rw [e]
  exact evalScript_of_cmds _ rest _ _ hcmds rfl

theorem evalCmd_alias (w : List Char) :
    evalCmd ⟨[], "alias".toList :: ["--".toList, w]⟩ = (splitEq w).map fun p => [Effect.alias p.1 p.2] := by
  rfl

theorem alias_util : strNeedsQuoting "alias".toList = false ∧ isKeywordWord ("alias".toList.map WUnit.lit) = false
    ∧ '=' ∉ "alias".toList ∧ declLookup ("alias".toList.map WUnit.lit) = some false := by
  refine ⟨by decide, by decide, by decide, by decide⟩

theorem alias_line_effects (n v rest : List Char) (hn : '=' ∉ n) (h : crossBracket n v = false) :
    evalScript ("alias -- ".toList ++ printAlias (n, v) ++ rest)
      = (evalScript rest).map ([Effect.alias n v] ++ ·) := by
  have hq2 : quote "--".toList = "--".toList := by decide
  have hargs : readBack ("--".toList ++ ' ' :: (quote n ++ '=' :: quote v)) = some ["--".toList, n ++ '=' :: v] := by
    have := readBack_cons_word "--".toList (quote n ++ '=' :: quote v)
    rw [hq2] at this
    rw [this, alias_entry_reparse n v h]; rfl
  have hl : ("--".toList ++ ' ' :: (quote n ++ '=' :: quote v)).getLast? ≠ some '\\' := by
    rw [show "--".toList ++ ' ' :: (quote n ++ '=' :: quote v)
        = ("--".toList ++ ' ' :: (quote n ++ ['='])) ++ quote v by simp]
    exact getLast_append_quote _ _
  have hev : evalCmd ⟨[], "alias".toList :: ["--".toList, n ++ '=' :: v]⟩ = some [Effect.alias n v] := by
    rw [evalCmd_alias, splitEq_append n v hn]; rfl
  have := evalScript_util_line "alias".toList alias_util.1 alias_util.2.1 alias_util.2.2.1 false
    alias_util.2.2.2 _ _ (by rw [if_neg (by decide)]; exact hargs) hl _ hev rest
  have e : "alias -- ".toList ++ printAlias (n, v) ++ rest
      = "alias".toList ++ ' ' :: (("--".toList ++ ' ' :: (quote n ++ '=' :: quote v)) ++ '\n' :: rest) := by
    have h3 : "alias -- ".toList = "alias".toList ++ ' ' :: ("--".toList ++ [' ']) := by decide
    show "alias -- ".toList ++ (quote n ++ ['='] ++ quote v ++ ['\n']) ++ rest = _
    rw [h3]
    simp only [List.append_assoc, List.cons_append, List.nil_append]
  rw [e]
  exact this

end YashModel.Quote
