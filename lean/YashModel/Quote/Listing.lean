/-
  C07 — Part 3 of the Impl model: line formats of the state-listing built-ins and how a fresh shell reads
  them back (placeholder; filled in below).
-/
import YashModel.Common.Proto
import YashModel.Quote.Model
namespace YashModel.Quote.Listing

def runL (_ : List String) : String := "bad-case\t-"

end YashModel.Quote.Listing
