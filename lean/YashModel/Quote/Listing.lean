/-
  C07 — Part 3 of the Impl model: line formats of the state-listing built-ins as functions of
  (name, value, attributes), transcribed from

    yash-builtin/src/alias/semantics.rs        `print`            `<name>=<value>`
    yash-builtin/src/typeset/print_variables.rs `print_one`        `typeset [-r ][-x ][-- ]<name>=<value>` …
    yash-builtin/src/export.rs / readonly.rs    `PRINT_CONTEXT`    (no option letters, builtin significant)
    yash-builtin/src/set.rs                     `PrintVariables`   `<name>=<value>` for identifier names
    yash-builtin/src/trap.rs                    `display_trap`     `trap -- <action> <COND>`
    yash-builtin/src/umask.rs                   `Show{symbolic:false}`  three octal digits
    yash-builtin/src/set.rs                     `PrintOptionsMachineReadable`  `[#]set ±o <option>` (table: Generated/OptionTable)
    yash-env/src/variable/value.rs              `QuotedValue`      scalar / `(v1 v2 …)`

  together with the (simple) effect of the definition commands of a history on the listed state, so that
  the driver can predict the exact text the real built-ins print, and `entryOk…` = the listing re-read by
  the model lexer yields the words that recreate the entry.
-/
import YashModel.Common.Proto
import YashModel.Quote.Model
import YashModel.Quote.Script
import YashModel.Generated.OptionTable
import YashModel.Generated.ListingTables
namespace YashModel.Quote.Listing
open YashModel.Quote YashModel.Proto

inductive VarVal
  | none
  | scalar (s : List Char)
  | array (vs : List (List Char))
  deriving DecidableEq, Repr

structure Var where
  name : List Char
  value : VarVal
  exported : Bool
  readonly : Bool
  deriving DecidableEq, Repr

structure State where
  vars : List Var := []
  aliases : List (List Char × List Char) := []
  traps : List (String × List Char) := []     -- condition name ↦ action (`[]` = ignore)
  /-- `GrandState::parent_state`: command actions the parent shell had when this subshell was entered
      (what `trap` shows in a subshell until a trap is modified there) -/
  parentCmds : List (String × List Char) := []
  umask : Nat := 0
  fns : List (List Char × Bool) := []          -- function name ↦ read-only
  opts : List (List Char × Bool) := []         -- options set explicitly (`set ±o name`), newest last
  /-- signals ignored on entry to the (non-interactive) shell: `TrapSet::set_action` refuses to change them
      (`SetActionError::InitiallyIgnored`, which the built-in does not even report) -/
  entryIgnored : List String := []

/-! ### definition commands -/

def upsertVar (vs : List Var) (name : List Char) (f : Option Var → Var) : List Var :=
  match vs.find? (·.name = name) with
  | some old => vs.map fun v => if v.name = name then f (some old) else v
  | none => vs ++ [f none]

/-- `typeset [-x] [-r] name=value` -/
def State.setScalar (s : State) (name value : List Char) (x r : Bool) : State :=
  { s with vars := upsertVar s.vars name fun o =>
      { name, value := .scalar value, exported := x || (o.map (·.exported)).getD false,
        readonly := r || (o.map (·.readonly)).getD false } }

/-- `typeset [-x] [-r] name` : attributes only; an existing value stays -/
def State.declare (s : State) (name : List Char) (x r : Bool) : State :=
  { s with vars := upsertVar s.vars name fun o =>
      { name, value := (o.map (·.value)).getD .none, exported := x || (o.map (·.exported)).getD false,
        readonly := r || (o.map (·.readonly)).getD false } }

/-- `name=(v1 v2 …)` then `typeset [-x] [-r] name` -/
def State.setArray (s : State) (name : List Char) (vals : List (List Char)) (x r : Bool) : State :=
  { s with vars := upsertVar s.vars name fun o =>
      { name, value := .array vals, exported := x || (o.map (·.exported)).getD false,
        readonly := r || (o.map (·.readonly)).getD false } }

def State.setAlias (s : State) (name value : List Char) : State :=
  { s with aliases := (s.aliases.filter (·.1 ≠ name)) ++ [(name, value)] }

/-- `trap -- action COND` (`-` resets to the default action) -/
def State.setTrap (s : State) (cond : String) (action : List Char) : State :=
  let rest := s.traps.filter (·.1 ≠ cond)
  -- every `set_action` first clears all remembered parent states
  { s with traps := if action = ['-'] then rest else rest ++ [(cond, action)], parentCmds := [] }

/-- the `trap` built-in in a non-interactive shell: a signal that was ignored on entry is left alone
    (`SetActionError::InitiallyIgnored`; trap.rs `main` drops that error without a message) -/
def State.setTrapCmd (s : State) (cond : String) (action : List Char) : State :=
  if s.entryIgnored.contains cond then s else s.setTrap cond action

/-- `TrapSet::enter_subshell` (yash-env/src/trap/state.rs `GrandState::enter_subshell`), for EVERY
    condition — signals and EXIT alike: a command action is remembered in `parent_state` and reset to the
    default; an ignored condition stays ignored. -/
def State.enterSubshell (s : State) : State :=
  { s with parentCmds := s.traps.filter (fun t => !t.2.isEmpty),
           traps := s.traps.filter (fun t => t.2.isEmpty) }

/-- `TrapSet::peek_state`: the remembered parent state if there is one, else the current state -/
def State.trapShown (s : State) (cond : String) : Option (String × List Char) :=
  match s.parentCmds.find? (·.1 = cond) with
  | some t => some t
  | none => s.traps.find? (·.1 = cond)

/-! ### printers -/

/-- Rust `str` ordering (bytewise UTF-8 = by scalar values) -/
def ltName : List Char → List Char → Bool
  | [], [] => false
  | [], _ :: _ => true
  | _ :: _, [] => false
  | a :: as, b :: bs => a.toNat < b.toNat || (a = b && ltName as bs)

def insertBy {α} (key : α → List Char) (x : α) : List α → List α
  | [] => [x]
  | y :: ys => if ltName (key x) (key y) then x :: y :: ys else y :: insertBy key x ys

def sortBy {α} (key : α → List Char) (l : List α) : List α := l.foldr (insertBy key) []

/-- `QuotedValue` of an array: `(v1 v2 …)` -/
def quoteArray (vs : List (List Char)) : List Char :=
  '(' :: (joinSp (vs.map quote) ++ [')'])

/-- `separator` of `print_one` (`name.starts_with([...])`, characters from the generated table) -/
def sepOf (name : List Char) : List Char :=
  match name with
  | c :: _ => if Generated.QuoteTables.separatorPrefixes.contains c then "-- ".toList else []
  | [] => []

/-- first characters with which the built-ins' argument parser (yash-builtin/src/common/syntax.rs)
    takes an argument for an option: `-x`, `+x` -/
def optionPrefixChars : List Char := ['-', '+']

/-- `AttributeOption` for `typeset` (`ALL_OPTIONS` order: `-r` before `-x`) -/
def typesetOpts (v : Var) : List Char :=
  (if v.readonly then "-r ".toList else []) ++ (if v.exported then "-x ".toList else [])

/-- `print_one` of print_variables.rs -/
def printVar (builtin : String) (opts : Var → List Char) (significant : Bool) (v : Var) : List Char :=
  if v.name.contains '=' then []
  else
    let head := builtin.toList ++ [' '] ++ opts v ++ sepOf v.name ++ quote v.name
    match v.value with
    | .scalar s => head ++ ['='] ++ quote s ++ ['\n']
    | .array vs =>
      quote v.name ++ ['='] ++ quoteArray vs ++ ['\n']
        ++ (if !(opts v).isEmpty || significant then head ++ ['\n'] else [])
    | .none => head ++ ['\n']

def listTypeset (s : State) : List Char :=
  ((sortBy (·.name) s.vars).map (printVar "typeset" typesetOpts false)).flatten
def listExport (s : State) : List Char :=
  ((sortBy (·.name) (s.vars.filter (·.exported))).map (printVar "export" (fun _ => []) true)).flatten
def listReadonly (s : State) : List Char :=
  ((sortBy (·.name) (s.vars.filter (·.readonly))).map (printVar "readonly" (fun _ => []) true)).flatten

/-- `is_name` (= `is_portable_name`) -/
def isName (n : List Char) : Bool :=
  match n with
  | [] => false
  | c :: _ => !c.isDigit && n.all isNameChar

/-- `set` without operands -/
def printSet (v : Var) : List Char :=
  match v.value with
  | .scalar s => v.name ++ ['='] ++ quote s ++ ['\n']
  | .array vs => v.name ++ ['='] ++ quoteArray vs ++ ['\n']
  | .none => []
def listSet (s : State) : List Char :=
  ((sortBy (·.name) (s.vars.filter (isName ·.name))).map printSet).flatten

/-- `alias` without operands -/
def printAlias (a : List Char × List Char) : List Char := quote a.1 ++ ['='] ++ quote a.2 ++ ['\n']
def listAlias (s : State) : List Char := ((sortBy (·.1) s.aliases).map printAlias).flatten

/-- conditions in the order of `Condition::iter` on the virtual system (those the harness uses) -/
def condOrder : List String := ["EXIT", "HUP", "INT", "QUIT", "TERM", "USR1", "USR2"]

def printTrap (t : String × List Char) : List Char :=
  "trap -- ".toList ++ quote t.2 ++ [' '] ++ t.1.toList ++ ['\n']
def listTrap (s : State) : List Char :=
  (condOrder.filterMap fun c => (s.trapShown c).map printTrap).flatten

def octal3 (n : Nat) : List Char :=
  [Char.ofNat (48 + n / 64 % 8), Char.ofNat (48 + n / 8 % 8), Char.ofNat (48 + n % 8)]
def listUmask (s : State) : List Char := octal3 s.umask ++ ['\n']

/-! ### function attribute lines of `typeset -fp` -/

/-- `'name'() body` [then `typeset -fr -- name`] -/
def State.setFn (s : State) (name : List Char) (ro : Bool) : State :=
  { s with fns := s.fns.filter (·.1 ≠ name) ++ [(name, ro)] }

/-- `separator` of print_functions.rs `print_one` (characters from the generated table) -/
def fsepOf (name : List Char) : List Char :=
  match name with
  | c :: _ => if Generated.QuoteTables.functionSeparatorPrefixes.contains c then "-- ".toList else []
  | [] => []

/-- attribute line of a read-only function: `typeset -fr [-- ]<name>` (`typeset` context: the line is
    printed only when an attribute option letter applies) -/
def printFnAttr (name : List Char) : List Char :=
  "typeset -fr ".toList ++ fsepOf name ++ quote name ++ ['\n']

def listFnAttr (s : State) : List Char :=
  (((sortBy (·.1) s.fns).filter (·.2)).map fun f => printFnAttr f.1).flatten

/-- the function name operand is not mistaken for an option -/
def fnOperandSafe (name : List Char) : Bool :=
  !(fsepOf name).isEmpty ||
    !(match name with | c :: _ => optionPrefixChars.contains c | [] => false)

/-! ### `set +o` -/

/-- `set -o name` / `set +o name` -/
def State.setOpt (s : State) (name : List Char) (on : Bool) : State :=
  { s with opts := s.opts.filter (·.1 ≠ name) ++ [(name, on)] }

/-- `env.options.get(option)`: the explicit setting, else `OptionSet::default()` -/
def State.optOn (s : State) (name : List Char) (dflt : Bool) : Bool :=
  ((s.opts.find? (·.1 = name)).map (·.2)).getD dflt

/-- one line of `set +o`: `{skip}set {flag}o {option}` -/
def printOpt (name : List Char) (modifiable on : Bool) : List Char :=
  (if modifiable then [] else ['#']) ++ "set ".toList ++ [if on then '-' else '+'] ++ "o ".toList ++ name ++ ['\n']

/-- `set +o` (`PrintOptionsMachineReadable`): portable off first, every other option, portable back on last -/
def listSetO (s : State) : List Char :=
  let tbl := Generated.OptionTable.options
  let pn := Generated.OptionTable.portableName
  let pOn := s.optOn pn (((tbl.find? (·.1 = pn)).map (·.2.2)).getD false)
  printOpt pn true false
    ++ ((tbl.filter (·.1 ≠ pn)).map fun o => printOpt o.1 o.2.1 (s.optOn o.1 o.2.2)).flatten
    ++ (if pOn then printOpt pn true true else [])

/-- a modifiable option's line reads back as the `set` command that recreates the setting; a line for a
    non-modifiable option is a comment -/
def optEntryOk (name : List Char) (modifiable on : Bool) : Bool :=
  if modifiable then
    readBack (dropNl' (printOpt name modifiable on)) == some ["set".toList, [if on then '-' else '+', 'o'], name]
  else readBack (dropNl' (printOpt name modifiable on)) == none
where dropNl' (l : List Char) : List Char := if l.getLast? = some '\n' then l.dropLast else l

/-- the operand of `umask <three octal digits>` -/
def parseOctal3 (cs : List Char) : Option Nat :=
  match cs.map (fun c => c.toNat - 48) with
  | [a, b, c] => some (a * 64 + b * 8 + c)
  | _ => none

/-! ### symbolic `umask` (yash-builtin/src/umask/symbol.rs `parse_clauses`, eval.rs `new_mask`, format.rs) -/

inductive Perm
  | copyU | copyG | copyO
  | lit (mask : Nat) (condX : Bool)
  deriving DecidableEq

/-- `Who::parse` -/
def parseWho : List Char → Nat → Nat × List Char
  | 'u' :: r, m => parseWho r (m ||| 0o700)
  | 'g' :: r, m => parseWho r (m ||| 0o070)
  | 'o' :: r, m => parseWho r (m ||| 0o007)
  | 'a' :: r, m => parseWho r (m ||| 0o777)
  | r, m => (if m = 0 then 0o777 else m, r)

def isPermChar (c : Char) : Bool := "ugorwxXs".toList.contains c

/-- `Permission::parse` -/
def parsePerm (cs : List Char) : Option (Perm × List Char) :=
  let alpha := cs.takeWhile isPermChar
  if alpha.any (fun c => c = 'u' || c = 'g' || c = 'o') then
    match alpha with
    | ['u'] => some (.copyU, cs.drop 1)
    | ['g'] => some (.copyG, cs.drop 1)
    | ['o'] => some (.copyO, cs.drop 1)
    | _ => none
  else
    let mask := alpha.foldl (fun m c =>
      if c = 'r' then m ||| 0o444 else if c = 'w' then m ||| 0o222 else if c = 'x' then m ||| 0o111 else m) 0
    some (.lit mask (alpha.contains 'X'), cs.drop alpha.length)

/-- operator: 0 = add, 1 = remove, 2 = set -/
def parseOp : Char → Option Nat
  | '+' => some 0 | '-' => some 1 | '=' => some 2 | _ => none

/-- actions of one clause (`Clause::parse` loop), at least one -/
def parseActions : Nat → List Char → List (Nat × Perm) → Option (List (Nat × Perm) × List Char)
  | 0, _, _ => none
  | fuel + 1, cs, acc =>
    match cs with
    | c :: r =>
      match parseOp c with
      | some op =>
        match parsePerm r with
        | some (p, r') => parseActions fuel r' (acc ++ [(op, p)])
        | none => none
      | none => if acc.isEmpty then none else some (acc, cs)
    | [] => if acc.isEmpty then none else some (acc, [])

/-- `parse_clauses` -/
def parseClauses : Nat → List Char → Option (List (Nat × List (Nat × Perm)))
  | 0, _ => none
  | fuel + 1, cs =>
    let (who, r) := parseWho cs 0
    match parseActions (r.length + 1) r [] with
    | none => none
    | some (acts, r') =>
      match r' with
      | [] => some [(who, acts)]
      | ',' :: r'' => (parseClauses fuel r'').map ((who, acts) :: ·)
      | _ => none

def copyBits (m : Nat) : Nat := let b := m &&& 7; (b <<< 6) ||| (b <<< 3) ||| b
def notBits (x : Nat) : Nat := 511 ^^^ (x &&& 511)

/-- `eval::new_mask` on the allowed bits (9 bits) -/
def evalClauses (current : Nat) (cl : List (Nat × List (Nat × Perm))) : Nat :=
  cl.foldl (fun result c =>
    c.2.foldl (fun result a =>
      let resolution := match a.2 with
        | .copyU => copyBits (current >>> 6)
        | .copyG => copyBits (current >>> 3)
        | .copyO => copyBits current
        | .lit m cx => m ||| (if cx && (current &&& 0o111) ≠ 0 then 0o111 else 0)
      let who := c.1
      if a.1 = 0 then (resolution &&& who) ||| result
      else if a.1 = 1 then notBits (resolution &&& who) &&& result
      else (resolution &&& who) ||| (result &&& notBits who)) result) current

/-- `umask -- <symbolic>`: the new allowed bits -/
def applySymbolic (text : List Char) (current : Nat) : Option Nat :=
  (parseClauses (text.length + 1) text).map (evalClauses current)

/-- `format_symbolic` -/
def formatSymbolic (allowed : Nat) : List Char :=
  let grp (sh : Nat) : List Char :=
    (if allowed >>> sh &&& 4 ≠ 0 then ['r'] else []) ++ (if allowed >>> sh &&& 2 ≠ 0 then ['w'] else [])
      ++ (if allowed >>> sh &&& 1 ≠ 0 then ['x'] else [])
  "u=".toList ++ grp 6 ++ ",g=".toList ++ grp 3 ++ ",o=".toList ++ grp 0

/-! ### reading an entry back (what the listing means to a fresh shell) -/

def dropNl (l : List Char) : List Char := if l.getLast? = some '\n' then l.dropLast else l

/-! ### evaluating a listed line (what a fresh shell makes of it) -/

/-- `Lexer::token_id`: a word whose units are all unquoted literals and spell a reserved word -/
def isKeywordToken (w : List WUnit) : Bool := isKeywordWord w

/-- `Parser::array_values` on the text `(` … `)` of an array assignment: the words between the parentheses;
    every `Token(_)` is pushed — a reserved word too, if the arm is `Token(_keyword)`. -/
def readArrayValues (s : List Char) : Option (List (List Char)) :=
  match s with
  | '(' :: r =>
    if r.getLast? = some ')' then
      (lex (.word []) r.dropLast).bind fun ws =>
        ws.mapM fun w =>
          if isKeywordToken w && !Generated.QuoteTables.arrayAcceptsKeywords then none else fieldOf w
    else none
  | _ => none

/-- `name=value` split at the first `=` (typeset / alias operands) -/
def splitEq : List Char → Option (List Char × List Char)
  | [] => none
  | c :: r => if c = '=' then some ([], r) else (splitEq r).map fun p => (c :: p.1, p.2)

/-- Option parsing of `typeset` / `export` / `readonly` as far as listings need it
    (yash-builtin/src/common/syntax.rs `parse_arguments`): words `-xyz` before the first operand are option
    groups, `--` ends the options, a word `+x…` would be taken for an option too (not produced: `none`),
    `-` and `+` alone and everything else start the operands. Returns (option letters, operands). -/
def parseDeclArgs : List (List Char) → List Char → Option (List Char × List (List Char))
  | [], o => some (o, [])
  | w :: ws, o =>
    if w = ['-', '-'] then some (o, ws)
    else match w with
      | '-' :: c :: cs => parseDeclArgs ws (o ++ c :: cs)
      | '+' :: _ :: _ => none
      | _ => some (o, w :: ws)

def stripPrefix : List Char → List Char → Option (List Char)
  | [], l => some l
  | _ :: _, [] => none
  | p :: ps, c :: cs => if p = c then stripPrefix ps cs else none

/-- What evaluating one line `typeset …` / `export …` / `readonly …` defines: the variable it (re)creates. -/
def evalDeclLine (builtin : String) (line : List Char) : Option Var :=
  (stripPrefix (builtin.toList ++ [' ']) (dropNl line)).bind fun rest =>
  (readBackDecl rest).bind fun fields =>
  (parseDeclArgs fields []).bind fun po =>
    if !(po.1.all fun c => c = 'r' || c = 'x') then none
    else match po.2 with
      | [w] =>
        let nv : List Char × VarVal := match splitEq w with
          | some (n, v) => (n, .scalar v)
          | none => (w, .none)
        some { name := nv.1, value := nv.2,
               exported := po.1.contains 'x' || builtin = "export",
               readonly := po.1.contains 'r' || builtin = "readonly" }
      | _ => none

/-- What evaluating `alias -- <entry>` defines. -/
def evalAliasEntry (entry : List Char) : Option (List Char × List Char) :=
  (readBack ("alias -- ".toList ++ dropNl entry)).bind fun fields =>
    match fields with
    | [a, d, w] => if a = "alias".toList && d = "--".toList then splitEq w else none
    | _ => none

/-- What evaluating a line `trap -- <action> <COND>` sets: (condition, action). -/
def evalTrapLine (line : List Char) : Option (String × List Char) :=
  (readBack (dropNl line)).bind fun fields =>
    match fields with
    | [t, d, action, cond] =>
      if t = "trap".toList && d = "--".toList then some (String.ofList cond, action) else none
    | _ => none


/-- words of the option part, e.g. `"-r -x -- "` ↦ `["-r", "-x", "--"]` -/
def optWords (v : Var) (opts : Var → List Char) : List (List Char) :=
  (((String.ofList (opts v ++ sepOf v.name)).splitOn " ").filter (· ≠ "")).map String.toList

/-- The operand `name[=value]` is not mistaken for an option by the utility's argument parser: it does not
    begin with `-` or `+`, or the separator `--` is printed before it. -/
def operandSafe (name : List Char) : Bool :=
  !(sepOf name).isEmpty ||
    !(match name with | c :: _ => optionPrefixChars.contains c | [] => false)

/-- the command line(s) of a variable entry read back by the model lexer are exactly the words that
    recreate the entry (arguments of a declaration utility: `readBackDecl`) -/
def varEntryOk (builtin : String) (opts : Var → List Char) (significant : Bool) (v : Var) : Bool :=
  if v.name.contains '=' then true
  else if !operandSafe v.name then false
  else
    let pre := optWords v opts
    let args (line : List Char) := line.drop (builtin.length + 1)   -- what follows the utility name
    let attrLine := readBackDecl (opts v ++ sepOf v.name ++ quote v.name) == some (pre ++ [v.name])
    match v.value with
    | .scalar s =>
      readBackDecl (args (dropNl (printVar builtin opts significant v))) == some (pre ++ [v.name ++ ['='] ++ s])
        && (evalDeclLine builtin (printVar builtin opts significant v)).map (fun w => (w.name, w.value))
            == some (v.name, .scalar s)
    | .array vs =>
      readArrayValues (quoteArray vs) == some vs
        && readBack (quote v.name) == some [v.name]
        && (!(!(opts v).isEmpty || significant) || attrLine)
    | .none => attrLine

def aliasEntryOk (a : List Char × List Char) : Bool :=
  evalAliasEntry (printAlias a) == some a &&
  readBack ("alias -- ".toList ++ dropNl (printAlias a)) == some ["alias".toList, "--".toList, a.1 ++ ['='] ++ a.2]

def trapEntryOk (t : String × List Char) : Bool :=
  evalTrapLine (printTrap t) == some t &&
  readBack (dropNl (printTrap t)) == some ["trap".toList, "--".toList, t.2, t.1.toList]

def setEntryOk (v : Var) : Bool :=
  match v.value with
  | .scalar s => readBack (dropNl (printSet v)) == some [v.name ++ ['='] ++ s] && readBack (quote s) == some [s]
  | .array vs => readArrayValues (quoteArray vs) == some vs
  | .none => true

def fnEntryOk (name : List Char) : Bool :=
  fnOperandSafe name &&
    readBack (dropNl (printFnAttr name))
      == some (["typeset".toList, "-fr".toList] ++ (if (fsepOf name).isEmpty then [] else ["--".toList]) ++ [name])

/-- Spec verdict on a state: every listed entry re-reads as the words that recreate it -/
def stateVerdict (s : State) : String :=
  if !(s.aliases.all aliasEntryOk) then "FAIL:A:entry-does-not-reread"
  else if !(s.vars.all (varEntryOk "typeset" typesetOpts false)) then "FAIL:V:entry-does-not-reread"
  else if !((s.vars.filter (·.exported)).all (varEntryOk "export" (fun _ => []) true)) then "FAIL:X:entry-does-not-reread"
  else if !((s.vars.filter (·.readonly)).all (varEntryOk "readonly" (fun _ => []) true)) then "FAIL:R:entry-does-not-reread"
  else if !((s.vars.filter (isName ·.name)).all setEntryOk) then "FAIL:S:entry-does-not-reread"
  else if !(s.traps.all trapEntryOk) then "FAIL:T:entry-does-not-reread"
  else if listTrap s.enterSubshell != listTrap s then "FAIL:Ts:subshell-listing-differs-from-the-parent's"
  else if !((s.fns.filter (·.2)).all fun f => fnEntryOk f.1) then "FAIL:F:attribute-line-does-not-reread"
  else if !(Generated.OptionTable.options.all fun o => optEntryOk o.1 o.2.1 (s.optOn o.1 o.2.2)) then
    "FAIL:O:entry-does-not-reread"
  else "ok"

/-! ### evaluating a whole listing TEXT (what a fresh shell makes of it, line after line) -/

/-- what one command of a listing defines -/
inductive Effect
  | declare (builtin : String) (v : Var)            -- `typeset …` / `export …` / `readonly …`
  | assign (name : List Char) (value : VarVal)      -- `name=value` / `name=(…)`
  | alias (name value : List Char)                  -- `alias -- name=value`
  | trap (cond : String) (action : List Char)       -- `trap -- action COND`
  | setopt (name : List Char) (on : Bool)           -- `set -o name` / `set +o name`
  | fnattr (name : List Char)                       -- `typeset -fr [--] name`
  deriving DecidableEq, Repr

/-- `evalDeclLine` from the fields on: options / `--` / operand parsed, operand split at the first `=` -/
def evalDeclArgs (builtin : String) (fields : List (List Char)) : Option Var :=
  (parseDeclArgs fields []).bind fun po =>
    if !(po.1.all fun c => c = 'r' || c = 'x') then none
    else match po.2 with
      | [w] =>
        let nv : List Char × VarVal := match splitEq w with
          | some (n, v) => (n, .scalar v)
          | none => (w, .none)
        some { name := nv.1, value := nv.2,
               exported := po.1.contains 'x' || builtin = "export",
               readonly := po.1.contains 'r' || builtin = "readonly" }
      | _ => none

def fvalToVarVal : FVal → VarVal
  | .scalar s => .scalar s
  | .array vs => .array vs

/-- the utilities whose operands are `name[=value]` declarations -/
def declBuiltins : List String := ["typeset", "export", "readonly"]

/-- What a fresh shell does with one command of a listing (the commands the listing built-ins print). -/
def evalCmd (c : Cmd) : Option (List Effect) :=
  match c.fields with
  | [] => some (c.assigns.map fun a => .assign a.1 (fvalToVarVal a.2))
  | f :: args =>
    if !c.assigns.isEmpty then none
    else match declBuiltins.find? (·.toList = f) with
      | some b =>
        match parseDeclArgs args [] with
        | some (o, ops) =>
          if o = ['f', 'r'] && b = "typeset" then
            match ops with
            | [n] => some [.fnattr n]
            | _ => none
          else (evalDeclArgs b args).map fun v => [.declare b v]
        | none => none
      | none =>
        if f = "alias".toList then
          match args with
          | [d, w] => if d = "--".toList then (splitEq w).map fun p => [.alias p.1 p.2] else none
          -- `alias name=value` (as `command -v` prints it): an operand unless it looks like an option
          | [w] => if w.head? = some '-' then none else (splitEq w).map fun p => [.alias p.1 p.2]
          | _ => none
        else if f = "trap".toList then
          match args with
          | [d, a, cnd] => if d = "--".toList then some [.trap (String.ofList cnd) a] else none
          | _ => none
        else if f = "set".toList then
          match args with
          | [o, n] =>
            if o = "-o".toList then some [.setopt n true]
            else if o = "+o".toList then some [.setopt n false] else none
          | _ => none
        else none

/-- Evaluating a whole text: read its commands (`scriptCmds`: tokens, newline-separated simple commands,
    fields), then the effect of each. -/
def evalScript (text : List Char) : Option (List Effect) :=
  (scriptCmds text).bind fun cs => (cs.mapM evalCmd).map List.flatten

/-- `alias` prints entries, not commands; the harness (and a user) gives each back as `alias -- <entry>` -/
def aliasReScript (as : List (List Char × List Char)) : List Char :=
  (as.map fun a => "alias -- ".toList ++ printAlias a).flatten

/-- the effects the whole-text evaluation of each listing of state `s` must have -/
def expectedTypeset (s : State) : List Effect :=
  ((sortBy (·.name) s.vars).filter (!·.name.contains '=')).flatMap fun v =>
    match v.value with
    | .array vs => [Effect.assign v.name (.array vs)]
        ++ (if v.readonly || v.exported then [.declare "typeset" { v with value := .none }] else [])
    | _ => [.declare "typeset" v]

/-- `export -p` / `readonly -p`: the listed variables (names containing `=` are skipped by the printer); an
    array is an assignment followed by the attribute line (always printed: the built-in name is significant) -/
def expectedAttrListing (b : String) (vars : List Var) : List Effect :=
  ((sortBy (·.name) vars).filter (!·.name.contains '=')).flatMap fun v =>
    let w : Var := { v with exported := b = "export", readonly := b = "readonly" }
    match v.value with
    | .array vs => [Effect.assign v.name (.array vs), .declare b { w with value := .none }]
    | _ => [.declare b w]

def expectedExport (s : State) : List Effect := expectedAttrListing "export" (s.vars.filter (·.exported))
def expectedReadonly (s : State) : List Effect := expectedAttrListing "readonly" (s.vars.filter (·.readonly))

def expectedSet (s : State) : List Effect :=
  ((sortBy (·.name) (s.vars.filter (isName ·.name))).filter (·.value ≠ .none)).map fun v => .assign v.name v.value

def expectedTrap (s : State) : List Effect :=
  condOrder.filterMap fun c => (s.trapShown c).map fun t => .trap t.1 t.2

def expectedSetO (s : State) : List Effect :=
  let tbl := Generated.OptionTable.options
  let pn := Generated.OptionTable.portableName
  let pOn := s.optOn pn (((tbl.find? (·.1 = pn)).map (·.2.2)).getD false)
  [Effect.setopt pn false]
    ++ ((tbl.filter (·.1 ≠ pn)).filter (·.2.1)).map (fun o => .setopt o.1 (s.optOn o.1 o.2.2))
    ++ (if pOn then [.setopt pn true] else [])

/-- Spec verdict on the whole TEXT of each listing: evaluated as a script it has exactly the effects that
    recreate the state (`alias`: outside the known cross-bracket case) -/
def textVerdict (s : State) : String :=
  if evalScript (listTypeset s) != some (expectedTypeset s) then "FAIL:Vt:whole-listing-does-not-recreate"
  else if evalScript (listExport s) != some (expectedExport s) then "FAIL:Xt:whole-listing-does-not-recreate"
  else if evalScript (listReadonly s) != some (expectedReadonly s) then "FAIL:Rt:whole-listing-does-not-recreate"
  else if evalScript (listSet s) != some (expectedSet s) then "FAIL:St:whole-listing-does-not-recreate"
  else if evalScript (listTrap s) != some (expectedTrap s) then "FAIL:Tt:whole-listing-does-not-recreate"
  else if evalScript (listSetO s) != some (expectedSetO s) then "FAIL:Ot:whole-listing-does-not-recreate"
  else if evalScript (listFnAttr s) != some (((sortBy (·.1) s.fns).filter (·.2)).map fun f => .fnattr f.1) then
    "FAIL:Ft:whole-listing-does-not-recreate"
  else "ok"

/-! ### listings with operands, `trap -p`, `set -o`, `umask -S` -/

/-- `alias -- n1 n2 …` with the names in descending order -/
def listAliasOperands (s : State) : List Char := ((sortBy (·.1) s.aliases).reverse.map printAlias).flatten

/-- `command -v` on one alias name (yash-builtin/src/command/identify.rs `describe`, non-verbose): a reserved word
    is categorised as a keyword BEFORE the alias lookup and printed as the bare word; an alias is printed as the
    command line `alias [-- ]<quoted name>=<quoted value>` (`-- ` iff the name starts with `-`) -/
def printCommandV (a : List Char × List Char) : List Char :=
  if Generated.QuoteTables.keywords.contains a.1 then a.1 ++ ['\n']
  else "alias ".toList ++ (if a.1.head? = some '-' then "-- ".toList else []) ++ quote a.1 ++ ['='] ++ quote a.2 ++ ['\n']

/-- `command -v -- n1 n2 …` with the alias names in descending order -/
def listCommandV (s : State) : List Char := ((sortBy (·.1) s.aliases).reverse.map printCommandV).flatten

/-- `typeset -p -- n1 n2 …` (names in descending order; names containing `=` cannot be operands) -/
def listTypesetOperands (s : State) : List Char :=
  (((sortBy (·.name) s.vars).reverse.filter (!·.name.contains '=')).map (printVar "typeset" typesetOpts false)).flatten

/-- `trap -p COND…` (`Command::Print`): every operand, the default action as `-` -/
def listTrapP (s : State) : List Char :=
  (condOrder.reverse.map fun c =>
    printTrap (c, ((s.trapShown c).map (·.2)).getD ['-'])).flatten

/-- `set -o` (`PrintOptionsHumanReadable`): `{option:16} {state}` -/
def listSetOHuman (s : State) : List Char :=
  (Generated.OptionTable.options.map fun o =>
    o.1 ++ List.replicate (16 - o.1.length) ' ' ++ [' ']
      ++ (if s.optOn o.1 o.2.2 then "on".toList else "off".toList) ++ ['\n']).flatten

/-- `umask -S` -/
def listUmaskS (s : State) : List Char := formatSymbolic (511 - s.umask % 512) ++ ['\n']

/-! ### driver part -/

def decHexList (t : String) : Option (List (List Char)) :=
  if t = "." then some [] else (t.splitOn ",").mapM decChars

def applyOp (s : State) (op : String) : Option State :=
  match op.splitOn ":" with
  | ["v", n, v, a] => do
    pure (s.setScalar (← decChars n) (← decChars v) (a.contains 'x') (a.contains 'r'))
  | ["pv", n, v, a] => do
    pure (s.setScalar (← decChars n) (← decChars v) (a.contains 'x') (a.contains 'r'))
  | ["pn", n, a] => do pure (s.declare (← decChars n) (a.contains 'x') (a.contains 'r'))
  | ["n", n, a] => do pure (s.declare (← decChars n) (a.contains 'x') (a.contains 'r'))
  | ["a", n, vs, a] => do pure (s.setArray (← decChars n) (← decHexList vs) (a.contains 'x') (a.contains 'r'))
  | ["aq", n, vs, a] => do pure (s.setArray (← decChars n) (← decHexList vs) (a.contains 'x') (a.contains 'r'))
  | ["aQ", n, vs, a] => do pure (s.setArray (← decChars n) (← decHexList vs) (a.contains 'x') (a.contains 'r'))
  | ["e", n, v] => do
    let name ← decChars n
    if name.contains '=' then pure (s.setScalar name (← decChars v) false false) else none
  | ["ms", m] =>
    if m.isEmpty || !(m.toList.all fun c => "ugoarwxXs+-=,".toList.contains c) then none
    else (applySymbolic m.toList (511 - s.umask % 512)).map fun allowed => { s with umask := 511 - allowed }
  | ["l", n, v] => do pure (s.setAlias (← decChars n) (← decChars v))
  | ["lg", n, v] => do pure (s.setAlias (← decChars n) (← decChars v))
  | ["ti", c] =>
    -- ignored on entry: shown as an ignored trap (`peek_state` reads the inherited disposition)
    if c = "EXIT" || !condOrder.contains c then none
    else some { s with traps := s.traps.filter (·.1 ≠ c) ++ [(c, [])], entryIgnored := c :: s.entryIgnored }
  | ["t", c, a] => do pure (s.setTrapCmd c (← decChars a))
  | ["tn", c, n, a] =>
    -- the condition was given by NUMBER: it must be the number the sources give that name (0 = EXIT)
    if (c = "EXIT" && n = "0") || (Generated.ListingTables.virtualSignals.any fun p => p.1 = c && toString p.2 = n)
    then do pure (s.setTrapCmd c (← decChars a)) else none
  | ["m", m] => (parseOctal3 m.toList).map fun u => { s with umask := u }
  | ["o", o, st] => some (s.setOpt o.toList (st = "1"))
  | [k, n, _] => if k = "f" || k = "fq" || k = "fk" then do pure (s.setFn (← decChars n) false) else none
  | [k, n, _, "r"] => if k = "f" || k = "fq" || k = "fk" then do pure (s.setFn (← decChars n) true) else none
  | _ => none

/-- the umask a fresh virtual shell starts with (`Mode::default()` of the virtual system) -/
def initialUmask : Nat := 0o644

def runL (ops : List String) : String :=
  match ops.foldlM applyOp ({ umask := initialUmask } : State) with
  | none => "bad-case\t-"
  | some s =>
    let e (l : List Char) := encChars l
    s!"A={e (listAlias s)} V={e (listTypeset s)} X={e (listExport s)} R={e (listReadonly s)} S={e (listSet s)} T={e (listTrap s)} U={e (listUmask s)} O={e (listSetO s)} Ao={e (listAliasOperands s)} Vo={e (listTypesetOperands s)} Tc={e (listTrapP s)} Oh={e (listSetOHuman s)} Us={e (listUmaskS s)} Ts={e (listTrap s.enterSubshell)} Tk={e (listTrap s.enterSubshell)} Tq={e (listTrap s.enterSubshell)} As={e (listAlias s)} Vs={e (listTypeset s)} Os={e (listSetO s)} Cv={e (listCommandV s)} Am={e (listAliasOperands s)} Vm=- Xm=- Rm=- Fm=- Fa={e (listFnAttr s)}\t{if stateVerdict s != "ok" then stateVerdict s else textVerdict s}"

end YashModel.Quote.Listing
