/-
  C07 — wave-3 lemmas: (1) every portable name (`is_name`) is printed bare by the quoter (character-class facts
  over the generated tables); (2) an array assignment line `name=(v1 v2 …)` in front of any text (tokens with
  `(` glued to the `=`, `array_values`, `Assign::try_from` with an empty value); (3) one variable of any kind
  printed by `print_one`, a list of them, and the sorted / filtered lists of a whole state.
-/
import YashModel.Quote.ScriptLemmas
import YashModel.Generated.ListingTables
namespace YashModel.Quote
open YashModel.Generated.QuoteTables
open Listing
open YashModel.Generated.ListingTables

/-! ### portable names are bare -/

theorem nameChar_range {c : Char} (h : isNameChar c = true) : 48 ≤ c.toNat ∧ c.toNat ≤ 122 := by
  simp only [isNameChar, Char.isAlphanum, Char.isAlpha, Char.isUpper, Char.isLower, Char.isDigit,
    Bool.or_eq_true, Bool.and_eq_true, decide_eq_true_eq] at h
  have e : c.toNat = c.val.toNat := rfl
  rcases h with ((⟨h1, h2⟩ | ⟨h1, h2⟩) | ⟨h1, h2⟩) | h
  · have := UInt32.le_iff_toNat_le.mp h1; have := UInt32.le_iff_toNat_le.mp h2
    simp at *; omega
  · have := UInt32.le_iff_toNat_le.mp h1; have := UInt32.le_iff_toNat_le.mp h2
    simp at *; omega
  · have := UInt32.le_iff_toNat_le.mp h1; have := UInt32.le_iff_toNat_le.mp h2
    simp at *; omega
  · subst h; decide

theorem arms_not_name : ∀ c ∈ needsQuotingArms, isNameChar c = false := by decide
theorem firstArms_not_name : ∀ c ∈ firstCharArms, isNameChar c = false := by decide
theorem infix_not_name : ∀ p ∈ infixStrings, ∃ c ∈ p, isNameChar c = false := by decide
theorem pairs_not_name : ∀ p ∈ bracketPairs, isNameChar p.1 = false := by decide
theorem ws_not_name : ∀ r ∈ whitespaceRanges, r.2 < 48 ∨ 122 < r.1 := by decide

theorem nameChar_not_needs {c : Char} (h : isNameChar c = true) : charNeedsQuoting c = false := by
  unfold charNeedsQuoting
  rw [Bool.or_eq_false_iff]
  constructor
  · rw [Bool.eq_false_iff]
    intro hc
    have := arms_not_name c (List.contains_iff_mem.mp hc)
    rw [h] at this; cases this
  · rw [Bool.and_eq_false_iff]; right
    rw [Bool.eq_false_iff]
    intro hw
    unfold isWhitespace at hw
    obtain ⟨r, hr, hin⟩ := List.any_eq_true.mp hw
    simp only [Bool.and_eq_true, decide_eq_true_eq] at hin
    have := ws_not_name r hr
    have := nameChar_range h
    omega

theorem hasInfix_mem (p : List Char) : ∀ s, hasInfix p s = true → ∀ c ∈ p, c ∈ s := by
  intro s
  induction s with
  | nil =>
    intro h c hc
    simp only [hasInfix, List.isEmpty_iff] at h
    subst h; cases hc
  | cons a t ih =>
    intro h c hc
    simp only [hasInfix, Bool.or_eq_true] at h
    rcases h with h | h
    · have := List.isPrefixOf_iff_prefix.mp h
      exact this.subset hc
    · exact List.mem_cons_of_mem _ (ih h c hc)

theorem openThenClose_mem (o c : Char) : ∀ s, openThenClose o c s = true → o ∈ s := by
  intro s
  induction s with
  | nil => intro h; simp [openThenClose] at h
  | cons a t ih =>
    intro h
    simp only [openThenClose] at h
    by_cases ha : a = o
    · simp [ha]
    · rw [if_neg ha] at h
      exact List.mem_cons_of_mem _ (ih h)

/-- every non-empty string of portable-name characters is printed bare -/
theorem nameChars_bare (n : List Char) (hne : n ≠ []) (h : ∀ c ∈ n, isNameChar c = true) :
    strNeedsQuoting n = false := by
  unfold strNeedsQuoting
  simp only [Bool.or_eq_false_iff]
  refine ⟨⟨⟨⟨?_, ?_⟩, ?_⟩, ?_⟩, ?_⟩
  · cases n with
    | nil => exact absurd rfl hne
    | cons _ _ => rfl
  · cases n with
    | nil => rfl
    | cons c t =>
      simp only [firstCharNeeds]
      rw [Bool.eq_false_iff]
      intro hc
      have := firstArms_not_name c (List.contains_iff_mem.mp hc)
      rw [h c (by simp)] at this; cases this
  · rw [List.any_eq_false]
    intro c hc
    simp [nameChar_not_needs (h c hc)]
  · rw [List.any_eq_false]
    intro p hp
    rw [Bool.not_eq_true, Bool.eq_false_iff]
    intro hi
    obtain ⟨c, hc, hn⟩ := infix_not_name p hp
    have := h c (hasInfix_mem p n hi c hc)
    rw [hn] at this; cases this
  · rw [List.any_eq_false]
    intro p hp
    rw [Bool.not_eq_true, Bool.eq_false_iff]
    intro hi
    have := h p.1 (openThenClose_mem p.1 p.2 n hi)
    rw [pairs_not_name p hp] at this; cases this

/-- `is_name` names are printed bare -/
theorem isName_bare (n : List Char) (h : isName n = true) : strNeedsQuoting n = false := by
  cases n with
  | nil => simp [isName] at h
  | cons c t =>
    simp only [isName, Bool.and_eq_true, List.all_eq_true] at h
    exact nameChars_bare _ (by simp) h.2

/-! ### the array assignment line -/

theorem lexToks_word_plain (us : List WUnit) (c : Char) (r : List Char)
    (hs : ¬ lexerSpecial c) (hc : c ≠ '#' ∨ us ≠ []) :
    lexToks (.word us) (c :: r) = lexToks (.word (.lit c :: us)) r := by
  simp only [lexerSpecial, not_or] at hs
  obtain ⟨h1, h2, h3, h4, h5, h6, h7⟩ := hs
  have hop : ∀ x, isOperatorChar x = true → c ≠ x := fun x hx e => h6 (e ▸ hx)
  have n1 := hop _ opchar_nl
  have n2 := hop _ opchar_open
  have n3 := hop _ opchar_close
  have hcc : Generated.ScriptTables.commentChar = '#' := by decide
  have h8 : (c = '#' && us.isEmpty) = false := by
    rcases hc with h | h
    · simp [h]
    · cases us with
      | nil => exact absurd rfl h
      | cons _ _ => simp
  conv => lhs; rw [lexToks.eq_def]
  simp [h1, h2, h3, h4, h5, h6, h7, h8, n1, n2, n3, hcc]

theorem lexToks_bare_append (s : List Char) :
    ∀ (us : List WUnit) (r : List Char), (∀ c ∈ s, ¬ lexerSpecial c) →
      (us ≠ [] ∨ firstCharNeeds s = false) →
      lexToks (.word us) (s ++ r) = lexToks (.word ((s.map WUnit.lit).reverse ++ us)) r := by
  induction s with
  | nil => intro us r _ _; simp
  | cons c cs ih =>
    intro us r hs hf
    have hc : c ≠ '#' ∨ us ≠ [] := by
      rcases hf with h | h
      · exact Or.inr h
      · left
        intro hc
        have hm : c ∈ firstCharArms := first_arms c (by simp [hc])
        simp [firstCharNeeds] at h
        exact h hm
    simp only [List.cons_append]
    rw [lexToks_word_plain us c (cs ++ r) (hs c (by simp)) hc]
    rw [ih (.lit c :: us) r (fun d hd => hs d (by simp [hd])) (Or.inl (by simp))]
    simp

theorem lexToks_open (us : List WUnit) (r : List Char) (h : us ≠ []) :
    lexToks (.word us) ('(' :: r) = (lexToks (.word []) r).map fun ts => Tok.w us.reverse :: Tok.op true :: ts := by
  conv => lhs; rw [lexToks.eq_def]
  cases us with
  | nil => exact absurd rfl h
  | cons u t => simp [endTok]

theorem lexToks_close_nl (rest : List Char) :
    lexToks (.word []) (')' :: '\n' :: rest) = (lexToks (.word []) rest).map fun ts => Tok.cl :: Tok.nl :: ts := by
  conv => lhs; rw [lexToks.eq_def]
  simp only [endTok]
  rw [lexToks_nl]
  simp [Option.map_map, Function.comp_def]

/-- tokens of an array assignment line `name=(v1 v2 …)` with a bare name, in front of any text -/
theorem lexToks_array_line (n : List Char) (vs : List (List Char)) (rest : List Char)
    (hn : strNeedsQuoting n = false) :
    lexToks (.word []) (n ++ '=' :: (quoteArray vs ++ '\n' :: rest))
      = (lexToks (.word []) rest).map fun ts =>
          Tok.w (n.map WUnit.lit ++ [WUnit.lit '=']) :: Tok.op true
            :: ((vs.map unitsOf).map Tok.w ++ Tok.cl :: Tok.nl :: ts) := by
  have hb := bare_of_not_needs hn
  have e : n ++ '=' :: (quoteArray vs ++ '\n' :: rest)
      = (n ++ ['=']) ++ ('(' :: (joinSp (vs.map quote) ++ ')' :: '\n' :: rest)) := by
    simp [quoteArray]
  rw [e, lexToks_bare_append (n ++ ['=']) [] _ (by
      intro c hc
      rcases List.mem_append.mp hc with h | h
      · exact hb.special c h
      · simp only [List.mem_singleton] at h; subst h; exact not_special_eq) (Or.inr (by
      cases n with
      | nil => exact absurd rfl hb.nonempty
      | cons c t => simpa [firstCharNeeds] using hb.first))]
  rw [lexToks_open _ _ (by simp)]
  have hlast : (joinSp (vs.map quote)).getLast? ≠ some '\\' := by
    clear e
    induction vs with
    | nil => simp [joinSp]
    | cons a t ih =>
      cases t with
      | nil => simpa [joinSp] using (quote_last a).2
      | cons b t' =>
        simp only [List.map_cons, joinSp] at ih ⊢
        rw [show quote a ++ ' ' :: joinSp (quote b :: List.map quote t')
          = (quote a ++ [' ']) ++ joinSp (quote b :: List.map quote t') by simp]
        rw [getLast_append_ne_nil _ _ (by
          cases t' with
          | nil => simpa [joinSp] using (quote_last b).1
          | cons _ _ => simp [joinSp, (quote_last b).1])]
        exact ih
  have := lexToks_of_lex_term ')' (Or.inr rfl) ('\n' :: rest) (.word []) _ _ (lex_args vs) hlast
  simp only [SMode.ofMode] at this
  rw [this, lexToks_close_nl]
  simp [Option.map_map, Function.comp_def]

theorem arrayAccepts : arrayAcceptsKeywords = true := by decide

/-- `array_values`: every word up to the `)` is pushed -/
theorem parseToks_array_words (ws : List (List WUnit)) (ts : List Tok) :
    ∀ (st : PState) (vs : List (List WUnit)), st.arr = some vs →
      parseToks (ws.map Tok.w ++ ts) st = parseToks ts { st with arr := some (vs ++ ws) } := by
  induction ws with
  | nil => intro st vs h; cases st; simp_all
  | cons w r ih =>
    intro st vs h
    simp only [List.map_cons, List.cons_append, parseToks, h, arrayAccepts, Bool.not_true, Bool.and_false,
      Bool.false_eq_true, if_false]
    rw [ih _ (vs ++ [w]) rfl]
    simp

/-- generalisation of `assignSplit_assign`: any units may follow the `=` -/
theorem assignSplit_bare (n : List Char) (r : List WUnit) (hn : strNeedsQuoting n = false) :
    assignSplit (n.map WUnit.lit ++ WUnit.lit '=' :: r) = some (n, r)
    ∧ isKeywordWord (n.map WUnit.lit ++ WUnit.lit '=' :: r) = false := by
  have hb := bare_of_not_needs hn
  have hne : '=' ∉ n := by
    intro h
    simp only [strNeedsQuoting, Bool.or_eq_false_iff] at hn
    have := List.any_eq_false.mp hn.1.1.2 '=' h
    simp [eq_needs_quoting] at this
  constructor
  · have htf : tildeFront (n.map WUnit.lit ++ WUnit.lit '=' :: r) = false := by
      cases n with
      | nil => exact absurd rfl hb.nonempty
      | cons c cs =>
        have hc : c ≠ '~' := by
          intro h
          have hm : c ∈ firstCharArms := first_arms c (by simp [h])
          have := hb.first
          simp [firstCharNeeds] at this
          exact this hm
        simp [tildeFront, hc]
    unfold assignSplit
    rw [htf, assignValue_lits n _ false (Or.inr hb.nonempty) hne, takeWhile_lits_eq n _ hne, removeQuotes_lits]
    simp
  · unfold isKeywordWord
    have : keywords.contains (removeQuotes (n.map WUnit.lit ++ WUnit.lit '=' :: r)) = false := by
      rw [Bool.eq_false_iff]
      intro hc
      have hm := List.contains_iff_mem.mp hc
      have := keywords_no_eq _ hm
      apply this
      rw [removeQuotes_append]
      simp [removeQuotes, WUnit.chars]
    rw [this, Bool.and_false]

theorem parseToks_array_line (name : List Char) (w0 : List WUnit) (ws : List (List WUnit)) (ts : List Tok)
    (hsplit : assignSplit w0 = some (name, [])) (hkw : isKeywordWord w0 = false) :
    parseToks (Tok.w w0 :: Tok.op true :: (ws.map Tok.w ++ Tok.cl :: Tok.nl :: ts)) {}
      = (parseToks ts {}).map fun cs => (⟨[(name, .array ws)], []⟩ : SimpleCmd) :: cs := by
  simp only [parseToks, hkw, hsplit, Bool.false_and, Bool.false_eq_true, if_false, List.isEmpty_nil,
    Option.isNone_none, List.nil_append, Bool.and_self, if_true]
  rw [parseToks_array_words ws _ _ [] rfl]
  simp only [parseToks, List.nil_append, setLastArray, Option.isSome_none, Bool.false_eq_true, if_false]
  cases parseToks ts {} <;> simp [PState.cmds]

/-- ★ engine: an array assignment line `name=(v1 v2 …)` (bare name) in front of any text -/
theorem array_line_effects (n : List Char) (vs : List (List Char)) (rest : List Char)
    (hn : strNeedsQuoting n = false) :
    evalScript (n ++ '=' :: (quoteArray vs ++ '\n' :: rest))
      = (evalScript rest).map ([Effect.assign n (.array vs)] ++ ·) := by
  obtain ⟨hsplit, hkw⟩ := assignSplit_bare n [] hn
  have hcmds : scriptCmds (n ++ '=' :: (quoteArray vs ++ '\n' :: rest))
      = (scriptCmds rest).map fun cs => (⟨[(n, .array vs)], []⟩ : Cmd) :: cs := by
    unfold scriptCmds
    rw [lexToks_array_line n vs rest hn]
    cases lexToks (.word []) rest with
    | none => rfl
    | some ts =>
      simp only [Option.map_some, Option.bind_some]
      rw [parseToks_array_line n _ _ ts hsplit hkw]
      cases parseToks ts {} with
      | none => rfl
      | some cs =>
        have he : expandCmd ⟨[(n, .array (vs.map unitsOf))], []⟩ = some ⟨[(n, .array vs)], []⟩ := by
          have hm := mapM_fieldOf_units vs
          simp only [expandCmd, expandAssign, List.mapM_cons, List.mapM_nil, hm]
          rfl
        simp only [Option.map_some, Option.bind_some, List.mapM_cons, he]
        cases cs.mapM expandCmd <;> rfl
  exact evalScript_of_cmds _ rest _ _ hcmds rfl

/-! ### variables of any kind, lists, states -/

theorem mem_insertBy {α} (key : α → List Char) (x y : α) (l : List α) :
    y ∈ insertBy key x l ↔ y = x ∨ y ∈ l := by
  induction l with
  | nil => simp [insertBy]
  | cons a t ih =>
    simp only [insertBy]
    split
    · simp
    · simp only [List.mem_cons, ih]
      constructor
      · rintro (h | h | h) <;> simp [h]
      · rintro (h | h | h) <;> simp [h]

theorem mem_sortBy {α} (key : α → List Char) (l : List α) (y : α) : y ∈ sortBy key l ↔ y ∈ l := by
  induction l with
  | nil => simp [sortBy]
  | cons a t ih =>
    have : sortBy key (a :: t) = insertBy key a (sortBy key t) := rfl
    rw [this, mem_insertBy, ih]
    simp

/-- what evaluating the line(s) `print_one` prints for one variable must define: nothing for a name containing
    `=` (skipped by the printer); an array is an assignment, followed by the attribute line when one is printed -/
def varEffects (b : String) (showAttr : Bool) (m v : Var) : List Effect :=
  if v.name.contains '=' then []
  else match v.value with
    | .array vs =>
      Effect.assign v.name (.array vs) :: (if showAttr then [Effect.declare b (declared b m .none)] else [])
    | val => [Effect.declare b (declared b m val)]

theorem map_nil_append {α} (o : Option (List α)) : o.map (([] : List α) ++ ·) = o := by
  cases o <;> simp

/-- one variable of ANY kind printed by `print_one` (scalar, valueless, array with its attribute line, name
    containing `=`) in front of any text -/
theorem printVar_effects_full (b : String) (hb : b ∈ declBuiltins) (opts : Var → List Char) (sig : Bool) (v m : Var)
    (hopts : opts v = typesetOpts m) (hm : m.name = v.name)
    (harr : ∀ vs, v.value = .array vs → strNeedsQuoting v.name = false) (rest : List Char) :
    evalScript (printVar b opts sig v ++ rest)
      = (evalScript rest).map (varEffects b (!(opts v).isEmpty || sig) m v ++ ·) := by
  by_cases hn : v.name.contains '=' = true
  · simp only [printVar, varEffects, hn, if_true, List.nil_append]
    exact (map_nil_append _).symm
  · have hn' : v.name.contains '=' = false := by simpa using hn
    have hmem : '=' ∉ v.name := by simpa [List.contains_iff_mem] using hn'
    cases hval : v.value with
    | none =>
      rw [printVar_effects b hb opts sig v m hopts hm hn' (Or.inr hval) rest]
      simp [varEffects, hmem, hval]
    | scalar s =>
      rw [printVar_effects b hb opts sig v m hopts hm hn' (Or.inl ⟨s, hval⟩) rest]
      simp [varEffects, hmem, hval]
    | array vs =>
      have hbare := harr vs hval
      have hne : '=' ∉ m.name := by rw [hm]; simpa [List.contains_iff_mem] using hn'
      simp only [printVar, varEffects, hn', Bool.false_eq_true, if_false, hval, quote_bare hbare]
      by_cases hs : (!(opts v).isEmpty || sig) = true
      · have hd := decl_none_line_effects b hb m rest hne
        rw [hm, quote_bare hbare, ← hopts] at hd
        have ha := array_line_effects v.name vs
          (b.toList ++ [' '] ++ opts v ++ sepOf v.name ++ v.name ++ ['\n'] ++ rest) hbare
        simp only [hs, if_true]
        simp only [List.append_assoc, List.cons_append, List.nil_append] at ha hd ⊢
        rw [ha, hd, Option.map_map]
        rfl
      · have ha := array_line_effects v.name vs rest hbare
        simp only [hs, Bool.false_eq_true, if_false, List.append_nil]
        simp only [List.append_assoc, List.cons_append, List.nil_append] at ha ⊢
        rw [ha]

/-- a whole list of variables printed by `print_one` -/
theorem printVars_effects (b : String) (hb : b ∈ declBuiltins) (opts : Var → List Char) (sig : Bool)
    (mOf : Var → Var) (hopts : ∀ v, opts v = typesetOpts (mOf v)) (hm : ∀ v, (mOf v).name = v.name)
    (vars : List Var) (harr : ∀ v ∈ vars, ∀ vs, v.value = .array vs → strNeedsQuoting v.name = false) :
    evalScript ((vars.map (printVar b opts sig)).flatten)
      = some (vars.flatMap fun v => varEffects b (!(opts v).isEmpty || sig) (mOf v) v) := by
  induction vars with
  | nil => exact evalScript_nil
  | cons v r ih =>
    simp only [List.map_cons, List.flatten_cons, List.flatMap_cons]
    rw [printVar_effects_full b hb opts sig v (mOf v) (hopts v) (hm v) (harr v (by simp)),
      ih (fun x hx => harr x (by simp [hx]))]
    rfl

theorem flatMap_filter {α β} (p : α → Bool) (f : α → List β) (l : List α) :
    (l.filter p).flatMap f = l.flatMap fun x => if p x then f x else [] := by
  induction l with
  | nil => rfl
  | cons a t ih =>
    by_cases h : p a = true
    · simp [h, ih]
    · simp [h, ih]

theorem typesetOpts_isEmpty (v : Var) : (!(typesetOpts v).isEmpty) = (v.readonly || v.exported) := by
  unfold typesetOpts
  cases v.readonly <;> cases v.exported <;> decide

theorem typesetOpts_plain (v : Var) :
    typesetOpts { v with exported := false, readonly := false } = [] := by
  simp [typesetOpts]

/-! ### `set`; the expected effects in terms of per-variable effects -/

/-- what evaluating the line `set` prints for one variable must do -/
def setEffects (v : Var) : List Effect :=
  match v.value with
  | .none => []
  | val => [Effect.assign v.name val]

theorem printSet_effects (v : Var) (hn : isName v.name = true) (rest : List Char) :
    evalScript (printSet v ++ rest) = (evalScript rest).map (setEffects v ++ ·) := by
  have hb := isName_bare v.name hn
  cases hval : v.value with
  | none =>
    simp only [printSet, setEffects, hval, List.nil_append]
    exact (map_nil_append _).symm
  | scalar s =>
    have := assign_line_effects v.name s rest hb
    simp only [printSet, setEffects, hval, List.append_assoc, List.cons_append, List.nil_append] at this ⊢
    exact this
  | array vs =>
    have := array_line_effects v.name vs rest hb
    simp only [printSet, setEffects, hval, List.append_assoc, List.cons_append, List.nil_append] at this ⊢
    exact this

theorem printSets_effects (vars : List Var) (h : ∀ v ∈ vars, isName v.name = true) :
    evalScript ((vars.map printSet).flatten) = some (vars.flatMap setEffects) := by
  induction vars with
  | nil => exact evalScript_nil
  | cons v r ih =>
    simp only [List.map_cons, List.flatten_cons, List.flatMap_cons]
    rw [printSet_effects v (h v (by simp)), ih (fun x hx => h x (by simp [hx]))]
    rfl

theorem expectedSet_eq (s : State) :
    expectedSet s = (sortBy (·.name) (s.vars.filter (isName ·.name))).flatMap setEffects := by
  unfold expectedSet
  generalize sortBy (·.name) (s.vars.filter (isName ·.name)) = l
  induction l with
  | nil => rfl
  | cons v t ih =>
    cases hval : v.value <;> simp [setEffects, hval] <;> simpa using ih

theorem expectedTypeset_eq (s : State) :
    expectedTypeset s = (sortBy (·.name) s.vars).flatMap
      fun v => varEffects "typeset" (!(typesetOpts v).isEmpty || false) v v := by
  unfold expectedTypeset
  rw [flatMap_filter]
  congr 1
  funext v
  rw [typesetOpts_isEmpty]
  by_cases hn : v.name.contains '=' = true
  · have hmem : '=' ∈ v.name := List.contains_iff_mem.mp hn
    simp [varEffects, hmem]
  · have hn' : v.name.contains '=' = false := by simpa using hn
    have hmem : '=' ∉ v.name := by simpa [List.contains_iff_mem] using hn'
    have hd : ∀ val, declared "typeset" v val = { v with value := val } := by
      intro val; simp [declared]
    cases hval : v.value with
    | none =>
      have : ({ v with value := VarVal.none } : Var) = v := by cases v; simp_all
      simp [varEffects, hmem, hval, hd, this]
    | scalar x =>
      have : ({ v with value := VarVal.scalar x } : Var) = v := by cases v; simp_all
      simp [varEffects, hmem, hval, hd, this]
    | array vs =>
      simp only [varEffects, hn', hval, hd, Bool.or_false, Bool.false_eq_true, if_false]
      cases (v.readonly || v.exported) <;> simp

theorem expectedAttr_eq (b : String) (hb : b = "export" ∨ b = "readonly") (vars : List Var) :
    expectedAttrListing b vars = (sortBy (·.name) vars).flatMap
      fun v => varEffects b (!((fun _ => []) v : List Char).isEmpty || true)
        { v with exported := false, readonly := false } v := by
  unfold expectedAttrListing
  rw [flatMap_filter]
  congr 1
  funext v
  by_cases hn : v.name.contains '=' = true
  · have hmem : '=' ∈ v.name := List.contains_iff_mem.mp hn
    simp [varEffects, hmem]
  · have hn' : v.name.contains '=' = false := by simpa using hn
    have hmem : '=' ∉ v.name := by simpa [List.contains_iff_mem] using hn'
    rcases hb with rfl | rfl
    · cases hval : v.value <;> simp [varEffects, hmem, hval, declared]
    · cases hval : v.value <;> simp [varEffects, hmem, hval, declared]

/-- the arrays of the state have names the quoter prints bare (`a`, `a.b`, `-a`, `]` …; not `a*`, `a:~`, `{a}`):
    exactly the condition under which the listed line `name=(…)` is an assignment again -/
def arraysBare (s : State) : Bool :=
  s.vars.all fun v => match v.value with
    | .array _ => !strNeedsQuoting v.name
    | _ => true

theorem arraysBare_spec (s : State) (h : arraysBare s = true) :
    ∀ v ∈ s.vars, ∀ vs, v.value = .array vs → strNeedsQuoting v.name = false := by
  intro v hv vs hval
  have := List.all_eq_true.mp h v hv
  simpa [hval] using this

/-! ### the token reader on quoted pieces; a quoted name is not an assignment -/

theorem lexToks_sq_cons (us : List WUnit) (acc : List Char) (c : Char) (r : List Char) :
    lexToks (.sq us acc) (c :: r) =
      if c = '\'' then lexToks (.word (.sq acc.reverse :: us)) r else lexToks (.sq us (c :: acc)) r := by
  rw [lexToks]

theorem lexToks_sq_body (body : List Char) (hb : '\'' ∉ body) :
    ∀ (us : List WUnit) (acc r : List Char),
      lexToks (.sq us acc) (body ++ '\'' :: r) = lexToks (.word (.sq (acc.reverse ++ body) :: us)) r := by
  induction body with
  | nil => intro us acc r; simp [lexToks_sq_cons]
  | cons c cs ih =>
    intro us acc r
    have hc : c ≠ '\'' := fun h => hb (by simp [h])
    have hcs : '\'' ∉ cs := fun h => hb (by simp [h])
    simp only [List.cons_append, lexToks_sq_cons, if_neg hc]
    rw [ih hcs]
    simp

theorem lexToks_dq_close (us : List WUnit) (acc r : List Char) :
    lexToks (.dq us acc) ('"' :: r) = lexToks (.word (.dq acc.reverse :: us)) r := by
  conv => lhs; rw [lexToks.eq_def]
  simp

theorem lexToks_dq_escaped (us : List WUnit) (acc : List Char) (d : Char) (r : List Char)
    (hd : d ∈ dqEscapable) (hn : d ≠ '\n') :
    lexToks (.dq us acc) ('\\' :: d :: r) = lexToks (.dq us (d :: acc)) r := by
  conv => lhs; rw [lexToks.eq_def]
  simp [hd, hn]

theorem lexToks_dq_plain (us : List WUnit) (acc : List Char) (c : Char) (r : List Char)
    (h1 : c ≠ '\\') (h2 : c ≠ '"') (h3 : c ≠ '$') (h4 : c ≠ '`') :
    lexToks (.dq us acc) (c :: r) = lexToks (.dq us (c :: acc)) r := by
  conv => lhs; rw [lexToks.eq_def]
  simp [h1, h2, h3, h4]

theorem lexToks_dq_body (body : List Char) :
    ∀ (us : List WUnit) (acc r : List Char),
      lexToks (.dq us acc) (escapeDq body ++ '"' :: r) = lexToks (.word (.dq (acc.reverse ++ body) :: us)) r := by
  induction body with
  | nil => intro us acc r; simp [escapeDq, lexToks_dq_close]
  | cons c cs ih =>
    intro us acc r
    by_cases he : c ∈ quoteEscaped
    · have hx := escaped_escapable c he
      rw [escapeDq_cons_esc cs he]
      simp only [List.cons_append]
      rw [lexToks_dq_escaped us acc c _ hx.1 hx.2, ih]
      simp
    · have h1 : c ≠ '\\' := fun h => he (dq_special_escaped c (by simp [h]))
      have h2 : c ≠ '"' := fun h => he (dq_special_escaped c (by simp [h]))
      have h3 : c ≠ '$' := fun h => he (dq_special_escaped c (by simp [h]))
      have h4 : c ≠ '`' := fun h => he (dq_special_escaped c (by simp [h]))
      rw [escapeDq_cons_plain cs he]
      simp only [List.cons_append]
      rw [lexToks_dq_plain us acc c _ h1 h2 h3 h4, ih]
      simp

theorem lexToks_word_quote (us : List WUnit) (r : List Char) :
    lexToks (.word us) ('\'' :: r) = lexToks (.sq us []) r := by
  conv => lhs; rw [lexToks.eq_def]
  simp

theorem lexToks_word_dquote (us : List WUnit) (r : List Char) :
    lexToks (.word us) ('"' :: r) = lexToks (.dq us []) r := by
  conv => lhs; rw [lexToks.eq_def]
  simp

/-- the token reader on `quote s` followed by ANY text (the analogue of `lex_quote_append`) -/
theorem lexToks_quote_append (s : List Char) (us : List WUnit) (r : List Char) :
    lexToks (.word us) (quote s ++ r) = lexToks (.word ((unitsOf s).reverse ++ us)) r := by
  rcases shapes s with ⟨hn, hq, hu⟩ | ⟨_, hb, hq, hu⟩ | ⟨_, hq, hu⟩
  · rw [hq, hu]
    have hb := bare_of_not_needs hn
    exact lexToks_bare_append s us r hb.special (Or.inr hb.first)
  · rw [hq, hu]
    simp only [List.cons_append, List.append_assoc, List.nil_append]
    rw [lexToks_word_quote, lexToks_sq_body s hb us [] r]
    simp
  · rw [hq, hu]
    simp only [List.cons_append, List.append_assoc, List.nil_append]
    rw [lexToks_word_dquote, lexToks_dq_body s us [] r]
    simp

/-- a name that the quoter quotes: `<quoted name>=(` is NOT the start of an array assignment — whatever follows,
    the text is not a sequence of simple commands (the real parser: syntax error at the `(`) -/
theorem quoted_name_array_rejected (n : List Char) (hn : strNeedsQuoting n = true) (rest : List Char) :
    evalScript (quote n ++ '=' :: '(' :: rest) = none := by
  have hu : ∃ u, unitsOf n = [u] ∧ (∀ c, u ≠ .lit c) := by
    rcases shapes n with ⟨h, _, _⟩ | ⟨_, _, _, hu⟩ | ⟨_, _, hu⟩
    · rw [h] at hn; cases hn
    · exact ⟨_, hu, by intro c h; cases h⟩
    · exact ⟨_, hu, by intro c h; cases h⟩
  obtain ⟨u, hu, hnl⟩ := hu
  have hl : lexToks (.word []) (quote n ++ '=' :: '(' :: rest)
      = (lexToks (.word []) rest).map fun ts => Tok.w [u, .lit '='] :: Tok.op true :: ts := by
    rw [lexToks_quote_append, hu]
    simp only [List.reverse_cons, List.reverse_nil, List.nil_append, List.append_nil]
    rw [lexToks_word_plain [u] '=' _ not_special_eq (Or.inr (by simp)), lexToks_open _ _ (by simp)]
    simp
  unfold evalScript scriptCmds
  rw [hl]
  cases lexToks (.word []) rest with
  | none => rfl
  | some ts =>
    have hkw : isKeywordWord [u, .lit '='] = false := by
      cases u with
      | lit c => exact absurd rfl (hnl c)
      | _ => simp [isKeywordWord]
    have hsp : assignSplit [u, .lit '='] = none := by
      cases u with
      | lit c => exact absurd rfl (hnl c)
      | _ => simp [assignSplit, tildeFront, assignValue]
    simp [parseToks, hkw, hsp]

/-! ### format strings of the printers -/

/-- Rust `format!` restricted to `{}` placeholders: each is replaced by the next argument -/
def fmtFill : List Char → List (List Char) → List Char
  | [], _ => []
  | '{' :: '}' :: r, a :: as => a ++ fmtFill r as
  | c :: r, as => c :: fmtFill r as

theorem fmtFill_nil (as : List (List Char)) : fmtFill [] as = [] := by
  unfold fmtFill; rfl

theorem fmtFill_hole (r : List Char) (a : List Char) (as : List (List Char)) :
    fmtFill ('{' :: '}' :: r) (a :: as) = a ++ fmtFill r as := by
  rw [fmtFill]

theorem fmtFill_char (c : Char) (r : List Char) (as : List (List Char)) (h : c ≠ '{') :
    fmtFill (c :: r) as = c :: fmtFill r as := by
  rw [fmtFill]
  intros
  simp_all

/-! ### constants of the state model -/

/-- insertion sort of (name, number) by number (`conditions.sort()` on `Condition::Signal(number)`) -/
def insertNum (x : String × Nat) : List (String × Nat) → List (String × Nat)
  | [] => [x]
  | y :: ys => if x.2 < y.2 then x :: y :: ys else y :: insertNum x ys
def sortNum (l : List (String × Nat)) : List (String × Nat) := l.foldr insertNum []

/-- `format_symbolic` from the extracted pieces -/
def formatPieces (allowed : Nat) : List Char :=
  (symbolicPieces.map fun p => if p.1 = 0 ∨ allowed &&& p.1 ≠ 0 then p.2 else []).flatten

/-! ### producers; trap lines for any bare condition name -/

/-- the source files whose printers `Quote/Listing.lean` transcribes (`printAlias`, `printSet`, `printTrap`,
    `printVar`, `printFnAttr`, `printCommandV`) -/
def modelledPrinters : List String :=
  ["yash-builtin/src/alias/semantics.rs", "yash-builtin/src/set.rs", "yash-builtin/src/trap.rs",
   "yash-builtin/src/typeset/print_variables.rs", "yash-builtin/src/typeset/print_functions.rs",
   "yash-builtin/src/command/identify.rs"]

/-- `trap_line_effects` for ANY condition whose name is printed bare -/
theorem trap_line_effects_gen (t : String × List Char) (hq1 : quote t.1.toList = t.1.toList) (rest : List Char) :
    evalScript (printTrap t ++ rest) = (evalScript rest).map ([Effect.trap t.1 t.2] ++ ·) := by
  obtain ⟨cond, action⟩ := t
  simp only at hq1
  have hne : cond.toList ≠ [] := by rw [← hq1]; exact (quote_last _).1
  have hq2 : cond.toList.getLast? ≠ some '\\' := by rw [← hq1]; exact (quote_last _).2
  have hq3 : String.ofList cond.toList = cond := by simp
  have hargs : readBack (joinSp (["--".toList, action, cond.toList].map quote))
      = some ["--".toList, action, cond.toList] := quote_args_roundtrip _
  have h2 : quote "--".toList = "--".toList := by decide
  simp only [List.map_cons, List.map_nil, joinSp, h2, hq1] at hargs
  have hl : ("--".toList ++ ' ' :: (quote action ++ ' ' :: cond.toList)).getLast? ≠ some '\\' := by
    rw [show "--".toList ++ ' ' :: (quote action ++ ' ' :: cond.toList)
        = ("--".toList ++ ' ' :: (quote action ++ [' '])) ++ cond.toList by simp]
    rw [getLast_append_ne_nil _ _ hne]
    exact hq2
  have hev : evalCmd ⟨[], "trap".toList :: ["--".toList, action, cond.toList]⟩ = some [Effect.trap cond action] := by
    rw [evalCmd_trap, hq3]
  have hargs' : (if false = true then readBackDecl ("--".toList ++ ' ' :: (quote action ++ ' ' :: cond.toList))
      else readBack ("--".toList ++ ' ' :: (quote action ++ ' ' :: cond.toList)))
        = some ["--".toList, action, cond.toList] := by
    rw [if_neg (by decide)]; exact hargs
  have := evalScript_util_line "trap".toList trap_util.1 trap_util.2.1 trap_util.2.2.1 false trap_util.2.2.2
    ("--".toList ++ ' ' :: (quote action ++ ' ' :: cond.toList)) ["--".toList, action, cond.toList] hargs' hl
    [Effect.trap cond action] hev rest
  have e : printTrap (cond, action) ++ rest
      = "trap".toList ++ ' ' :: (("--".toList ++ ' ' :: (quote action ++ ' ' :: cond.toList)) ++ '\n' :: rest) := by
    have h3 : "trap -- ".toList = "trap".toList ++ ' ' :: ("--".toList ++ [' ']) := by decide
    show "trap -- ".toList ++ quote action ++ [' '] ++ cond.toList ++ ['\n'] ++ rest = _
    rw [h3]
    simp only [List.append_assoc, List.cons_append, List.nil_append]
  rw [e]
  exact this

theorem signal_names_bare : ∀ p ∈ virtualSignals, quote p.1.toList = p.1.toList := by decide

/-! ### `command -v`: the line `alias name=value` without `--` -/

theorem evalCmd_alias1 (w : List Char) (h : w.head? ≠ some '-') :
    evalCmd ⟨[], "alias".toList :: [w]⟩ = (splitEq w).map fun p => [Effect.alias p.1 p.2] := by
  have : evalCmd ⟨[], "alias".toList :: [w]⟩
      = if w.head? = some '-' then none else (splitEq w).map fun p => [Effect.alias p.1 p.2] := rfl
  rw [this, if_neg h]

/-- the line `alias <quoted name>=<quoted value>` (no `--`) in front of any text -/
theorem alias_line_effects_nodash (n v rest : List Char) (hn : '=' ∉ n) (hd : n.head? ≠ some '-')
    (h : crossBracket n v = false) :
    evalScript ("alias ".toList ++ printAlias (n, v) ++ rest)
      = (evalScript rest).map ([Effect.alias n v] ++ ·) := by
  have hargs : readBack (quote n ++ '=' :: quote v) = some [n ++ '=' :: v] := alias_entry_reparse n v h
  have hl : (quote n ++ '=' :: quote v).getLast? ≠ some '\\' := by
    rw [show quote n ++ '=' :: quote v = (quote n ++ ['=']) ++ quote v by simp]
    exact getLast_append_quote _ _
  have hh : (n ++ '=' :: v).head? ≠ some '-' := by
    cases n with
    | nil => simp
    | cons c t => simpa using hd
  have hev : evalCmd ⟨[], "alias".toList :: [n ++ '=' :: v]⟩ = some [Effect.alias n v] := by
    rw [evalCmd_alias1 _ hh, splitEq_append n v hn]; rfl
  have := evalScript_util_line "alias".toList alias_util.1 alias_util.2.1 alias_util.2.2.1 false
    alias_util.2.2.2 _ _ (by rw [if_neg (by decide)]; exact hargs) hl _ hev rest
  have e : "alias ".toList ++ printAlias (n, v) ++ rest
      = "alias".toList ++ ' ' :: ((quote n ++ '=' :: quote v) ++ '\n' :: rest) := by
    have h3 : "alias ".toList = "alias".toList ++ [' '] := by decide
    show "alias ".toList ++ (quote n ++ ['='] ++ quote v ++ ['\n']) ++ rest = _
    rw [h3]
    simp only [List.append_assoc, List.cons_append, List.nil_append]
  rw [e]
  exact this

end YashModel.Quote
