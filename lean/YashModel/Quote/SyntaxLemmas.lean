/-
  C07 ∘ C06 — lemmas: the syntax tree (C06 `Word`) that the quoter's output spells, that it is in C06's proved
  fragment (`WordUnits.Ok`) whatever follows, that it prints as `quote s`, and that its units are the units of
  C07's own reader.
-/
import YashModel.Syntax.Theorems
import YashModel.Quote.ListingLemmas
namespace YashModel.Quote
open YashModel.Generated.QuoteTables

/-- text units of the content of `"…"` that the quoter writes: a backslash before the escaped characters -/
def synText (s : List Char) : List Syntax.TextUnit :=
  s.map fun c => if quoteEscaped.contains c then .backslashed c else .literal c

/-- the word (C06's syntax tree: `Word` = list of `WordUnit`) that `quote s` spells -/
def synUnits (s : List Char) : Syntax.Word :=
  if !strNeedsQuoting s then s.map fun c => .unquoted (.literal c)
  else if !s.contains singleQuoteBlocker then [.singleQuote s]
  else [.doubleQuote (synText s)]

/-- characters denoted by the content of `"…"` when it has no expansion -/
def textChars : List Syntax.TextUnit → Option (List Char)
  | [] => some []
  | .literal c :: r => (textChars r).map (c :: ·)
  | .backslashed c :: r => (textChars r).map (c :: ·)
  | _ :: _ => none

/-- the literal-only fragment of C06's word units as the units of C07's reader -/
def toWUnit : Syntax.WordUnit → Option WUnit
  | .unquoted (.literal c) => some (.lit c)
  | .unquoted (.backslashed c) => some (.bs c)
  | .singleQuote s => some (.sq s)
  | .doubleQuote t => (textChars t).map WUnit.dq
  | _ => none

def toWUnits : Syntax.Word → Option (List WUnit)
  | [] => some []
  | u :: r =>
    match toWUnit u, toWUnits r with
    | some a, some b => some (a :: b)
    | _, _ => none

theorem delim_eq (c : Char) : Syntax.isTokenDelimiter c = isTokenDelimiter c := rfl

theorem printText_synText (s : List Char) : Syntax.printText (synText s) = escapeDq s := by
  induction s with
  | nil => simp [synText, Syntax.printText, escapeDq]
  | cons c cs ih =>
    simp only [synText, List.map_cons] at ih ⊢
    by_cases h : quoteEscaped.contains c = true
    · simp only [Syntax.printText, Syntax.printTextUnit, escapeDq, h, if_true, ih]
      rfl
    · simp only [Syntax.printText, Syntax.printTextUnit, escapeDq, h, Bool.false_eq_true, if_false, ih]
      rfl

theorem printWord_lits (s : List Char) :
    Syntax.printWord (s.map fun c => Syntax.WordUnit.unquoted (.literal c)) = s := by
  induction s with
  | nil => simp [Syntax.printWord]
  | cons c cs ih => simp [Syntax.printWord, Syntax.printWordUnit, Syntax.printTextUnit, ih]

/-- A: the tree prints as the quoter's output -/
theorem printWord_synUnits (s : List Char) : Syntax.printWord (synUnits s) = quote s := by
  rcases shapes s with ⟨hn, hq, _⟩ | ⟨hn, hb, hq, _⟩ | ⟨hn, hq, _⟩
  · rw [hq]; simp [synUnits, hn, printWord_lits]
  · have hm : singleQuoteBlocker ∉ s := by rw [blocker_eq]; exact hb
    rw [hq]; simp [synUnits, hn, hm, Syntax.printWord, Syntax.printWordUnit]
  · have hm : singleQuoteBlocker ∈ s := by
      by_cases hm : singleQuoteBlocker ∈ s
      · exact hm
      · have : quote s = '\'' :: (s ++ ['\'']) := by simp [quote, hn, hm]
        rw [this] at hq; cases hq
    rw [hq]; simp [synUnits, hn, hm, Syntax.printWord, Syntax.printWordUnit, printText_synText]

theorem ok_lits (s : List Char) (hs : ∀ c ∈ s, ¬ lexerSpecial c) (tail : List Char) :
    Syntax.WordUnits.Ok .word .token (s.map fun c => Syntax.WordUnit.unquoted (.literal c)) tail := by
  induction s with
  | nil => simp [Syntax.WordUnits.Ok]
  | cons c cs ih =>
    have hc := hs c (by simp)
    simp only [lexerSpecial, not_or] at hc
    obtain ⟨h1, h2, h3, h4, h5, h6, h7⟩ := hc
    simp only [List.map_cons, Syntax.WordUnits.Ok, Syntax.WordUnit.Ok, Syntax.TextUnit.Ok, Syntax.UnquotedOk]
    refine ⟨⟨⟨h1, h4, h5, ?_⟩, h3, fun _ => h2⟩, ih (fun d hd => hs d (by simp [hd]))⟩
    show Syntax.isTokenDelimiter c = false
    rw [delim_eq]
    simp only [isTokenDelimiter, Bool.or_eq_false_iff]
    exact ⟨by simpa using h6, by simpa using h7⟩

theorem ok_text (s : List Char) (tail : List Char) :
    Syntax.TextUnits.Ok .text .dquote (synText s) tail := by
  induction s with
  | nil => simp [synText, Syntax.TextUnits.Ok]
  | cons c cs ih =>
    simp only [synText, List.map_cons, Syntax.TextUnits.Ok] at ih ⊢
    refine ⟨?_, ih⟩
    by_cases he : c ∈ quoteEscaped
    · have hx := escaped_escapable c he
      simp only [he, List.contains_iff_mem, if_true, Syntax.TextUnit.Ok]
      exact ⟨by simp [Syntax.escapable, List.contains_iff_mem, hx.1], hx.2⟩
    · have h1 : c ≠ '\\' := fun h => he (dq_special_escaped c (by simp [h]))
      have h2 : c ≠ '"' := fun h => he (dq_special_escaped c (by simp [h]))
      have h3 : c ≠ '$' := fun h => he (dq_special_escaped c (by simp [h]))
      have h4 : c ≠ '`' := fun h => he (dq_special_escaped c (by simp [h]))
      simp only [he, List.contains_iff_mem, if_false, Syntax.TextUnit.Ok]
      exact ⟨h1, h3, h4, by simp [Syntax.Delim.test, h2]⟩

/-- B: the tree is in C06's proved fragment, whatever follows -/
theorem ok_synUnits (s : List Char) (tail : List Char) :
    Syntax.WordUnits.Ok .word .token (synUnits s) tail := by
  rcases shapes s with ⟨hn, _, _⟩ | ⟨hn, hb, _, _⟩ | ⟨hn, hq, _⟩
  · simp only [synUnits, hn, Bool.not_false, if_true]
    exact ok_lits s (bare_of_not_needs hn).special tail
  · have hm : singleQuoteBlocker ∉ s := by rw [blocker_eq]; exact hb
    simp [synUnits, hn, hm, Syntax.WordUnits.Ok, Syntax.WordUnit.Ok, hb]
  · have hm : singleQuoteBlocker ∈ s := by
      by_cases hm : singleQuoteBlocker ∈ s
      · exact hm
      · have : quote s = '\'' :: (s ++ ['\'']) := by simp [quote, hn, hm]
        rw [this] at hq; cases hq
    have hc : s.contains singleQuoteBlocker = true := List.contains_iff_mem.mpr hm
    simp only [synUnits, hn, hc, Bool.not_true, Bool.false_eq_true, if_false,
      Syntax.WordUnits.Ok, Syntax.WordUnit.Ok, and_true]
    exact ok_text s _

theorem ok_append (a b : Syntax.Word) (tail : List Char)
    (ha : ∀ t, Syntax.WordUnits.Ok .word .token a t) (hb : Syntax.WordUnits.Ok .word .token b tail) :
    Syntax.WordUnits.Ok .word .token (a ++ b) tail := by
  induction a with
  | nil => simpa using hb
  | cons u us ih =>
    have h1 := ha (Syntax.printWord b ++ tail)
    simp only [Syntax.WordUnits.Ok] at h1
    simp only [List.cons_append, Syntax.WordUnits.Ok, Syntax.printWord_append, List.append_assoc]
    refine ⟨h1.1, ih ?_⟩
    intro t
    have := ha t
    simp only [Syntax.WordUnits.Ok] at this
    exact this.2

theorem synShapes (s : List Char) :
    (strNeedsQuoting s = false ∧ synUnits s = s.map fun c => Syntax.WordUnit.unquoted (.literal c))
    ∨ (strNeedsQuoting s = true ∧ synUnits s = [.singleQuote s])
    ∨ (strNeedsQuoting s = true ∧ synUnits s = [.doubleQuote (synText s)]) := by
  unfold synUnits
  cases hn : strNeedsQuoting s
  · left; exact ⟨rfl, rfl⟩
  · cases hc : s.contains singleQuoteBlocker
    · right; left; exact ⟨rfl, rfl⟩
    · right; right; exact ⟨rfl, rfl⟩

theorem unitsOf_shapes (s : List Char) :
    (strNeedsQuoting s = false ∧ unitsOf s = s.map WUnit.lit)
    ∨ (strNeedsQuoting s = true ∧ s.contains singleQuoteBlocker = false ∧ unitsOf s = [.sq s])
    ∨ (strNeedsQuoting s = true ∧ s.contains singleQuoteBlocker = true ∧ unitsOf s = [.dq s]) := by
  unfold unitsOf
  cases hn : strNeedsQuoting s
  · left; exact ⟨rfl, rfl⟩
  · cases hc : s.contains singleQuoteBlocker
    · right; left; exact ⟨rfl, rfl, rfl⟩
    · right; right; exact ⟨rfl, rfl, rfl⟩

theorem textChars_synText (s : List Char) : textChars (synText s) = some s := by
  induction s with
  | nil => rfl
  | cons c cs ih =>
    unfold synText at ih ⊢
    rw [List.map_cons]
    cases h : quoteEscaped.contains c
    · simp only [Bool.false_eq_true, if_false, textChars, ih, Option.map_some]
    · simp only [if_true, textChars, ih, Option.map_some]

theorem toWUnits_lits (s : List Char) :
    toWUnits (s.map fun c => Syntax.WordUnit.unquoted (.literal c)) = some (s.map WUnit.lit) := by
  induction s with
  | nil => rfl
  | cons c cs ih => simp only [List.map_cons, toWUnits, toWUnit, ih]

/-- E: on the quoter's output, C06's units are exactly the units of C07's own reader (`unitsOf`, what `lex`
    yields: `lex_quote_append`) -/
theorem toWUnits_synUnits (s : List Char) : toWUnits (synUnits s) = some (unitsOf s) := by
  unfold synUnits unitsOf
  cases hn : strNeedsQuoting s
  · simp only [Bool.not_false, if_true]; exact toWUnits_lits s
  · cases hc : s.contains singleQuoteBlocker
    · simp only [Bool.not_true, Bool.false_eq_true, if_false, Bool.not_false, if_true, toWUnits, toWUnit]
    · simp only [Bool.not_true, Bool.false_eq_true, if_false, toWUnits, toWUnit, textChars_synText,
        Option.map_some]

/-- no tilde unit is made from the quoter's output (`parse_tilde_front` in `Lexer::token`) -/
theorem parseTildeFront_synUnits (s : List Char) : Syntax.parseTildeFront (synUnits s) = synUnits s := by
  rcases synShapes s with ⟨hn, hu⟩ | ⟨hn, hu⟩ | ⟨hn, hu⟩
  · have hb := bare_of_not_needs hn
    rw [hu]
    cases s with
    | nil => rfl
    | cons c cs =>
      have hc : c ≠ '~' := by
        intro h
        have hm : c ∈ firstCharArms := first_arms c (by simp [h])
        have := hb.first
        simp [firstCharNeeds] at this
        exact this hm
      simp only [List.map_cons, Syntax.parseTildeFront]
      split
      · next h => injection h with h1 _; injection h1 with h1; injection h1 with h1; exact absurd h1 hc
      · rfl
  · rw [hu]; rfl
  · rw [hu]; rfl

end YashModel.Quote
