/-
  C07 — helper lemmas for `Theorems.lean`.

  * facts about the generated tables (finite: `decide`);
  * unfolding equations of the model lexer;
  * the three reading lemmas: bare run, `'…'`, `"…"`.
-/
import YashModel.Quote.Model
import YashModel.Quote.Spec

namespace YashModel.Quote
open YashModel.Generated.QuoteTables

/-! ## Facts about the generated tables -/

theorem arms_operator : ∀ c ∈ operatorChars, c ∈ needsQuotingArms := by decide
theorem arms_special : ∀ c ∈ ['\\', '\'', '"', '$', '`', '*', '?'], c ∈ needsQuotingArms := by decide
theorem fallback_ws : needsQuotingFallbackWhitespace = true := by decide
theorem blocker_eq : singleQuoteBlocker = '\'' := by decide
theorem escaped_escapable : ∀ c ∈ quoteEscaped, c ∈ dqEscapable ∧ c ≠ '\n' := by decide
theorem dq_special_escaped : ∀ c ∈ ['\\', '"', '$', '`'], c ∈ quoteEscaped := by decide
theorem first_arms : ∀ c ∈ ['#', '~'], c ∈ firstCharArms := by decide
theorem infix_colon_tilde : [':', '~'] ∈ infixStrings := by decide
theorem pair_bracket : ('[', ']') ∈ bracketPairs := by decide

/-- A character the lexer does not take as an ordinary literal of an unquoted word. -/
def lexerSpecial (c : Char) : Prop :=
  c = '\\' ∨ c = '\'' ∨ c = '"' ∨ c = '$' ∨ c = '`' ∨ isOperatorChar c = true ∨ isBlank c = true

theorem charNeedsQuoting_of_mem {c : Char} (h : c ∈ needsQuotingArms) : charNeedsQuoting c = true := by
  simp [charNeedsQuoting, h]

/-- every character that is special to the lexer is quoted by the quoter (over the generated tables) -/
theorem lexerSpecial_needs {c : Char} (h : lexerSpecial c) : charNeedsQuoting c = true := by
  rcases h with h | h | h | h | h | h | h
  · exact charNeedsQuoting_of_mem (arms_special c (by simp [h]))
  · exact charNeedsQuoting_of_mem (arms_special c (by simp [h]))
  · exact charNeedsQuoting_of_mem (arms_special c (by simp [h]))
  · exact charNeedsQuoting_of_mem (arms_special c (by simp [h]))
  · exact charNeedsQuoting_of_mem (arms_special c (by simp [h]))
  · exact charNeedsQuoting_of_mem (arms_operator c (by simpa [isOperatorChar] using h))
  · have hw : isWhitespace c = true := by
      simp only [isBlank, Bool.and_eq_true] at h
      exact h.2
    simp [charNeedsQuoting, fallback_ws, hw]

/-! ## Unfolding equations of `lex` -/

theorem lex_word_nil (us : List WUnit) :
    lex (.word us) [] = some (if us.isEmpty then [] else [us.reverse]) := by
  rw [lex]

theorem lex_sq_cons (us : List WUnit) (acc : List Char) (c : Char) (r : List Char) :
    lex (.sq us acc) (c :: r) =
      if c = '\'' then lex (.word (.sq acc.reverse :: us)) r else lex (.sq us (c :: acc)) r := by
  rw [lex]

theorem lex_word_quote (us : List WUnit) (r : List Char) :
    lex (.word us) ('\'' :: r) = lex (.sq us []) r := by
  conv => lhs; rw [lex.eq_def]
  simp

theorem lex_word_dquote (us : List WUnit) (r : List Char) :
    lex (.word us) ('"' :: r) = lex (.dq us []) r := by
  conv => lhs; rw [lex.eq_def]
  simp

/-- an ordinary character extends the current word -/
theorem lex_word_plain (us : List WUnit) (c : Char) (r : List Char)
    (hs : ¬ lexerSpecial c) (hc : c ≠ '#' ∨ us ≠ []) :
    lex (.word us) (c :: r) = lex (.word (.lit c :: us)) r := by
  simp only [lexerSpecial, not_or] at hs
  obtain ⟨h1, h2, h3, h4, h5, h6, h7⟩ := hs
  have h8 : (c = '#' && us.isEmpty) = false := by
    rcases hc with h | h
    · simp [h]
    · cases us with
      | nil => exact absurd rfl h
      | cons _ _ => simp
  conv => lhs; rw [lex.eq_def]
  simp [h1, h2, h3, h4, h5, h6, h7, h8]

theorem lex_dq_close (us : List WUnit) (acc r : List Char) :
    lex (.dq us acc) ('"' :: r) = lex (.word (.dq acc.reverse :: us)) r := by
  conv => lhs; rw [lex.eq_def]
  simp

theorem lex_dq_escaped (us : List WUnit) (acc : List Char) (d : Char) (r : List Char)
    (hd : d ∈ dqEscapable) (hn : d ≠ '\n') :
    lex (.dq us acc) ('\\' :: d :: r) = lex (.dq us (d :: acc)) r := by
  conv => lhs; rw [lex.eq_def]
  simp [hd, hn]

theorem lex_dq_plain (us : List WUnit) (acc : List Char) (c : Char) (r : List Char)
    (h1 : c ≠ '\\') (h2 : c ≠ '"') (h3 : c ≠ '$') (h4 : c ≠ '`') :
    lex (.dq us acc) (c :: r) = lex (.dq us (c :: acc)) r := by
  conv => lhs; rw [lex.eq_def]
  simp [h1, h2, h3, h4]

/-! ## The three reading lemmas -/

theorem escapeDq_cons_esc {c : Char} (cs : List Char) (h : c ∈ quoteEscaped) :
    escapeDq (c :: cs) = '\\' :: c :: escapeDq cs := by
  simp [escapeDq, h]

theorem escapeDq_cons_plain {c : Char} (cs : List Char) (h : c ∉ quoteEscaped) :
    escapeDq (c :: cs) = c :: escapeDq cs := by
  simp [escapeDq, h]

/-- `'body'` with no `'` in `body` is one `SingleQuote(body)` unit -/
theorem lex_sq_body (body : List Char) (hb : '\'' ∉ body) :
    ∀ (us : List WUnit) (acc r : List Char),
      lex (.sq us acc) (body ++ '\'' :: r) = lex (.word (.sq (acc.reverse ++ body) :: us)) r := by
  induction body with
  | nil => intro us acc r; simp [lex_sq_cons]
  | cons c cs ih =>
    intro us acc r
    have hc : c ≠ '\'' := fun h => hb (by simp [h])
    have hcs : '\'' ∉ cs := fun h => hb (by simp [h])
    simp only [List.cons_append, lex_sq_cons, if_neg hc]
    rw [ih hcs]
    simp

/-- `"escapeDq body"` is one `DoubleQuote` unit denoting `body` -/
theorem lex_dq_body (body : List Char) :
    ∀ (us : List WUnit) (acc r : List Char),
      lex (.dq us acc) (escapeDq body ++ '"' :: r) = lex (.word (.dq (acc.reverse ++ body) :: us)) r := by
  induction body with
  | nil => intro us acc r; simp [escapeDq, lex_dq_close]
  | cons c cs ih =>
    intro us acc r
    by_cases he : c ∈ quoteEscaped
    · have hx := escaped_escapable c he
      rw [escapeDq_cons_esc cs he]
      simp only [List.cons_append]
      rw [lex_dq_escaped us acc c _ hx.1 hx.2, ih]
      simp
    · have h1 : c ≠ '\\' := fun h => he (dq_special_escaped c (by simp [h]))
      have h2 : c ≠ '"' := fun h => he (dq_special_escaped c (by simp [h]))
      have h3 : c ≠ '$' := fun h => he (dq_special_escaped c (by simp [h]))
      have h4 : c ≠ '`' := fun h => he (dq_special_escaped c (by simp [h]))
      rw [escapeDq_cons_plain cs he]
      simp only [List.cons_append]
      rw [lex_dq_plain us acc c _ h1 h2 h3 h4, ih]
      simp

/-- a run of ordinary characters is one word of `Literal` units -/
theorem lex_bare (s : List Char) :
    ∀ (us : List WUnit), (∀ c ∈ s, ¬ lexerSpecial c) → (us ≠ [] ∨ firstCharNeeds s = false) →
      (s ≠ [] ∨ us ≠ []) → lex (.word us) s = some [us.reverse ++ s.map WUnit.lit] := by
  induction s with
  | nil =>
    intro us _ _ hne
    have : us ≠ [] := by rcases hne with h | h; exact absurd rfl h; exact h
    cases us with
    | nil => exact absurd rfl this
    | cons u t => simp [lex_word_nil]
  | cons c cs ih =>
    intro us hs hf _
    have hc : c ≠ '#' ∨ us ≠ [] := by
      rcases hf with h | h
      · exact Or.inr h
      · left
        intro hc
        have hm : c ∈ firstCharArms := first_arms c (by simp [hc])
        simp [firstCharNeeds] at h
        exact h hm
    rw [lex_word_plain us c cs (hs c (by simp)) hc]
    rw [ih (.lit c :: us) (fun d hd => hs d (by simp [hd])) (Or.inl (by simp)) (Or.inr (by simp))]
    simp

/-! ## Tilde and pattern triggers on a run of literals -/

theorem removeQuotes_lits (s : List Char) : removeQuotes (s.map WUnit.lit) = s := by
  induction s with
  | nil => rfl
  | cons c cs ih => simp [removeQuotes, WUnit.chars] at ih ⊢; exact ih

theorem tildeAfterColon_lits (s : List Char) (h : hasInfix [':', '~'] s = false) :
    tildeAfterColon (s.map WUnit.lit) = false := by
  induction s with
  | nil => rfl
  | cons c cs ih =>
    simp only [hasInfix, Bool.or_eq_false_iff] at h
    simp only [List.map_cons, tildeAfterColon, Bool.or_eq_false_iff]
    refine ⟨?_, ih h.2⟩
    cases cs with
    | nil => simp [tildeAt]
    | cons d ds =>
      by_cases h1 : c = ':'
      · by_cases h2 : d = '~'
        · have := h.1
          simp [h1, h2, List.isPrefixOf] at this
        · simp [tildeAt, h2]
      · simp [h1]

theorem hasLitClose_lits (s : List Char) : hasLitClose (s.map WUnit.lit) = s.contains ']' := by
  induction s with
  | nil => rfl
  | cons c cs ih =>
    simp only [hasLitClose, List.map_cons, List.any_cons] at ih ⊢
    rw [ih]
    by_cases h : c = ']' <;> simp [h, eq_comm]

theorem bracket_none (s : List Char) (h : ']' ∉ s) : bracketTriggered (s.map WUnit.lit) = false := by
  induction s with
  | nil => rfl
  | cons c cs ih =>
    have h2 : ']' ∉ cs := fun hh => h (by simp [hh])
    simp only [List.map_cons, bracketTriggered, hasLitClose_lits, Bool.or_eq_false_iff]
    exact ⟨by simp [h2], ih h2⟩

theorem bracket_lits (s : List Char) (h : openThenClose '[' ']' s = false) :
    bracketTriggered (s.map WUnit.lit) = false := by
  induction s with
  | nil => rfl
  | cons c cs ih =>
    simp only [openThenClose] at h
    simp only [List.map_cons, bracketTriggered, hasLitClose_lits, Bool.or_eq_false_iff]
    by_cases hc : c = '['
    · simp only [hc, if_true] at h
      have h2 : ']' ∉ cs := by simpa [List.contains_iff_mem] using h
      exact ⟨by simp [h2], bracket_none cs h2⟩
    · simp only [if_neg hc] at h
      exact ⟨by simp [hc], ih h⟩

theorem star_lits (s : List Char) (h : ∀ c ∈ s, c ≠ '*' ∧ c ≠ '?') :
    (s.map WUnit.lit).any (fun u => decide (u = .lit '*') || decide (u = .lit '?')) = false := by
  induction s with
  | nil => rfl
  | cons c cs ih =>
    have := h c (by simp)
    simp only [List.map_cons, List.any_cons, Bool.or_eq_false_iff]
    exact ⟨by simp [this.1, this.2], ih (fun d hd => h d (by simp [hd]))⟩

end YashModel.Quote
