/-
  C07 — Impl model.

  Part 1: transcription of `yash-quote/src/lib.rs` (`char_needs_quoting`, `str_needs_quoting`,
  `Display for Quoted` = `quote`) over the tables re-extracted from the Rust source on every run
  (`YashModel.Generated.QuoteTables`).

  Part 2: model of the yash-syntax lexer restricted to what a command argument made of literal
  characters and quotes can exercise (`lex/core.rs` `is_blank`, line continuation in `peek_char`;
  `lex/misc.rs` `skip_blanks_and_comment`; `lex/token.rs` `token`, `is_token_delimiter_char`;
  `lex/word.rs` `word_unit`, `single_quote`, `double_quote`; `lex/text.rs` `text_unit`;
  `lex/dollar.rs` + `raw_param.rs` for what makes `$` an expansion; `lex/tilde.rs` `parse_tilde`),
  and `readBack` = the fields such arguments yield (`none` as soon as an operator, comment, expansion,
  tilde expansion or pathname-expansion pattern would be triggered, or the quotes do not close).

  Part 3 (file `Listing.lean`): line formats of the state-listing built-ins (`alias`, `typeset -p` /
  `export -p` / `readonly -p`, `set`, `trap`, `umask`) and how a fresh shell reads their words back;
  here only `readBackDecl` (arguments of a declaration utility) and `joinSp`.

  Strings are `List Char` (Rust `char` = Unicode scalar value = Lean `Char`).
-/
import YashModel.Generated.QuoteTables

namespace YashModel.Quote
open YashModel.Generated.QuoteTables

/-! ## Part 1 — yash-quote -/

/-- Rust `char::is_whitespace` -/
def isWhitespace (c : Char) : Bool :=
  whitespaceRanges.any fun r => decide (r.1 ≤ c.toNat) && decide (c.toNat ≤ r.2)

/-- `char_needs_quoting` -/
def charNeedsQuoting (c : Char) : Bool :=
  needsQuotingArms.contains c || (needsQuotingFallbackWhitespace && isWhitespace c)

/-- `s.contains(pat)` -/
def hasInfix (pat : List Char) : List Char → Bool
  | [] => pat.isEmpty
  | c :: cs => pat.isPrefixOf (c :: cs) || hasInfix pat cs

/-- `if let Some(i) = s.find(o) && s[i + 1..].contains(c)` -/
def openThenClose (o c : Char) : List Char → Bool
  | [] => false
  | x :: xs => if x = o then xs.contains c else openThenClose o c xs

/-- first-character rule of `str_needs_quoting` -/
def firstCharNeeds : List Char → Bool
  | [] => false
  | c :: _ => firstCharArms.contains c

/-- `str_needs_quoting` -/
def strNeedsQuoting (s : List Char) : Bool :=
  s.isEmpty
  || firstCharNeeds s
  || s.any charNeedsQuoting
  || infixStrings.any (fun p => hasInfix p s)
  || bracketPairs.any (fun p => openThenClose p.1 p.2 s)

/-- body of the double-quoted form: a backslash before each of `quoteEscaped` -/
def escapeDq : List Char → List Char
  | [] => []
  | c :: cs => if quoteEscaped.contains c then '\\' :: c :: escapeDq cs else c :: escapeDq cs

/-- `Display for Quoted` (= `quote(s)` / `quoted(s).to_string()`) -/
def quote (s : List Char) : List Char :=
  if !strNeedsQuoting s then s
  else if !s.contains singleQuoteBlocker then '\'' :: (s ++ ['\''])
  else '"' :: (escapeDq s ++ ['"'])

/-! ## Part 2 — the lexer on literal-only words -/

/-- `WordUnit` restricted to literal-only words; the content of `"…"` is kept as the characters it
    denotes (`Literal(c)` and `Backslashed(c)` inside double quotes both denote `c`). -/
inductive WUnit
  | lit (c : Char)          -- `Unquoted(Literal(c))`
  | bs (c : Char)           -- `Unquoted(Backslashed(c))`
  | sq (s : List Char)      -- `SingleQuote(s)`
  | dq (s : List Char)      -- `DoubleQuote(text)`
  deriving DecidableEq, Repr

/-- `is_blank` -/
def isBlank (c : Char) : Bool := !blankExcluded.contains c && isWhitespace c
/-- `is_operator_char` -/
def isOperatorChar (c : Char) : Bool := operatorChars.contains c
/-- `is_token_delimiter_char` -/
def isTokenDelimiter (c : Char) : Bool := isOperatorChar c || isBlank c

/-- `peek_char` with line continuation enabled: backslash-newline pairs are skipped -/
def skipLC : List Char → List Char
  | '\\' :: '\n' :: r => skipLC r
  | cs => cs

/-- `is_portable_name_char` -/
def isNameChar (c : Char) : Bool := c.isAlphanum || c = '_'

/-- After a `$`: does `dollar_unit` (raw/braced parameter, arithmetic, command substitution) or, in a
    word context, a dollar-single-quote start here? -/
def dollarStarts (inWord : Bool) (rest : List Char) : Bool :=
  match skipLC rest with
  | [] => false
  | c :: _ =>
    specialParamChars.contains c || c.isDigit || isNameChar c || c = '{' || c = '('
      || (inWord && c = '\'')

/-- Lexer state: reading (or between) words, inside `'…'`, inside `"…"`.
    `us` = units of the current word, newest first (`[]` = no word started). -/
inductive Mode
  | word (us : List WUnit)
  | sq (us : List WUnit) (acc : List Char)
  | dq (us : List WUnit) (acc : List Char)

/-- The words of a command's argument text; `none` = syntax error, operator, comment or expansion. -/
def lex : Mode → List Char → Option (List (List WUnit))
  | .word us, [] => some (if us.isEmpty then [] else [us.reverse])
  | .word us, c :: r =>
    if c = '\\' then
      match r with
      | [] => some [(WUnit.lit '\\' :: us).reverse]          -- `Literal('\\')` at end of input
      | d :: r' =>
        if d = '\n' then lex (.word us) r'                    -- line continuation
        else lex (.word (.bs d :: us)) r'                     -- any character can be escaped in a word
    else if c = '\'' then lex (.sq us []) r
    else if c = '"' then lex (.dq us []) r
    else if c = '$' then
      if dollarStarts true r then none else lex (.word (.lit c :: us)) r
    else if c = '`' then none
    else if isOperatorChar c then none
    else if isBlank c then
      (lex (.word []) r).map fun ws => if us.isEmpty then ws else us.reverse :: ws
    else if c = '#' && us.isEmpty then none                   -- comment at token start
    else lex (.word (.lit c :: us)) r
  | .sq _ _, [] => none
  | .sq us acc, c :: r =>
    if c = '\'' then lex (.word (.sq acc.reverse :: us)) r
    else lex (.sq us (c :: acc)) r                            -- no line continuation inside '…'
  | .dq _ _, [] => none
  | .dq us acc, c :: r =>
    if c = '\\' then
      match r with
      | [] => none
      | d :: r' =>
        if d = '\n' then lex (.dq us acc) r'                  -- line continuation
        else if dqEscapable.contains d then lex (.dq us (d :: acc)) r'
        else lex (.dq us (c :: acc)) (d :: r')                -- the backslash is literal; `d` is lexed next
    else if c = '"' then lex (.word (.dq acc.reverse :: us)) r
    else if c = '$' then
      if dollarStarts false r then none else lex (.dq us (c :: acc)) r
    else if c = '`' then none
    else lex (.dq us (c :: acc)) r
termination_by _ cs => cs.length
decreasing_by all_goals (simp_wf; try omega)

/-- characters a unit denotes after quote removal -/
def WUnit.chars : WUnit → List Char
  | .lit c => [c]
  | .bs c => [c]
  | .sq s => s
  | .dq s => s

/-- quote removal -/
def removeQuotes (w : List WUnit) : List Char := w.flatMap WUnit.chars

/-- `parse_tilde`, scanning the name: ends at `/`, `:` or the end; any non-literal unit cancels -/
def tildeName : List WUnit → Bool
  | [] => true
  | .lit c :: rest => if c = '/' || c = ':' then true else tildeName rest
  | _ :: _ => false

/-- `parse_tilde(units, delimit_at_colon = true).is_some()` -/
def tildeAt : List WUnit → Bool
  | .lit c :: rest => c = '~' && tildeName rest
  | _ => false

/-- a tilde expansion after some unquoted colon -/
def tildeAfterColon : List WUnit → Bool
  | [] => false
  | u :: rest => (u = .lit ':' && tildeAt rest) || tildeAfterColon rest

/-- `parse_tilde_everywhere` would create a `Tilde` unit (covers `parse_tilde_front`) -/
def tildeTriggered (w : List WUnit) : Bool := tildeAt w || tildeAfterColon w

/-- the word has an unquoted `]` (a quoted one never closes a bracket expression) -/
def hasLitClose (w : List WUnit) : Bool := w.any fun u => u = .lit ']'

/-- an unquoted `[` with an unquoted `]` later in the word -/
def bracketTriggered : List WUnit → Bool
  | [] => false
  | u :: rest => (u = .lit '[' && hasLitClose rest) || bracketTriggered rest

/-- the word may act as a pathname-expansion pattern -/
def globTriggered (w : List WUnit) : Bool :=
  w.any (fun u => u = .lit '*' || u = .lit '?') || bracketTriggered w

/-- the single field a literal-only word expands to -/
def fieldOf (w : List WUnit) : Option (List Char) :=
  if tildeTriggered w || globTriggered w then none else some (removeQuotes w)

/-- The fields that the shell reads back from argument text `s`, when `s` consists of literal-only
    words; `none` if anything else would be triggered. -/
def readBack (s : List Char) : Option (List (List Char)) :=
  (lex (.word []) s).bind fun ws => ws.mapM fieldOf

/-- blank-separated argument text -/
def joinSp : List (List Char) → List Char
  | [] => []
  | [a] => a
  | a :: b :: r => a ++ ' ' :: joinSp (b :: r)

/-! ### arguments of a declaration utility (`typeset`, `export`, `readonly`) -/

/-- `determine_expansion_mode` (yash-syntax/src/parser/simple_command.rs): the units after the first
    unquoted `=` when the units before it are a non-empty run of unquoted literals -/
def assignValue : List WUnit → Bool → Option (List WUnit)
  | [], _ => none
  | u :: rest, seen =>
    if u = .lit '=' then (if seen then some rest else none)
    else match u with
      | .lit _ => assignValue rest true
      | _ => none

/-- `parse_tilde(units, delimit_at_colon = false)`, scanning the name (as `parse_tilde_front` in `token`) -/
def tildeNameFront : List WUnit → Bool
  | [] => true
  | .lit c :: rest => if c = '/' then true else tildeNameFront rest
  | _ :: _ => false

/-- `parse_tilde_front` creates a `Tilde` unit -/
def tildeFront : List WUnit → Bool
  | .lit c :: rest => c = '~' && tildeNameFront rest
  | _ => false

/-- field of an argument of a declaration utility: a `name=value` word is expanded in `Single` mode (no
    pathname expansion; tilde expansions are parsed after the `=` and after each later colon) -/
def fieldOfDecl (w : List WUnit) : Option (List Char) :=
  match assignValue w false with
  | some v =>
    if tildeFront w then none          -- the word starts with a `Tilde` unit: not of the form `name=value`
    else if tildeTriggered v then none else some (removeQuotes w)
  | none => fieldOf w

/-- `readBack` for the arguments that follow the name of a declaration utility -/
def readBackDecl (s : List Char) : Option (List (List Char)) :=
  (lex (.word []) s).bind fun ws => ws.mapM fieldOfDecl

end YashModel.Quote
