/-
  C07 — Part 4 of the Impl model: reading a whole TEXT (a listing) the way a fresh shell does.

  * `lexToks`   the token stream of a text: the word lexer of `Model.lean` (`lex`, same branch structure)
                extended by what a multi-line listing needs — `Operator::Newline` (a token of its own),
                `(` / `)` (array values), comments (`lex/misc.rs` `skip_comment`: from `#` at the start of a
                token up to, not including, the newline; no line continuation inside).  Any other operator,
                an expansion, unclosed quotes: `none` (outside the model).
  * `parseToks` yash-syntax/src/parser/simple_command.rs `simple_command` + `array_values` +
                syntax/conversions.rs `Assign::try_from` + parser/core.rs `word_names_declaration_utility`
                (glossary = the built-ins of the environment, table `Generated/ScriptTables`) for a sequence of
                newline-separated simple commands without redirections and aliases: reserved word in command
                position (→ `none`: a compound command, outside the model), leading `name=value` words are
                assignments (`name=(` … `)` directly after the `=`: an array), the word that names the utility
                decides whether the following words are read as arguments of a declaration utility.
  * `expandCmd` the fields of a command made of literal-only words (`fieldOf` / `fieldOfDecl`), the value of
                an assignment (no pathname expansion; tilde after `=` and colons → `none`).
  * `scriptCmds` = the three composed.
-/
import YashModel.Quote.Model
import YashModel.Generated.ScriptTables

namespace YashModel.Quote
open YashModel.Generated.QuoteTables

/-- a token of a command line -/
inductive Tok
  | w (us : List WUnit)        -- `TokenId::Token(_)`
  | nl                         -- `Operator(Newline)`
  | op (glued : Bool)          -- `Operator(OpenParen)`; `glued` = directly after a word (`has_blank` = false)
  | cl                         -- `Operator(CloseParen)`
  deriving DecidableEq, Repr

/-- lexer state: the three of `Mode`, and inside a comment -/
inductive SMode
  | word (us : List WUnit)
  | sq (us : List WUnit) (acc : List Char)
  | dq (us : List WUnit) (acc : List Char)
  | comment

def SMode.ofMode : Mode → SMode
  | .word us => .word us
  | .sq us acc => .sq us acc
  | .dq us acc => .dq us acc

/-- the word under construction, if any, as a token -/
def endTok (us : List WUnit) : List Tok := if us.isEmpty then [] else [.w us.reverse]

/-- The tokens of a text.  Same structure as `lex`; differences: newline, `(`, `)` are tokens, a `#` at the
    start of a token starts a comment. -/
def lexToks : SMode → List Char → Option (List Tok)
  | .word us, [] => some (endTok us)
  | .word us, c :: r =>
    if c = '\\' then
      match r with
      | [] => some [.w (WUnit.lit '\\' :: us).reverse]
      | d :: r' =>
        if d = '\n' then lexToks (.word us) r'
        else lexToks (.word (.bs d :: us)) r'
    else if c = '\'' then lexToks (.sq us []) r
    else if c = '"' then lexToks (.dq us []) r
    else if c = '$' then
      if dollarStarts true r then none else lexToks (.word (.lit c :: us)) r
    else if c = '`' then none
    else if c = '\n' then (lexToks (.word []) r).map fun ts => endTok us ++ .nl :: ts
    else if c = '(' then (lexToks (.word []) r).map fun ts => endTok us ++ .op (!us.isEmpty) :: ts
    else if c = ')' then (lexToks (.word []) r).map fun ts => endTok us ++ .cl :: ts
    else if isOperatorChar c then none
    else if isBlank c then (lexToks (.word []) r).map fun ts => endTok us ++ ts
    else if c = Generated.ScriptTables.commentChar && us.isEmpty then lexToks .comment r
    else lexToks (.word (.lit c :: us)) r
  | .sq _ _, [] => none
  | .sq us acc, c :: r =>
    if c = '\'' then lexToks (.word (.sq acc.reverse :: us)) r
    else lexToks (.sq us (c :: acc)) r
  | .dq _ _, [] => none
  | .dq us acc, c :: r =>
    if c = '\\' then
      match r with
      | [] => none
      | d :: r' =>
        if d = '\n' then lexToks (.dq us acc) r'
        else if dqEscapable.contains d then lexToks (.dq us (d :: acc)) r'
        else lexToks (.dq us (c :: acc)) (d :: r')
    else if c = '"' then lexToks (.word (.dq acc.reverse :: us)) r
    else if c = '$' then
      if dollarStarts false r then none else lexToks (.dq us (c :: acc)) r
    else if c = '`' then none
    else lexToks (.dq us (c :: acc)) r
  | .comment, [] => some []
  | .comment, c :: r =>
    if c = '\n' then (lexToks (.word []) r).map fun ts => .nl :: ts
    else lexToks .comment r
termination_by _ cs => cs.length
decreasing_by all_goals (simp_wf; try omega)

/-! ### the command parser -/

/-- `Lexer::token_id`: a word whose units are all unquoted literals and spell a reserved word -/
def isKeywordWord (w : List WUnit) : Bool :=
  w.all (fun u => match u with | .lit _ => true | _ => false)
    && keywords.contains (removeQuotes w)

/-- `Assign::try_from`: `name=value` with a non-empty name of unquoted literals → (name, value units).
    `token()` has already applied `parse_tilde_front`: a word that starts with a `Tilde` unit has no literal name. -/
def assignSplit (w : List WUnit) : Option (List Char × List WUnit) :=
  if tildeFront w then none
  else (assignValue w false).map fun v => (removeQuotes (w.takeWhile (· ≠ .lit '=')), v)

/-- `word_names_declaration_utility` with the environment's built-ins as glossary:
    `some true` / `some false` / `none` (= `command`: the next word decides) -/
def declLookup (w : List WUnit) : Option Bool :=
  if w.all (fun u => match u with | .lit _ => true | _ => false) then
    match Generated.ScriptTables.declUtils.find? (·.1 = removeQuotes w) with
    | some e => e.2
    | none => some false
  else some false

/-- value of an assignment as parsed -/
inductive AVal
  | scalar (w : List WUnit)
  | array (ws : List (List WUnit))
  deriving DecidableEq, Repr

/-- `SimpleCommand` (no redirections); a word carries "argument of a declaration utility" -/
structure SimpleCmd where
  assigns : List (List Char × AVal)
  words : List (List WUnit × Bool)
  deriving DecidableEq, Repr

/-- parser state inside one simple command (`Builder`, `is_declaration_utility`, and the array value being read) -/
structure PState where
  assigns : List (List Char × AVal) := []
  words : List (List WUnit × Bool) := []
  /-- `is_declaration_utility` -/
  decl : Option Bool := none
  /-- inside `name=(`: the values read so far (the assignment is the last of `assigns`) -/
  arr : Option (List (List WUnit)) := none
  /-- the token just taken was an assignment word with an empty value (`units.is_empty()`) -/
  emptyAssign : Bool := false

/-- `(!result.is_empty()).then(|| result.into())` -/
def PState.cmds (st : PState) : List SimpleCmd :=
  if st.assigns.isEmpty && st.words.isEmpty then [] else [⟨st.assigns, st.words⟩]

/-- `assign.value = Array(words)` on the assignment just read -/
def setLastArray : List (List Char × AVal) → List (List WUnit) → List (List Char × AVal)
  | [], _ => []
  | [a], vs => [(a.1, .array vs)]
  | a :: b :: r, vs => a :: setLastArray (b :: r) vs

/-- a sequence of newline-separated simple commands -/
def parseToks : List Tok → PState → Option (List SimpleCmd)
  | [], st => if st.arr.isSome then none else some st.cmds
  | .nl :: r, st =>
    if st.arr.isSome then parseToks r st                      -- `Operator(Newline) => continue` in `array_values`
    else (parseToks r {}).map fun cs => st.cmds ++ cs
  | .cl :: r, st =>
    match st.arr with
    | some vs => parseToks r { st with assigns := setLastArray st.assigns vs, arr := none, emptyAssign := false }
    | none => none
  | .op g :: r, st =>
    -- `units.is_empty() && !self.has_blank() && let Some(words) = self.array_values()`
    if st.arr.isNone && g && st.emptyAssign then parseToks r { st with arr := some [], emptyAssign := false }
    else none
  | .w w :: r, st =>
    match st.arr with
    | some vs =>
      if isKeywordWord w && !arrayAcceptsKeywords then none
      else parseToks r { st with arr := some (vs ++ [w]) }
    | none =>
      -- `Token(Some(_keyword)) if result.is_empty() => break`
      if isKeywordWord w && st.assigns.isEmpty && st.words.isEmpty then none
      else match st.decl with
        | some d => parseToks r { st with words := st.words ++ [(w, d)], emptyAssign := false }
        | none =>
          if st.words.isEmpty then
            match assignSplit w with
            | some (name, v) =>
              parseToks r { st with assigns := st.assigns ++ [(name, .scalar v)], emptyAssign := v.isEmpty }
            | none => parseToks r { st with words := [(w, false)], decl := declLookup w, emptyAssign := false }
          else parseToks r { st with words := st.words ++ [(w, false)], decl := declLookup w, emptyAssign := false }

/-! ### expansion of literal-only commands -/

inductive FVal
  | scalar (s : List Char)
  | array (vs : List (List Char))
  deriving DecidableEq, Repr

/-- a command after expansion: assignments and fields -/
structure Cmd where
  assigns : List (List Char × FVal)
  fields : List (List Char)
  deriving DecidableEq, Repr

/-- value of an assignment: `parse_tilde_everywhere` on the value, no pathname expansion; array elements are
    ordinary words -/
def expandAssign : AVal → Option FVal
  | .scalar w => if tildeTriggered w then none else some (.scalar (removeQuotes w))
  | .array ws => (ws.mapM fieldOf).map .array

def expandWord (p : List WUnit × Bool) : Option (List Char) := if p.2 then fieldOfDecl p.1 else fieldOf p.1

def expandCmd (c : SimpleCmd) : Option Cmd :=
  (c.assigns.mapM fun a => (expandAssign a.2).map fun v => (a.1, v)).bind fun as =>
  (c.words.mapM expandWord).map fun fs => ⟨as, fs⟩

/-- The commands a fresh shell reads from `text`, when it consists of newline-separated simple commands made
    of literal-only words; `none` if anything else occurs. -/
def scriptCmds (text : List Char) : Option (List Cmd) :=
  (lexToks (.word []) text).bind fun ts => (parseToks ts {}).bind fun cs => cs.mapM expandCmd

end YashModel.Quote
