/-
  C07 — whole-TEXT theorems (property theorems + non-vacuity examples only): the text a listing built-in
  prints, read the way a fresh shell reads a script (`scriptCmds`: token stream with newline tokens and
  comments, newline-separated simple commands, declaration utilities from the built-in table, fields) and
  evaluated command by command (`evalCmd`), has exactly the effects that recreate what was listed.
  Engine and per-line lemmas are in `ScriptLemmas.lean`.
-/
import YashModel.Quote.ScriptLemmas
import YashModel.Quote.StateLemmas
import YashModel.Exec.Identify
import YashModel.Args.Bespoke
namespace YashModel.Quote
open YashModel.Generated.QuoteTables
open Listing
open YashModel.Generated.ListingTables

/-- ★ whole text, `trap`: for EVERY list of traps (conditions of `condOrder`, any actions — newlines, quotes,
    `#`, operators …) the TEXT that `trap` prints, read the way a fresh shell reads a script (tokens,
    newline-separated simple commands, fields), has exactly the effects `trap -- action COND`, in order:
    no entry is lost, split, merged or turned into something else by the characters of another. -/
theorem trap_listing_text_recreates (ts : List (String × List Char)) (h : ∀ t ∈ ts, t.1 ∈ condOrder) :
    evalScript ((ts.map printTrap).flatten) = some (ts.map fun t => Effect.trap t.1 t.2) := by
  induction ts with
  | nil => exact evalScript_nil
  | cons t r ih =>
    simp only [List.map_cons, List.flatten_cons]
    rw [trap_line_effects t (h t (by simp)), ih (fun x hx => h x (by simp [hx]))]
    rfl

/-- ★ whole text, `typeset -p`: for EVERY list of scalar / valueless variables (any names without `=` —
    blanks, quotes, newlines, `#`, a leading `-` or `+` —, any values, any attributes) the TEXT printed by
    `typeset -p`, read the way a fresh shell reads a script (token stream with newline tokens and comments,
    newline-separated simple commands, `typeset` recognised as a declaration utility from the built-in table,
    fields, options / `--` / operand), declares exactly those variables, in order: no line is lost, split by a
    newline inside a value, merged with its neighbour or taken for a comment. -/
theorem typeset_listing_text_recreates (vars : List Var)
    (h : ∀ v ∈ vars, v.name.contains '=' = false ∧ ((∃ s, v.value = .scalar s) ∨ v.value = .none)) :
    evalScript ((vars.map (printVar "typeset" typesetOpts false)).flatten)
      = some (vars.map (Effect.declare "typeset")) := by
  induction vars with
  | nil => exact evalScript_nil
  | cons v r ih =>
    have hv := h v (by simp)
    simp only [List.map_cons, List.flatten_cons]
    rw [printVar_effects "typeset" (by decide) typesetOpts false v v rfl rfl hv.1 hv.2,
      ih (fun x hx => h x (by simp [hx]))]
    have : declared "typeset" v v.value = v := by
      cases v; simp [declared]
    simp [this]

/-- ★ whole text, `export -p` -/
theorem export_listing_text_recreates (vars : List Var)
    (h : ∀ v ∈ vars, v.name.contains '=' = false ∧ ((∃ s, v.value = .scalar s) ∨ v.value = .none)) :
    evalScript ((vars.map (printVar "export" (fun _ => []) true)).flatten)
      = some (vars.map fun v => Effect.declare "export" (exportedAs v)) := by
  induction vars with
  | nil => exact evalScript_nil
  | cons v r ih =>
    have hv := h v (by simp)
    simp only [List.map_cons, List.flatten_cons]
    rw [printVar_effects "export" (by decide) (fun _ => []) true v { v with exported := false, readonly := false }
        (by simp [typesetOpts]) rfl hv.1 hv.2, ih (fun x hx => h x (by simp [hx]))]
    simp [declared, exportedAs]

/-- ★ whole text, `readonly -p` -/
theorem readonly_listing_text_recreates (vars : List Var)
    (h : ∀ v ∈ vars, v.name.contains '=' = false ∧ ((∃ s, v.value = .scalar s) ∨ v.value = .none)) :
    evalScript ((vars.map (printVar "readonly" (fun _ => []) true)).flatten)
      = some (vars.map fun v => Effect.declare "readonly" (readonlyAs v)) := by
  induction vars with
  | nil => exact evalScript_nil
  | cons v r ih =>
    have hv := h v (by simp)
    simp only [List.map_cons, List.flatten_cons]
    rw [printVar_effects "readonly" (by decide) (fun _ => []) true v { v with exported := false, readonly := false }
        (by simp [typesetOpts]) rfl hv.1 hv.2, ih (fun x hx => h x (by simp [hx]))]
    simp [declared, readonlyAs]

/-- ★ whole text, `set +o`: for EVERY state of the options, the text printed by `set +o` (table extracted from
    option.rs; the lines of non-modifiable options are comments), read as a script, has exactly the effects
    `set ±o name` for the modifiable options, `portable` first (off) and last (on, if it was on). -/
theorem seto_listing_text_recreates (s : State) : evalScript (listSetO s) = some (expectedSetO s) := by
  have hpn : quote Generated.OptionTable.portableName = Generated.OptionTable.portableName := by decide
  have hrows : ∀ o ∈ Generated.OptionTable.options.filter (·.1 ≠ Generated.OptionTable.portableName),
      quote o.1 = o.1 := fun o ho => option_names_bare o (List.mem_filter.mp ho).1
  unfold listSetO expectedSetO
  simp only [List.append_assoc]
  rw [seto_line_effects _ hpn true false,
    seto_lines_effects (fun o => s.optOn o.1 o.2.2) _ hrows]
  generalize s.optOn Generated.OptionTable.portableName
    ((Option.map (fun x => x.2.2) (List.find? (fun x => decide (x.1 = Generated.OptionTable.portableName))
      Generated.OptionTable.options)).getD false) = pOn
  cases pOn
  · simp [evalScript_nil]
  · have := seto_line_effects _ hpn true true []
    simp only [List.append_nil] at this
    simp only [if_true, this, evalScript_nil]
    simp

/-- ★ whole text, `trap`, for EVERY state (also one entered as a subshell): evaluating the text of the listing
    has exactly the effects `trap -- action COND` of the traps shown. -/
theorem trap_state_listing_text_recreates (s : State) : evalScript (listTrap s) = some (expectedTrap s) := by
  have h1 : listTrap s = ((condOrder.filterMap s.trapShown).map printTrap).flatten := by
    unfold listTrap
    rw [List.map_filterMap]
  have h2 : expectedTrap s = (condOrder.filterMap s.trapShown).map fun t => Effect.trap t.1 t.2 := by
    unfold expectedTrap
    rw [List.map_filterMap]
  rw [h1, h2]
  apply trap_listing_text_recreates
  intro t ht
  obtain ⟨c, hc, hs⟩ := List.mem_filterMap.mp ht
  rw [trapShown_key s c t hs]
  exact hc

/-- ★ whole text, attribute lines of `typeset -fp`: for EVERY list of function names the lines
    `typeset -fr [-- ]name`, read as a script, make exactly those functions read-only. -/
theorem fnattr_listing_text_recreates (names : List (List Char)) :
    evalScript ((names.map printFnAttr).flatten) = some (names.map Effect.fnattr) := by
  induction names with
  | nil => exact evalScript_nil
  | cons n r ih =>
    simp only [List.map_cons, List.flatten_cons]
    rw [fnattr_line_effects, ih]
    rfl

theorem fnattr_state_listing_text_recreates (s : State) :
    evalScript (listFnAttr s) = some (((sortBy (·.1) s.fns).filter (·.2)).map fun f => Effect.fnattr f.1) := by
  have := fnattr_listing_text_recreates (((sortBy (·.1) s.fns).filter (·.2)).map (·.1))
  simpa [listFnAttr, List.map_map, Function.comp_def] using this

/-- ★ whole text, `set` (scalar variables): for EVERY list of (name, value) with names that are printed bare
    (every portable name is), the text `name=<quoted value>` lines, read as a script, is a sequence of
    assignment commands (`Assign::try_from`) that assign exactly the listed values: the value is never split at
    a blank or newline, taken for a command name, a comment or a tilde expansion. -/
theorem set_listing_text_recreates (vars : List (List Char × List Char))
    (h : ∀ p ∈ vars, strNeedsQuoting p.1 = false) :
    evalScript ((vars.map fun p => p.1 ++ ['='] ++ quote p.2 ++ ['\n']).flatten)
      = some (vars.map fun p => Effect.assign p.1 (.scalar p.2)) := by
  induction vars with
  | nil => exact evalScript_nil
  | cons p r ih =>
    simp only [List.map_cons, List.flatten_cons]
    have := assign_line_effects p.1 p.2 ((r.map fun p => p.1 ++ ['='] ++ quote p.2 ++ ['\n']).flatten)
      (h p (by simp))
    have ih' := ih (fun x hx => h x (by simp [hx]))
    simp only [List.append_assoc, List.cons_append, List.nil_append] at this ih' ⊢
    rw [this, ih']
    rfl

/-- ★ whole text, `alias`: for EVERY list of aliases (names without `=`, any values) outside the known
    cross-bracket case, the script made of `alias -- <printed entry>` lines defines exactly those aliases. -/
theorem alias_rescript_recreates (as : List (List Char × List Char))
    (h : ∀ a ∈ as, '=' ∉ a.1 ∧ crossBracket a.1 a.2 = false) :
    evalScript (aliasReScript as) = some (as.map fun a => Effect.alias a.1 a.2) := by
  unfold aliasReScript
  induction as with
  | nil => exact evalScript_nil
  | cons a r ih =>
    have ha := h a (by simp)
    simp only [List.map_cons, List.flatten_cons]
    have := alias_line_effects a.1 a.2 ((r.map fun a => "alias -- ".toList ++ printAlias a).flatten) ha.1 ha.2
    simp only [List.append_assoc] at this ⊢
    rw [this, ih (fun x hx => h x (by simp [hx]))]
    rfl

/-- ★ the script reader extends the argument reader: on every text that `lex` reads as the words `ws` (no
    unquoted newline, parenthesis or comment) the token reader yields exactly those words — every read-back
    theorem about a line is a theorem about the script reader. -/
theorem script_tokens_agree (t : List Char) (ws : List (List WUnit)) (h : lex (.word []) t = some ws) :
    lexToks (.word []) t = some (ws.map Tok.w) :=
  lexToks_of_lex (.word []) t ws h

/-- ★ (composition) a line that `lex` reads as the words `ws` and that does not end in a backslash, followed
    by a newline and ANY further text, is read as those words, a newline token, and the tokens of the rest:
    nothing in the line (quotes, `#`, backslashes) leaks into the text after it. -/
theorem script_line_then_text (l rest : List Char) (ws : List (List WUnit))
    (h : lex (.word []) l = some ws) (hl : l.getLast? ≠ some '\\') :
    lexToks (.word []) (l ++ '\n' :: rest)
      = (lexToks (.word []) rest).map fun ts => ws.map Tok.w ++ Tok.nl :: ts :=
  lexToks_line l rest ws h hl

/-! Non-vacuity -/
/-- the hypotheses of `typeset_listing_text_recreates` are met by names / values with a newline, a `#`, a
    leading `-`: the listing has a newline INSIDE a quoted value, and still reads as two commands -/
example : evalScript ((
      [({ name := "-a\nb".toList, value := .scalar "c\n#d".toList, exported := true, readonly := false } : Var),
       { name := "e".toList, value := .none, exported := false, readonly := true }].map
        (printVar "typeset" typesetOpts false)).flatten)
    = some [Effect.declare "typeset" { name := "-a\nb".toList, value := .scalar "c\n#d".toList, exported := true, readonly := false },
            Effect.declare "typeset" { name := "e".toList, value := .none, exported := false, readonly := true }] :=
  typeset_listing_text_recreates _ (by
    intro v hv
    simp only [List.mem_cons, List.not_mem_nil, or_false] at hv
    rcases hv with rfl | rfl
    · exact ⟨by decide, Or.inl ⟨_, rfl⟩⟩
    · exact ⟨by decide, Or.inr rfl⟩)
example : (printVar "typeset" typesetOpts false
      { name := "-a\nb".toList, value := .scalar "c\n#d".toList, exported := true, readonly := false })
    = "typeset -x -- '-a\nb'='c\n#d'\n".toList := by decide
/-- the hypothesis of `script_line_then_text` is needed: a line ending in a backslash continues -/
example : ("a\\".toList).getLast? = some '\\' := by decide
/-- `set +o` on the initial state: comment lines are skipped, `portable` comes first -/
example : (expectedSetO {}).head? = some (Effect.setopt "portable".toList false) := by decide
example : evalScript (listSetO {}) = some (expectedSetO {}) := seto_listing_text_recreates {}
example : evalScript ("x".toList ++ ['='] ++ quote "a b\n~".toList ++ ['\n'])
    = some [Effect.assign "x".toList (.scalar "a b\n~".toList)] := by
  have := set_listing_text_recreates [("x".toList, "a b\n~".toList)] (by decide)
  simpa using this

/-! ## Wave 3: portable names, array lines, whole states -/

/-- ★ every portable name (`is_name`: ASCII letters, digits, `_`, not starting with a digit) is printed bare by
    the quoter — over the generated tables (`char_needs_quoting` arms, first-character arms, `:~`, bracket
    pairs, White_Space ranges).  `set` prints the names of the variables it lists UNQUOTED; this is why that is
    sound, and it removes the hypothesis of `set_listing_text_recreates` for every name `set` lists. -/
theorem portable_names_bare (n : List Char) (h : isName n = true) :
    strNeedsQuoting n = false ∧ quote n = n :=
  ⟨isName_bare n h, quote_bare (isName_bare n h)⟩

/-- ★ (composition, arrays) the line `name=(v1 v2 …)` that `print_one` / `set` print for an array — name printed
    bare, ANY values (blanks, newlines, quotes, `)`, `#`, reserved words), followed by ANY text — is read as ONE
    assignment command: `(` glued to the `=` opens `array_values`, every quoted value is one element, the `)`
    closes it, the newline ends the command, and the rest of the text is read independently. -/
theorem array_line_then_text (n : List Char) (vs : List (List Char)) (rest : List Char)
    (hn : strNeedsQuoting n = false) :
    evalScript (quote n ++ ['='] ++ quoteArray vs ++ ['\n'] ++ rest)
      = (evalScript rest).map ([Effect.assign n (.array vs)] ++ ·) := by
  have := array_line_effects n vs rest hn
  rw [quote_bare hn]
  simpa only [List.append_assoc, List.cons_append, List.nil_append] using this

/-- ★ whole text, ANY list of variables printed by `print_one` (`typeset -p`): scalars, valueless variables,
    arrays (assignment line + attribute line when `-r`/`-x` apply), names containing `=` (skipped by the
    printer) — provided the arrays have names that are printed bare. -/
theorem typeset_any_listing_text_recreates (vars : List Var)
    (h : ∀ v ∈ vars, ∀ vs, v.value = .array vs → strNeedsQuoting v.name = false) :
    evalScript ((vars.map (printVar "typeset" typesetOpts false)).flatten)
      = some (vars.flatMap fun v => varEffects "typeset" (!(typesetOpts v).isEmpty || false) v v) :=
  printVars_effects "typeset" (by decide) typesetOpts false id (fun _ => rfl) (fun _ => rfl) vars h

/-- ★ whole text, `set`, STATE level, no hypothesis: for EVERY state, the text `set` prints (variables with a
    portable name and a value, sorted; scalars and arrays) evaluates to exactly the assignments that recreate
    them — exactly what the driver's Spec column evaluates per case (`textVerdict`, `St`). -/
theorem set_state_listing_text_recreates (s : State) : evalScript (listSet s) = some (expectedSet s) := by
  rw [expectedSet_eq]
  unfold listSet
  apply printSets_effects
  intro v hv
  have := (mem_sortBy _ _ v).mp hv
  simpa using (List.mem_filter.mp this).2

/-- ★ whole text, `typeset -p`, STATE level: for EVERY state whose arrays have names printed bare
    (`arraysBare`; all identifiers are, `portable_names_bare`), the text of the listing (sorted, names with `=`
    skipped, arrays as assignment + attribute line) evaluates to exactly `expectedTypeset` (`Vt` of the Spec
    column).  The hypothesis is needed: see `array_quoted_name_rejected`. -/
theorem typeset_state_listing_text_recreates (s : State) (h : arraysBare s = true) :
    evalScript (listTypeset s) = some (expectedTypeset s) := by
  rw [expectedTypeset_eq]
  unfold listTypeset
  exact printVars_effects "typeset" (by decide) typesetOpts false id (fun _ => rfl) (fun _ => rfl) _
    (fun v hv => arraysBare_spec s h v ((mem_sortBy _ _ v).mp hv))

/-- ★ whole text, `export -p`, STATE level (`Xt`) -/
theorem export_state_listing_text_recreates (s : State) (h : arraysBare s = true) :
    evalScript (listExport s) = some (expectedExport s) := by
  unfold expectedExport
  rw [expectedAttr_eq "export" (Or.inl rfl)]
  unfold listExport
  exact printVars_effects "export" (by decide) (fun _ => []) true
    (fun v => { v with exported := false, readonly := false }) (fun v => (typesetOpts_plain v).symm) (fun _ => rfl) _
    (fun v hv => arraysBare_spec s h v (List.mem_filter.mp ((mem_sortBy _ _ v).mp hv)).1)

/-- ★ whole text, `readonly -p`, STATE level (`Rt`) -/
theorem readonly_state_listing_text_recreates (s : State) (h : arraysBare s = true) :
    evalScript (listReadonly s) = some (expectedReadonly s) := by
  unfold expectedReadonly
  rw [expectedAttr_eq "readonly" (Or.inr rfl)]
  unfold listReadonly
  exact printVars_effects "readonly" (by decide) (fun _ => []) true
    (fun v => { v with exported := false, readonly := false }) (fun v => (typesetOpts_plain v).symm) (fun _ => rfl) _
    (fun v hv => arraysBare_spec s h v (List.mem_filter.mp ((mem_sortBy _ _ v).mp hv)).1)

/-- ★ converse of `array_line_then_text` — the side condition is EXACT: when the quoter quotes the name (`a*`,
    `a:~`, `{a}`, `a[]` — all of them names the parser accepts in `NAME=(…)`), the line `print_one` prints for the
    array, `'a*'=(1 2)`, is not an assignment and the whole listing does not evaluate, whatever follows.  This is
    finding 6 (reproduced on the real shell: `a*=(1 2); typeset -p`), for every such name. -/
theorem array_quoted_name_rejected (n : List Char) (vs : List (List Char)) (rest : List Char)
    (hn : strNeedsQuoting n = true) :
    evalScript (quote n ++ ['='] ++ quoteArray vs ++ ['\n'] ++ rest) = none := by
  have := quoted_name_array_rejected n hn (joinSp (vs.map quote) ++ [')'] ++ ['\n'] ++ rest)
  simpa only [quoteArray, List.append_assoc, List.cons_append, List.nil_append] using this
example : printVar "typeset" typesetOpts false
      { name := "a*".toList, value := .array ["1".toList, "2".toList], exported := false, readonly := false }
    = "'a*'=(1 2)\n".toList := by decide
example : strNeedsQuoting "a*".toList = true := by decide

/-- a state built by the definition commands: array `a.b` (exported), scalar `-x` with a newline in the value, a
    valueless read-only variable, a variable whose name contains `=` -/
def demoState : State :=
  ((((({} : State).setArray "a.b".toList ["x y".toList, "if".toList, ")".toList] true false).setScalar
    "-x".toList "1\n#2".toList false false).declare "r".toList false true).setScalar "p=q".toList "v".toList false false)

example : arraysBare demoState = true := by decide
example : listTypeset demoState
    = "typeset -- -x='1\n#2'\na.b=('x y' if ')')\ntypeset -x a.b\ntypeset -r r\n".toList := by decide
example : evalScript (listTypeset demoState) = some (expectedTypeset demoState) :=
  typeset_state_listing_text_recreates demoState (by decide)
example : (expectedTypeset demoState).length = 4 := by decide
example : isName "a_1".toList = true := by decide
example : strNeedsQuoting "a.b".toList = false := by decide

/-! ## Wave 3: the printers and the format strings of the source -/

local macro "fmt_steps" : tactic =>
  `(tactic| repeat (first | rw [fmtFill_hole] | rw [fmtFill_nil] | rw [fmtFill_char _ _ _ (by decide)]))

/-- ★ the model's printers ARE the format strings of the source (re-extracted on every run) filled with the
    quoted pieces. -/
theorem printers_follow_source_formats :
    (∀ t : String × List Char, printTrap t = fmtFill trapFormat [quote t.2, t.1.toList] ++ ['\n'])
    ∧ (∀ a : List Char × List Char, printAlias a = fmtFill aliasFormat [quote a.1, quote a.2] ++ ['\n'])
    ∧ (∀ (v : Var) (s : List Char), v.value = .scalar s →
        printSet v = fmtFill setFormat [v.name, quote s] ++ ['\n'])
    ∧ (∀ (v : Var) (vs : List (List Char)), v.value = .array vs →
        printSet v = fmtFill setFormat [v.name, quoteArray vs] ++ ['\n'])
    ∧ (∀ (b : String) (opts : Var → List Char) (sig : Bool) (v : Var) (s : List Char),
        v.name.contains '=' = false → v.value = .scalar s →
        printVar b opts sig v
          = fmtFill varScalarFormat [b.toList, opts v, sepOf v.name, quote v.name, quote s] ++ ['\n'])
    ∧ (∀ (b : String) (opts : Var → List Char) (sig : Bool) (v : Var),
        v.name.contains '=' = false → v.value = .none →
        printVar b opts sig v = fmtFill varAttrFormat [b.toList, opts v, sepOf v.name, quote v.name] ++ ['\n'])
    ∧ (∀ (b : String) (opts : Var → List Char) (sig : Bool) (v : Var) (vs : List (List Char)),
        v.name.contains '=' = false → v.value = .array vs →
        printVar b opts sig v
          = fmtFill varArrayFormat [quote v.name, quoteArray vs] ++ ['\n']
            ++ (if !(opts v).isEmpty || sig
                then fmtFill varAttrFormat [b.toList, opts v, sepOf v.name, quote v.name] ++ ['\n'] else []))
    ∧ (∀ v : Var, typesetOpts v
        = (if v.readonly then fmtFill attrOptionFormat [['r']] else [])
          ++ (if v.exported then fmtFill attrOptionFormat [['x']] else [])) := by
  have f1 : trapFormat = ['t', 'r', 'a', 'p', ' ', '-', '-', ' ', '{', '}', ' ', '{', '}'] := by decide
  have f2 : aliasFormat = ['{', '}', '=', '{', '}'] := by decide
  have f3 : setFormat = ['{', '}', '=', '{', '}'] := by decide
  have f4 : varScalarFormat = ['{', '}', ' ', '{', '}', '{', '}', '{', '}', '=', '{', '}'] := by decide
  have f5 : varArrayFormat = ['{', '}', '=', '{', '}'] := by decide
  have f6 : varAttrFormat = ['{', '}', ' ', '{', '}', '{', '}', '{', '}'] := by decide
  have f7 : attrOptionFormat = ['-', '{', '}', ' '] := by decide
  have hp : "trap -- ".toList = ['t', 'r', 'a', 'p', ' ', '-', '-', ' '] := by decide
  refine ⟨?_, ?_, ?_, ?_, ?_, ?_, ?_, ?_⟩
  · intro t; rw [f1]; fmt_steps; unfold printTrap; rw [hp]; simp
  · intro a; rw [f2]; fmt_steps; simp [printAlias]
  · intro v s h; rw [f3]; fmt_steps; simp [printSet, h]
  · intro v vs h; rw [f3]; fmt_steps; simp [printSet, h]
  · intro b opts sig v s hn h
    have hm : '=' ∉ v.name := by simpa [List.contains_iff_mem] using hn
    rw [f4]; fmt_steps; simp [printVar, hm, h]
  · intro b opts sig v hn h
    have hm : '=' ∉ v.name := by simpa [List.contains_iff_mem] using hn
    rw [f6]; fmt_steps; simp [printVar, hm, h]
  · intro b opts sig v vs hn h
    have hm : '=' ∉ v.name := by simpa [List.contains_iff_mem] using hn
    rw [f5, f6]; fmt_steps; simp [printVar, hm, h]
  · intro v
    rw [f7]
    fmt_steps
    rcases v with ⟨n, val, x, r⟩
    cases x <;> cases r <;> simp [typesetOpts] <;> decide

/-- ★ the constants of the state model are the constants of the sources (re-extracted on every run):
    the order of `trap` lines = `Condition::iter` on the virtual system (EXIT first — derived `Ord` of the enum,
    shape-checked by the plugin —, then the signals by number, `virtual/signal.rs`); the initial umask =
    `Mode::default()`; the option-prefix characters = those `typeset`'s `try_parse_short` tests; the
    symbolic-umask letters, operators, masks, separator = `Who::parse` / `Operator::parse` /
    `Permission::parse` / `parse_clauses` (over all ASCII characters); the `umask -S` text = the pushes of
    `format_symbolic`, for all 512 masks. -/
theorem state_constants_match_sources :
    condOrder = "EXIT" :: (sortNum (virtualSignals.filter fun p => condOrder.contains p.1)).map (·.1)
    ∧ Listing.initialUmask = YashModel.Generated.ListingTables.initialUmask
    ∧ optionPrefixChars = typesetOptionPrefixes
    ∧ (∀ p ∈ whoChars, ∀ m, (parseWho [p.1, '='] m).2 = ['='] ∧ (parseWho [p.1, '='] 0).1 = p.2)
    ∧ (∀ p ∈ umaskOperators, parseOp p.1 = some p.2)
    ∧ (List.range 128).all (fun n =>
        (parseOp (Char.ofNat n)).isSome == (umaskOperators.map (·.1)).contains (Char.ofNat n)) = true
    ∧ (List.range 128).all (fun n => isPermChar (Char.ofNat n) == permChars.contains (Char.ofNat n)) = true
    ∧ (∀ p ∈ permMasks, parsePerm [p.1] = some (.lit p.2 false, []))
    ∧ (∀ c ∈ permCopyChars, parsePerm [c] ∈ [some (Perm.copyU, []), some (Perm.copyG, []), some (Perm.copyO, [])])
    ∧ clauseSeparator = ','
    ∧ (List.range 512).all (fun m => formatSymbolic m == formatPieces m) = true := by
  refine ⟨by decide, by decide, by decide, ?_, by decide, by decide, by decide, by decide, by decide, by decide, ?_⟩
  · intro p hp m
    simp only [whoChars, List.mem_cons, List.not_mem_nil, or_false] at hp
    rcases hp with rfl | rfl | rfl | rfl <;> simp [parseWho]
  · set_option maxRecDepth 4000 in decide

/-- ★ every file that calls the quoter (list re-extracted from yash-builtin / yash-semantics / yash-cli /
    yash-prompt on every run; the extractor fails on an unclassified file) and is classified as a re-readable
    listing is one of the printers the model transcribes (`command -v`'s alias form included); no re-readable
    producer is left unmodelled. -/
theorem listing_producers_modelled :
    (∀ p ∈ quoteProducers, p.2 = "listing" → p.1 ∈ modelledPrinters)
    ∧ (∀ f ∈ modelledPrinters, (f, "listing") ∈ quoteProducers)
    ∧ (quoteProducers.filter (·.2 = "listing-unmodelled")).map (·.1) = [] := by
  decide

/-- ★ whole text, `alias`, STATE level: for EVERY state whose aliases are outside the cross-bracket case (names
    without `=`: the built-in cannot define others), the listing — sorted entries, each given back as
    `alias -- <entry>` — evaluates to exactly the aliases of the state, in order.  Names that are reserved words
    (`if`, `{`), option-like names, values with newlines, quotes, `#` are all covered (no other hypothesis). -/
theorem alias_state_rescript_recreates (s : State)
    (h : ∀ a ∈ s.aliases, '=' ∉ a.1 ∧ crossBracket a.1 a.2 = false) :
    listAlias s = ((sortBy (·.1) s.aliases).map printAlias).flatten
    ∧ evalScript (aliasReScript (sortBy (·.1) s.aliases))
        = some ((sortBy (·.1) s.aliases).map fun a => Effect.alias a.1 a.2) :=
  ⟨rfl, alias_rescript_recreates _ (fun a ha => h a ((mem_sortBy _ _ a).mp ha))⟩

example : evalScript (aliasReScript (sortBy (·.1) (({} : State).setAlias "if".toList "a\n#b 'c'".toList).aliases))
    = some [Effect.alias "if".toList "a\n#b 'c'".toList] :=
  (alias_state_rescript_recreates _ (by
    intro a ha
    simp [State.setAlias] at ha
    subst ha
    exact ⟨by decide, by decide⟩)).2

/-- ★ whole text, `trap`, EVERY condition of the virtual system: `EXIT` and each of the signal names extracted from
    `virtual/signal.rs` (not only the 7 conditions the generator uses), any actions (`-` of `trap -p` included):
    the text evaluates to exactly the `trap -- action COND` effects, in order. -/
theorem trap_any_condition_listing_text_recreates (ts : List (String × List Char))
    (h : ∀ t ∈ ts, t.1 = "EXIT" ∨ t.1 ∈ virtualSignals.map (·.1)) :
    evalScript ((ts.map printTrap).flatten) = some (ts.map fun t => Effect.trap t.1 t.2) := by
  induction ts with
  | nil => exact evalScript_nil
  | cons t r ih =>
    simp only [List.map_cons, List.flatten_cons]
    have hq : quote t.1.toList = t.1.toList := by
      rcases h t (by simp) with he | hm
      · rw [he]; decide
      · obtain ⟨p, hp, hpe⟩ := List.mem_map.mp hm
        rw [← hpe]; exact signal_names_bare p hp
    rw [trap_line_effects_gen t hq, ih (fun x hx => h x (by simp [hx]))]
    rfl

example : ("WINCH" : String) ∈ virtualSignals.map (·.1) := by decide

/-! ## Wave 3c: `command -v` -/

/-- ★ `command -v <alias name>` prints "a command line that would redefine the alias" (docs/builtins/command.md):
    for EVERY alias whose name is not a reserved word (those are reported as keywords), outside the
    cross-bracket case, the printed line — `alias [-- ]<quoted name>=<quoted value>` — in front of any text
    evaluates in a fresh shell to exactly that alias (the `--` is there exactly when the name starts with `-`,
    so the operand is never taken for an option). -/
theorem commandv_alias_line_recreates (n v rest : List Char) (hk : keywords.contains n = false)
    (hn : '=' ∉ n) (h : crossBracket n v = false) :
    evalScript (printCommandV (n, v) ++ rest) = (evalScript rest).map ([Effect.alias n v] ++ ·) := by
  unfold printCommandV
  simp only [hk, Bool.false_eq_true, if_false]
  by_cases hd : n.head? = some '-'
  · simp only [hd, if_true]
    have := alias_line_effects n v rest hn h
    have e : "alias ".toList ++ "-- ".toList = "alias -- ".toList := by decide
    simp only [printAlias, List.append_assoc] at this ⊢
    rw [← List.append_assoc "alias ".toList, e]
    exact this
  · simp only [hd, if_false, List.append_nil]
    have := alias_line_effects_nodash n v rest hn hd h
    simp only [printAlias, List.append_assoc] at this ⊢
    exact this

/-- ★ composition with C02's model of `command -v` (`Exec/Identify.lean`: `categorize` decides WHICH form is
    printed — keyword before alias before the command search — and `describeShort` prints alias definitions for
    names / replacements that need no quoting): the two keyword tables (extracted separately by the two plugins)
    are the same set, and for every alias (not a keyword) whose name and replacement the quoter prints bare,
    C02's text is C07's line. -/
theorem commandv_agrees_with_identify :
    Generated.ExecTables.keywords.map String.toList = keywords
    ∧ ∀ (name r : List Char), keywords.contains name = false →
        strNeedsQuoting name = false → strNeedsQuoting r = false →
        Exec.Identify.describeShort name (.alias name r) ++ ['\n'] = printCommandV (name, r) := by
  refine ⟨by rfl, ?_⟩
  intro name r hk hn hr
  show "alias ".toList ++ (if name.head? = some '-' then "-- ".toList else []) ++ name ++ '=' :: r ++ ['\n']
    = (if keywords.contains name then name ++ ['\n'] else "alias ".toList
        ++ (if name.head? = some '-' then "-- ".toList else []) ++ quote name ++ ['='] ++ quote r ++ ['\n'])
  rw [hk, quote_bare hn, quote_bare hr]
  simp only [Bool.false_eq_true, if_false, List.append_assoc, List.cons_append, List.nil_append]

example : printCommandV ("-a b".toList, "x'y".toList) = "alias -- '-a b'=\"x'y\"\n".toList := by decide
example : printCommandV ("if".toList, "x".toList) = "if\n".toList := by decide

/-! ## Wave 3c: `set ±o name` and C20's `set` parser -/

/-- ★ composition with C20's model of the `set` built-in's own argument parser (`Args/Bespoke.lean` `setParse`:
    `try_parse_short` with the `-o name` arm, modifiability check, portable mode): the command `set -o name` /
    `set +o name` that `set +o` prints for a modifiable option, whenever the option-name module resolves the
    printed name to that option (`parse_long(name) = Ok(name, On)` — the canonical name is a full name), is
    parsed outside portable mode as exactly "modify [(name, on)], positional parameters untouched": the reading
    `evalCmd` gives the line (`Effect.setopt name on`).  For EVERY name table, option and state. -/
theorem seto_command_parsed_by_set (nm : Args.Bespoke.Names) (name : List Char) (on : Bool)
    (hl : nm.parseLong name = .ok name true) (hm : (nm.infoOf name).modifiable = true) :
    Args.Bespoke.setParse nm false [[if on then '-' else '+', 'o'], name] = .ok (.modify [(name, on)] none)
    ∧ evalCmd ⟨[], "set".toList :: [[if on then '-' else '+', 'o'], name]⟩ = some [Effect.setopt name on] := by
  refine ⟨?_, evalCmd_set name on⟩
  cases on <;>
    simp [Args.Bespoke.setParse, Args.Bespoke.setLoop, Args.Bespoke.setStep, Args.Bespoke.shortSign, Args.Bespoke.setShortLoop, Args.Bespoke.oArm, hl, hm,
      Args.Bespoke.Step.ofShort, Args.Bespoke.prependO, Args.Bespoke.finishSet]

end YashModel.Quote
