/-
  C07 — whole-TEXT theorems (property theorems + non-vacuity examples only): the text a listing built-in
  prints, read the way a fresh shell reads a script (`scriptCmds`: token stream with newline tokens and
  comments, newline-separated simple commands, declaration utilities from the built-in table, fields) and
  evaluated command by command (`evalCmd`), has exactly the effects that recreate what was listed.
  Engine and per-line lemmas are in `ScriptLemmas.lean`.
-/
import YashModel.Quote.ScriptLemmas
namespace YashModel.Quote
open YashModel.Generated.QuoteTables
open Listing

/-- ★ whole text, `trap`: for EVERY list of traps (conditions of `condOrder`, any actions — newlines, quotes,
    `#`, operators …) the TEXT that `trap` prints, read the way a fresh shell reads a script (tokens,
    newline-separated simple commands, fields), has exactly the effects `trap -- action COND`, in order:
    no entry is lost, split, merged or turned into something else by the characters of another. -/
theorem trap_listing_text_recreates (ts : List (String × List Char)) (h : ∀ t ∈ ts, t.1 ∈ condOrder) :
    evalScript ((ts.map printTrap).flatten) = some (ts.map fun t => Effect.trap t.1 t.2) := by
  induction ts with
  | nil => exact evalScript_nil
  | cons t r ih =>
    simp only [List.map_cons, List.flatten_cons]
    rw [trap_line_effects t (h t (by simp)), ih (fun x hx => h x (by simp [hx]))]
    rfl

/-- ★ whole text, `typeset -p`: for EVERY list of scalar / valueless variables (any names without `=` —
    blanks, quotes, newlines, `#`, a leading `-` or `+` —, any values, any attributes) the TEXT printed by
    `typeset -p`, read the way a fresh shell reads a script (token stream with newline tokens and comments,
    newline-separated simple commands, `typeset` recognised as a declaration utility from the built-in table,
    fields, options / `--` / operand), declares exactly those variables, in order: no line is lost, split by a
    newline inside a value, merged with its neighbour or taken for a comment. -/
theorem typeset_listing_text_recreates (vars : List Var)
    (h : ∀ v ∈ vars, v.name.contains '=' = false ∧ ((∃ s, v.value = .scalar s) ∨ v.value = .none)) :
    evalScript ((vars.map (printVar "typeset" typesetOpts false)).flatten)
      = some (vars.map (Effect.declare "typeset")) := by
  induction vars with
  | nil => exact evalScript_nil
  | cons v r ih =>
    have hv := h v (by simp)
    simp only [List.map_cons, List.flatten_cons]
    rw [printVar_effects "typeset" (by decide) typesetOpts false v v rfl rfl hv.1 hv.2,
      ih (fun x hx => h x (by simp [hx]))]
    have : declared "typeset" v v.value = v := by
      cases v; simp [declared]
    simp [this]

/-- ★ whole text, `export -p` -/
theorem export_listing_text_recreates (vars : List Var)
    (h : ∀ v ∈ vars, v.name.contains '=' = false ∧ ((∃ s, v.value = .scalar s) ∨ v.value = .none)) :
    evalScript ((vars.map (printVar "export" (fun _ => []) true)).flatten)
      = some (vars.map fun v => Effect.declare "export" (exportedAs v)) := by
  induction vars with
  | nil => exact evalScript_nil
  | cons v r ih =>
    have hv := h v (by simp)
    simp only [List.map_cons, List.flatten_cons]
    rw [printVar_effects "export" (by decide) (fun _ => []) true v { v with exported := false, readonly := false }
        (by simp [typesetOpts]) rfl hv.1 hv.2, ih (fun x hx => h x (by simp [hx]))]
    simp [declared, exportedAs]

/-- ★ whole text, `readonly -p` -/
theorem readonly_listing_text_recreates (vars : List Var)
    (h : ∀ v ∈ vars, v.name.contains '=' = false ∧ ((∃ s, v.value = .scalar s) ∨ v.value = .none)) :
    evalScript ((vars.map (printVar "readonly" (fun _ => []) true)).flatten)
      = some (vars.map fun v => Effect.declare "readonly" (readonlyAs v)) := by
  induction vars with
  | nil => exact evalScript_nil
  | cons v r ih =>
    have hv := h v (by simp)
    simp only [List.map_cons, List.flatten_cons]
    rw [printVar_effects "readonly" (by decide) (fun _ => []) true v { v with exported := false, readonly := false }
        (by simp [typesetOpts]) rfl hv.1 hv.2, ih (fun x hx => h x (by simp [hx]))]
    simp [declared, readonlyAs]

/-- ★ whole text, `set +o`: for EVERY state of the options, the text printed by `set +o` (table extracted from
    option.rs; the lines of non-modifiable options are comments), read as a script, has exactly the effects
    `set ±o name` for the modifiable options, `portable` first (off) and last (on, if it was on). -/
theorem seto_listing_text_recreates (s : State) : evalScript (listSetO s) = some (expectedSetO s) := by
  have hpn : quote Generated.OptionTable.portableName = Generated.OptionTable.portableName := by decide
  have hrows : ∀ o ∈ Generated.OptionTable.options.filter (·.1 ≠ Generated.OptionTable.portableName),
      quote o.1 = o.1 := fun o ho => option_names_bare o (List.mem_filter.mp ho).1
  unfold listSetO expectedSetO
  simp only [List.append_assoc]
  rw [seto_line_effects _ hpn true false,
    seto_lines_effects (fun o => s.optOn o.1 o.2.2) _ hrows]
  generalize s.optOn Generated.OptionTable.portableName
    ((Option.map (fun x => x.2.2) (List.find? (fun x => decide (x.1 = Generated.OptionTable.portableName))
      Generated.OptionTable.options)).getD false) = pOn
  cases pOn
  · simp [evalScript_nil]
  · have := seto_line_effects _ hpn true true []
    simp only [List.append_nil] at this
    simp only [if_true, this, evalScript_nil]
    simp

/-- ★ whole text, `trap`, for EVERY state (also one entered as a subshell): evaluating the text of the listing
    has exactly the effects `trap -- action COND` of the traps shown. -/
theorem trap_state_listing_text_recreates (s : State) : evalScript (listTrap s) = some (expectedTrap s) := by
  have h1 : listTrap s = ((condOrder.filterMap s.trapShown).map printTrap).flatten := by
    unfold listTrap
    rw [List.map_filterMap]
  have h2 : expectedTrap s = (condOrder.filterMap s.trapShown).map fun t => Effect.trap t.1 t.2 := by
    unfold expectedTrap
    rw [List.map_filterMap]
  rw [h1, h2]
  apply trap_listing_text_recreates
  intro t ht
  obtain ⟨c, hc, hs⟩ := List.mem_filterMap.mp ht
  rw [trapShown_key s c t hs]
  exact hc

/-- ★ whole text, attribute lines of `typeset -fp`: for EVERY list of function names the lines
    `typeset -fr [-- ]name`, read as a script, make exactly those functions read-only. -/
theorem fnattr_listing_text_recreates (names : List (List Char)) :
    evalScript ((names.map printFnAttr).flatten) = some (names.map Effect.fnattr) := by
  induction names with
  | nil => exact evalScript_nil
  | cons n r ih =>
    simp only [List.map_cons, List.flatten_cons]
    rw [fnattr_line_effects, ih]
    rfl

theorem fnattr_state_listing_text_recreates (s : State) :
    evalScript (listFnAttr s) = some (((sortBy (·.1) s.fns).filter (·.2)).map fun f => Effect.fnattr f.1) := by
  have := fnattr_listing_text_recreates (((sortBy (·.1) s.fns).filter (·.2)).map (·.1))
  simpa [listFnAttr, List.map_map, Function.comp_def] using this

/-- ★ whole text, `set` (scalar variables): for EVERY list of (name, value) with names that are printed bare
    (every portable name is), the text `name=<quoted value>` lines, read as a script, is a sequence of
    assignment commands (`Assign::try_from`) that assign exactly the listed values: the value is never split at
    a blank or newline, taken for a command name, a comment or a tilde expansion. -/
theorem set_listing_text_recreates (vars : List (List Char × List Char))
    (h : ∀ p ∈ vars, strNeedsQuoting p.1 = false) :
    evalScript ((vars.map fun p => p.1 ++ ['='] ++ quote p.2 ++ ['\n']).flatten)
      = some (vars.map fun p => Effect.assign p.1 (.scalar p.2)) := by
  induction vars with
  | nil => exact evalScript_nil
  | cons p r ih =>
    simp only [List.map_cons, List.flatten_cons]
    have := assign_line_effects p.1 p.2 ((r.map fun p => p.1 ++ ['='] ++ quote p.2 ++ ['\n']).flatten)
      (h p (by simp))
    have ih' := ih (fun x hx => h x (by simp [hx]))
    simp only [List.append_assoc, List.cons_append, List.nil_append] at this ih' ⊢
    rw [this, ih']
    rfl

/-- ★ whole text, `alias`: for EVERY list of aliases (names without `=`, any values) outside the known
    cross-bracket case, the script made of `alias -- <printed entry>` lines defines exactly those aliases. -/
theorem alias_rescript_recreates (as : List (List Char × List Char))
    (h : ∀ a ∈ as, '=' ∉ a.1 ∧ crossBracket a.1 a.2 = false) :
    evalScript (aliasReScript as) = some (as.map fun a => Effect.alias a.1 a.2) := by
  unfold aliasReScript
  induction as with
  | nil => exact evalScript_nil
  | cons a r ih =>
    have ha := h a (by simp)
    simp only [List.map_cons, List.flatten_cons]
    have := alias_line_effects a.1 a.2 ((r.map fun a => "alias -- ".toList ++ printAlias a).flatten) ha.1 ha.2
    simp only [List.append_assoc] at this ⊢
    rw [this, ih (fun x hx => h x (by simp [hx]))]
    rfl

/-- ★ the script reader extends the argument reader: on every text that `lex` reads as the words `ws` (no
    unquoted newline, parenthesis or comment) the token reader yields exactly those words — every read-back
    theorem about a line is a theorem about the script reader. -/
theorem script_tokens_agree (t : List Char) (ws : List (List WUnit)) (h : lex (.word []) t = some ws) :
    lexToks (.word []) t = some (ws.map Tok.w) :=
  lexToks_of_lex (.word []) t ws h

/-- ★ (composition) a line that `lex` reads as the words `ws` and that does not end in a backslash, followed
    by a newline and ANY further text, is read as those words, a newline token, and the tokens of the rest:
    nothing in the line (quotes, `#`, backslashes) leaks into the text after it. -/
theorem script_line_then_text (l rest : List Char) (ws : List (List WUnit))
    (h : lex (.word []) l = some ws) (hl : l.getLast? ≠ some '\\') :
    lexToks (.word []) (l ++ '\n' :: rest)
      = (lexToks (.word []) rest).map fun ts => ws.map Tok.w ++ Tok.nl :: ts :=
  lexToks_line l rest ws h hl

/-! Non-vacuity -/
/-- the hypotheses of `typeset_listing_text_recreates` are met by names / values with a newline, a `#`, a
    leading `-`: the listing has a newline INSIDE a quoted value, and still reads as two commands -/
example : evalScript ((
      [({ name := "-a\nb".toList, value := .scalar "c\n#d".toList, exported := true, readonly := false } : Var),
       { name := "e".toList, value := .none, exported := false, readonly := true }].map
        (printVar "typeset" typesetOpts false)).flatten)
    = some [Effect.declare "typeset" { name := "-a\nb".toList, value := .scalar "c\n#d".toList, exported := true, readonly := false },
            Effect.declare "typeset" { name := "e".toList, value := .none, exported := false, readonly := true }] :=
  typeset_listing_text_recreates _ (by
    intro v hv
    simp only [List.mem_cons, List.not_mem_nil, or_false] at hv
    rcases hv with rfl | rfl
    · exact ⟨by decide, Or.inl ⟨_, rfl⟩⟩
    · exact ⟨by decide, Or.inr rfl⟩)
example : (printVar "typeset" typesetOpts false
      { name := "-a\nb".toList, value := .scalar "c\n#d".toList, exported := true, readonly := false })
    = "typeset -x -- '-a\nb'='c\n#d'\n".toList := by decide
/-- the hypothesis of `script_line_then_text` is needed: a line ending in a backslash continues -/
example : ("a\\".toList).getLast? = some '\\' := by decide
/-- `set +o` on the initial state: comment lines are skipped, `portable` comes first -/
example : (expectedSetO {}).head? = some (Effect.setopt "portable".toList false) := by decide
example : evalScript (listSetO {}) = some (expectedSetO {}) := seto_listing_text_recreates {}
example : evalScript ("x".toList ++ ['='] ++ quote "a b\n~".toList ++ ['\n'])
    = some [Effect.assign "x".toList (.scalar "a b\n~".toList)] := by
  have := set_listing_text_recreates [("x".toList, "a b\n~".toList)] (by decide)
  simpa using this

end YashModel.Quote
