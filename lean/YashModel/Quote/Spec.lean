/-
  Spec for C07 — the property statement as decidable checks (printed by the driver as the verdict on the
  model's own run):

  * `roundtripOk s`   : the quoted form of `s`, read back by the shell, is exactly the one field `s`;
  * `specDenotes w`   : an independent, deliberately naive reading of the three shapes POSIX XCU 2.2
                        gives to a quoted word (2.2.2 single quotes: every character literally;
                        2.2.3 double quotes: backslash escapes only `$`, backquote, `"`, backslash and newline;
                        otherwise: no character that 2.2 lists as needing quoting) — used to cross-check
                        the model lexer on the quoter's output.
-/
import YashModel.Quote.Model
namespace YashModel.Quote

/-- the property for one string -/
def roundtripOk (s : List Char) : Bool := readBack (quote s) == some [s]

/-- characters POSIX XCU 2.2 lists as (conditionally) special in an unquoted word, plus non-ASCII blanks -/
def posixSpecial (c : Char) : Bool :=
  "|&;<>()$`\\\"' \t\n*?[]#~=%{}".toList.contains c || isWhitespace c

/-- body of a double-quoted word up to the closing quote (2.2.3); `none` on `$`/backquote or no close -/
def specDqBody : List Char → Option (List Char)
  | [] => none
  | ['"'] => some []
  | '"' :: _ :: _ => none
  | '\\' :: c :: r =>
    if c = '$' || c = '`' || c = '"' || c = '\\' then (specDqBody r).map (c :: ·)
    else if c = '\n' then specDqBody r
    else (specDqBody r).map (fun t => '\\' :: c :: t)   -- backslash stays; `c` is an ordinary character here
  | c :: r => if c = '$' || c = '`' then none else (specDqBody r).map (c :: ·)

/-- what a word of one of the three shapes denotes -/
def specDenotes (w : List Char) : Option (List Char) :=
  match w with
  | '\'' :: r =>
    match r.reverse with
    | '\'' :: b => if b.contains '\'' then none else some b.reverse
    | _ => none
  | '"' :: r => specDqBody r
  | _ => if w.isEmpty || w.any posixSpecial then none else some w

/-- Spec verdict for one string: the quoter's output denotes `s` in the naive reading (when the naive
    reading applies: it refuses bare words with conditionally special characters such as `{` or `]`). -/
def specAgrees (s : List Char) : Bool :=
  match specDenotes (quote s) with
  | some t => t == s
  | none => quote s == s   -- bare word with conditionally special characters: left to `roundtripOk`

end YashModel.Quote
