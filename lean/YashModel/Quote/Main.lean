/-
  Driver for C07.  stdin: one case per line, stdout: `<model observation>\t<spec>`.

    q <hex s>        quote `s`, read the result back           obs: `<hex quoted> <fields>`   spec: ok / FAIL:…
    w <hex text>     read back arbitrary argument text          obs: `<fields>`                spec: -
    d <hex text>     the same for arguments of a declaration utility  obs: `<fields>`            spec: -
    v s:<hex> | a:<hex>,…  `Value::quote` of a scalar / array     obs: `<hex quoted>`            spec: -
    s <hex text>     a whole text read as newline-separated simple commands (`scriptCmds`)
                     obs: `none` | `some:` commands joined by `;`, each = items joined by `,`:
                     `s<hex name>=<hex value>` (scalar assignment), `a<hex name>=<hex>+<hex>…` (array; `.` = empty),
                     `w<hex field>`                                                            spec: -
    c <code point>   character classes                          obs: `ws=… needs=… blank=… delim=…`  spec: -
    L <listing case> (see Listing.lean)

  `<fields>` is `none` or `some:` followed by the comma-separated hex fields.
-/
import YashModel.Common.Proto
import YashModel.Quote.Model
import YashModel.Quote.Spec
import YashModel.Quote.Listing
open YashModel YashModel.Quote YashModel.Proto

def showFields : Option (List (List Char)) → String
  | none => "none"
  | some fs => "some:" ++ ",".intercalate (fs.map encChars)

def bit (b : Bool) : String := if b then "1" else "0"

def runQ (t : String) : String :=
  match decChars t with
  | none => "bad-case\t-"
  | some s =>
    let q := quote s
    let spec :=
      if !roundtripOk s then "FAIL:roundtrip"
      else if !specAgrees s then "FAIL:posix-reading"
      else "ok"
    s!"{encChars q} {showFields (readBack q)}\t{spec}"

def runW (t : String) : String :=
  match decChars t with
  | none => "bad-case\t-"
  | some s => s!"{showFields (readBack s)}\t-"

def runD (t : String) : String :=
  match decChars t with
  | none => "bad-case\t-"
  | some s => s!"{showFields (readBackDecl s)}\t-"

/-- `v s:<hex>` / `v a:<hex>,…` : `Value::quote` -/
def runV (t : String) : String :=
  match t.splitOn ":" with
  | ["s", h] => match decChars h with
    | some s => s!"{encChars (quote s)}\t-"
    | none => "bad-case\t-"
  | ["a", hs] => match Listing.decHexList hs with
    | some vs => s!"{encChars (Listing.quoteArray vs)}\t-"
    | none => "bad-case\t-"
  | _ => "bad-case\t-"

def showCmd (c : Cmd) : String :=
  ",".intercalate ((c.assigns.map fun a =>
      match a.2 with
      | .scalar v => s!"s{encChars a.1}={encChars v}"
      | .array vs => s!"a{encChars a.1}={if vs.isEmpty then "." else "+".intercalate (vs.map encChars)}")
    ++ c.fields.map fun f => s!"w{encChars f}")

def runS (t : String) : String :=
  match decChars t with
  | none => "bad-case\t-"
  | some s =>
    match scriptCmds s with
    | none => "none\t-"
    | some cs => s!"some:{";".intercalate (cs.map showCmd)}\t-"

def runC (t : String) : String :=
  match t.toNat? with
  | none => "bad-case\t-"
  | some n =>
    let c := Char.ofNat n
    s!"ws={bit (isWhitespace c)} needs={bit (strNeedsQuoting [c])} blank={bit (isBlank c)} delim={bit (isTokenDelimiter c)}\t-"

def runLine (line : String) : String :=
  match words line with
  | ["q", t] => runQ t
  | ["w", t] => runW t
  | ["d", t] => runD t
  | ["v", t] => runV t
  | ["c", t] => runC t
  | ["s", t] => runS t
  | "L" :: rest => Listing.runL rest
  | _ => "bad-case\t-"

def main : IO Unit := mainLoop runLine
