/-
  C07 ∘ C06 — composition theorems (statements + non-vacuity only): the quoter's output is read by C06's model
  of the REAL word lexer (`yash-syntax` `WordLexer::word` with every expansion form, transcribed and proved
  self-delimiting in `YashModel/Syntax`) as exactly one word whose quote removal is the original string — not
  only by C07's own reader `lex`, which is restricted to literal-only words.
-/
import YashModel.Quote.SyntaxLemmas
namespace YashModel.Quote
open YashModel.Generated.QuoteTables

/-- ★ C: C06's model of the REAL word lexer (`WordLexer::word(is_token_delimiter_char)`: every expansion form,
    line continuations, `$'…'`, `${…}` — not a reader restricted to literal words) reads the quoter's output,
    followed by any delimiter character and any text, as exactly the one word `synUnits s` and stops in front
    of the delimiter. -/
theorem quote_lexes_as_one_word (s : List Char) (e : Char) (rest : List Char) (he : Syntax.Delim.token.Ends e) :
    Syntax.lexWord .token (quote s ++ e :: rest) = some (synUnits s, e :: rest) := by
  rw [← printWord_synUnits]
  exact Syntax.word_self_delimiting .token (synUnits s) e rest (ok_synUnits s _) he

/-- ★ F: the same for `name=value` words (two quoted halves glued by `=`): one word, in every position the
    listings put it (argument of `alias`, operand of a declaration utility, assignment) -/
theorem quote_assign_lexes_as_one_word (n v : List Char) (e : Char) (rest : List Char)
    (he : Syntax.Delim.token.Ends e) :
    Syntax.lexWord .token (quote n ++ '=' :: (quote v ++ e :: rest))
      = some (synUnits n ++ .unquoted (.literal '=') :: synUnits v, e :: rest) := by
  have hp : Syntax.printWord (synUnits n ++ .unquoted (.literal '=') :: synUnits v)
      = quote n ++ '=' :: quote v := by
    rw [Syntax.printWord_append, Syntax.printWord_cons, printWord_synUnits, printWord_synUnits]
    simp [Syntax.printWordUnit, Syntax.printTextUnit]
  have hok : Syntax.WordUnits.Ok .word .token (synUnits n ++ .unquoted (.literal '=') :: synUnits v) (e :: rest) := by
    apply ok_append _ _ _ (ok_synUnits n)
    have h1 := ok_lits ['='] (by intro c hc; simp at hc; subst hc; exact not_special_eq) (Syntax.printWord (synUnits v) ++ e :: rest)
    simp only [List.map_cons, List.map_nil, Syntax.WordUnits.Ok] at h1
    simp only [Syntax.WordUnits.Ok]
    exact ⟨h1.1, ok_synUnits v _⟩
  have := Syntax.word_self_delimiting .token _ e rest hok he
  rw [hp] at this
  simpa only [List.append_assoc, List.cons_append] using this

/-- ★ the round trip through C06's lexer: for EVERY string, the word that the real-lexer model reads from the
    quoter's output (in front of any delimiter and any text) is unchanged by `parse_tilde_front`, consists of
    literal / quoted units only (no expansion), denotes exactly `s` after quote removal, and is the word C07's
    own reader `lex` yields — so every C07 read-back theorem is a statement about the real-lexer model. -/
theorem quote_roundtrip_real_lexer (s : List Char) (e : Char) (rest : List Char)
    (he : Syntax.Delim.token.Ends e) :
    ∃ w, Syntax.lexWord .token (quote s ++ e :: rest) = some (w, e :: rest)
      ∧ Syntax.parseTildeFront w = w
      ∧ (toWUnits w).map removeQuotes = some s
      ∧ lex (.word []) (quote s) = (toWUnits w).map fun us => [us] := by
  refine ⟨synUnits s, quote_lexes_as_one_word s e rest he, parseTildeFront_synUnits s, ?_, ?_⟩
  · rw [toWUnits_synUnits]; simp [removeQuotes_unitsOf]
  · rw [toWUnits_synUnits]
    have := lex_quote_append s [] []
    simp only [List.append_nil] at this
    rw [this, lex_word_nil]
    have hne := unitsOf_ne_nil s
    cases h : unitsOf s with
    | nil => exact absurd h hne
    | cons u t => simp

/-! Non-vacuity: delimiters that end a word (blank, newline, `;`, `)`), the three shapes -/
example : Syntax.Delim.token.Ends ' ' := ⟨by decide, by decide⟩
example : Syntax.Delim.token.Ends '\n' := ⟨by decide, by decide⟩
example : Syntax.Delim.token.Ends ')' := ⟨by decide, by decide⟩
example : synUnits "a:b".toList = [.unquoted (.literal 'a'), .unquoted (.literal ':'), .unquoted (.literal 'b')] := by rfl
example : synUnits "a b".toList = [.singleQuote "a b".toList] := by rfl
example : synUnits "it's $x".toList = [.doubleQuote [.literal 'i', .literal 't', .literal '\'', .literal 's',
    .literal ' ', .backslashed '$', .literal 'x']] := by rfl
example (rest : List Char) : Syntax.lexWord .token (quote "it's `x`".toList ++ '\n' :: rest)
    = some (synUnits "it's `x`".toList, '\n' :: rest) :=
  quote_lexes_as_one_word _ _ _ ⟨by decide, by decide⟩

end YashModel.Quote
