/-
  C07 — property theorems (and non-vacuity examples) only.  Lemmas are in `Lemmas.lean`,
  listing lemmas in `ListingLemmas.lean`.
-/
import YashModel.Quote.Lemmas
import YashModel.Quote.ListingLemmas

namespace YashModel.Quote
open YashModel.Generated.QuoteTables

/-- ★ (table obligation of the bare case) Over the tables extracted from the Rust sources: every character
    that the lexer treats specially in an unquoted word — backslash, quotes, `$`, backquote, the first
    character of any operator, any blank (Rust Unicode whitespace other than newline) — is a character
    for which `char_needs_quoting` answers `true`. -/
theorem lexerSpecial_charNeedsQuoting : ∀ c : Char, lexerSpecial c → charNeedsQuoting c = true :=
  fun _ h => lexerSpecial_needs h

/-- reading back a single literal-only word -/
theorem readBack_of_lex {t : List Char} {w : List WUnit} {f : List Char}
    (hl : lex (.word []) t = some [w]) (hf : fieldOf w = some f) : readBack t = some [f] := by
  simp [readBack, hl, hf]

/-- ★ `quote_roundtrip`: for EVERY string `s`, the text `quote s` (bare, `'…'` or `"…"` with escapes),
    read back by the shell's lexer as command arguments, is exactly the one field `s`: no operator,
    comment, expansion, tilde expansion, pathname pattern or extra/missing field arises. -/
theorem quote_roundtrip (s : List Char) : readBack (quote s) = some [s] := by
  unfold quote
  by_cases hn : strNeedsQuoting s = true
  · simp only [hn, Bool.not_true, Bool.false_eq_true, if_false]
    by_cases hq : s.contains singleQuoteBlocker = true
    · -- double quotes
      simp only [hq, Bool.not_true, Bool.false_eq_true, if_false]
      refine readBack_of_lex (w := [.dq s]) ?_ ?_
      · rw [lex_word_dquote, lex_dq_body s [] [] [], lex_word_nil]
        simp
      · simp [fieldOf, tildeTriggered, tildeAt, tildeAfterColon, globTriggered, bracketTriggered,
          hasLitClose, removeQuotes, WUnit.chars]
    · -- single quotes
      have hq' : s.contains singleQuoteBlocker = false := by simpa using hq
      simp only [hq', Bool.not_false, if_true]
      have hb : '\'' ∉ s := by
        rw [blocker_eq] at hq'
        simpa [List.contains_iff_mem] using hq'
      refine readBack_of_lex (w := [.sq s]) ?_ ?_
      · rw [lex_word_quote, lex_sq_body s hb [] [] [], lex_word_nil]
        simp
      · simp [fieldOf, tildeTriggered, tildeAt, tildeAfterColon, globTriggered, bracketTriggered,
          hasLitClose, removeQuotes, WUnit.chars]
  · -- bare
    have hn' : strNeedsQuoting s = false := by simpa using hn
    simp only [hn', Bool.not_false, if_true]
    simp only [strNeedsQuoting, Bool.or_eq_false_iff] at hn'
    obtain ⟨⟨⟨⟨hne, hfirst⟩, hany⟩, hinf⟩, hbr⟩ := hn'
    have hchars : ∀ c ∈ s, charNeedsQuoting c = false := by
      intro c hc
      have := List.any_eq_false.mp hany c hc
      simpa using this
    have hspecial : ∀ c ∈ s, ¬ lexerSpecial c := by
      intro c hc hsp
      have h1 := lexerSpecial_needs hsp
      rw [hchars c hc] at h1
      exact Bool.false_ne_true h1
    have hnonempty : s ≠ [] := by
      intro h; simp [h] at hne
    have hstar : ∀ c ∈ s, c ≠ '*' ∧ c ≠ '?' := by
      intro c hc
      constructor
      · intro h
        have := charNeedsQuoting_of_mem (arms_special c (by simp [h]))
        rw [hchars c hc] at this; exact Bool.false_ne_true this
      · intro h
        have := charNeedsQuoting_of_mem (arms_special c (by simp [h]))
        rw [hchars c hc] at this; exact Bool.false_ne_true this
    have hinfix : hasInfix [':', '~'] s = false := by
      have := List.any_eq_false.mp hinf _ infix_colon_tilde
      simpa using this
    have hbracket : openThenClose '[' ']' s = false := by
      have := List.any_eq_false.mp hbr _ pair_bracket
      simpa using this
    refine readBack_of_lex (w := s.map .lit) ?_ ?_
    · have := lex_bare s [] hspecial (Or.inr hfirst) (Or.inl hnonempty)
      simpa using this
    · have htilde : tildeAt (s.map WUnit.lit) = false := by
        cases s with
        | nil => exact absurd rfl hnonempty
        | cons c cs =>
          have hc : c ≠ '~' := by
            intro h
            have hm : c ∈ firstCharArms := first_arms c (by simp [h])
            simp [firstCharNeeds] at hfirst
            exact hfirst hm
          simp [tildeAt, hc]
      have hglob : globTriggered (s.map WUnit.lit) = false := by
        simp only [globTriggered, Bool.or_eq_false_iff]
        exact ⟨star_lits s hstar, bracket_lits s hbracket⟩
      simp [fieldOf, tildeTriggered, htilde, tildeAfterColon_lits s hinfix, hglob, removeQuotes_lits]

/-- the same on Rust/Lean strings -/
theorem quote_roundtrip_string (s : String) :
    readBack (quote s.toList) = some [s.toList] := quote_roundtrip s.toList

/-- The naive POSIX reading of the quoter's output (Spec) agrees, for every string. (☆: cross-check of
    the model lexer against an independent reading; one direction — whenever the naive reading applies.) -/
theorem quote_bare_is_identity (s : List Char) (h : strNeedsQuoting s = false) : quote s = s := by
  simp [quote, h]

/-! ## Listings -/

/-- ★ (composition) `quote s` followed by ANY text `r` is read as the units of `s` and the lexer goes on
    with `r` in the same word: separately quoted pieces can be glued (`name=value`, `(v1 v2)`). -/
theorem quote_compose (s : List Char) (us : List WUnit) (r : List Char) :
    lex (.word us) (quote s ++ r) = lex (.word ((unitsOf s).reverse ++ us)) r :=
  lex_quote_append s us r

/-- ★ `listing_reparse`, argument lists: for EVERY list of strings, the blank-separated quoted forms read
    back as exactly that list.  Instances: the elements of an array value `(v1 v2 …)` printed by `typeset -p`,
    `export -p`, `readonly -p`, `set`; the words `trap -- <action> <COND>`; `typeset -r -x -- <name>`. -/
theorem quote_args_roundtrip (args : List (List Char)) :
    readBack (joinSp (args.map quote)) = some args := by
  rw [readBack, lex_args]
  exact mapM_fieldOf_units args

/-- ★ `listing_reparse`, `trap`: every line printed by `trap` (for the conditions of `condOrder`) reads
    back as the words `trap -- <action> <COND>` that recreate the trap, whatever the action contains. -/
theorem trap_listing_reparse (cond : String) (hc : cond ∈ Listing.condOrder) (action : List Char) :
    readBack (Listing.dropNl (Listing.printTrap (cond, action)))
      = some ["trap".toList, "--".toList, action, cond.toList] := by
  have hq : quote cond.toList = cond.toList := by
    simp only [Listing.condOrder, List.mem_cons, List.not_mem_nil, or_false] at hc
    rcases hc with rfl | rfl | rfl | rfl | rfl | rfl | rfl <;> decide
  have h := quote_args_roundtrip ["trap".toList, "--".toList, action, cond.toList]
  have e : Listing.printTrap (cond, action)
      = joinSp (["trap".toList, "--".toList, action, cond.toList].map quote) ++ ['\n'] := by
    have h1 : quote "trap".toList = "trap".toList := by decide
    have h2 : quote "--".toList = "--".toList := by decide
    have h3 : "trap -- ".toList = "trap".toList ++ ' ' :: ("--".toList ++ [' ']) := by decide
    unfold Listing.printTrap
    simp only [List.map_cons, List.map_nil, joinSp, h1, h2, hq]
    rw [h3]
    simp only [List.append_assoc, List.cons_append, List.nil_append]
  rw [e, dropNl_append_nl]
  exact h

/-- ★ `listing_reparse`, valueless variables: the line `typeset [-r ][-x ][-- ]<name>` (also `export`,
    `readonly`: no option letters) reads back as the utility name, the option words and the name. -/
theorem attr_line_reparse (builtin : List Char) (optws : List (List Char)) (name : List Char)
    (hb : quote builtin = builtin) (ho : ∀ o ∈ optws, quote o = o) :
    readBack (joinSp (builtin :: (optws ++ [quote name]))) = some (builtin :: (optws ++ [name])) := by
  have h := quote_args_roundtrip (builtin :: (optws ++ [name]))
  have e : (builtin :: (optws ++ [name])).map quote = builtin :: (optws ++ [quote name]) := by
    have hm : ∀ l : List (List Char), (∀ o ∈ l, quote o = o) → l.map quote = l := by
      intro l
      induction l with
      | nil => intro _; rfl
      | cons a t ih =>
        intro h
        simp [h a (by simp), ih (fun o ho => h o (by simp [ho]))]
    simp only [List.map_cons, List.map_append, List.map_nil, hb, hm optws ho]
  rw [e] at h
  exact h

/-- `listing_reparse`, `name=value` words (`alias`, `typeset -p`, `export -p`, `readonly -p`, `set`) —
    PARTIAL.  Proved: the printed word `quote name ++ "=" ++ quote value` lexes as ONE word whose units are
    those of the name, an unquoted `=`, those of the value, and quote removal gives `name=value`.
    Full statement (NOT proved, and false for `alias`, see `alias_cross_bracket_witness`):
      `readBack (quote n ++ '=' :: quote v) = some [n ++ '=' :: v]`
    Missing: that no tilde / pattern trigger arises ACROSS the two separately quoted parts.  For a
    declaration utility the word is expanded in `Single` mode (`fieldOfDecl`: no pathname expansion), for
    `alias` it is not, and name `[`, value `]` prints as the pattern `[=]`. -/
theorem listing_assignment_word_partial (n v : List Char) :
    lex (.word []) (quote n ++ '=' :: quote v) = some [unitsOf n ++ WUnit.lit '=' :: unitsOf v]
    ∧ removeQuotes (unitsOf n ++ WUnit.lit '=' :: unitsOf v) = n ++ '=' :: v := by
  constructor
  · rw [lex_quote_append n [] _]
    rw [lex_word_plain _ '=' _ not_special_eq (Or.inl (by decide))]
    have := lex_quote_append v (WUnit.lit '=' :: ((unitsOf n).reverse ++ [])) []
    simp only [List.append_nil] at this ⊢
    rw [this, lex_word_nil]
    simp
  · rw [removeQuotes_append]
    show removeQuotes (unitsOf n) ++ removeQuotes (WUnit.lit '=' :: unitsOf v) = _
    have : removeQuotes (WUnit.lit '=' :: unitsOf v) = '=' :: removeQuotes (unitsOf v) := by
      simp [removeQuotes, WUnit.chars]
    rw [this, removeQuotes_unitsOf, removeQuotes_unitsOf]

/-- evaluates `readBack` on concrete text by the unfolding equations (`lex` is defined by well-founded
    recursion, so `decide` cannot run it) -/
local macro "eval_readback" : tactic =>
  `(tactic| simp [readBack, lex, fieldOf, isOperatorChar, isBlank, isWhitespace, operatorChars, blankExcluded,
      whitespaceRanges, tildeTriggered, tildeAt, tildeAfterColon, tildeName, globTriggered, bracketTriggered,
      hasLitClose, removeQuotes, WUnit.chars, dollarStarts, skipLC, specialParamChars, isNameChar, dqEscapable])

/-! Non-vacuity: the three cases are all inhabited, and unquoted text really is mangled by the lexer. -/
example : quote "a:b{".toList = "a:b{".toList := by decide
example : quote "a b".toList = "'a b'".toList := by decide
example : quote "it's $x".toList = "\"it's \\$x\"".toList := by decide
example : readBack "'a'\\''b' \"c d\"".toList = some ["a'b".toList, "c d".toList] := by eval_readback
/-- the hypothesis of the table obligation is met by, e.g., U+3000 (a non-ASCII blank) -/
example : lexerSpecial (Char.ofNat 0x3000) := by
  refine Or.inr (Or.inr (Or.inr (Or.inr (Or.inr (Or.inr ?_)))))
  decide
/-- unquoted text that needs quoting does NOT read back as itself (the quoting is not idle) -/
example : readBack "a b".toList = some ["a".toList, "b".toList] := by eval_readback
example : readBack "~".toList = none := by eval_readback
example : readBack "a:~".toList = none := by eval_readback
example : readBack "[a]".toList = none := by eval_readback
example : readBack "#x".toList = none := by eval_readback
example : readBack "$x".toList = none := by eval_readback
example : readBack "a;b".toList = none := by eval_readback

/-- Witness of the known finding: alias name `[`, value `]` is printed `[=]`, which the reader does NOT
    accept as a literal-only word (it is a bracket pattern for pathname expansion). -/
theorem alias_cross_bracket_witness :
    Listing.printAlias ("[".toList, "]".toList) = "[=]\n".toList ∧ readBack "[=]".toList = none := by
  constructor
  · decide
  · eval_readback
/-- while as the argument of a declaration utility the same word is harmless (`Single` mode) -/
example : readBackDecl "[=]".toList = some ["[=]".toList] := by
  simp [readBackDecl, lex, fieldOfDecl, assignValue, tildeFront, tildeTriggered, tildeAt, tildeAfterColon,
    removeQuotes, WUnit.chars, isOperatorChar, isBlank, isWhitespace, operatorChars, blankExcluded, whitespaceRanges]
example : Listing.printTrap ("INT", "echo 'a b'".toList) = "trap -- \"echo 'a b'\" INT\n".toList := by decide
example : Listing.printVar "typeset" Listing.typesetOpts false
    { name := "-n".toList, value := .scalar "a b".toList, exported := true, readonly := true }
    = "typeset -r -x -- -n='a b'\n".toList := by decide

end YashModel.Quote
