/-
  C07 — property theorems (and non-vacuity examples) only.  Lemmas are in `Lemmas.lean`,
  listing lemmas in `ListingLemmas.lean`.
-/
import YashModel.Quote.Lemmas
import YashModel.Quote.ListingLemmas

namespace YashModel.Quote
open YashModel.Generated.QuoteTables

/-- ★ (table obligation of the bare case) Over the tables extracted from the Rust sources: every character
    that the lexer treats specially in an unquoted word — backslash, quotes, `$`, backquote, the first
    character of any operator, any blank (Rust Unicode whitespace other than newline) — is a character
    for which `char_needs_quoting` answers `true`. -/
theorem lexerSpecial_charNeedsQuoting : ∀ c : Char, lexerSpecial c → charNeedsQuoting c = true :=
  fun _ h => lexerSpecial_needs h

/-- reading back a single literal-only word -/
theorem readBack_of_lex {t : List Char} {w : List WUnit} {f : List Char}
    (hl : lex (.word []) t = some [w]) (hf : fieldOf w = some f) : readBack t = some [f] := by
  simp [readBack, hl, hf]

/-- ★ `quote_roundtrip`: for EVERY string `s`, the text `quote s` (bare, `'…'` or `"…"` with escapes),
    read back by the shell's lexer as command arguments, is exactly the one field `s`: no operator,
    comment, expansion, tilde expansion, pathname pattern or extra/missing field arises. -/
theorem quote_roundtrip (s : List Char) : readBack (quote s) = some [s] := by
  unfold quote
  by_cases hn : strNeedsQuoting s = true
  · simp only [hn, Bool.not_true, Bool.false_eq_true, if_false]
    by_cases hq : s.contains singleQuoteBlocker = true
    · -- double quotes
      simp only [hq, Bool.not_true, Bool.false_eq_true, if_false]
      refine readBack_of_lex (w := [.dq s]) ?_ ?_
      · rw [lex_word_dquote, lex_dq_body s [] [] [], lex_word_nil]
        simp
      · simp [fieldOf, tildeTriggered, tildeAt, tildeAfterColon, globTriggered, bracketTriggered,
          hasLitClose, removeQuotes, WUnit.chars]
    · -- single quotes
      have hq' : s.contains singleQuoteBlocker = false := by simpa using hq
      simp only [hq', Bool.not_false, if_true]
      have hb : '\'' ∉ s := by
        rw [blocker_eq] at hq'
        simpa [List.contains_iff_mem] using hq'
      refine readBack_of_lex (w := [.sq s]) ?_ ?_
      · rw [lex_word_quote, lex_sq_body s hb [] [] [], lex_word_nil]
        simp
      · simp [fieldOf, tildeTriggered, tildeAt, tildeAfterColon, globTriggered, bracketTriggered,
          hasLitClose, removeQuotes, WUnit.chars]
  · -- bare
    have hn' : strNeedsQuoting s = false := by simpa using hn
    simp only [hn', Bool.not_false, if_true]
    simp only [strNeedsQuoting, Bool.or_eq_false_iff] at hn'
    obtain ⟨⟨⟨⟨hne, hfirst⟩, hany⟩, hinf⟩, hbr⟩ := hn'
    have hchars : ∀ c ∈ s, charNeedsQuoting c = false := by
      intro c hc
      have := List.any_eq_false.mp hany c hc
      simpa using this
    have hspecial : ∀ c ∈ s, ¬ lexerSpecial c := by
      intro c hc hsp
      have h1 := lexerSpecial_needs hsp
      rw [hchars c hc] at h1
      exact Bool.false_ne_true h1
    have hnonempty : s ≠ [] := by
      intro h; simp [h] at hne
    have hstar : ∀ c ∈ s, c ≠ '*' ∧ c ≠ '?' := by
      intro c hc
      constructor
      · intro h
        have := charNeedsQuoting_of_mem (arms_special c (by simp [h]))
        rw [hchars c hc] at this; exact Bool.false_ne_true this
      · intro h
        have := charNeedsQuoting_of_mem (arms_special c (by simp [h]))
        rw [hchars c hc] at this; exact Bool.false_ne_true this
    have hinfix : hasInfix [':', '~'] s = false := by
      have := List.any_eq_false.mp hinf _ infix_colon_tilde
      simpa using this
    have hbracket : openThenClose '[' ']' s = false := by
      have := List.any_eq_false.mp hbr _ pair_bracket
      simpa using this
    refine readBack_of_lex (w := s.map .lit) ?_ ?_
    · have := lex_bare s [] hspecial (Or.inr hfirst) (Or.inl hnonempty)
      simpa using this
    · have htilde : tildeAt (s.map WUnit.lit) = false := by
        cases s with
        | nil => exact absurd rfl hnonempty
        | cons c cs =>
          have hc : c ≠ '~' := by
            intro h
            have hm : c ∈ firstCharArms := first_arms c (by simp [h])
            simp [firstCharNeeds] at hfirst
            exact hfirst hm
          simp [tildeAt, hc]
      have hglob : globTriggered (s.map WUnit.lit) = false := by
        simp only [globTriggered, Bool.or_eq_false_iff]
        exact ⟨star_lits s hstar, bracket_lits s hbracket⟩
      simp [fieldOf, tildeTriggered, htilde, tildeAfterColon_lits s hinfix, hglob, removeQuotes_lits]

/-- the same on Rust/Lean strings -/
theorem quote_roundtrip_string (s : String) :
    readBack (quote s.toList) = some [s.toList] := quote_roundtrip s.toList

/-- The naive POSIX reading of the quoter's output (Spec) agrees, for every string. (☆: cross-check of
    the model lexer against an independent reading; one direction — whenever the naive reading applies.) -/
theorem quote_bare_is_identity (s : List Char) (h : strNeedsQuoting s = false) : quote s = s := by
  simp [quote, h]

/-! ## Listings -/

/-- ★ (composition) `quote s` followed by ANY text `r` is read as the units of `s` and the lexer goes on
    with `r` in the same word: separately quoted pieces can be glued (`name=value`, `(v1 v2)`). -/
theorem quote_compose (s : List Char) (us : List WUnit) (r : List Char) :
    lex (.word us) (quote s ++ r) = lex (.word ((unitsOf s).reverse ++ us)) r :=
  lex_quote_append s us r

/-- ★ `listing_reparse`, argument lists: for EVERY list of strings, the blank-separated quoted forms read
    back as exactly that list.  Instances: the elements of an array value `(v1 v2 …)` printed by `typeset -p`,
    `export -p`, `readonly -p`, `set`; the words `trap -- <action> <COND>`; `typeset -r -x -- <name>`. -/
theorem quote_args_roundtrip (args : List (List Char)) :
    readBack (joinSp (args.map quote)) = some args := by
  rw [readBack, lex_args]
  exact mapM_fieldOf_units args

/-- ★ `listing_reparse`, `trap`: every line printed by `trap` (for the conditions of `condOrder`) reads
    back as the words `trap -- <action> <COND>` that recreate the trap, whatever the action contains. -/
theorem trap_listing_reparse (cond : String) (hc : cond ∈ Listing.condOrder) (action : List Char) :
    readBack (Listing.dropNl (Listing.printTrap (cond, action)))
      = some ["trap".toList, "--".toList, action, cond.toList] := by
  have hq : quote cond.toList = cond.toList := by
    simp only [Listing.condOrder, List.mem_cons, List.not_mem_nil, or_false] at hc
    rcases hc with rfl | rfl | rfl | rfl | rfl | rfl | rfl <;> decide
  have h := quote_args_roundtrip ["trap".toList, "--".toList, action, cond.toList]
  have e : Listing.printTrap (cond, action)
      = joinSp (["trap".toList, "--".toList, action, cond.toList].map quote) ++ ['\n'] := by
    have h1 : quote "trap".toList = "trap".toList := by decide
    have h2 : quote "--".toList = "--".toList := by decide
    have h3 : "trap -- ".toList = "trap".toList ++ ' ' :: ("--".toList ++ [' ']) := by decide
    unfold Listing.printTrap
    simp only [List.map_cons, List.map_nil, joinSp, h1, h2, hq]
    rw [h3]
    simp only [List.append_assoc, List.cons_append, List.nil_append]
  rw [e, dropNl_append_nl]
  exact h

/-- ★ `listing_reparse`, valueless variables: the line `typeset [-r ][-x ][-- ]<name>` (also `export`,
    `readonly`: no option letters) reads back as the utility name, the option words and the name. -/
theorem attr_line_reparse (builtin : List Char) (optws : List (List Char)) (name : List Char)
    (hb : quote builtin = builtin) (ho : ∀ o ∈ optws, quote o = o) :
    readBack (joinSp (builtin :: (optws ++ [quote name]))) = some (builtin :: (optws ++ [name])) := by
  have h := quote_args_roundtrip (builtin :: (optws ++ [name]))
  have e : (builtin :: (optws ++ [name])).map quote = builtin :: (optws ++ [quote name]) := by
    have hm : ∀ l : List (List Char), (∀ o ∈ l, quote o = o) → l.map quote = l := by
      intro l
      induction l with
      | nil => intro _; rfl
      | cons a t ih =>
        intro h
        simp [h a (by simp), ih (fun o ho => h o (by simp [ho]))]
    simp only [List.map_cons, List.map_append, List.map_nil, hb, hm optws ho]
  rw [e] at h
  exact h

/-- ★ `listing_reparse`, `name=value` words read as ordinary arguments (`alias`): FULL statement, with the
    exact side condition.  For all names and values, unless the printed word is a cross-bracket pattern
    (`crossBracket`: name and value both printed bare, `[` in the name, `]` in the value), the word
    `quote n ++ "=" ++ quote v` reads back as exactly the one field `n=v`: no tilde or pattern trigger
    arises across the two separately quoted halves. -/
theorem alias_entry_reparse (n v : List Char) (h : crossBracket n v = false) :
    readBack (quote n ++ '=' :: quote v) = some [n ++ '=' :: v] := by
  simp [readBack, lex_assign, fieldOf_assign n v h]

/-- … and the side condition is exact: in the cross-bracket case the printed word is NOT read back
    verbatim (it is a pathname-expansion pattern) — the known finding, for every such name/value. -/
theorem alias_entry_cross_bracket (n v : List Char) (h : crossBracket n v = true) :
    readBack (quote n ++ '=' :: quote v) = none := by
  unfold crossBracket at h
  simp only [Bool.and_eq_true] at h
  have ho : hasLitOpen (unitsOf n) = true := by rw [hasLitOpen_unitsOf, h.1.1, h.1.2]; rfl
  have hc : hasLitClose (WUnit.lit '=' :: unitsOf v) = true := by
    rw [(eq_value_facts v).2.2.2, hasLitClose_unitsOf, h.2.1, h.2.2]; rfl
  have hb := bracketTriggered_append_true _ _ ho hc
  simp [readBack, lex_assign, fieldOf, globTriggered, hb]

/-- ★ `listing_reparse`, `name=value` words as arguments of a declaration utility (`typeset -p`,
    `export -p`, `readonly -p`; the same reading applies to the assignments printed by `set`): the FULL
    statement, no side condition — for ALL names and values the printed word reads back as the one field
    `n=v` (a bare name puts the word in `Single` mode: no pathname expansion, tilde looked for after `=`
    and colons; a quoted name hides its `[`). -/
theorem decl_entry_reparse (n v : List Char) :
    readBackDecl (quote n ++ '=' :: quote v) = some [n ++ '=' :: v] := by
  have hf : fieldOfDecl (unitsOf n ++ WUnit.lit '=' :: unitsOf v) = some (n ++ '=' :: v) := by
    rcases shapes n with ⟨hn, _, hu⟩ | ⟨hn, _, _, hu⟩ | ⟨hn, _, hu⟩
    · have hb := bare_of_not_needs hn
      have hne : '=' ∉ n := by
        intro h
        simp only [strNeedsQuoting, Bool.or_eq_false_iff] at hn
        have := List.any_eq_false.mp hn.1.1.2 '=' h
        simp [eq_needs_quoting] at this
      have hav : assignValue (unitsOf n ++ WUnit.lit '=' :: unitsOf v) false = some (unitsOf v) := by
        rw [hu]; exact assignValue_lits n _ false (Or.inr hb.nonempty) hne
      have htf : tildeFront (unitsOf n ++ WUnit.lit '=' :: unitsOf v) = false := by
        rw [hu]
        cases n with
        | nil => exact absurd rfl hb.nonempty
        | cons c cs =>
          have hc : c ≠ '~' := by
            intro h
            have hm : c ∈ Generated.QuoteTables.firstCharArms := first_arms c (by simp [h])
            have := hb.first
            simp [firstCharNeeds] at this
            exact this hm
          simp [tildeFront, hc]
      have hrq : removeQuotes (unitsOf n ++ WUnit.lit '=' :: unitsOf v) = n ++ '=' :: v := by
        rw [removeQuotes_append]
        have : removeQuotes (WUnit.lit '=' :: unitsOf v) = '=' :: removeQuotes (unitsOf v) := by
          simp [removeQuotes, WUnit.chars]
        rw [this, removeQuotes_unitsOf, removeQuotes_unitsOf]
      simp [fieldOfDecl, hav, htf, (triggers_unitsOf v).1, hrq]
    · have hx : crossBracket n v = false := by simp [crossBracket, hn]
      have hav : assignValue (unitsOf n ++ WUnit.lit '=' :: unitsOf v) false = none := by
        rw [hu]; simp [assignValue]
      simp only [fieldOfDecl, hav]
      exact fieldOf_assign n v hx
    · have hx : crossBracket n v = false := by simp [crossBracket, hn]
      have hav : assignValue (unitsOf n ++ WUnit.lit '=' :: unitsOf v) false = none := by
        rw [hu]; simp [assignValue]
      simp only [fieldOfDecl, hav]
      exact fieldOf_assign n v hx
  simp [readBackDecl, lex_assign, hf]

/-- ★ `listing_reparse`, `alias`: every entry printed by `alias`, given back as `alias -- <entry>`, reads
    as the words that recreate the alias — unless it is a cross-bracket pattern. -/
theorem alias_listing_reparse (n v : List Char) (h : crossBracket n v = false) :
    readBack ("alias -- ".toList ++ Listing.dropNl (Listing.printAlias (n, v)))
      = some ["alias".toList, "--".toList, n ++ '=' :: v] := by
  have e : Listing.printAlias (n, v) = (quote n ++ '=' :: quote v) ++ ['\n'] := by
    simp [Listing.printAlias]
  have hp : "alias -- ".toList = prefixSp ["alias".toList, "--".toList] := by decide
  have hq : ∀ w ∈ ["alias".toList, "--".toList], quote w = w := by decide
  rw [e, dropNl_append_nl, hp, readBack_prefix _ hq, alias_entry_reparse n v h]
  rfl

/-- the separator is `-- ` or nothing -/
theorem sepOf_cases (n : List Char) : Listing.sepOf n = [] ∨ Listing.sepOf n = "-- ".toList := by
  unfold Listing.sepOf
  cases n with
  | nil => exact Or.inl rfl
  | cons c cs =>
    by_cases h : Generated.QuoteTables.separatorPrefixes.contains c = true
    · right; simp only [h, if_true]
    · left
      have : Generated.QuoteTables.separatorPrefixes.contains c = false := by simpa using h
      simp only [this, Bool.false_eq_true, if_false]

/-- ★ `listing_operand_safe`: over the separator characters extracted from `print_one`, for EVERY name the
    operand printed by `typeset -p` / `export -p` / `readonly -p` cannot be taken for an option by the
    argument parser: a name beginning with `-` or `+` is always preceded by `--`. -/
theorem listing_operand_safe (name : List Char) : Listing.operandSafe name = true := by
  have ht : ∀ c ∈ Listing.optionPrefixChars, c ∈ Generated.QuoteTables.separatorPrefixes := by decide
  unfold Listing.operandSafe Listing.sepOf
  cases name with
  | nil => simp
  | cons c cs =>
    by_cases h : c ∈ Listing.optionPrefixChars
    · have h2 : Generated.QuoteTables.separatorPrefixes.contains c = true :=
        List.contains_iff_mem.mpr (ht c h)
      have h3 : "-- ".toList.isEmpty = false := by decide
      simp only [h2, if_true, h3]
      rfl
    · simp
      exact Or.inr h

/-- ★ the same for the attribute line of `typeset -fp` (`typeset -fr [-- ]<name>`), over the separator
    characters extracted from print_functions.rs: for EVERY function name the operand cannot be taken
    for an option. -/
theorem function_attr_operand_safe (name : List Char) : Listing.fnOperandSafe name = true := by
  have ht : ∀ c ∈ Listing.optionPrefixChars, c ∈ Generated.QuoteTables.functionSeparatorPrefixes := by decide
  unfold Listing.fnOperandSafe Listing.fsepOf
  cases name with
  | nil => simp
  | cons c cs =>
    by_cases h : c ∈ Listing.optionPrefixChars
    · have h2 : Generated.QuoteTables.functionSeparatorPrefixes.contains c = true :=
        List.contains_iff_mem.mpr (ht c h)
      have h3 : "-- ".toList.isEmpty = false := by decide
      simp only [h2, if_true, h3]
      rfl
    · simp
      exact Or.inr h

theorem fsepOf_cases (n : List Char) : Listing.fsepOf n = [] ∨ Listing.fsepOf n = "-- ".toList := by
  unfold Listing.fsepOf
  cases n with
  | nil => exact Or.inl rfl
  | cons c cs =>
    by_cases h : Generated.QuoteTables.functionSeparatorPrefixes.contains c = true
    · right; simp only [h, if_true]
    · left
      have : Generated.QuoteTables.functionSeparatorPrefixes.contains c = false := by simpa using h
      simp only [this, Bool.false_eq_true, if_false]

/-- ★ `listing_reparse`, function attribute lines: for EVERY function name the line
    `typeset -fr [-- ]<name>` printed by `typeset -fp` reads back as the words `typeset -fr [--] name`. -/
theorem function_attr_line_reparse (name : List Char) :
    readBack (Listing.dropNl (Listing.printFnAttr name))
      = some (["typeset".toList, "-fr".toList]
          ++ (if (Listing.fsepOf name).isEmpty then [] else ["--".toList]) ++ [name]) := by
  have h0 : "typeset -fr ".toList = prefixSp ["typeset".toList, "-fr".toList] := by decide
  have h3 : "-- ".toList = prefixSp ["--".toList] := by decide
  have hq0 : ∀ w ∈ ["typeset".toList, "-fr".toList], quote w = w := by decide
  have hq3 : ∀ w ∈ ["--".toList], quote w = w := by decide
  have hne : "-- ".toList.isEmpty = false := by decide
  unfold Listing.printFnAttr
  rcases fsepOf_cases name with hs | hs
  · rw [hs]
    simp only [List.append_nil, List.isEmpty_nil, if_true]
    rw [dropNl_append_nl, h0, readBack_prefix _ hq0, quote_roundtrip]
    rfl
  · rw [hs, hne]
    simp only [Bool.false_eq_true, if_false]
    rw [dropNl_append_nl, List.append_assoc, h0, h3, readBack_prefix _ hq0,
      readBack_prefix _ hq3, quote_roundtrip]
    rfl

/-- option words `typeset -p` prints before the name -/
def typesetOptWords (v : Listing.Var) : List (List Char) :=
  (if v.readonly then ["-r".toList] else []) ++ (if v.exported then ["-x".toList] else [])
    ++ (if Listing.sepOf v.name = [] then [] else ["--".toList])

/-- ★ `listing_reparse`, `typeset -p` scalar lines: for every variable with a scalar value (any name
    without `=`, any value, any attributes) the printed line is `typeset ` + arguments + newline, and the
    arguments read back (declaration-utility reading) as the option words followed by `name=value`. -/
theorem typeset_scalar_listing_reparse (v : Listing.Var) (s : List Char)
    (hv : v.value = .scalar s) (hn : v.name.contains '=' = false) :
    ∃ args, Listing.printVar "typeset" Listing.typesetOpts false v = "typeset ".toList ++ args ++ ['\n']
      ∧ readBackDecl args = some (typesetOptWords v ++ [v.name ++ '=' :: s]) := by
  refine ⟨prefixSp (typesetOptWords v) ++ (quote v.name ++ '=' :: quote s), ?_, ?_⟩
  · have hpre : Listing.typesetOpts v ++ Listing.sepOf v.name = prefixSp (typesetOptWords v) := by
      have h1 : "-r ".toList = "-r".toList ++ [' '] := by decide
      have h2 : "-x ".toList = "-x".toList ++ [' '] := by decide
      have h3 : "-- ".toList = "--".toList ++ [' '] := by decide
      unfold Listing.typesetOpts typesetOptWords
      rw [h1, h2]
      rcases sepOf_cases v.name with hs | hs
      · rw [hs]
        cases v.readonly <;> cases v.exported <;> simp [prefixSp]
      · rw [hs, h3]
        cases v.readonly <;> cases v.exported <;> simp [prefixSp]
    have h4 : "typeset ".toList = "typeset".toList ++ [' '] := by decide
    unfold Listing.printVar
    simp only [hn, Bool.false_eq_true, if_false, hv]
    rw [h4, ← hpre]
    simp only [List.append_assoc, List.cons_append, List.nil_append]
  · have hq : ∀ w ∈ typesetOptWords v, quote w = w := by
      have h1 : quote "-r".toList = "-r".toList := by decide
      have h2 : quote "-x".toList = "-x".toList := by decide
      have h3 : quote "--".toList = "--".toList := by decide
      unfold typesetOptWords
      intro w hw
      simp only [List.mem_append] at hw
      rcases hw with (hw | hw) | hw
      · split at hw <;> simp at hw; rw [hw]; exact h1
      · split at hw <;> simp at hw; rw [hw]; exact h2
      · split at hw <;> simp at hw; rw [hw]; exact h3
    rw [readBackDecl_prefix _ hq, decl_entry_reparse]
    rfl

/-- every option name of the table extracted from yash-env/src/option.rs is printed bare by the quoter -/
theorem option_names_bare : ∀ o ∈ Generated.OptionTable.options, quote o.1 = o.1 := by decide

/-- ★ `listing_reparse`, `set +o`: for every option of the extracted table and either state, the line
    printed for a modifiable option reads back as `set -o <name>` / `set +o <name>`. -/
theorem seto_line_reparse (o : List Char × Bool × Bool) (ho : o ∈ Generated.OptionTable.options) (on : Bool) :
    readBack (Listing.dropNl (Listing.printOpt o.1 true on))
      = some ["set".toList, [if on then '-' else '+', 'o'], o.1] := by
  have hq := option_names_bare o ho
  have h := quote_args_roundtrip ["set".toList, [if on then '-' else '+', 'o'], o.1]
  have h1 : quote "set".toList = "set".toList := by decide
  have h2 : quote [if on then '-' else '+', 'o'] = [if on then '-' else '+', 'o'] := by
    cases on <;> decide
  have h3 : "set ".toList = "set".toList ++ [' '] := by decide
  have h4 : "o ".toList = ['o', ' '] := by decide
  have e : Listing.printOpt o.1 true on
      = joinSp (["set".toList, [if on then '-' else '+', 'o'], o.1].map quote) ++ ['\n'] := by
    unfold Listing.printOpt
    simp only [List.map_cons, List.map_nil, joinSp, h1, h2, hq, if_true]
    rw [h3, h4]
    simp only [List.append_assoc, List.cons_append, List.nil_append]
  rw [e, dropNl_append_nl]
  exact h

/-- ★ … and the line of a non-modifiable option (`#set ±o <name>`) is a comment: it contributes no
    command when the listing is evaluated. -/
theorem seto_comment_line (name : List Char) (on : Bool) :
    readBack (Listing.dropNl (Listing.printOpt name false on)) = none := by
  have e : Listing.printOpt name false on
      = ('#' :: ("set ".toList ++ [if on then '-' else '+'] ++ "o ".toList ++ name)) ++ ['\n'] := by
    simp [Listing.printOpt]
  rw [e, dropNl_append_nl]
  have : lex (.word []) ('#' :: ("set ".toList ++ [if on then '-' else '+'] ++ "o ".toList ++ name)) = none := by
    conv => lhs; rw [lex.eq_def]
    have hb : isBlank '#' = false := by decide
    have ho : isOperatorChar '#' = false := by decide
    simp [hb, ho]
  rw [readBack, this]
  rfl

/-! ## `umask` -/

/-- permission bits that `format_symbolic` prints for the group at shift `sh`, as `Permission::Literal` -/
def grpMask (a sh : Nat) : Nat :=
  (if a >>> sh &&& 4 ≠ 0 then 0o444 else 0) ||| (if a >>> sh &&& 2 ≠ 0 then 0o222 else 0)
    ||| (if a >>> sh &&& 1 ≠ 0 then 0o111 else 0)

/-- the clauses `u=…,g=…,o=…` -/
def symbolicShape (a : Nat) : List (Nat × List (Nat × Listing.Perm)) :=
  [(0o700, [(2, .lit (grpMask a 6) false)]), (0o070, [(2, .lit (grpMask a 3) false)]),
   (0o007, [(2, .lit (grpMask a 0) false)])]

set_option maxRecDepth 100000 in
/-- the text printed by `umask -S` parses (`parse_clauses`) to three `who=literal` clauses (finite: 512 masks) -/
theorem parse_formatSymbolic : ∀ a : Fin 512,
    Listing.parseClauses ((Listing.formatSymbolic a.val).length + 1) (Listing.formatSymbolic a.val)
      = some (symbolicShape a.val) := by
  decide

set_option maxRecDepth 100000 in
theorem grpMask_recombine : ∀ a : Fin 512,
    (grpMask a.val 0 &&& 7) ||| ((grpMask a.val 3 &&& 56) ||| (grpMask a.val 6 &&& 448)) = a.val := by
  decide

/-- ★ `listing_reparse`, `umask -S`: for every mask and EVERY current mask of the shell that evaluates it,
    `umask <output of umask -S>` sets exactly the listed mask (allowed bits `a`). -/
theorem umask_symbolic_reread (a : Fin 512) (cur : Nat) :
    Listing.applySymbolic (Listing.formatSymbolic a.val) cur = some a.val := by
  have hn : ∀ x y z : Nat,
      ((z &&& 7) ||| ((((y &&& 56) ||| (((x &&& 448) ||| (cur &&& 63)) &&& 455))) &&& 504))
        = (z &&& 7) ||| ((y &&& 56) ||| (x &&& 448)) := by
    intro x y z
    simp only [Nat.and_or_distrib_right, Nat.and_assoc]
    simp
  unfold Listing.applySymbolic
  rw [parse_formatSymbolic a]
  have h63 : Listing.notBits 448 = 63 := by decide
  have h455 : Listing.notBits 56 = 455 := by decide
  have h504 : Listing.notBits 7 = 504 := by decide
  simp only [Option.map_some, symbolicShape, Listing.evalClauses, List.foldl_cons, List.foldl_nil,
    h63, h455, h504]
  simp only [show (2 : Nat) = 0 ↔ False by decide, show (2 : Nat) = 1 ↔ False by decide, if_false,
    Bool.false_and, Bool.false_eq_true, Nat.or_zero]
  rw [hn, grpMask_recombine a]

set_option maxRecDepth 100000 in
/-- ★ `listing_reparse`, `umask`: the three octal digits printed by `umask` denote the mask (all 512). -/
theorem umask_octal_reread : ∀ m : Fin 512, Listing.parseOctal3 (Listing.octal3 m.val) = some m.val := by
  decide

/-- evaluates `readBack` on concrete text by the unfolding equations (`lex` is defined by well-founded
    recursion, so `decide` cannot run it) -/
local macro "eval_readback" : tactic =>
  `(tactic| simp [readBack, lex, fieldOf, isOperatorChar, isBlank, isWhitespace, operatorChars, blankExcluded,
      whitespaceRanges, tildeTriggered, tildeAt, tildeAfterColon, tildeName, globTriggered, bracketTriggered,
      hasLitClose, removeQuotes, WUnit.chars, dollarStarts, skipLC, specialParamChars, isNameChar, dqEscapable])

/-! Non-vacuity: the three cases are all inhabited, and unquoted text really is mangled by the lexer. -/
example : quote "a:b{".toList = "a:b{".toList := by decide
example : quote "a b".toList = "'a b'".toList := by decide
example : quote "it's $x".toList = "\"it's \\$x\"".toList := by decide
example : readBack "'a'\\''b' \"c d\"".toList = some ["a'b".toList, "c d".toList] := by eval_readback
/-- the hypothesis of the table obligation is met by, e.g., U+3000 (a non-ASCII blank) -/
example : lexerSpecial (Char.ofNat 0x3000) := by
  refine Or.inr (Or.inr (Or.inr (Or.inr (Or.inr (Or.inr ?_)))))
  decide
/-- unquoted text that needs quoting does NOT read back as itself (the quoting is not idle) -/
example : readBack "a b".toList = some ["a".toList, "b".toList] := by eval_readback
example : readBack "~".toList = none := by eval_readback
example : readBack "a:~".toList = none := by eval_readback
example : readBack "[a]".toList = none := by eval_readback
example : readBack "#x".toList = none := by eval_readback
example : readBack "$x".toList = none := by eval_readback
example : readBack "a;b".toList = none := by eval_readback

/-- Witness of the known finding: alias name `[`, value `]` is printed `[=]`, which the reader does NOT
    accept as a literal-only word (it is a bracket pattern for pathname expansion). -/
theorem alias_cross_bracket_witness :
    Listing.printAlias ("[".toList, "]".toList) = "[=]\n".toList ∧ readBack "[=]".toList = none := by
  constructor
  · decide
  · eval_readback
/-- while as the argument of a declaration utility the same word is harmless (`Single` mode) -/
example : readBackDecl "[=]".toList = some ["[=]".toList] := by
  simp [readBackDecl, lex, fieldOfDecl, assignValue, tildeFront, tildeTriggered, tildeAt, tildeAfterColon,
    removeQuotes, WUnit.chars, isOperatorChar, isBlank, isWhitespace, operatorChars, blankExcluded, whitespaceRanges]
example : Listing.printTrap ("INT", "echo 'a b'".toList) = "trap -- \"echo 'a b'\" INT\n".toList := by decide
example : Listing.printVar "typeset" Listing.typesetOpts false
    { name := "-n".toList, value := .scalar "a b".toList, exported := true, readonly := true }
    = "typeset -r -x -- -n='a b'\n".toList := by decide

end YashModel.Quote
