use yash_fnmatch::{Pattern, without_escape};
fn main() {
    for (p, s) in [("[a[.-.]z]", "b"), ("[a[.-.]z]", "-"), ("[[.a*.]]", "aaa"), ("[[.a*.]]", "a*"), ("[[.^.]]", "^"), ("[[.^.]a]", "a"), ("[![.^.]]", "^"), ("[[=]=]]", "]"), ("[[.\\.]]", "\\"), ("[[.&.]&]", "&"), ("[a[.~.]~b]", "~")] {
        let r = Pattern::parse(without_escape(p)).map(|pat| pat.is_match(s));
        println!("{p:12} {s:5} -> {r:?}");
    }
}
