use yash_env::variable::{Context, Scope, VariableSet};
fn main() {
    let mut v0 = VariableSet::new();
    v0.get_or_new("x", Scope::Global).assign("g", None).unwrap();
    let mut v1 = v0.push_context(Context::default());
    let mut v = v1.push_context(Context::default());
    v.get_or_new("y", Scope::Local).assign("l", None).unwrap();
    let r = std::panic::catch_unwind(std::panic::AssertUnwindSafe(|| { v.unset("y", Scope::Local).map(|o| o.is_some()).map_err(|_| ()) }));
    println!("unset y Local -> {:?}", r);
    println!("y now {:?}", v.get("y").map(|x| x.value.clone()));
    let r = std::panic::catch_unwind(std::panic::AssertUnwindSafe(|| { v.unset("x", Scope::Local).map(|o| o.is_some()).map_err(|_| ()) }));
    println!("unset x Local: {:?}", r);
    println!("x now {:?}", v.get("x").map(|x| x.value.clone()));
}
