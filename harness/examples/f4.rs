use yverif::shell::*;
fn main() {
    let script = std::env::args().nth(1).unwrap_or_else(|| "echo a >/tmp/ok </tmp/missing; echo b 3>/tmp/x 4</tmp/missing; : ".into());
    let (o, fds) = run_with(Config::new(&script), |_, _| (), |env, state| {
        let st = state.borrow();
        let p = &st.processes[&env.main_pid];
        p.fds().keys().map(|f| f.0).collect::<Vec<_>>()
    });
    eprint!("{}", o.stderr_str());
    println!("exit {} fds {:?}", o.exit_status, fds);
}
