//! `cargo run --example sh -- 'script'` : run a script on the virtual shell and show what happened.
fn main() {
    let script = std::env::args().nth(1).unwrap_or_default();
    let o = yverif::shell::run_script(&script);
    print!("{}", o.stdout_str());
    eprint!("{}", o.stderr_str());
    eprintln!("[exit {} stuck {}]", o.exit_status, o.stuck);
}
