use yash_fnmatch::{Pattern, with_escape};
fn main() {
    for (p, s) in [(r"[a\-z]", "b"), (r"[a\-z]", "-"), (r"[a-z]", "b"), (r"[a\--z]", "b"), (r"[a\--z]", "."), (r"[\--0]", "."), (r"[--0]", "."), (r"[a-]", "-"), (r"[!a-c]", "b"), (r"[a-c-e]", "d"), (r"[a-c-e]", "-")] {
        let r = Pattern::parse(with_escape(p)).map(|pat| pat.is_match(s));
        println!("{p:12} {s:5} -> {r:?}");
    }
}
