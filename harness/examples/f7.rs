use yash_fnmatch::{Pattern, without_escape};
fn main() {
    for (p, s) in [("[![.é.]a]", "é"), ("[![.é.]a]", "b"), ("[^[=é=]]", "x"), ("[[.é.]a]", "é"), ("[![.ch.]a]", "b")] {
        let r = Pattern::parse(without_escape(p)).map(|pat| pat.is_match(s)).map_err(|_| "ERR");
        println!("{p:12} {s:5} -> {r:?}");
    }
}
