use yash_fnmatch::{Pattern, without_escape};
fn main() {
    for (p, s) in [("[![.ab.]]", "a"), ("[![.ab.]]!-[x]", "a"), ("[![.ab.]]!-[x]", "q!-x"), ("[![.ab.]c]", "c"), ("[![.ab.]c]", "d")] {
        let r = Pattern::parse(without_escape(p)).map(|pat| pat.is_match(s)).map_err(|_| "ERR");
        println!("{p:16} {s:5} -> {r:?}");
    }
}
