//! One deterministic PRNG (xorshift64*) from which every random choice derives.
#[derive(Clone, Debug)]
pub struct Rng(pub u64);

impl Rng {
    pub fn new(seed: u64) -> Self {
        let mut s = seed.wrapping_mul(0x9E3779B97F4A7C15) ^ 0xD1B54A32D192ED03;
        if s == 0 {
            s = 0x2545F4914F6CDD1D;
        }
        let mut r = Rng(s);
        for _ in 0..4 {
            r.next();
        }
        r
    }
    pub fn next(&mut self) -> u64 {
        let mut x = self.0;
        x ^= x >> 12;
        x ^= x << 25;
        x ^= x >> 27;
        self.0 = x;
        x.wrapping_mul(0x2545F4914F6CDD1D)
    }
    /// uniform in 0..n (n > 0)
    pub fn below(&mut self, n: usize) -> usize {
        (self.next() % (n as u64)) as usize
    }
    pub fn chance(&mut self, num: u32, den: u32) -> bool {
        (self.next() % den as u64) < num as u64
    }
    pub fn pick<'a, T>(&mut self, xs: &'a [T]) -> &'a T {
        &xs[self.below(xs.len())]
    }
    pub fn fork(&mut self) -> Rng {
        Rng::new(self.next())
    }
}
