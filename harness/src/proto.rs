//! Line protocol helpers: hex strings, command-line options, panic capture.
use std::panic::{AssertUnwindSafe, catch_unwind};

pub fn enc_bytes(b: &[u8]) -> String {
    if b.is_empty() {
        return "-".to_string();
    }
    let mut s = String::with_capacity(b.len() * 2);
    for x in b {
        s.push_str(&format!("{x:02x}"));
    }
    s
}

pub fn enc_str(s: &str) -> String {
    enc_bytes(s.as_bytes())
}

pub fn dec_bytes(t: &str) -> Option<Vec<u8>> {
    if t == "-" {
        return Some(vec![]);
    }
    if t.len() % 2 != 0 {
        return None;
    }
    (0..t.len() / 2)
        .map(|i| u8::from_str_radix(t.get(2 * i..2 * i + 2)?, 16).ok())
        .collect()
}

pub fn dec_str(t: &str) -> Option<String> {
    String::from_utf8(dec_bytes(t)?).ok()
}

/// Options common to every harness binary.
#[derive(Clone, Debug)]
pub struct Opts {
    /// `quick` or `thorough`
    pub tier: String,
    pub seed: u64,
    /// replay: run exactly the cases in this file (first tab-separated column of each line)
    pub replay: Option<String>,
    /// corpus directory whose `*.txt` files are run first
    pub corpus: Option<String>,
    /// shard i of n (for parallel thorough runs)
    pub shard: (usize, usize),
    pub extra: Vec<String>,
}

impl Opts {
    pub fn from_args() -> Opts {
        let mut o = Opts {
            tier: std::env::var("VERIF_TIER").unwrap_or_else(|_| "quick".into()),
            seed: std::env::var("VERIF_SEED")
                .ok()
                .and_then(|s| s.parse().ok())
                .unwrap_or(1),
            replay: None,
            corpus: None,
            shard: (0, 1),
            extra: vec![],
        };
        let mut it = std::env::args().skip(1);
        while let Some(a) = it.next() {
            match a.as_str() {
                "--tier" => o.tier = it.next().expect("--tier value"),
                "--seed" => o.seed = it.next().expect("--seed value").parse().expect("seed"),
                "--replay" => o.replay = it.next(),
                "--corpus" => o.corpus = it.next(),
                "--shard" => {
                    let v = it.next().expect("--shard i/n");
                    let (a, b) = v.split_once('/').expect("i/n");
                    o.shard = (a.parse().unwrap(), b.parse().unwrap());
                }
                _ => o.extra.push(a),
            }
        }
        o
    }
    pub fn thorough(&self) -> bool {
        self.tier == "thorough"
    }
    /// Cases to run before generated ones: replay file (exclusive) or corpus files.
    pub fn fixed_cases(&self) -> (Vec<String>, bool) {
        let first_col = |text: String| -> Vec<String> {
            text.lines()
                .filter(|l| !l.trim().is_empty() && !l.starts_with('#'))
                .map(|l| l.split('\t').next().unwrap().to_string())
                .collect()
        };
        if let Some(p) = &self.replay {
            let text = std::fs::read_to_string(p).expect("replay file");
            return (first_col(text), true);
        }
        let mut v = vec![];
        if let Some(d) = &self.corpus {
            if let Ok(rd) = std::fs::read_dir(d) {
                let mut files: Vec<_> = rd.filter_map(|e| e.ok()).map(|e| e.path()).collect();
                files.sort();
                for f in files {
                    if f.extension().map(|e| e == "txt").unwrap_or(false) {
                        if let Ok(t) = std::fs::read_to_string(&f) {
                            v.extend(first_col(t));
                        }
                    }
                }
            }
        }
        (v, false)
    }
}

// ---------------------------------------------------------------------------------------------
// watchdog: an implementation that no longer terminates on a case (a changed loop condition, a parser
// that spins) must not hang the check for its whole time-out

use std::sync::Mutex;
use std::time::{Duration, Instant};

struct Watch {
    since: Option<Instant>,
    /// the case text, when the caller gave it (`watch_case`), and its own limit
    case: Option<(String, u64)>,
    started: bool,
}
static WATCH: Mutex<Watch> = Mutex::new(Watch { since: None, case: None, started: false });

fn limit_default() -> u64 {
    std::env::var("VERIF_CASE_TIMEOUT_S").ok().and_then(|s| s.parse().ok()).unwrap_or(600)
}

fn start_watchdog() {
    std::thread::spawn(|| {
        loop {
            std::thread::sleep(Duration::from_millis(500));
            let w = WATCH.lock().unwrap();
            let Some(t) = w.since else { continue };
            let limit = w.case.as_ref().map(|c| c.1).unwrap_or_else(limit_default);
            if t.elapsed() < Duration::from_secs(limit) {
                continue;
            }
            match &w.case {
                Some((case, _)) => {
                    // a result line like any other: the model never prints HANG, the oracle column fails;
                    // the cases after this one are not run
                    println!("{case}\tHANG\tFAIL:no-result-within-{limit}s");
                    std::process::exit(0);
                }
                None => {
                    eprintln!("harness watchdog: one case has been running for more than {limit} s (the implementation does not terminate on it?)");
                    std::process::exit(3);
                }
            }
        }
    });
}

/// Names the case the next `guarded` call runs and gives it a time limit in seconds: if the limit
/// passes, the line `<case> HANG FAIL:…` is printed and the process ends.
pub fn watch_case(case: &str, limit_s: u64) {
    let limit = std::env::var("VERIF_CASE_TIMEOUT_S").ok().and_then(|s| s.parse().ok()).unwrap_or(limit_s);
    WATCH.lock().unwrap().case = Some((case.to_string(), limit));
}

/// Runs `f`, turning a panic into the observation `PANIC` (no model ever prints that).
pub fn guarded<F: FnOnce() -> String>(f: F) -> String {
    {
        let mut w = WATCH.lock().unwrap();
        if !w.started {
            w.started = true;
            start_watchdog();
        }
        w.since = Some(Instant::now());
    }
    let r = catch_unwind(AssertUnwindSafe(f));
    {
        let mut w = WATCH.lock().unwrap();
        w.since = None;
        w.case = None;
    }
    match r {
        Ok(s) => s,
        Err(e) => {
            let msg = if let Some(s) = e.downcast_ref::<&str>() {
                s.to_string()
            } else if let Some(s) = e.downcast_ref::<String>() {
                s.clone()
            } else {
                "?".to_string()
            };
            format!("PANIC({})", msg.replace(['\t', '\n'], " "))
        }
    }
}

pub fn quiet_panics() {
    std::panic::set_hook(Box::new(|_| {}));
}

/// Prints one result line.
pub fn emit(case: &str, obs: &str, oracle: &str) {
    println!("{case}\t{obs}\t{oracle}");
}
