//! A whole yash shell on the in-memory `VirtualSystem`, wired exactly like `yash-cli`
//! (`configure_environment` + `prepare_input` + `read_eval_loop` + EXIT trap), plus probe built-ins.
//!
//! The few lines between `configure_environment` and the EXIT trap replicate
//! `yash_cli::run_as_shell_process`, which is private and reads `std::env::args`.

use std::cell::{Cell, RefCell};
use std::future::Future;
use std::ops::ControlFlow::{Break, Continue};
use std::pin::Pin;
use std::rc::Rc;
use yash_cli::startup::args::{InitFile, Run, Source, Work};
use yash_cli::startup::configure_environment;
use yash_cli::startup::input::prepare_input;
use yash_env::Env;
use yash_env::builtin::{Builtin, Type};
use yash_env::io::Fd;
use yash_env::option::{Option as ShellOption, State};
use yash_env::semantics::{Divert, ExitStatus, Field};
use yash_env::system::concurrency::WriteAll as _;
use yash_env::system::r#virtual::{FileBody, Inode, SystemState, VirtualSystem};
use yash_env::system::{Concurrent, Read as _};
use yash_semantics::read_eval_loop;
use yash_semantics::trap::run_exit_trap;

pub type VSys = Rc<Concurrent<VirtualSystem>>;
pub type VEnv = Env<VSys>;
pub type BuiltinFuture<'a> = Pin<Box<dyn Future<Output = yash_env::builtin::Result> + 'a>>;

/// What a script run left behind.
#[derive(Clone, Debug)]
pub struct Outcome {
    pub stdout: Vec<u8>,
    pub stderr: Vec<u8>,
    pub exit_status: i32,
    /// `true` if the executor stalled with the main task unfinished (deadlock) or the step budget ran out
    pub stuck: bool,
}

impl Outcome {
    pub fn stdout_str(&self) -> String {
        String::from_utf8_lossy(&self.stdout).into_owned()
    }
    pub fn stderr_str(&self) -> String {
        String::from_utf8_lossy(&self.stderr).into_owned()
    }
}

/// Configuration of one run.
pub struct Config {
    pub script: String,
    /// how the script reaches the shell
    pub source: SourceKind,
    pub options: Vec<(ShellOption, State)>,
    pub positional_params: Vec<String>,
    pub arg0: String,
    /// maximum number of executor rounds before the run is declared stuck
    pub max_rounds: usize,
}

pub enum SourceKind {
    /// `sh -c script`
    CommandString,
    /// script is the content of /dev/stdin, read by `sh -s`
    Stdin,
    /// script is stored in a file and run as `sh file`
    File(String),
}

impl Config {
    pub fn new(script: &str) -> Config {
        Config {
            script: script.to_string(),
            source: SourceKind::CommandString,
            options: vec![],
            positional_params: vec![],
            arg0: "yash".into(),
            max_rounds: 200_000,
        }
    }
}

fn out_all<'a>(env: &'a mut VEnv, text: String) -> BuiltinFuture<'a> {
    Box::pin(async move {
        match env.system.write_all(Fd::STDOUT, text.as_bytes()).await {
            Ok(_) => ExitStatus::SUCCESS.into(),
            Err(_) => ExitStatus::FAILURE.into(),
        }
    })
}

/// `echo args…` : arguments joined by one space, newline.
fn echo_main(env: &mut VEnv, args: Vec<Field>) -> BuiltinFuture<'_> {
    let words: Vec<&str> = args.iter().map(|f| f.value.as_str()).collect();
    out_all(env, format!("{}\n", words.join(" ")))
}

/// `probe args…` : one line `<$?>:<hex field>,<hex field>,…` (exact fields and the status on entry).
fn probe_main(env: &mut VEnv, args: Vec<Field>) -> BuiltinFuture<'_> {
    let fields: Vec<String> = args.iter().map(|f| crate::proto::enc_str(&f.value)).collect();
    let st = env.exit_status.0;
    Box::pin(async move {
        let text = format!("{}:{}\n", st, fields.join(","));
        let r = env.system.write_all(Fd::STDOUT, text.as_bytes()).await;
        // probe preserves `$?` so that it can be placed anywhere without disturbing the program
        match r {
            Ok(_) => ExitStatus(st).into(),
            Err(_) => ExitStatus::FAILURE.into(),
        }
    })
}

/// `cat` : copies standard input to standard output.
fn cat_main(env: &mut VEnv, _args: Vec<Field>) -> BuiltinFuture<'_> {
    Box::pin(async move {
        let mut buffer = [0u8; 1024];
        loop {
            match env.system.read(Fd::STDIN, &mut buffer).await {
                Ok(0) => return ExitStatus::SUCCESS.into(),
                Ok(n) => {
                    if env.system.write_all(Fd::STDOUT, &buffer[..n]).await.is_err() {
                        return ExitStatus::FAILURE.into();
                    }
                }
                Err(_) => return ExitStatus::FAILURE.into(),
            }
        }
    })
}

/// `st N` : regular built-in returning exit status N (a failing/succeeding "ordinary command").
fn st_main(_env: &mut VEnv, args: Vec<Field>) -> BuiltinFuture<'_> {
    let n: i32 = args.first().and_then(|f| f.value.parse().ok()).unwrap_or(0);
    Box::pin(async move { ExitStatus(n).into() })
}

pub fn probe_builtins() -> Vec<(&'static str, Builtin<VSys>)> {
    vec![
        ("echo", Builtin::new(Type::Mandatory, echo_main)),
        ("probe", Builtin::new(Type::Mandatory, probe_main)),
        ("cat", Builtin::new(Type::Mandatory, cat_main)),
        ("st", Builtin::new(Type::Mandatory, st_main)),
    ]
}

pub fn read_file(state: &RefCell<SystemState>, path: &str) -> Option<Vec<u8>> {
    let inode = state.borrow().file_system.get(path).ok()?;
    let inode = inode.borrow();
    match &inode.body {
        FileBody::Regular { content, .. } => Some(content.clone()),
        _ => None,
    }
}

pub fn write_file(state: &RefCell<SystemState>, path: &str, content: &[u8]) {
    let inode = Rc::new(RefCell::new(Inode::new(content.to_vec())));
    state.borrow_mut().file_system.save(path, inode).unwrap();
}

/// Runs `config.script` in a fresh virtual system. `setup` runs after the environment is configured
/// (built-ins installed) and before the first command; `finish` runs after the EXIT trap.
pub fn run_with<Su, Fi, T>(config: Config, setup: Su, finish: Fi) -> (Outcome, Option<T>)
where
    Su: FnOnce(&mut VEnv, &Rc<RefCell<SystemState>>) + 'static,
    Fi: FnOnce(&mut VEnv, &Rc<RefCell<SystemState>>) -> T + 'static,
    T: 'static,
{
    let system = VirtualSystem::new();
    let state = Rc::clone(&system.state);
    let executor = yash_executor::Executor::new();
    state.borrow_mut().executor = Some(Rc::new(executor.spawner()));
    let max_rounds = config.max_rounds;

    let env = Env::with_system(Rc::new(Concurrent::new(system)));
    let concurrent = Rc::clone(&env.system);
    let result: Rc<Cell<Option<(i32, T)>>> = Rc::new(Cell::new(None));
    let result2 = Rc::clone(&result);
    let state2 = Rc::clone(&state);

    let main = async move {
        let mut env = env;
        let source = match &config.source {
            SourceKind::CommandString => Source::String(config.script.clone()),
            SourceKind::Stdin => {
                write_stdin(&state2, config.script.as_bytes());
                Source::Stdin
            }
            SourceKind::File(path) => {
                write_file(&state2, path, config.script.as_bytes());
                Source::File { path: path.clone() }
            }
        };
        let run = Run {
            work: Work { source, profile: InitFile::None, rcfile: InitFile::None },
            options: config.options.clone(),
            arg0: config.arg0.clone(),
            positional_params: config.positional_params.clone(),
        };
        let work = configure_environment(&mut env, run).await;
        env.builtins.extend(probe_builtins());
        setup(&mut env, &state2);
        let status = eval_source(&mut env, &work.source).await;
        let t = finish(&mut env, &state2);
        result2.set(Some((status, t)));
    };
    let runner = async move { concurrent.run_virtual(main).await };
    // SAFETY: single-threaded, as in yash_env::test_helper::in_virtual_system
    unsafe { executor.spawn_pinned(Box::pin(runner)) };

    let mut rounds = 0usize;
    let mut stuck = false;
    let mut out: Option<(i32, T)> = None;
    loop {
        executor.run_until_stalled();
        if let Some(r) = result.take() {
            out = Some(r);
            break;
        }
        rounds += 1;
        let mut st = state.borrow_mut();
        if let Some(next) = st.scheduled_wakers.next_wake_time() {
            st.advance_time(next);
        }
        drop(st);
        if executor.wake_count() == 0 || rounds > max_rounds {
            stuck = true;
            break;
        }
    }
    let stdout = read_file(&state, "/dev/stdout").unwrap_or_default();
    let stderr = read_file(&state, "/dev/stderr").unwrap_or_default();
    let (exit_status, t) = match out {
        Some((s, t)) => (s, Some(t)),
        None => (-1, None),
    };
    (Outcome { stdout, stderr, exit_status, stuck }, t)
}

/// The tail of `yash_cli::run_as_shell_process`: read-eval loop, result, EXIT trap.
async fn eval_source(env: &mut VEnv, source: &Source) -> i32 {
    let ref_env = RefCell::new(env);
    let lexer = match prepare_input(&ref_env, source).await {
        Ok(lexer) => lexer,
        Err(_) => return 127,
    };
    let result = read_eval_loop(&ref_env, &mut { lexer }).await;
    let env = ref_env.into_inner();
    env.apply_result(result);
    match result {
        Continue(())
        | Break(Divert::Continue { .. })
        | Break(Divert::Break { .. })
        | Break(Divert::Return(_))
        | Break(Divert::Interrupt(_))
        | Break(Divert::Exit(_)) => run_exit_trap(env).await,
        Break(Divert::Abort(_)) => (),
    }
    env.exit_status.0
}

fn write_stdin(state: &RefCell<SystemState>, content: &[u8]) {
    let inode = state.borrow().file_system.get("/dev/stdin").unwrap();
    let mut inode = inode.borrow_mut();
    if let FileBody::Regular { content: c, .. } = &mut inode.body {
        *c = content.to_vec();
    }
}

/// Runs a script given as a command string with default settings.
pub fn run_script(script: &str) -> Outcome {
    run_with(Config::new(script), |_, _| (), |_, _| ()).0
}
