//! Programs of the core command language shared by the C02 and C10 harnesses: AST mirror of
//! `YashModel.Exec.Cmd`, S-expression writer/reader, renderer to shell source with surface variation,
//! random generator, and the runner on the virtual shell.
//!
//! Case line: `<seed> <script as S-expression>` (grammar in lean/YashModel/Exec/Sexp.lean). The seed
//! drives only the surface rendering (newline vs `;`, blanks, comments, line continuations).
//! Observation: `trace=<marker:$?,…> status=<exit status>` where the trace comes from the `probe`
//! built-in (prints `$?`, preserves it).

use std::cell::RefCell;
use std::fmt::Write as _;
use std::rc::Rc;
use yash_env::system::r#virtual::{FileBody, Inode};
use yash_env::system::Mode;
use yash_env::builtin::{Builtin, Type};
use yash_env::semantics::{ExitStatus, Field};
use yash_env::variable::Scope;
use crate::proto::{dec_str, guarded, watch_case};
use crate::rng::Rng;
use crate::shell::{BuiltinFuture, Config, VEnv, run_with};

// ---------------------------------------------------------------------------------------------
// AST mirror of YashModel.Exec.Cmd

#[derive(Clone, Debug)]
pub enum Cmd {
    Probe(u32),
    St(u32),
    Brk(u32),
    Cont(u32),
    Ret(Option<u32>),
    Exit(Option<u32>),
    SetE(bool),
    SetM(bool),
    /// `set -o pipefail` / `set +o pipefail`
    SetP(bool),
    /// no command name: status of the last command substitution in the words, in the redirections,
    /// in the assignments
    Absent(Option<u32>, Option<u32>, Option<u32>),
    /// command name and number of arguments
    Call(&'static str, u32),
    /// `{ list; } & wait`
    AsyncWait(List),
    /// `set -- w1 … wn`
    SetParams(u32),
    /// `typeset -fr name`
    Freeze(&'static str),
    /// `for v do … done`: one iteration per positional parameter
    ForPos(List),
    /// `for ro in w1 … wn`: the loop variable is read-only
    ForRo(u32),
    Unknown,
    Tick(u32, u32),
    Group(List),
    Subshell(List),
    If(List, List, Vec<(List, List)>, Option<List>),
    While(bool, List, List),
    For(u32, List),
    /// items: (0 = no pattern matches, 1 = one matches, 2 = expanding the patterns fails; terminator; body)
    Case(Vec<(u8, char, List)>),
    Def(&'static str, Box<Cmd>),
    /// simple command whose word expansion fails
    ExpErr,
    /// assignment to a read-only variable
    AssignErr,
    /// failing redirection on a command of the given kind
    RedirErr(&'static str),
    /// usage error of a special built-in (wrapped in `command`?, status 1 or 2)
    SpecErr(bool, u32),
    /// `trap '…' EXIT`
    TrapExit(List),
    /// `trap '…' USR1`
    TrapSig(List),
    /// `st N $(kill -s USR1 $$)`: the shell receives the trapped signal while the command runs
    Raise(u32),
    /// `st 0 $(kill -s USR1 $$) ${unset?}`: the signal, then an expansion error in the same command
    RaiseErr,
}

/// One command line of a script: commands, or text that does not parse.
#[derive(Clone, Debug)]
pub enum Line {
    Cmds(List),
    SyntaxError,
}
#[derive(Clone, Debug)]
pub struct Pipeline(pub bool, pub Vec<Cmd>);
#[derive(Clone, Debug)]
pub struct Item(pub Pipeline, pub Vec<(bool, Pipeline)>);
pub type List = Vec<Item>;

pub fn sx_list(l: &List) -> String {
    let v: Vec<String> = l.iter().map(sx_item).collect();
    format!("({})", v.join(" "))
}
fn sx_pipe(p: &Pipeline) -> String {
    if !p.0 && p.1.len() == 1 {
        return sx_cmd(&p.1[0]);
    }
    let v: Vec<String> = p.1.iter().map(sx_cmd).collect();
    format!("(pl {} {})", p.0 as u8, v.join(" "))
}
fn sx_item(i: &Item) -> String {
    if i.1.is_empty() {
        return sx_pipe(&i.0);
    }
    let mut s = format!("(ao {}", sx_pipe(&i.0));
    for (and, p) in &i.1 {
        write!(s, " ({} {})", if *and { "and" } else { "or" }, sx_pipe(p)).unwrap();
    }
    s.push(')');
    s
}
fn sx_name(n: &str) -> &str {
    match n {
        ":" => "colon",
        "/bin/xtin" => "xtpath",
        n => n,
    }
}
fn sx_cmd(c: &Cmd) -> String {
    match c {
        Cmd::Probe(m) => format!("(probe {m})"),
        Cmd::St(n) => format!("(st {n})"),
        Cmd::Brk(n) => format!("(brk {n})"),
        Cmd::Cont(n) => format!("(cont {n})"),
        Cmd::Ret(None) => "(ret)".into(),
        Cmd::Ret(Some(n)) => format!("(ret {n})"),
        Cmd::Exit(None) => "(exit)".into(),
        Cmd::Exit(Some(n)) => format!("(exit {n})"),
        Cmd::SetE(b) => format!("(sete {})", *b as u8),
        Cmd::SetM(b) => format!("(setm {})", *b as u8),
        Cmd::SetP(b) => format!("(setpf {})", *b as u8),
        Cmd::Absent(w, r, a) => {
            let f = |x: &Option<u32>| x.map_or("-".to_string(), |n| n.to_string());
            format!("(abs {} {} {})", f(w), f(r), f(a))
        }
        Cmd::Call(n, 0) => format!("(call {})", sx_name(n)),
        Cmd::Call(n, k) => format!("(call {} {k})", sx_name(n)),
        Cmd::SetParams(k) => format!("(setp {k})"),
        Cmd::Freeze(n) => format!("(freeze {})", sx_name(n)),
        Cmd::ForPos(b) => format!("(forpos {})", sx_list(b)),
        Cmd::ForRo(k) => format!("(forro {k})"),
        Cmd::Unknown => "(unk)".into(),
        Cmd::Tick(c, k) => format!("(tick {c} {k})"),
        Cmd::Group(l) => format!("(grp {})", sx_list(l)),
        Cmd::Subshell(l) => format!("(sub {})", sx_list(l)),
        Cmd::AsyncWait(l) => format!("(async {})", sx_list(l)),
        Cmd::If(c, b, elifs, e) => {
            let mut s = format!("(if {} {} (", sx_list(c), sx_list(b));
            let v: Vec<String> = elifs
                .iter()
                .map(|(c, b)| format!("{} {}", sx_list(c), sx_list(b)))
                .collect();
            s.push_str(&v.join(" "));
            s.push(')');
            if let Some(e) = e {
                write!(s, " {}", sx_list(e)).unwrap();
            }
            s.push(')');
            s
        }
        Cmd::While(until, c, b) => format!(
            "({} {} {})",
            if *until { "until" } else { "while" },
            sx_list(c),
            sx_list(b)
        ),
        Cmd::For(n, b) => format!("(for {n} {})", sx_list(b)),
        Cmd::Case(items) => {
            let v: Vec<String> = items
                .iter()
                .map(|(m, k, b)| format!("({m} {k} {})", sx_list(b)))
                .collect();
            format!("(case {})", v.join(" "))
        }
        Cmd::Def(n, c) => format!("(def {} {})", sx_name(n), sx_cmd(c)),
        Cmd::ExpErr => "(experr)".into(),
        Cmd::AssignErr => "(asgerr)".into(),
        Cmd::RedirErr(k) => format!("(rederr {k})"),
        Cmd::SpecErr(w, st) => format!("(specerr {} {st})", *w as u8),
        Cmd::TrapExit(b) => format!("(trapexit {})", sx_list(b)),
        Cmd::TrapSig(b) => format!("(trapsig {})", sx_list(b)),
        Cmd::Raise(n) => format!("(raise {n})"),
        Cmd::RaiseErr => "(raiseerr)".into(),
    }
}

pub fn sx_script(lines: &[Line]) -> String {
    let v: Vec<String> = lines
        .iter()
        .map(|l| match l {
            Line::Cmds(l) => sx_list(l),
            Line::SyntaxError => "synerr".to_string(),
        })
        .collect();
    format!("({})", v.join(" "))
}

// ---------------------------------------------------------------------------------------------
// S-expression reader (for replay / corpus cases)

#[derive(Debug)]
enum Sx {
    Atom(String),
    List(Vec<Sx>),
}
fn parse_sx(toks: &[String], pos: &mut usize) -> Option<Sx> {
    let t = toks.get(*pos)?;
    *pos += 1;
    if t == "(" {
        let mut v = vec![];
        while toks.get(*pos)? != ")" {
            v.push(parse_sx(toks, pos)?);
        }
        *pos += 1;
        Some(Sx::List(v))
    } else if t == ")" {
        None
    } else {
        Some(Sx::Atom(t.clone()))
    }
}
fn tokenize(s: &str) -> Vec<String> {
    let mut v = vec![];
    let mut cur = String::new();
    for c in s.chars() {
        if c == '(' || c == ')' || c == ' ' {
            if !cur.is_empty() {
                v.push(std::mem::take(&mut cur));
            }
            if c != ' ' {
                v.push(c.to_string());
            }
        } else {
            cur.push(c);
        }
    }
    if !cur.is_empty() {
        v.push(cur);
    }
    v
}
fn atom(x: &Sx) -> Option<&str> {
    match x {
        Sx::Atom(a) => Some(a),
        _ => None,
    }
}
fn num(x: &Sx) -> Option<u32> {
    atom(x)?.parse().ok()
}
fn name(x: &Sx) -> Option<&'static str> {
    Some(match atom(x)? {
        "f0" => "f0",
        "f1" => "f1",
        "f2" => "f2",
        "ok" => "ok",
        "colon" => ":",
        "sbin" => "sbin",
        "sbout" => "sbout",
        "xtin" => "xtin",
        "xtpath" => "/bin/xtin",
        _ => return None,
    })
}
fn to_list(x: &Sx) -> Option<List> {
    match x {
        Sx::List(v) => v.iter().map(to_item).collect(),
        _ => None,
    }
}
fn to_item(x: &Sx) -> Option<Item> {
    if let Sx::List(v) = x {
        if v.first().and_then(atom) == Some("ao") {
            let first = to_pipe(v.get(1)?)?;
            let mut rest = vec![];
            for r in &v[2..] {
                if let Sx::List(r) = r {
                    let and = match atom(r.first()?)? {
                        "and" => true,
                        "or" => false,
                        _ => return None,
                    };
                    rest.push((and, to_pipe(r.get(1)?)?));
                } else {
                    return None;
                }
            }
            return Some(Item(first, rest));
        }
    }
    Some(Item(to_pipe(x)?, vec![]))
}
fn to_pipe(x: &Sx) -> Option<Pipeline> {
    if let Sx::List(v) = x {
        if v.first().and_then(atom) == Some("pl") {
            let neg = num(v.get(1)?)? != 0;
            let cmds: Option<Vec<Cmd>> = v[2..].iter().map(to_cmd).collect();
            return Some(Pipeline(neg, cmds?));
        }
    }
    Some(Pipeline(false, vec![to_cmd(x)?]))
}
fn to_cmd(x: &Sx) -> Option<Cmd> {
    let Sx::List(v) = x else { return None };
    let head = atom(v.first()?)?;
    Some(match (head, v.len()) {
        ("probe", 2) => Cmd::Probe(num(&v[1])?),
        ("st", 2) => Cmd::St(num(&v[1])?),
        ("brk", 2) => Cmd::Brk(num(&v[1])?),
        ("cont", 2) => Cmd::Cont(num(&v[1])?),
        ("ret", 1) => Cmd::Ret(None),
        ("ret", 2) => Cmd::Ret(Some(num(&v[1])?)),
        ("exit", 1) => Cmd::Exit(None),
        ("exit", 2) => Cmd::Exit(Some(num(&v[1])?)),
        ("sete", 2) => Cmd::SetE(num(&v[1])? != 0),
        ("setm", 2) => Cmd::SetM(num(&v[1])? != 0),
        ("setpf", 2) => Cmd::SetP(num(&v[1])? != 0),
        ("abs", 4) => {
            let f = |x: &Sx| -> Option<Option<u32>> {
                if atom(x)? == "-" { Some(None) } else { Some(Some(num(x)?)) }
            };
            Cmd::Absent(f(&v[1])?, f(&v[2])?, f(&v[3])?)
        }
        ("call", 2) => Cmd::Call(name(&v[1])?, 0),
        ("call", 3) => Cmd::Call(name(&v[1])?, num(&v[2])?),
        ("setp", 2) => Cmd::SetParams(num(&v[1])?),
        ("freeze", 2) => Cmd::Freeze(name(&v[1])?),
        ("forpos", 2) => Cmd::ForPos(to_list(&v[1])?),
        ("forro", 2) => Cmd::ForRo(num(&v[1])?),
        ("unk", 1) => Cmd::Unknown,
        ("tick", 3) => Cmd::Tick(num(&v[1])?, num(&v[2])?),
        ("grp", 2) => Cmd::Group(to_list(&v[1])?),
        ("sub", 2) => Cmd::Subshell(to_list(&v[1])?),
        ("async", 2) => Cmd::AsyncWait(to_list(&v[1])?),
        ("if", 4) | ("if", 5) => {
            let Sx::List(e) = &v[3] else { return None };
            let mut elifs = vec![];
            for pair in e.chunks(2) {
                elifs.push((to_list(&pair[0])?, to_list(pair.get(1)?)?));
            }
            let els = if v.len() == 5 { Some(to_list(&v[4])?) } else { None };
            Cmd::If(to_list(&v[1])?, to_list(&v[2])?, elifs, els)
        }
        ("while", 3) => Cmd::While(false, to_list(&v[1])?, to_list(&v[2])?),
        ("until", 3) => Cmd::While(true, to_list(&v[1])?, to_list(&v[2])?),
        ("for", 3) => Cmd::For(num(&v[1])?, to_list(&v[2])?),
        ("case", _) => {
            let mut items = vec![];
            for it in &v[1..] {
                let Sx::List(it) = it else { return None };
                items.push((
                    num(it.first()?)? as u8,
                    atom(it.get(1)?)?.chars().next()?,
                    to_list(it.get(2)?)?,
                ));
            }
            Cmd::Case(items)
        }
        ("def", 3) => Cmd::Def(name(&v[1])?, Box::new(to_cmd(&v[2])?)),
        ("experr", 1) => Cmd::ExpErr,
        ("asgerr", 1) => Cmd::AssignErr,
        ("rederr", 2) => Cmd::RedirErr(match atom(&v[1])? {
            "regular" => "regular",
            "special" => "special",
            "function" => "function",
            "external" => "external",
            "compound" => "compound",
            "absent" => "absent",
            _ => return None,
        }),
        ("specerr", 3) => Cmd::SpecErr(num(&v[1])? != 0, num(&v[2])?),
        ("trapexit", 2) => Cmd::TrapExit(to_list(&v[1])?),
        ("trapsig", 2) => Cmd::TrapSig(to_list(&v[1])?),
        ("raise", 2) => Cmd::Raise(num(&v[1])?),
        ("raiseerr", 1) => Cmd::RaiseErr,
        _ => return None,
    })
}
pub fn parse_case(case: &str) -> Option<(u64, Vec<Line>)> {
    let (seed, rest) = case.split_once(' ')?;
    let toks = tokenize(rest);
    let mut pos = 0;
    let sx = parse_sx(&toks, &mut pos)?;
    if pos != toks.len() {
        return None;
    }
    let Sx::List(lines) = sx else { return None };
    let lines: Option<Vec<Line>> = lines
        .iter()
        .map(|l| match l {
            Sx::Atom(a) if a == "synerr" => Some(Line::SyntaxError),
            l => to_list(l).map(Line::Cmds),
        })
        .collect();
    Some((seed.parse().ok()?, lines?))
}

// ---------------------------------------------------------------------------------------------
// rendering to shell source with surface variation

struct Render {
    rng: Rng,
    out: String,
    /// render for the real `yash3` binary: the probe built-ins are shell functions there
    real: bool,
    /// alias surface variation (round-4 seeded change for C02): a separate stream, so that the
    /// other surface choices of a seed stay what they were; the definitions go on a first line
    arng: Rng,
    alias_ok: bool,
    aliases: Vec<(String, String)>,
    /// the next reserved word is not in command position (the body of a function definition)
    kw_plain_next: bool,
}
impl Render {
    /// separator between commands of a list: newline, `;`, with optional blanks/comments
    fn sep(&mut self) {
        match self.rng.below(6) {
            0 => self.out.push_str("; "),
            1 => self.out.push(';'),
            2 => self.out.push_str(" ;\t"),
            3 => self.out.push_str(" # c;omment\n"),
            4 => self.out.push_str("\n\n  "),
            _ => self.out.push('\n'),
        }
    }
    fn sp(&mut self) {
        match self.rng.below(5) {
            0 => self.out.push_str("  "),
            1 => self.out.push('\t'),
            2 => self.out.push_str(" \\\n"),
            _ => self.out.push(' '),
        }
    }
    fn opt_nl(&mut self) {
        if self.rng.chance(1, 3) {
            self.out.push('\n');
        } else {
            self.out.push(' ');
        }
    }
    fn word(&mut self, w: &str) {
        // occasionally quote part of a non-reserved word
        self.out.push_str(w);
    }
    fn list(&mut self, l: &List) {
        for (i, it) in l.iter().enumerate() {
            if i > 0 {
                self.sep();
            }
            self.item(it);
        }
    }
    /// list followed by a terminator suitable before a closing keyword
    fn list_term(&mut self, l: &List) {
        self.list(l);
        match self.rng.below(3) {
            0 => self.out.push_str("; "),
            1 => self.out.push_str("\n"),
            _ => self.out.push_str(" ;\n "),
        }
    }
    fn item(&mut self, it: &Item) {
        self.pipe(&it.0);
        for (and, p) in &it.1 {
            self.sp();
            self.out.push_str(if *and { "&&" } else { "||" });
            self.opt_nl();
            self.pipe(p);
        }
    }
    fn pipe(&mut self, p: &Pipeline) {
        if p.0 {
            self.out.push('!');
            self.sp();
        }
        for (i, c) in p.1.iter().enumerate() {
            if i > 0 {
                self.sp();
                self.out.push('|');
                self.opt_nl();
            }
            self.cmd(c);
        }
    }
    fn empty_word(&mut self) {
        let w = *self.rng.pick(&["$(st 3)", "$(st 0)", "`st 7`", "$unset_e", "$(exit 9)", "$(st 3)$(st 0)", "$(st 0)$(st 5)"]);
        self.out.push(' ');
        self.out.push_str(w);
    }
    fn simple(&mut self, words: &[String]) {
        let plain = |w: &String| !w.is_empty() && w.chars().all(|c| c.is_ascii_alphanumeric() || "+-:/_".contains(c));
        let mut renamed: Vec<String>;
        let mut words = words;
        let mut aliased = false;
        if self.alias_ok && words.iter().all(plain) && self.arng.chance(1, 6) {
            aliased = true;
            let k = self.aliases.len();
            match self.arng.below(4) {
                0 => {
                    // the whole command is the alias's value
                    let name = format!("a{k}x");
                    self.aliases.push((name.clone(), words.join(" ")));
                    self.out.push_str(&name);
                    return;
                }
                1 => {
                    // only the command name, with or without a trailing blank
                    let name = format!("a{k}x");
                    let v = if self.arng.chance(1, 2) { format!("{} ", words[0]) } else { words[0].clone() };
                    self.aliases.push((name.clone(), v));
                    renamed = words.to_vec();
                    renamed[0] = name;
                    words = &renamed;
                }
                2 => {
                    // an alias that is replaced by nothing (or blanks) in front of the command
                    let name = format!("e{k}x");
                    self.aliases.push((name.clone(), (*self.arng.pick(&["", " ", "  "])).into()));
                    self.out.push_str(&name);
                    self.out.push(' ');
                }
                _ => {
                    // a chain of two aliases
                    let (n1, n2) = (format!("a{k}x"), format!("b{k}x"));
                    self.aliases.push((n2.clone(), words.join(" ")));
                    self.aliases.push((n1.clone(), n2));
                    self.out.push_str(&n1);
                    return;
                }
            }
        }
        // the command name written with quotes or a line continuation inside it (never for assignments
        // and declaration utilities, whose recognition depends on the literal word)
        let nameable = self.alias_ok
            && !aliased
            && plain(&words[0])
            && !words[0].contains('=')
            && !["typeset", "readonly", "export", "command", "alias"].contains(&words[0].as_str());
        let disguise = if nameable && self.arng.chance(1, 10) { 1 + self.arng.below(5) } else { 0 };
        for (i, w) in words.iter().enumerate() {
            if i > 0 {
                self.sp();
            }
            if i == 0 && disguise > 0 {
                let cut = if w.chars().count() > 1 { 1 + self.arng.below(w.chars().count() - 1) } else { 0 };
                let (a, b): (String, String) = (w.chars().take(cut).collect(), w.chars().skip(cut).collect());
                match disguise {
                    1 => write!(self.out, "\"{w}\"").unwrap(),
                    2 => write!(self.out, "'{w}'").unwrap(),
                    3 => write!(self.out, "{a}\"\"{b}").unwrap(),
                    4 if cut > 0 => write!(self.out, "{a}\\\n{b}").unwrap(),
                    _ => write!(self.out, "{a}'{b}'").unwrap(),
                }
                continue;
            }
            self.word(w);
        }
        if self.alias_ok && self.arng.chance(1, 14) {
            self.harmless_redirection();
        }
    }
    /// a reserved word in command position, now and then written through an alias for it
    fn kw(&mut self, k: &str) {
        let plain = std::mem::replace(&mut self.kw_plain_next, false);
        if !plain && self.alias_ok && self.arng.chance(1, 16) {
            let name = format!("k{}x", self.aliases.len());
            self.aliases.push((name.clone(), k.to_string()));
            self.out.push_str(&name);
        } else {
            self.out.push_str(k);
        }
    }
    /// a redirection that succeeds and changes nothing the run observes
    fn harmless_redirection(&mut self) {
        let r = *self.arng.pick(&[" </dev/null", " 3</dev/null", " <\"/dev/null\"", " 3<&0", "\t4< /dev/null", " </dev/null 3<&0"]);
        self.out.push_str(r);
    }
    fn cmd(&mut self, c: &Cmd) {
        self.cmd_inner(c);
        // redirections on compound commands
        if self.alias_ok
            && matches!(c, Cmd::Group(_) | Cmd::Subshell(_) | Cmd::If(..) | Cmd::While(..) | Cmd::For(..) | Cmd::ForPos(_) | Cmd::Case(_))
            && self.arng.chance(1, 10)
        {
            self.harmless_redirection();
        }
    }
    fn cmd_inner(&mut self, c: &Cmd) {
        match c {
            Cmd::Probe(m) => self.simple(&["probe".into(), m.to_string()]),
            Cmd::St(n) => self.simple(&["st".into(), n.to_string()]),
            Cmd::Brk(n) => {
                if *n == 1 && self.rng.chance(1, 2) {
                    self.simple(&["break".into()])
                } else {
                    self.simple(&["break".into(), n.to_string()])
                }
            }
            Cmd::Cont(n) => {
                if *n == 1 && self.rng.chance(1, 2) {
                    self.simple(&["continue".into()])
                } else {
                    self.simple(&["continue".into(), n.to_string()])
                }
            }
            Cmd::Ret(None) => self.simple(&["return".into()]),
            Cmd::Ret(Some(n)) => self.simple(&["return".into(), n.to_string()]),
            Cmd::Exit(None) => self.simple(&["exit".into()]),
            Cmd::Exit(Some(n)) => self.simple(&["exit".into(), n.to_string()]),
            Cmd::SetE(true) => self.simple(&["set".into(), "-e".into()]),
            Cmd::SetE(false) => self.simple(&["set".into(), "+e".into()]),
            Cmd::Absent(w, r, a) => {
                // assignments first, then words that expand to no field; plain ones may be mixed in
                let mut parts: Vec<String> = vec![];
                match a {
                    Some(n) => {
                        if self.rng.chance(1, 3) {
                            parts.push(format!("av=$(st {})", self.rng.below(4)));
                        }
                        parts.push(format!("av2=x$(st {n})"));
                        if self.rng.chance(1, 3) {
                            parts.push("av3=plain".into());
                        }
                    }
                    None if w.is_none() || self.rng.chance(1, 2) => parts.push("av=plain".into()),
                    None => {}
                }
                if let Some(n) = w {
                    if self.rng.chance(1, 3) {
                        parts.push(format!("$(st {})", self.rng.below(4)));
                    }
                    parts.push(format!("$(st {n})"));
                    if self.rng.chance(1, 3) {
                        parts.push("$unset_e".into());
                    }
                }
                // redirections that succeed: performed in a subshell, they change nothing but `$?`
                // when they hold a command substitution
                match r {
                    Some(n) => {
                        if self.rng.chance(1, 3) {
                            let at = self.rng.below(parts.len() + 1);
                            parts.insert(at, format!("3<$(st {})/dev/null", self.rng.below(4)));
                        }
                        // the last redirection with a command substitution decides
                        parts.push(format!("<$(st {n})/dev/null"));
                        if self.rng.chance(1, 3) {
                            parts.push("4</dev/null".into());
                        }
                    }
                    None if self.rng.chance(1, 3) => {
                        let at = self.rng.below(parts.len() + 1);
                        parts.insert(at, (*self.rng.pick(&["</dev/null", "3</dev/null"])).into());
                    }
                    None => {}
                }
                self.out.push_str(&parts.join(" "));
            }
            Cmd::SetM(on) => {
                let w: &[&str] = match (*on, self.rng.below(2)) {
                    (true, 0) => &["set", "-m"],
                    (true, _) => &["set", "-o", "monitor"],
                    (false, 0) => &["set", "+m"],
                    (false, _) => &["set", "+o", "monitor"],
                };
                let v: Vec<String> = w.iter().map(|s| s.to_string()).collect();
                self.simple(&v)
            }
            Cmd::SetP(on) => {
                let w: &[&str] = match (*on, self.rng.below(3)) {
                    (true, 0) => &["set", "-o", "pipefail"],
                    (true, 1) => &["set", "-opipefail"],
                    (true, _) => &["set", "-o", "pipe-fail"],
                    (false, 0) => &["set", "+o", "pipefail"],
                    (false, 1) => &["set", "+opipefail"],
                    (false, _) => &["set", "-o", "nopipefail"],
                };
                let v: Vec<String> = w.iter().map(|s| s.to_string()).collect();
                self.simple(&v)
            }
            Cmd::Call(n, k) => {
                let mut w = vec![n.to_string()];
                for _i in 0..*k {
                    // every argument is one positional parameter, empty ones and blanks included
                    w.push((*self.rng.pick(&["a", "b c", "", "*", "$unset_e'q'"])).to_string());
                }
                self.out.push_str(&w[0]);
                for a in &w[1..] {
                    self.out.push(' ');
                    match a.as_str() {
                        "" => self.out.push_str("''"),
                        "b c" => self.out.push_str("\"b c\""),
                        "*" => self.out.push_str("'*'"),
                        x => self.out.push_str(x),
                    }
                }
            }
            Cmd::SetParams(k) => {
                self.out.push_str("set --");
                for i in 0..*k {
                    write!(self.out, " p{i}").unwrap();
                }
            }
            Cmd::Freeze(n) => self.simple(&["typeset".into(), "-fr".into(), n.to_string()]),
            Cmd::ForPos(b) => {
                self.out.push_str(*self.rng.pick(&[
                    "for v ",
                    "for v\n",
                    "for v; ",
                    "for v ;\n",
                    "for v in \"$@\"; ",
                    "for v\nin \"$@\"\n",
                ]));
                self.out.push_str("do"); // not a command position: no alias substitution before the `do` of a for loop
                self.opt_nl();
                self.list_term(b);
                self.kw("done");
            }
            Cmd::ForRo(k) => {
                self.out.push_str("for ro in");
                for i in 0..*k {
                    write!(self.out, " w{i}").unwrap();
                }
                self.out.push_str("; do probe 76; done");
            }
            Cmd::Unknown => self.simple(&["no_such_command_xyz".into()]),
            Cmd::Tick(c, k) if self.real => {
                // the shell-function `tick` takes the bound in unary
                let unary = if *k == 0 { "''".to_string() } else { "x".repeat(*k as usize) };
                self.simple(&["tick".into(), c.to_string(), unary])
            }
            Cmd::Tick(c, k) => self.simple(&["tick".into(), c.to_string(), k.to_string()]),
            Cmd::Group(l) => {
                self.kw("{");
                self.opt_nl();
                self.list_term(l);
                self.kw("}");
            }
            Cmd::Subshell(l) => {
                self.out.push('(');
                if self.rng.chance(1, 2) {
                    self.out.push(' ');
                }
                self.list(l);
                if self.rng.chance(1, 3) {
                    self.out.push('\n');
                }
                self.out.push(')');
            }
            Cmd::AsyncWait(l) => {
                // a brace group keeps `… & wait` one command wherever it stands (pipelines, and-or lists)
                self.out.push_str("{ ");
                if l.len() == 1 && self.rng.chance(1, 2) {
                    // a lone and-or list is asynchronous as it is
                    self.item(&l[0]);
                } else {
                    self.out.push_str("{ ");
                    self.list_term(l);
                    self.out.push('}');
                }
                self.out.push_str(*self.rng.pick(&[" & wait; }", "&wait;}", " &\nwait\n}"]));
            }
            Cmd::If(c, b, elifs, e) => {
                self.kw("if");
                self.opt_nl();
                self.list_term(c);
                self.kw("then");
                self.opt_nl();
                self.list_term(b);
                for (c, b) in elifs {
                    self.kw("elif");
                    self.opt_nl();
                    self.list_term(c);
                    self.kw("then");
                    self.opt_nl();
                    self.list_term(b);
                }
                if let Some(e) = e {
                    self.kw("else");
                    self.opt_nl();
                    self.list_term(e);
                }
                self.kw("fi");
            }
            Cmd::While(until, c, b) => {
                self.kw(if *until { "until" } else { "while" });
                self.opt_nl();
                self.list_term(c);
                self.kw("do");
                self.opt_nl();
                self.list_term(b);
                self.kw("done");
            }
            Cmd::For(n, b) => {
                self.out.push_str(*self.rng.pick(&["for v in", "for v in", "for v\nin", "for v \n\n in"]));
                // words that expand to no field may sit anywhere in the list; the status of a
                // command substitution among them must not become the loop's status or `$?`
                for i in 0..*n {
                    if self.rng.chance(1, 5) {
                        self.empty_word();
                    }
                    write!(self.out, " w{i}").unwrap();
                }
                if self.rng.chance(1, if *n == 0 { 2 } else { 5 }) {
                    self.empty_word();
                }
                if self.rng.chance(1, 2) {
                    self.out.push_str("; ");
                } else {
                    self.out.push('\n');
                }
                self.out.push_str("do");
                self.opt_nl();
                self.list_term(b);
                self.kw("done");
            }
            Cmd::Case(items) => {
                let subject = *self.rng.pick(&["x", "x", "\"x\"", "'x'", "x$(st 3)", "$(st 4)x", "${unset_e}x", "`st 9`\"x\""]);
                write!(self.out, "case {subject} in").unwrap();
                self.opt_nl();
                for (m, k, b) in items {
                    if self.rng.chance(1, 2) {
                        self.out.push('(');
                    }
                    self.out.push_str(match *m {
                        1 => *self.rng.pick(&["x", "y|x", "?", "[x]", "x|${unset_variable_u?}"]),
                        // a failing expansion is reached before any pattern matches
                        2 => *self.rng.pick(&["${unset_variable_u?}", "y|${unset_variable_u?}", "${unset_variable_u?}|x"]),
                        _ => *self.rng.pick(&["y", "xx", "y|z"]),
                    });
                    self.out.push(')');
                    self.opt_nl();
                    self.list(b);
                    self.out.push(' ');
                    self.out.push_str(match k {
                        'b' => ";;",
                        'f' => ";&",
                        _ => ";;&",
                    });
                    self.opt_nl();
                }
                self.out.push_str("esac");
            }
            Cmd::ExpErr => self.simple(&["probe".into(), "${unset_variable_u?}".into()]),
            Cmd::AssignErr => {
                let w: &[&str] = *self.rng.pick(&[
                    &["ro=1"][..],
                    &["ro=1", "st", "0"][..],
                    &["ro=1", ":"][..],
                    &["ro=1", "ok"][..],
                    &["x=1", "ro=2"][..],
                ]);
                let v: Vec<String> = w.iter().map(|s| s.to_string()).collect();
                self.simple(&v)
            }
            Cmd::RedirErr(k) => {
                let target = *self.rng.pick(&["</nonexistent/f", "< /nonexistent/f", "<\"/nonexistent/f\"", "3</nonexistent/f"]);
                match *k {
                    "regular" => self.simple(&["st".into(), "0".into(), target.into()]),
                    "special" => self.simple(&[":".into(), target.into()]),
                    "function" => self.simple(&["errf".into(), target.into()]),
                    "external" => self.simple(&["no_such_command_xyz".into(), target.into()]),
                    "compound" => {
                        self.out.push_str("{ probe 78; } ");
                        self.out.push_str(target);
                    }
                    _ => self.out.push_str(target),
                }
            }
            Cmd::SpecErr(wrapped, st) => {
                let mut w: Vec<String> = vec![];
                if *wrapped {
                    w.push("command".into());
                }
                if *st == 2 {
                    // syntax errors of special built-ins: all status 2
                    let e: &[&str] = *self.rng.pick(&[
                        &["set", "-o", "no_such_option"][..],
                        &["return", "1", "2"][..],
                        &["return", "x"][..],
                        &["exit", "1", "2"][..],
                        &["exit", "x"][..],
                        &["break", "1", "2"][..],
                        &["break", "0"][..],
                        &["continue", "x"][..],
                        &["continue", "0"][..],
                    ]);
                    w.extend(e.iter().map(|s| s.to_string()));
                } else {
                    // status 1: an operand error, or (round-4 seeded change for C10) the standard output
                    // of a printing special built-in fails: closed (EBADF) or fd 8, which `observe`
                    // and `observe_real` set up as the writing end of a pipe nobody reads (EPIPE,
                    // with SIGPIPE not killing the shell)
                    let e: &[&str] = *self.rng.pick(&[
                        &["shift", "99"][..],
                        &["shift", "99"][..],
                        &["set", ">&-"][..],
                        &["set", ">&8"][..],
                        &["readonly", "-p", ">&-"][..],
                        &["readonly", "-p", ">&8"][..],
                        &["readonly", ">&8"][..],
                        &["times", ">&8"][..],
                    ]);
                    w.extend(e.iter().map(|s| s.to_string()));
                }
                self.simple(&w)
            }
            Cmd::Raise(n) => {
                let k = *self.rng.pick(&["$(kill -s USR1 $$)", "`kill -s USR1 $$`", "$(kill -USR1 $$; st 3)"]);
                self.simple(&["st".into(), n.to_string(), k.into()])
            }
            Cmd::RaiseErr => self.simple(&[
                "st".into(),
                "0".into(),
                "$(kill -s USR1 $$)".into(),
                "${unset_variable_u?}".into(),
            ]),
            Cmd::TrapExit(b) | Cmd::TrapSig(b) => {
                // the action is rendered on one line inside single quotes, without surface variation
                let text = b
                    .iter()
                    .map(|it| {
                        let mut inner = Render { rng: Rng::new(1), out: String::new(), real: self.real, arng: Rng::new(1), alias_ok: false, aliases: vec![], kw_plain_next: false };
                        inner.item(it);
                        inner.out.replace("\\\n", "").replace('\n', "; ").replace('\t', " ")
                    })
                    .collect::<Vec<_>>()
                    .join("; ");
                let cond = if matches!(c, Cmd::TrapSig(_)) { "USR1" } else { "EXIT" };
                self.simple(&["trap".into(), format!("'{text}'"), cond.into()])
            }
            Cmd::Def(n, c) => {
                self.out.push_str(n);
                if self.rng.chance(1, 2) {
                    self.out.push(' ');
                }
                self.out.push_str("()");
                self.opt_nl();
                self.kw_plain_next = true;
                self.cmd(c);
                self.kw_plain_next = false;
            }
        }
    }
}

pub fn render(seed: u64, lines: &[Line]) -> String {
    render_with(seed, lines, false)
}

/// The probe built-ins as shell functions, for the real `yash3` binary (which has none of them):
/// `probe M` prints `$?` and M through `typeset -p` and returns the `$?` it found.
pub const REAL_PROLOGUE: &str = "probe() { _s=$?; _m=$1; typeset -gp _s _m; return $_s; }\n\
st() { return $1; }\n\
ok() { return 0; }\n\
tick() { eval \"_v=\\$_t$1\"; case \"$_v\" in (\"$2\"*) return 1;; esac; eval \"_t$1=x\\$_v\"; return 0; }\n\
errf() { probe 77; }\n\
readonly ro=0\n\
trap '' PIPE\n";

pub fn render_with(seed: u64, lines: &[Line], real: bool) -> String {
    let mut r = Render { rng: Rng::new(seed ^ 0x5EED), out: String::new(), real, arng: Rng::new(seed ^ 0xA11A5), alias_ok: true, aliases: vec![], kw_plain_next: false };
    if lines.is_empty() {
        return (*r.rng.pick(&["", "\n", "# nothing\n", "   \n\n", "# a\n# b"])).to_string();
    }
    for l in lines {
        match l {
            Line::Cmds(l) => r.list(l),
            Line::SyntaxError => {
                let bad = *r.rng.pick(&["fi", "done", ")", "}", "probe 1 ;; probe 2", "if then fi", "&& probe 3", "probe 4 | | probe 5"]);
                r.out.push_str(bad);
            }
        }
        r.out.push('\n');
    }
    if !r.aliases.is_empty() {
        // alias definitions take effect from the next command line on: one first line defines them all
        let defs: Vec<String> = r.aliases.iter().map(|(n, v)| format!("{n}='{v}'")).collect();
        return format!("alias {}\n{}", defs.join(" "), r.out);
    }
    r.out
}

// ---------------------------------------------------------------------------------------------
// generator

/// Command names in rank order. A function body only calls names of lower rank, so the call graph is
/// acyclic. The first `CALLABLE` can run a function of that name; `:` (special built-in) and
/// `/bin/xtin` (a slash) can be defined as functions too but such a function is never reached.
/// Without a function: `f*` is not found (127); `ok` is a regular built-in (0); `sbin`/`sbout` are
/// substitutive built-ins of which only `sbin` has a file in `$PATH` (0 / 127); `xtin` is only a file
/// in `$PATH` (the simulated execve fails: 126).
pub const NAMES: [&str; 9] = ["f0", "f1", "f2", "ok", "sbin", "sbout", "xtin", ":", "/bin/xtin"];
pub const CALLABLE: usize = 7;

pub struct Gen {
    /// only functions of rank below this may be called here (keeps the call graph acyclic even
    /// under redefinition: the body of a function of rank r only calls ranks < r)
    pub call_limit: usize,
    /// how many loops enclose the command being generated
    pub loop_depth: u32,
    pub rng: Rng,
    pub marker: u32,
    pub counter: u32,
    pub budget: i32,
    pub max_depth: u32,
    /// plant shell errors (expansion, assignment, redirection, special built-in) — C10
    pub errors: bool,
    /// a trap for USR1 is set by the first line: commands that signal the shell may be generated
    pub sig: bool,
    /// ranks of the function names defined so far in generation order (calls prefer these, so that
    /// function bodies — `return`, `break` through a call, locals — are actually executed)
    pub defined: Vec<usize>,
}
impl Gen {
    fn probe(&mut self) -> Cmd {
        self.marker += 1;
        Cmd::Probe(self.marker)
    }
    fn simple(&mut self, in_pipe: bool) -> Cmd {
        self.budget -= 1;
        let r = self.rng.below(100);
        if in_pipe {
            // members of a multi-command pipeline run concurrently: no probes there
            return match r % 6 {
                0 => Cmd::St(0),
                1 => Cmd::St(1 + (r as u32 % 3)),
                2 => Cmd::Exit(Some(r as u32 % 4)),
                3 => Cmd::Unknown,
                4 => Cmd::Call(":", 0),
                _ => Cmd::St(2),
            };
        }
        if self.sig && self.rng.chance(1, 12) {
            // the trapped signal arrives while this command runs
            return if self.errors && self.rng.chance(1, 4) {
                Cmd::RaiseErr
            } else {
                Cmd::Raise(*self.rng.pick(&[0, 0, 1, 2]))
            };
        }
        if self.errors && self.rng.chance(1, 7) {
            return match self.rng.below(12) {
                0 => Cmd::ExpErr,
                1 => Cmd::AssignErr,
                2 | 3 => Cmd::RedirErr("regular"),
                4 => Cmd::RedirErr("special"),
                5 => Cmd::RedirErr("function"),
                6 => Cmd::RedirErr("external"),
                7 => Cmd::RedirErr("compound"),
                8 => Cmd::RedirErr("absent"),
                9 => Cmd::SpecErr(false, 1 + self.rng.below(2) as u32),
                10 => Cmd::SpecErr(true, 1 + self.rng.below(2) as u32),
                _ => Cmd::Unknown,
            };
        }
        match r {
            0..=29 => self.probe(),
            30..=41 => Cmd::St(0),
            42..=53 => Cmd::St(1 + (r as u32 % 4)),
            54..=60 => Cmd::Brk(1 + (r as u32 % 3)),
            61..=66 => Cmd::Cont(1 + (r as u32 % 3)),
            67..=71 => Cmd::Ret(if r % 2 == 0 { None } else { Some(r as u32 % 7) }),
            72..=74 => Cmd::Exit(if r % 2 == 0 { None } else { Some(r as u32 % 5) }),
            75..=84 => {
                let callable: Vec<usize> =
                    self.defined.iter().copied().filter(|r| *r < self.call_limit.min(CALLABLE)).collect();
                if self.rng.chance(1, 16) {
                    // a name with a slash: always an external utility, whatever is defined
                    Cmd::Call("/bin/xtin", 0)
                } else if self.call_limit == 0 || self.rng.chance(1, 8) {
                    Cmd::Call(":", 0)
                } else if !callable.is_empty() && self.rng.chance(4, 5) {
                    let k = if self.rng.chance(1, 2) { 0 } else { self.rng.below(4) as u32 };
                    Cmd::Call(NAMES[*self.rng.pick(&callable)], k)
                } else {
                    let k = if self.rng.chance(2, 3) { 0 } else { self.rng.below(3) as u32 };
                    Cmd::Call(NAMES[self.rng.below(self.call_limit.min(CALLABLE))], k)
                }
            }
            85 => Cmd::Unknown,
            86 => Cmd::Unknown,
            87 => {
                let o = |g: &mut Gen| if g.rng.chance(1, 2) { Some(g.rng.below(4) as u32) } else { None };
                let w = o(self);
                let r = if self.rng.chance(1, 2) { None } else { o(self) };
                let a = o(self);
                Cmd::Absent(w, r, a)
            }
            88 => Cmd::SetE(self.rng.chance(1, 2)),
            89 => match self.rng.below(4) {
                0 => Cmd::SetE(self.rng.chance(1, 2)),
                1 | 2 => Cmd::SetParams(self.rng.below(4) as u32),
                // not `ok` (a function in the real-binary prologue), `:` or the slash name
                _ => Cmd::Freeze(*self.rng.pick(&["f0", "f1", "f2", "sbin", "sbout", "xtin"])),
            },
            90 => {
                if self.rng.chance(1, 2) {
                    Cmd::SetM(self.rng.chance(2, 3))
                } else {
                    Cmd::SetP(self.rng.chance(2, 3))
                }
            }
            _ => {
                // a command whose status changes from one execution to the next
                self.counter += 1;
                Cmd::Tick(self.counter, self.rng.below(3) as u32)
            }
        }
    }
    fn list(&mut self, depth: u32, max_len: usize) -> List {
        let n = 1 + self.rng.below(max_len);
        let mut l = vec![];
        for _ in 0..n {
            if self.loop_depth > 0 && self.rng.chance(1, 4) {
                // leave or restart the loop on a later iteration only: `tick c k || break n`
                self.counter += 1;
                let t = Cmd::Tick(self.counter, self.rng.below(3) as u32);
                let lvl = 1 + self.rng.below(self.loop_depth as usize + 1) as u32;
                let act = if self.rng.chance(2, 3) { Cmd::Brk(lvl) } else { Cmd::Cont(lvl) };
                let and = self.rng.chance(1, 3);
                l.push(Item(Pipeline(false, vec![t]), vec![(and, Pipeline(false, vec![act]))]));
            }
            l.push(self.item(depth));
            if self.rng.chance(1, 2) {
                l.push(Item(Pipeline(false, vec![self.probe()]), vec![]));
            }
        }
        l
    }
    fn item(&mut self, depth: u32) -> Item {
        let first = self.pipe(depth);
        let mut rest = vec![];
        if self.rng.chance(1, 4) {
            for _ in 0..1 + self.rng.below(3) {
                rest.push((self.rng.chance(1, 2), self.pipe(depth)));
            }
        }
        Item(first, rest)
    }
    fn pipe(&mut self, depth: u32) -> Pipeline {
        let neg = self.rng.chance(1, 8);
        if self.rng.chance(1, 12) {
            let n = 2 + self.rng.below(2);
            let mut v = vec![];
            for _ in 0..n {
                v.push(self.simple(true));
            }
            return Pipeline(neg, v);
        }
        Pipeline(neg, vec![self.cmd(depth)])
    }
    fn cond(&mut self, depth: u32) -> List {
        // conditions are mostly simple so that loops terminate; sometimes a full list
        if self.rng.chance(1, 5) && depth < self.max_depth {
            self.list(depth + 1, 2)
        } else {
            let c = match self.rng.below(6) {
                0 => Cmd::St(0),
                1 => Cmd::St(1),
                2 => self.probe(),
                3 | 4 => {
                    self.counter += 1;
                    Cmd::Tick(self.counter, self.rng.below(3) as u32)
                }
                _ => Cmd::Call(":", 0),
            };
            vec![Item(Pipeline(self.rng.chance(1, 6), vec![c]), vec![])]
        }
    }
    fn loop_cond(&mut self, until: bool) -> List {
        // a loop condition must eventually flip: `tick c k` succeeds k times
        self.counter += 1;
        let k = self.rng.below(4) as u32;
        let tick = Cmd::Tick(self.counter, k);
        let mut l = vec![];
        if self.rng.chance(1, 3) {
            l.push(Item(Pipeline(false, vec![self.probe()]), vec![]));
        }
        // `until` needs a condition that fails k times then succeeds: negate
        l.push(Item(Pipeline(until, vec![tick]), vec![]));
        if self.rng.chance(1, 6) {
            // a break/continue inside the condition list, guarded so that the loop still ends
            self.counter += 1;
            let g = Cmd::Tick(self.counter, 1);
            let act = if self.rng.chance(1, 2) { Cmd::Brk(1) } else { Cmd::Cont(1) };
            l.insert(
                0,
                Item(Pipeline(false, vec![g]), vec![(true, Pipeline(false, vec![act]))]),
            );
        }
        l
    }
    fn cmd(&mut self, depth: u32) -> Cmd {
        if depth >= self.max_depth || self.budget <= 0 || self.rng.chance(11, 20) {
            return self.simple(false);
        }
        self.budget -= 2;
        let d = depth + 1;
        match self.rng.below(12) {
            0 => Cmd::Group(self.list(d, 3)),
            // `wait` would be interrupted by the trapped signal: no asynchronous lists in such scripts
            1 if !self.sig && self.rng.chance(1, 3) => Cmd::AsyncWait(self.list(d, 2)),
            1 => Cmd::Subshell(self.list(d, 3)),
            2 | 3 => {
                let c = self.cond(d);
                let b = self.list(d, 2);
                let mut elifs = vec![];
                for _ in 0..self.rng.below(3).saturating_sub(1) {
                    elifs.push((self.cond(d), self.list(d, 2)));
                }
                let e = if self.rng.chance(1, 2) { Some(self.list(d, 2)) } else { None };
                Cmd::If(c, b, elifs, e)
            }
            4 | 5 => {
                let until = self.rng.chance(1, 3);
                let c = self.loop_cond(until);
                self.loop_depth += 1;
                let b = self.list(d, 3);
                self.loop_depth -= 1;
                Cmd::While(until, c, b)
            }
            6 | 7 => {
                self.loop_depth += 1;
                let b = self.list(d, 3);
                self.loop_depth -= 1;
                match self.rng.below(8) {
                    0 | 1 => Cmd::ForPos(b),
                    2 if self.errors => Cmd::ForRo(self.rng.below(3) as u32),
                    _ => Cmd::For(self.rng.below(4) as u32, b),
                }
            }
            8 | 9 => {
                let mut items = vec![];
                for _ in 0..self.rng.below(4) {
                    let body = if self.rng.chance(1, 5) { vec![] } else { self.list(d, 2) };
                    let m = if self.rng.chance(1, 8) { 2 } else { self.rng.below(2) as u8 };
                    items.push((m, *self.rng.pick(&['b', 'b', 'f', 'c']), body));
                }
                Cmd::Case(items)
            }
            _ => {
                let names = NAMES;
                let rank = self.rng.below(NAMES.len());
                let saved = self.call_limit;
                self.call_limit = saved.min(rank);
                let body = match self.rng.below(3) {
                    0 => Cmd::Subshell(self.list(d, 3)),
                    _ => Cmd::Group(self.list(d, 3)),
                };
                self.call_limit = saved;
                if rank < CALLABLE && !self.defined.contains(&rank) {
                    self.defined.push(rank);
                }
                Cmd::Def(names[rank], Box::new(body))
            }
        }
    }
    pub fn script(&mut self) -> Vec<Line> {
        if self.rng.chance(1, 60) {
            // nothing to execute at all (rendered as an empty or comment-only script): status 0
            return vec![];
        }
        let nlines = 1 + self.rng.below(4);
        let mut lines = vec![];
        if self.rng.chance(1, 5) {
            // job control in a script: pipelines then run in one more subshell
            lines.push(Line::Cmds(vec![Item(Pipeline(false, vec![Cmd::SetM(true)]), vec![])]));
        }
        if self.rng.chance(1, 4) {
            // the exit status of a pipeline is that of the last command that failed
            lines.push(Line::Cmds(vec![Item(Pipeline(false, vec![Cmd::SetP(true)]), vec![])]));
        }
        self.sig = self.rng.chance(1, 4);
        if self.sig {
            // a signal trap set before anything else; its action may end in a divert
            let mut body = vec![Item(Pipeline(false, vec![Cmd::Probe(98)]), vec![])];
            if self.rng.chance(2, 3) {
                let tail = match self.rng.below(9) {
                    0 | 1 => Cmd::Ret(Some(0)),
                    2 => Cmd::Ret(None),
                    3 => Cmd::Ret(Some(3)),
                    4 => Cmd::Exit(Some(4)),
                    5 => Cmd::St(2),
                    6 => Cmd::Brk(1),
                    7 => Cmd::Cont(1),
                    _ => Cmd::Exit(None),
                };
                body.push(Item(Pipeline(false, vec![tail]), vec![]));
            }
            lines.push(Line::Cmds(vec![Item(Pipeline(false, vec![Cmd::TrapSig(body)]), vec![])]));
        }
        if self.errors {
            // EXIT trap and errexit are set up front in most scripts
            let mut first = vec![];
            if self.rng.chance(2, 3) {
                let mut body = vec![Item(Pipeline(false, vec![Cmd::Probe(99)]), vec![])];
                if self.rng.chance(1, 4) {
                    // the action itself ends with a failing command, an error or an exit
                    let tail = match self.rng.below(6) {
                        0 => Cmd::ExpErr,
                        1 => Cmd::AssignErr,
                        2 => Cmd::St(1 + self.rng.below(4) as u32),
                        3 => Cmd::Exit(Some(self.rng.below(7) as u32)),
                        4 => Cmd::SpecErr(false, 1 + self.rng.below(2) as u32),
                        _ => Cmd::Exit(None),
                    };
                    body.push(Item(Pipeline(false, vec![tail]), vec![]));
                }
                first.push(Item(Pipeline(false, vec![Cmd::TrapExit(body)]), vec![]));
            }
            if self.rng.chance(1, 2) {
                first.push(Item(Pipeline(false, vec![Cmd::SetE(true)]), vec![]));
            }
            if !first.is_empty() {
                lines.push(Line::Cmds(first));
            }
        }
        if self.rng.chance(1, 2) {
            // define one or two functions up front so that later calls reach a body
            let mut defs = vec![];
            for _ in 0..1 + self.rng.below(2) {
                let names = NAMES;
                let rank = self.rng.below(CALLABLE);
                let saved = self.call_limit;
                self.call_limit = saved.min(rank);
                let mut body = self.list(1, 3);
                if self.rng.chance(1, 2) {
                    let r = Cmd::Ret(if self.rng.chance(1, 4) { None } else { Some(self.rng.below(7) as u32) });
                    let at = self.rng.below(body.len() + 1);
                    body.insert(at, Item(Pipeline(false, vec![r]), vec![]));
                }
                self.call_limit = saved;
                if !self.defined.contains(&rank) {
                    self.defined.push(rank);
                }
                defs.push(Item(Pipeline(false, vec![Cmd::Def(names[rank], Box::new(Cmd::Group(body)))]), vec![]));
            }
            lines.push(Line::Cmds(defs));
        }
        for _ in 0..nlines {
            lines.push(Line::Cmds(self.list(0, 3)));
            if self.errors && self.rng.chance(1, 12) {
                lines.push(Line::SyntaxError);
            }
        }
        // final probe so that `$?` at the end is observed when the script gets there
        let p = self.probe();
        lines.push(Line::Cmds(vec![Item(Pipeline(false, vec![p]), vec![])]));
        lines
    }
}

// ---------------------------------------------------------------------------------------------
// running

/// `tick c k`: succeeds while the shell variable `_t<c>` is below k (and increments it).
fn tick_main(env: &mut VEnv, args: Vec<Field>) -> BuiltinFuture<'_> {
    let c = args.first().map(|f| f.value.clone()).unwrap_or_default();
    let k: u32 = args.get(1).and_then(|f| f.value.parse().ok()).unwrap_or(0);
    let name = format!("_t{c}");
    let v: u32 = env
        .variables
        .get(&name)
        .and_then(|v| match &v.value {
            Some(yash_env::variable::Value::Scalar(s)) => Some(s.clone()),
            _ => None,
        })
        .and_then(|s| s.parse().ok())
        .unwrap_or(0);
    let st = if v < k {
        let mut var = env.variables.get_or_new(&name, Scope::Global);
        let _ = var.assign((v + 1).to_string(), None);
        0
    } else {
        1
    };
    Box::pin(async move { ExitStatus(st).into() })
}

fn ok_main(_env: &mut VEnv, _args: Vec<Field>) -> BuiltinFuture<'_> {
    Box::pin(async move { ExitStatus(0).into() })
}

pub fn observe(seed: u64, lines: &[Line]) -> String {
    observe_impl(seed, lines, false)
}

/// [`observe`] plus the state the shell is left in (C02): ` end=e<errexit>m<monitor>p<pipefail>#<number of
/// positional parameters>;fn=<function names, `!` = read-only>;t=<tick counters>;stk=<frames left on the
/// stack>` read from the real `Env` after the EXIT trap.
pub fn observe_full(seed: u64, lines: &[Line]) -> String {
    observe_impl(seed, lines, true)
}

fn end_state(env: &mut VEnv) -> String {
    use yash_env::option::{Option as ShellOption, State};
    use yash_env::stack::Frame;
    let on = |o: ShellOption| (env.options.get(o) == State::On) as u8;
    let mut fns: Vec<String> = env
        .functions
        .iter()
        .filter(|f| f.name != "errf")
        .map(|f| format!("{}{}", f.name, if f.is_read_only() { "!" } else { "" }))
        .collect();
    fns.sort();
    let mut ticks: Vec<(u32, String)> = vec![];
    for (name, var) in env.variables.iter(Scope::Global) {
        if let Some(c) = name.strip_prefix("_t").and_then(|c| c.parse::<u32>().ok()) {
            if let Some(yash_env::variable::Value::Scalar(v)) = &var.value {
                ticks.push((c, v.clone()));
            }
        }
    }
    ticks.sort();
    let ticks: Vec<String> = ticks.iter().map(|(c, v)| format!("{c}:{v}")).collect();
    let stk: String = env
        .stack
        .iter()
        .map(|f| match f {
            Frame::Loop => 'L',
            Frame::Subshell => 'S',
            Frame::Condition => 'C',
            Frame::Builtin(_) => 'B',
            Frame::DotScript => 'D',
            Frame::Trap(_) => 'T',
            Frame::InitFile => 'I',
            _ => '?',
        })
        .collect();
    format!(
        "e{}m{}p{}#{};fn={};t={};stk={}",
        on(ShellOption::ErrExit),
        on(ShellOption::Monitor),
        on(ShellOption::PipeFail),
        env.variables.positional_params().values.len(),
        fns.join(","),
        ticks.join(","),
        stk
    )
}

fn observe_impl(seed: u64, lines: &[Line], full: bool) -> String {
    // unmodelled prologue: a function used by `(rederr function)`; it is never run
    let src = format!("errf() {{ probe 77; }}\n{}", render(seed, lines));
    let mut cfg = Config::new(&src);
    cfg.max_rounds = 50_000;
    let (o, end) = run_with(
        cfg,
        |env, state| {
            env.builtins.insert("tick", Builtin::new(Type::Mandatory, tick_main));
            // `ok`: a regular built-in returning 0 (a function of that name must win over it)
            env.builtins.insert("ok", Builtin::new(Type::Mandatory, ok_main));
            // the command search beyond functions: substitutive built-ins and `$PATH`
            env.builtins.insert("sbin", Builtin::new(Type::Substitutive, ok_main));
            env.builtins.insert("sbout", Builtin::new(Type::Substitutive, ok_main));
            for path in ["/bin/sbin", "/bin/xtin"] {
                let mut inode = Inode::new(Vec::new());
                inode.body = FileBody::Regular { content: vec![], is_native_executable: true };
                inode.permissions.set(Mode::USER_EXEC, true);
                state.borrow_mut().file_system.save(path, Rc::new(RefCell::new(inode))).unwrap();
            }
            // something to read for redirections that must succeed
            crate::shell::write_file(state, "/dev/null", b"");
            let mut path = env.variables.get_or_new("PATH", Scope::Global);
            let _ = path.assign("/nonexistent:/bin", None);
            // fd 8: the writing end of a pipe that nobody reads (the simulator never sends SIGPIPE)
            {
                use yash_env::system::{Close as _, Dup as _, Pipe as _};
                let (reader, writer) = env.system.pipe().unwrap();
                if writer != yash_env::io::Fd(8) {
                    env.system.dup2(writer, yash_env::io::Fd(8)).unwrap();
                    env.system.close(writer).unwrap();
                }
                env.system.close(reader).unwrap();
            }
            // a read-only variable for `(asgerr)`
            let mut ro = env.variables.get_or_new("ro", Scope::Global);
            let _ = ro.assign("0", None);
            ro.make_read_only(yash_syntax::source::Location::dummy("ro"));
        },
        |env, _| end_state(env),
    );
    if o.stuck {
        return "TIMEOUT".into();
    }
    let mut trace = vec![];
    for line in o.stdout_str().lines() {
        // probe line: `<$?>:<hex marker>`
        let Some((st, hex)) = line.split_once(':') else {
            return format!("GARBLED({line})");
        };
        let m = dec_str(hex).unwrap_or_default();
        trace.push(format!("{m}:{st}"));
    }
    if full {
        return format!("trace={} status={} end={}", trace.join(","), o.exit_status, end.unwrap_or_else(|| "?".into()));
    }
    format!("trace={} status={}", trace.join(","), o.exit_status)
}

/// Where the real binary is built: next to the harness's own build output.
fn yash3_build() -> Option<String> {
    let repo = std::env::var("VERIF_REPO").unwrap_or_else(|_| "/repo".into());
    let target = match std::env::var("CARGO_TARGET_DIR") {
        Ok(t) => format!("{t}/yash-cli"),
        Err(_) => "/verif/harness/target/yash-cli".to_string(),
    };
    let out = std::process::Command::new("cargo")
        .args(["build", "--offline", "-p", "yash-cli", "--manifest-path"])
        .arg(format!("{repo}/Cargo.toml"))
        .arg("--target-dir")
        .arg(&target)
        .env_remove("CARGO_TARGET_DIR")
        .output()
        .ok()?;
    if !out.status.success() {
        eprintln!("{}", String::from_utf8_lossy(&out.stderr));
        return None;
    }
    Some(format!("{target}/debug/yash3"))
}

thread_local! {
    static YASH3: std::cell::RefCell<Option<Option<String>>> = const { std::cell::RefCell::new(None) };
}

/// Path of the real `yash3` binary built from the repository under test (built once per process).
pub fn yash3() -> Option<String> {
    YASH3.with(|c| {
        let mut c = c.borrow_mut();
        if c.is_none() {
            *c = Some(yash3_build());
        }
        c.clone().unwrap()
    })
}

/// Runs the program with the REAL shell binary (`yash3 -c …`, i.e. through `yash_cli::main`) in a
/// scratch directory; same observation format as [`observe`].
pub fn observe_real(seed: u64, lines: &[Line]) -> String {
    use std::io::Read as _;
    let Some(bin) = yash3() else { return "NO-BINARY".into() };
    let src = format!("{}{}", REAL_PROLOGUE, render_with(seed, lines, true));
    let dir = std::env::temp_dir().join(format!("yverif-c10-{}", std::process::id()));
    let _ = std::fs::create_dir_all(&dir);
    let mut cmd = std::process::Command::new(bin);
    cmd.arg("-c").arg(&src).current_dir(&dir).env_clear().env("PATH", "/nonexistent");
    cmd.stdin(std::process::Stdio::null())
        .stdout(std::process::Stdio::piped())
        .stderr(std::process::Stdio::null());
    // The real shell must not depend on what the check's parent did to its process state: a background
    // job of a non-interactive shell inherits SIGINT/SIGQUIT ignored (a shell cannot trap those again).
    {
        use std::os::unix::process::CommandExt as _;
        // SAFETY: only async-signal-safe calls between fork and exec
        unsafe {
            cmd.pre_exec(|| {
                for sig in [libc::SIGINT, libc::SIGQUIT, libc::SIGTERM, libc::SIGHUP, libc::SIGPIPE,
                    libc::SIGUSR1, libc::SIGUSR2, libc::SIGTSTP, libc::SIGTTIN, libc::SIGTTOU, libc::SIGCHLD]
                {
                    libc::signal(sig, libc::SIG_DFL);
                }
                let mut empty: libc::sigset_t = std::mem::zeroed();
                libc::sigemptyset(&mut empty);
                libc::sigprocmask(libc::SIG_SETMASK, &empty, std::ptr::null_mut());
                libc::umask(0o022);
                // fd 8: the writing end of a pipe that nobody reads (the prologue ignores SIGPIPE: yash-cli
                // resets an inherited disposition of SIGPIPE to the default at start-up)
                let mut fds = [0 as libc::c_int; 2];
                if libc::pipe(fds.as_mut_ptr()) == 0 {
                    if fds[1] != 8 {
                        libc::dup2(fds[1], 8);
                        libc::close(fds[1]);
                    }
                    if fds[0] != 8 {
                        libc::close(fds[0]);
                    }
                }
                Ok(())
            });
        }
    }
    let Ok(mut child) = cmd.spawn() else { return "SPAWN-FAILED".into() };
    let mut stdout = child.stdout.take().unwrap();
    let reader = std::thread::spawn(move || {
        let mut buf = String::new();
        let _ = stdout.read_to_string(&mut buf);
        buf
    });
    let start = std::time::Instant::now();
    let status = loop {
        match child.try_wait() {
            Ok(Some(st)) => break st,
            Ok(None) if start.elapsed().as_secs() > 20 => {
                let _ = child.kill();
                let _ = child.wait();
                return "TIMEOUT".into();
            }
            Ok(None) => std::thread::sleep(std::time::Duration::from_millis(1)),
            Err(_) => return "WAIT-FAILED".into(),
        }
    };
    let out = reader.join().unwrap_or_default();
    let _ = std::fs::remove_dir_all(&dir);
    // lines come in pairs: `typeset _s=<status>` / `typeset _m=<marker>`
    let mut trace = vec![];
    let mut st = String::new();
    for line in out.lines() {
        if let Some(v) = line.strip_prefix("typeset _s=") {
            st = v.to_string();
        } else if let Some(v) = line.strip_prefix("typeset _m=") {
            trace.push(format!("{v}:{st}"));
        } else {
            return format!("GARBLED({line})");
        }
    }
    use std::os::unix::process::ExitStatusExt as _;
    let code = status.code().unwrap_or_else(|| 128 + status.signal().unwrap_or(0));
    format!("trace={} status={}", trace.join(","), code)
}

pub fn run_case(case: &str) -> String {
    match parse_case(case) {
        Some((seed, lines)) => {
            // generated programs terminate (bounded loops); one that runs for a minute does not
            watch_case(case, 60);
            guarded(|| observe(seed, &lines))
        }
        None => "bad-case".into(),
    }
}

/// [`run_case`] with the richer observation of [`observe_full`] (c02)
pub fn run_case_full(case: &str) -> String {
    match parse_case(case) {
        Some((seed, lines)) => {
            watch_case(case, 60);
            guarded(|| observe_full(seed, &lines))
        }
        None => "bad-case".into(),
    }
}


// ---------------------------------------------------------------------------------------------
// command-search family (C02): `search …` case lines
//
// Case: `search <posix><portable> <u|s|a>:<dirs> <exec files> <built-ins> <functions> <name>` where every string is
// hex (`proto::enc_str`, empty = `-`), lists are comma-separated and an empty list is `.`; a built-in is
// `<name>:<s|m|e|x|u>` (special, mandatory, elective, extension, substitutive).
// Observation: `cl=<classify> se=<search> sp=<search_path> run=<what the shell ran>:<exit status>`:
// the three public functions of yash-env/src/semantics/command/search.rs called on the real `Env`, and
// the simple command `'<name>' arg` executed by the whole shell in the same environment (built-ins
// print `B<type>`, functions print `F`, the simulated `execve` fails with ENOSYS → 126).
// Model: lean/YashModel/Exec/Search.lean; Spec: Exec/SearchSpec.lean (POSIX XCU 2.9.1.4).

pub mod search_family {
    use super::*;
    use crate::proto::enc_str;
    use yash_env::io::Fd;
    use yash_env::option::{Option as ShellOption, State};
    use yash_env::semantics::command::search::{self, Availability, Target, Unusable};
    use yash_env::system::concurrency::WriteAll as _;
    use yash_env::variable::Value;

    // no name that can resolve to a directory (`.`, the empty word): `VirtualSystem::is_executable_file`
    // accepts directories, which `RealSystem::is_executable_file` does not (notes/C02.md)
    const NAMES: [&str; 8] = ["na", "nb", ":", "eval", "source", "x/y", "/bin/na", "/opt/nb"];
    const DIRS: [&str; 7] = ["/bin", "/usr/bin", "/opt", "/bin/", "", "rel", "/nonexistent"];
    /// where files may exist (absolute; the working directory is `/`)
    const FILE_DIRS: [&str; 5] = ["/bin", "/usr/bin", "/opt", "", "/rel"];
    const FILE_NAMES: [&str; 6] = ["na", "nb", ":", "eval", "source", "x/y"];
    const TYPES: [(char, Type); 5] = [
        ('s', Type::Special),
        ('m', Type::Mandatory),
        ('e', Type::Elective),
        ('x', Type::Extension),
        ('u', Type::Substitutive),
    ];

    fn mark<'a>(env: &'a mut VEnv, text: &'static str) -> BuiltinFuture<'a> {
        Box::pin(async move {
            let _ = env.system.write_all(Fd::STDOUT, text.as_bytes()).await;
            ExitStatus(0).into()
        })
    }
    fn b_s(env: &mut VEnv, _a: Vec<Field>) -> BuiltinFuture<'_> { mark(env, "Bs\n") }
    fn b_m(env: &mut VEnv, _a: Vec<Field>) -> BuiltinFuture<'_> { mark(env, "Bm\n") }
    fn b_e(env: &mut VEnv, _a: Vec<Field>) -> BuiltinFuture<'_> { mark(env, "Be\n") }
    fn b_x(env: &mut VEnv, _a: Vec<Field>) -> BuiltinFuture<'_> { mark(env, "Bx\n") }
    fn b_u(env: &mut VEnv, _a: Vec<Field>) -> BuiltinFuture<'_> { mark(env, "Bu\n") }
    fn fmark(env: &mut VEnv, _a: Vec<Field>) -> BuiltinFuture<'_> { mark(env, "F\n") }
    /// `optset <posixlycorrect 0|1><portable 0|1>`: switches the two options (a mandatory built-in is
    /// available in every mode)
    fn optset(env: &mut VEnv, a: Vec<Field>) -> BuiltinFuture<'_> {
        let v = a.first().map(|f| f.value.clone()).unwrap_or_default();
        let on = |c: Option<char>| if c == Some('1') { State::On } else { State::Off };
        env.options.set(ShellOption::PosixlyCorrect, on(v.chars().next()));
        env.options.set(ShellOption::Portable, on(v.chars().nth(1)));
        Box::pin(async move { ExitStatus(0).into() })
    }

    fn enc_list(v: &[String]) -> String {
        if v.is_empty() { ".".into() } else { v.iter().map(|s| enc_str(s)).collect::<Vec<_>>().join(",") }
    }
    fn dec_list(t: &str) -> Option<Vec<String>> {
        if t == "." { return Some(vec![]); }
        t.split(',').map(dec_str).collect()
    }

    pub fn generate(rng: &mut Rng) -> String {
        let posix = rng.chance(1, 4) as u8;
        let portable = rng.chance(1, 4) as u8;
        let kind = *rng.pick(&['s', 's', 's', 'a', 'u']);
        let mut dirs: Vec<String> = vec![];
        if kind != 'u' {
            for _ in 0..rng.below(5) {
                dirs.push((*rng.pick(&DIRS)).to_string());
            }
        }
        let mut execs: Vec<String> = vec![];
        for d in FILE_DIRS {
            for n in FILE_NAMES {
                if rng.chance(1, 5) {
                    execs.push(format!("{d}/{n}"));
                }
            }
        }
        let name = (*rng.pick(&NAMES)).to_string();
        // the searched name is an executable file somewhere in about half of the cases
        if rng.chance(1, 2) {
            let p = if name.starts_with('/') {
                name.clone()
            } else {
                format!("{}/{}", rng.pick(&FILE_DIRS), name)
            };
            if !execs.contains(&p) {
                execs.push(p);
            }
        }
        // the searched name is a built-in / a function more often than the others
        let mut builtins: Vec<String> = vec![];
        let mut functions: Vec<String> = vec![];
        for n in NAMES {
            let p = if n == name { 2 } else { 5 };
            if rng.chance(1, p) {
                let ty = if rng.chance(1, 4) { 'u' } else { rng.pick(&TYPES).0 };
                builtins.push(format!("{}:{ty}", enc_str(n)));
            }
            if !n.is_empty() && rng.chance(1, p + 1) {
                functions.push(n.to_string());
            }
        }
        let bl = if builtins.is_empty() { ".".to_string() } else { builtins.join(",") };
        format!(
            "search {posix}{portable} {kind}:{} {} {} {} {}",
            enc_list(&dirs), enc_list(&execs), bl, enc_list(&functions), enc_str(&name)
        )
    }

    fn show_path(p: &std::ffi::CStr) -> String {
        enc_str(&p.to_string_lossy())
    }

    pub fn run(case: &str) -> String {
        let t: Vec<&str> = case.split(' ').collect();
        if t.len() != 7 || t[0] != "search" {
            return "bad-case".into();
        }
        let opts = t[1].to_string();
        let Some((kind, dl)) = t[2].split_once(':') else { return "bad-case".into() };
        let kind = kind.to_string();
        let (Some(dirs), Some(execs), Some(functions), Some(name)) =
            (dec_list(dl), dec_list(t[3]), dec_list(t[5]), dec_str(t[6]))
        else {
            return "bad-case".into();
        };
        let mut builtins: Vec<(String, Type)> = vec![];
        if t[4] != "." {
            for b in t[4].split(',') {
                let Some((n, ty)) = b.split_once(':') else { return "bad-case".into() };
                let (Some(n), Some(ty)) = (dec_str(n), TYPES.iter().find(|x| x.0.to_string() == ty)) else {
                    return "bad-case".into();
                };
                builtins.push((n, ty.1));
            }
        }
        let mut src = String::new();
        for f in &functions {
            writeln!(src, "{f}() {{ fmark; }}").unwrap();
        }
        writeln!(src, "optset {opts}").unwrap();
        writeln!(src, "'{name}' arg").unwrap();
        let mut cfg = Config::new(&src);
        cfg.max_rounds = 20_000;
        let name2 = name.clone();
        let (o, found) = run_with(
            cfg,
            move |env, state| {
                env.builtins.insert("fmark", Builtin::new(Type::Mandatory, fmark));
                env.builtins.insert("optset", Builtin::new(Type::Mandatory, optset));
                // the names of the pool are what this case says and nothing else
                for n in NAMES {
                    env.builtins.remove(n);
                }
                for (n, ty) in &builtins {
                    let f = match ty {
                        Type::Special => b_s,
                        Type::Mandatory => b_m,
                        Type::Elective => b_e,
                        Type::Extension => b_x,
                        _ => b_u,
                    };
                    // the table is keyed by `&'static str`
                    let key: &'static str = NAMES.iter().find(|k| **k == n.as_str()).copied().unwrap_or("");
                    env.builtins.insert(key, Builtin::new(*ty, f));
                }
                for p in &execs {
                    let mut inode = Inode::new(Vec::new());
                    inode.body = FileBody::Regular { content: vec![], is_native_executable: true };
                    inode.permissions.set(Mode::USER_EXEC, true);
                    state.borrow_mut().file_system.save(p.as_str(), Rc::new(RefCell::new(inode))).unwrap();
                }
                // a plain file in every directory: found by name, not executable
                for d in FILE_DIRS {
                    crate::shell::write_file(state, &format!("{d}/plain"), b"");
                }
                match kind.as_str() {
                    "u" => {
                        let _ = env.variables.unset("PATH", Scope::Global);
                    }
                    "a" => {
                        let mut path = env.variables.get_or_new("PATH", Scope::Global);
                        let _ = path.assign(Value::array(dirs.clone()), None);
                    }
                    _ => {
                        let mut path = env.variables.get_or_new("PATH", Scope::Global);
                        let _ = path.assign(dirs.join(":"), None);
                    }
                }
            },
            move |env, _| {
                let cl = match search::classify(env, &name2) {
                    Target::Builtin { builtin, availability, .. } => format!(
                        "B{}{}",
                        TYPES.iter().find(|x| x.1 == builtin.r#type).map_or('?', |x| x.0),
                        match availability {
                            Availability::Available => 'A',
                            Availability::NotPortable => 'N',
                            #[allow(unreachable_patterns)]
                            _ => '?',
                        }
                    ),
                    Target::Function(_) => "F".into(),
                    Target::External { .. } => "X".into(),
                };
                let se = match search::search(env, &name2) {
                    Ok(Target::Builtin { builtin, path, .. }) => format!(
                        "B{}:{}",
                        TYPES.iter().find(|x| x.1 == builtin.r#type).map_or('?', |x| x.0),
                        show_path(&path)
                    ),
                    Ok(Target::Function(_)) => "F".into(),
                    Ok(Target::External { path }) => format!("X:{}", show_path(&path)),
                    Err(e) => {
                        let st = e.exit_status().0;
                        match e {
                            search::Error::NotFound => format!("Enotfound:{st}"),
                            search::Error::Unusable(Unusable::NotInPath) => format!("Enotinpath:{st}"),
                            search::Error::Unusable(Unusable::NotPortable) => format!("Enotportable:{st}"),
                            #[allow(unreachable_patterns)]
                            _ => format!("E?:{st}"),
                        }
                    }
                };
                let sp = match search::search_path(env, &name2) {
                    Some(p) => show_path(&p),
                    None => "none".into(),
                };
                format!("cl={cl} se={se} sp={sp}")
            },
        );
        if o.stuck {
            return "TIMEOUT".into();
        }
        let ran: Vec<String> = o.stdout_str().lines().map(|l| l.to_string()).collect();
        let ran = if ran.is_empty() { "-".to_string() } else { ran.join("+") };
        format!("{} run={}:{}", found.unwrap_or_else(|| "cl=? se=? sp=?".into()), ran, o.exit_status)
    }

    /// Independent of the Lean model: the simple command executed by the shell (which calls `classify`,
    /// `resolve_builtin` and `search_path` at three different places) does what the one-call `search`
    /// reports — same kind of target, and on failure the status of `Error::exit_status`.
    pub fn oracle(obs: &str) -> String {
        let get = |k: &str| obs.split(' ').find_map(|f| f.strip_prefix(k)).unwrap_or("");
        let (se, run) = (get("se="), get("run="));
        let Some((what, st)) = run.rsplit_once(':') else { return "FAIL:garbled".into() };
        let ok = if let Some(e) = se.strip_prefix('E') {
            what == "-" && e.rsplit_once(':').map(|x| x.1) == Some(st)
        } else if se == "F" {
            what == "F" && st == "0"
        } else if let Some(b) = se.strip_prefix('B') {
            what == format!("B{}", &b[..1]) && st == "0"
        } else {
            // an external utility: nothing of ours runs; the simulated execve fails (126), or the file
            // of a name with a slash does not exist (127)
            se.starts_with("X:") && what == "-" && (st == "126" || st == "127")
        };
        if ok { "ok".into() } else { "FAIL:shell-run-differs-from-search()".into() }
    }
}
